/-! Spike: the sorting table encoder, defined structurally (encode entries in input order,
sort the encoded entries by key, concatenate) and its permutation invariance (C12). -/
namespace Spike4
abbrev Bytes := List UInt8
abbrev Key := List Nat          -- code points

inductive V where
  | i8 (n : UInt8) | arr (l : List V) | tbl (l : List (Key × V))

/-- Python's `<` / `<=` on str: lexicographic on code points -/
def keyLe : Key → Key → Bool
  | [], _ => true
  | _ :: _, [] => false
  | a :: as, b :: bs => if a < b then true else if b < a then false else keyLe as bs

def entryLe (a b : Key × Bytes) : Bool := keyLe a.1 b.1

def encKey (k : Key) : Bytes := UInt8.ofNat k.length :: k.map UInt8.ofNat   -- stand-in for UTF-8

mutual
def encV : V → Bytes
  | .i8 n => [98, n]
  | .arr l => 65 :: encL l
  | .tbl l => 70 :: (List.mergeSort (encE l) entryLe).flatMap (fun e => encKey e.1 ++ e.2)
def encL : List V → Bytes
  | [] => []
  | v :: vs => encV v ++ encL vs
/-- entries encoded in input order: (key, encoded value) -/
def encE : List (Key × V) → List (Key × Bytes)
  | [] => []
  | (k, v) :: es => (k, encV v) :: encE es
end

theorem keyLe_refl (a : Key) : keyLe a a = true := by
  induction a with
  | nil => rfl
  | cons x xs ih => simp [keyLe, ih]

theorem keyLe_total (a b : Key) : (keyLe a b || keyLe b a) = true := by
  induction a generalizing b with
  | nil => simp [keyLe]
  | cons x xs ih =>
    cases b with
    | nil => simp [keyLe]
    | cons y ys =>
      simp only [keyLe]
      by_cases h1 : x < y
      · simp [h1]
      · by_cases h2 : y < x
        · simp [h2]
        · simp [h1, h2, ih ys]

theorem keyLe_trans (a b c : Key) : keyLe a b = true → keyLe b c = true → keyLe a c = true := by
  induction a generalizing b c with
  | nil => intros; simp [keyLe]
  | cons x xs ih =>
    cases b with
    | nil => simp [keyLe]
    | cons y ys =>
      cases c with
      | nil => simp [keyLe]
      | cons z zs =>
        simp only [keyLe]
        intro h1 h2
        by_cases hxy : x < y
        · by_cases hyz : y < z
          · have : x < z := by omega
            simp [this]
          · by_cases hzy : z < y
            · simp [hyz, hzy] at h2
            · have : y = z := by omega
              subst this; simp [hxy]
        · by_cases hyx : y < x
          · simp [hxy, hyx] at h1
          · have : x = y := by omega
            subst this
            simp only [hxy, if_false] at h1
            by_cases hyz : x < z
            · simp [hyz]
            · by_cases hzy : z < x
              · simp [hyz, hzy] at h2
              · simp only [hyz, hzy, if_false] at h2 ⊢
                exact ih ys zs h1 h2

theorem keyLe_antisymm (a b : Key) : keyLe a b = true → keyLe b a = true → a = b := by
  induction a generalizing b with
  | nil => cases b <;> simp [keyLe]
  | cons x xs ih =>
    cases b with
    | nil => simp [keyLe]
    | cons y ys =>
      simp only [keyLe]
      intro h1 h2
      by_cases hxy : x < y
      · have : ¬ y < x := by omega
        simp [hxy, this] at h2
      · by_cases hyx : y < x
        · simp [hxy, hyx] at h1
        · have : x = y := by omega
          subst this
          simp only [hxy, if_false] at h1 h2
          rw [ih ys h1 h2]

/-- keys pairwise distinct -/
def KeysNodup (l : List (Key × Bytes)) : Prop := (l.map (·.1)).Nodup

theorem eq_of_key_eq (l : List (Key × Bytes)) (hn : KeysNodup l) (a b : Key × Bytes)
    (ha : a ∈ l) (hb : b ∈ l) (hk : a.1 = b.1) : a = b := by
  induction l with
  | nil => cases ha
  | cons x xs ih =>
    simp only [KeysNodup, List.map_cons, List.nodup_cons] at hn
    rcases List.mem_cons.mp ha with rfl | ha'
    · rcases List.mem_cons.mp hb with rfl | hb'
      · rfl
      · exact absurd (List.mem_map.mpr ⟨b, hb', hk.symm⟩) hn.1
    · rcases List.mem_cons.mp hb with rfl | hb'
      · exact absurd (List.mem_map.mpr ⟨a, ha', hk⟩) hn.1
      · exact ih hn.2 ha' hb'

/-- sorting is insensitive to the order of a duplicate-free entry list -/
theorem sort_perm_eq (l₁ l₂ : List (Key × Bytes)) (hp : l₁.Perm l₂) (hn : KeysNodup l₁) :
    List.mergeSort l₁ entryLe = List.mergeSort l₂ entryLe := by
  have htrans : ∀ a b c : Key × Bytes, entryLe a b = true → entryLe b c = true → entryLe a c = true :=
    fun a b c => keyLe_trans a.1 b.1 c.1
  have htotal : ∀ a b : Key × Bytes, (entryLe a b || entryLe b a) = true :=
    fun a b => keyLe_total a.1 b.1
  have s1 := List.pairwise_mergeSort htrans htotal l₁
  have s2 := List.pairwise_mergeSort htrans htotal l₂
  have p12 : (List.mergeSort l₁ entryLe).Perm (List.mergeSort l₂ entryLe) :=
    (List.mergeSort_perm l₁ entryLe).trans (hp.trans (List.mergeSort_perm l₂ entryLe).symm)
  apply List.Perm.eq_of_pairwise (le := fun a b => entryLe a b = true) _ s1 s2 p12
  intro a b ha hb hab hba
  have hk : a.1 = b.1 := keyLe_antisymm a.1 b.1 hab hba
  have ha1 : a ∈ l₁ := (List.mergeSort_perm l₁ entryLe).mem_iff.mp ha
  have hb1 : b ∈ l₁ := hp.mem_iff.mpr ((List.mergeSort_perm l₂ entryLe).mem_iff.mp hb)
  exact eq_of_key_eq l₁ hn a b ha1 hb1 hk

-- deep permutation: dict entries may be reordered at every level; arrays keep their order
mutual
inductive DPerm : V → V → Prop
  | i8 (n) : DPerm (.i8 n) (.i8 n)
  | arr {l₁ l₂} : DPermL l₁ l₂ → DPerm (.arr l₁) (.arr l₂)
  | tbl {l₁ l₂ l₂'} : DPermE l₁ l₂ → l₂.Perm l₂' → DPerm (.tbl l₁) (.tbl l₂')
inductive DPermL : List V → List V → Prop
  | nil : DPermL [] []
  | cons {v w vs ws} : DPerm v w → DPermL vs ws → DPermL (v :: vs) (w :: ws)
inductive DPermE : List (Key × V) → List (Key × V) → Prop
  | nil : DPermE [] []
  | cons {k v w es fs} : DPerm v w → DPermE es fs → DPermE ((k, v) :: es) ((k, w) :: fs)
end

theorem encE_keys (l : List (Key × V)) : (encE l).map (·.1) = l.map (·.1) := by
  induction l with
  | nil => simp [encE]
  | cons e es ih => obtain ⟨k, v⟩ := e; simp [encE, ih]

theorem encE_perm {l₁ l₂ : List (Key × V)} (h : l₁.Perm l₂) : (encE l₁).Perm (encE l₂) := by
  induction h with
  | nil => simp [encE]
  | cons x _ ih => obtain ⟨k, v⟩ := x; simpa [encE] using ih
  | swap x y l => obtain ⟨k, v⟩ := x; obtain ⟨k', v'⟩ := y; simpa [encE] using List.Perm.swap _ _ _
  | trans _ _ ih1 ih2 => exact ih1.trans ih2

-- keys distinct at every level
mutual
def KD : V → Prop
  | .i8 _ => True
  | .arr l => KDL l
  | .tbl l => (l.map (·.1)).Nodup ∧ KDE l
def KDL : List V → Prop
  | [] => True
  | v :: vs => KD v ∧ KDL vs
def KDE : List (Key × V) → Prop
  | [] => True
  | (_, v) :: es => KD v ∧ KDE es
end

mutual
theorem encV_dperm {v w : V} (h : DPerm v w) (hk : KD v) : encV v = encV w := by
  match v, w, h, hk with
  | _, _, .i8 n, _ => rfl
  | _, _, .arr hl, hk => simp only [encV]; rw [encL_dperm hl hk]
  | .tbl l₁, .tbl l₂', .tbl (l₂ := l₂) he hp, hk =>
    have ⟨hn, hke⟩ : (l₁.map (·.1)).Nodup ∧ KDE l₁ := hk
    simp only [encV]
    have h1 : encE l₁ = encE l₂ := encE_dperm he hke
    have h2 : (encE l₂).Perm (encE l₂') := encE_perm hp
    have hn' : KeysNodup (encE l₂) := by
      rw [← h1]; simpa [KeysNodup, encE_keys] using hn
    rw [h1, sort_perm_eq _ _ h2 hn']
theorem encL_dperm {l₁ l₂ : List V} (h : DPermL l₁ l₂) (hk : KDL l₁) : encL l₁ = encL l₂ := by
  match l₁, l₂, h, hk with
  | _, _, .nil, _ => rfl
  | _, _, .cons hv hvs, hk =>
    have ⟨k1, k2⟩ := hk
    simp only [encL]; rw [encV_dperm hv k1, encL_dperm hvs k2]
theorem encE_dperm {l₁ l₂ : List (Key × V)} (h : DPermE l₁ l₂) (hk : KDE l₁) : encE l₁ = encE l₂ := by
  match l₁, l₂, h, hk with
  | _, _, .nil, _ => rfl
  | _, _, .cons hv hes, hk =>
    have ⟨k1, k2⟩ := hk
    simp only [encE]; rw [encV_dperm hv k1, encE_dperm hes k2]
end

#print axioms encV_dperm
end Spike4
