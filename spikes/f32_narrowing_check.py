import struct, random, math
def narrow(bits64):
    s=bits64>>63; e=(bits64>>52)&0x7ff; f=bits64&((1<<52)-1)
    if e==0x7ff:
        if f==0: return (s<<31)|0x7f800000
        return (s<<31)|0x7f800000|0x400000|(f>>29)      # NaN: quiet, keep top payload
    if e==0 and f==0: return s<<31
    m = f if e==0 else (1<<52)|f
    E = max(e,1)-1075                 # value = m * 2^E
    # target: value = q * 2^(e32-150) with q<2^24 for normal (e32>=1), subnormal e32=1 scale 2^-149
    # normal candidate exponent
    e32 = e-896
    if e32>=1: shift=29
    else: shift=29+(1-e32)
    if shift>60: q=0; r=1 if m else 0; half=2
    else:
        q=m>>shift; r=m&((1<<shift)-1); half=1<<(shift-1)
    if shift<=60:
        if r>half or (r==half and (q&1)): q+=1
    base=max(e32,1)-1
    res=(base<<23)+q
    if res>=0x7f800000: return None
    return (s<<31)|res
def widen(b):
    s=b>>31; e=(b>>23)&0xff; f=b&0x7fffff
    if e==0xff:
        if f==0: return (s<<63)|(0x7ff<<52)
        return (s<<63)|(0x7ff<<52)|(1<<51)|(f<<29)
    if e==0:
        if f==0: return s<<63
        k=f.bit_length()-1
        return (s<<63)|((1023-149+k)<<52)|((f<<(52-k))&((1<<52)-1))
    return (s<<63)|((e+896)<<52)|(f<<29)
random.seed(5)
cases=[]
for _ in range(300000):
    k=random.randrange(6)
    if k==0: b=random.getrandbits(64)
    elif k==1: b=(random.getrandbits(1)<<63)|(random.randrange(896-30,896+260)<<52)|random.getrandbits(52)
    elif k==2: b=(random.getrandbits(1)<<63)|(random.randrange(896-30,896+260)<<52)|(random.getrandbits(23)<<29)|random.choice([0,1<<28,(1<<28)+1,(1<<28)-1,(1<<29)-1])
    elif k==3: b=struct.unpack('>Q',struct.pack('>d',struct.unpack('>f',struct.pack('>I',random.getrandbits(32)))[0]))[0]
    elif k==4: b=(random.getrandbits(1)<<63)|(random.randrange(896-30,897)<<52)|(random.getrandbits(52) & ~((1<<random.randrange(0,52))-1))
    else: b=(0x7ff<<52)|random.getrandbits(52)|(random.getrandbits(1)<<63)
    cases.append(b)
cases += [0x47efffffe0000000,0x47efffffefffffff,0x47effffff0000000,0x47f0000000000000,0x36a0000000000000,0x369fffffffffffff,0x36a0000000000001,0x3690000000000000,1,0,1<<63]
bad=0
for b in cases:
    x=struct.unpack('>d',struct.pack('>Q',b))[0]
    try: exp=struct.unpack('>I',struct.pack('>f',x))[0]
    except OverflowError: exp=None
    got=narrow(b)
    if x!=x:
        # NaN: compare modulo platform payload behaviour
        if got is None or (got&0x7f800000)!=0x7f800000 or (got&0x7fffff)==0: bad+=1; print('nan',hex(b),got)
        if exp!=got and bad<5: print('nan payload differs', hex(b), hex(exp), hex(got)); bad+=1
        continue
    if exp!=got:
        bad+=1
        if bad<10: print('MISMATCH',hex(b),x,exp if exp is None else hex(exp),got if got is None else hex(got))
    if got is not None:
        w=widen(got); wx=struct.unpack('>Q',struct.pack('>d',struct.unpack('>f',struct.pack('>I',got))[0]))[0]
        if w!=wx:
            bad+=1
            if bad<10: print('WIDEN',hex(got),hex(w),hex(wx))
print('cases',len(cases),'bad',bad)
