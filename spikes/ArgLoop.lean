import BE
namespace Spike2
open Spike

inductive Ty | bit | octet | sstr deriving DecidableEq, Repr
inductive Val | b (x : Bool) | o (n : Nat) | s (bs : Bytes) deriving DecidableEq, Repr
inductive Err | struct | type deriving DecidableEq, Repr

def encOctet (n : Nat) : Except Err Bytes := if n < 256 then .ok [UInt8.ofNat n] else .error .struct

def encByType : Ty → Val → Except Err Bytes
  | .octet, .o n => encOctet n
  | .sstr, .s bs => if bs.length < 256 then .ok (UInt8.ofNat bs.length :: bs) else .error .struct
  | _, _ => .error .type

/-- `Frame.marshal` loop. State = (byte, offset, processing_bitset); returns the bytes appended
from this point on (Python appends to `output` and joins at the end). -/
def marshalLoop (byte offset : Nat) (proc : Bool) : List (Ty × Val) → Except Err Bytes
  | [] => if proc then encOctet byte else .ok []
  | (ty, v) :: rest =>
    -- if not processing_bitset and data_type == 'bit': byte, offset, processing_bitset = 0, 0, True
    let byte := if !proc && ty == .bit then 0 else byte
    let offset := if !proc && ty == .bit then 0 else offset
    let proc := if !proc && ty == .bit then true else proc
    if proc then
      if ty != .bit then do
        let o ← encOctet byte
        let e ← encByType ty v
        let t ← marshalLoop byte offset false rest
        return o ++ e ++ t
      else
        match v with
        | .b x =>
          let byte := byte ||| ((if x then 1 else 0) <<< offset)
          let offset := offset + 1
          if offset == 8 then do
            let o ← encOctet byte
            let t ← marshalLoop byte offset false rest
            return o ++ t
          else marshalLoop byte offset true rest
        | _ => .error .type
    else do
      let e ← encByType ty v
      let t ← marshalLoop byte offset false rest
      return e ++ t

def marshalArgs (args : List (Ty × Val)) : Except Err Bytes := marshalLoop 0 0 false args

def decByType (data : Bytes) (ty : Ty) (offset : Nat) : Except Err (Nat × Val) :=
  match ty with
  | .bit => match data with
    | [] => .error .struct
    | b :: _ => .ok (0, .b (b.toNat &&& (1 <<< offset) != 0))
  | .octet => match data with
    | [] => .error .struct
    | b :: _ => .ok (1, .o b.toNat)
  | .sstr => match data with
    | [] => .error .struct
    | l :: r => .ok (l.toNat + 1, .s (r.take l.toNat))

/-- `Frame.unmarshal` loop -/
def unmarshalLoop (offset : Nat) (proc : Bool) (data : Bytes) : List Ty → Except Err (List Val)
  | [] => .ok []
  | ty :: rest =>
    -- if offset == 7 and processing_bitset: data = data[1:]; offset = 0
    let data1 := if offset == 7 && proc then data.drop 1 else data
    let offset1 := if offset == 7 && proc then 0 else offset
    -- if processing_bitset and data_type != 'bit': offset = 0; processing_bitset = False; data = data[1:]
    let data2 := if proc && ty != .bit then data1.drop 1 else data1
    let offset2 := if proc && ty != .bit then 0 else offset1
    let proc2 := if proc && ty != .bit then false else proc
    do
      let (consumed, value) ← decByType data2 ty offset2
      if ty == .bit then
        let vs ← unmarshalLoop (offset2 + 1) true data2 rest
        return value :: vs
      else
        let vs ← unmarshalLoop offset2 proc2 (data2.drop consumed) rest
        return value :: vs

/-- longest run of consecutive bits, counting `k` already open -/
def bitRunOK : Nat → List Ty → Bool
  | _, [] => true
  | k, .bit :: rest => k + 1 ≤ 6 && bitRunOK (k + 1) rest
  | _, _ :: rest => bitRunOK 0 rest

def wfVal : Ty → Val → Prop
  | .bit, .b _ => True
  | .octet, .o n => n < 256
  | .sstr, .s bs => bs.length < 256
  | _, _ => False

theorem and_shift_ne_zero (B p : Nat) : (B &&& (1 <<< p) != 0) = B.testBit p := by
  rw [Nat.one_shiftLeft]
  have : B &&& 2 ^ p = if B.testBit p then 2 ^ p else 0 := by
    apply Nat.eq_of_testBit_eq
    intro i
    by_cases h : B.testBit p <;> by_cases hi : p = i <;> simp_all [Nat.testBit_two_pow]
  rw [this]
  by_cases h : B.testBit p <;> simp [h, Nat.pos_iff_ne_zero.mp (Nat.two_pow_pos p)]

/-- bits already written are kept: the head of the tail agrees with `byte` below `offset` -/
theorem head_keeps_bits (args : List (Ty × Val)) (byte offset : Nat) (tail : Bytes)
    (hb : byte < 2 ^ offset) (ho : offset ≤ 7)
    (h : marshalLoop byte offset true args = .ok tail) :
    ∃ B t, tail = B :: t ∧ ∀ p, p < offset → B.toNat.testBit p = byte.testBit p := by
  induction args generalizing byte offset tail with
  | nil =>
    simp only [marshalLoop, encOctet] at h
    have : byte < 256 := by
      have : 2 ^ offset ≤ 2 ^ 7 := Nat.pow_le_pow_right (by omega) ho
      omega
    simp [this] at h
    refine ⟨UInt8.ofNat byte, [], h.symm ▸ rfl, ?_⟩
    intro p _
    simp [UInt8.toNat_ofNat', Nat.mod_eq_of_lt this]
  | cons a rest ih =>
    obtain ⟨ty, v⟩ := a
    have h256 : byte < 128 := by
      have : 2 ^ offset ≤ 2 ^ 7 := Nat.pow_le_pow_right (by omega) ho
      omega
    by_cases hty : ty = .bit
    · subst hty
      cases v with
      | b x =>
        simp only [marshalLoop, Bool.not_true, Bool.false_and, if_false, if_true, bne_self_eq_false,
          Bool.false_eq_true] at h
        have hb' : byte ||| ((if x then 1 else 0) <<< offset) < 2 ^ (offset + 1) := by
          apply Nat.or_lt_two_pow
          · exact Nat.lt_of_lt_of_le hb (Nat.pow_le_pow_right (by omega) (by omega))
          · cases x
            · simp [Nat.two_pow_pos]
            · simp only [if_true, Nat.one_shiftLeft]
              exact Nat.pow_lt_pow_right (by omega) (by omega)
        have hbits : ∀ p, p < offset →
            (byte ||| ((if x then 1 else 0) <<< offset)).testBit p = byte.testBit p := by
          intro p hp
          rw [Nat.testBit_or, Nat.testBit_shiftLeft]
          have : decide (p ≥ offset) = false := by simp; omega
          simp [this]
        by_cases h8 : offset + 1 = 8
        · simp only [h8, beq_self_eq_true, if_true] at h
          have : byte ||| ((if x then 1 else 0) <<< offset) < 256 := by
            have : offset = 7 := by omega
            subst this; simpa using hb'
          simp only [encOctet, this, if_true] at h
          cases hm : marshalLoop (byte ||| ((if x then 1 else 0) <<< offset)) 8 false rest with
          | error e => simp [hm, bind, Except.bind] at h
          | ok t =>
            simp only [hm, bind, Except.bind, pure, Except.pure, Except.ok.injEq,
              List.singleton_append, List.cons_append, List.nil_append] at h
            refine ⟨_, t, h.symm, ?_⟩
            intro p hp
            simp only [UInt8.toNat_ofNat', Nat.reducePow, Nat.mod_eq_of_lt this]
            exact hbits p hp
        · have hne : (offset + 1 == 8) = false := by
            simp only [beq_eq_false_iff_ne, ne_eq]; exact h8
          simp only [hne, Bool.false_eq_true, if_false] at h
          obtain ⟨B, t, ht, hB⟩ := ih _ _ _ hb' (by omega) h
          refine ⟨B, t, ht, ?_⟩
          intro p hp
          rw [hB p (by omega), hbits p hp]
      | o n => simp [marshalLoop] at h
      | s bs => simp [marshalLoop] at h
    · have hne : (ty != .bit) = true := by simp [hty]
      have hne' : (ty == .bit) = false := by simp [hty]
      simp only [marshalLoop, Bool.not_true, Bool.false_and, if_false, if_true, hne, hne',
        Bool.false_eq_true, encOctet, show byte < 256 by omega] at h
      cases he : encByType ty v with
      | error e => simp [he, bind, Except.bind] at h
      | ok e =>
        cases hm : marshalLoop byte offset false rest with
        | error e' => simp [he, hm, bind, Except.bind] at h
        | ok t =>
          simp [he, hm, bind, Except.bind, pure, Except.pure] at h
          refine ⟨_, e ++ t, h.symm, ?_⟩
          intro p _
          simp [UInt8.toNat_ofNat', Nat.mod_eq_of_lt (show byte < 256 by omega)]

theorem encByType_dec (ty : Ty) (v : Val) (e : Bytes) (hty : ty ≠ .bit) (hw : wfVal ty v)
    (he : encByType ty v = .ok e) (rest : Bytes) (off : Nat) :
    ∃ c, decByType (e ++ rest) ty off = .ok (c, v) ∧ (e ++ rest).drop c = rest := by
  cases ty with
  | bit => exact absurd rfl hty
  | octet =>
    cases v with
    | o n =>
      have hn : n < 256 := hw
      simp only [encByType, encOctet, hn, if_true, Except.ok.injEq] at he
      subst he
      refine ⟨1, ?_, by simp⟩
      simp [decByType, UInt8.toNat_ofNat', Nat.mod_eq_of_lt hn]
    | b x => exact absurd hw (by simp [wfVal])
    | s bs => exact absurd hw (by simp [wfVal])
  | sstr =>
    cases v with
    | s bs =>
      have hn : bs.length < 256 := hw
      simp only [encByType, hn, if_true, Except.ok.injEq] at he
      subst he
      refine ⟨bs.length + 1, ?_, by simp⟩
      simp [decByType, UInt8.toNat_ofNat', Nat.mod_eq_of_lt hn]
    | b x => exact absurd hw (by simp [wfVal])
    | o n => exact absurd hw (by simp [wfVal])

/-- The round trip of the argument loops, for any argument list whose bit runs are short. -/
theorem rt (args : List (Ty × Val)) :
    ∀ (byte offset : Nat) (proc : Bool) (tail rest : Bytes),
      (∀ a ∈ args, wfVal a.1 a.2) →
      marshalLoop byte offset proc args = .ok tail →
      (proc = true → byte < 2 ^ offset ∧ offset ≤ 6) →
      bitRunOK (if proc then offset else 0) (args.map (·.1)) = true →
      unmarshalLoop (if proc then offset else 0) proc (tail ++ rest) (args.map (·.1))
        = .ok (args.map (·.2)) := by
  induction args with
  | nil => intro byte offset proc tail rest _ _ _ _; simp [unmarshalLoop]
  | cons a args ih =>
    obtain ⟨ty, v⟩ := a
    intro byte offset proc tail rest hwf hm hinv hrun
    have hw : wfVal ty v := hwf (ty, v) (by simp)
    have hwf' : ∀ a ∈ args, wfVal a.1 a.2 := fun a ha => hwf a (by simp [ha])
    by_cases hty : ty = .bit
    · -- a bit argument
      subst hty
      cases v with
      | o n => exact absurd hw (by simp [wfVal])
      | s bs => exact absurd hw (by simp [wfVal])
      | b x =>
        -- normalise to the state after the optional run start
        obtain ⟨byte0, off0, hb0, ho0, hm0, hrun0, hoff⟩ :
            ∃ byte0 off0, byte0 < 2 ^ off0 ∧ off0 ≤ 5 ∧
              marshalLoop (byte0 ||| ((if x then 1 else 0) <<< off0)) (off0 + 1) true args = .ok tail ∧
              bitRunOK (off0 + 1) (args.map (·.1)) = true ∧
              (if proc then offset else 0) = off0 := by
          cases proc with
          | true =>
            obtain ⟨hb, ho⟩ := hinv rfl
            simp only [if_true, List.map_cons, bitRunOK, Bool.and_eq_true, decide_eq_true_eq] at hrun
            refine ⟨byte, offset, hb, by omega, ?_, hrun.2, by simp⟩
            have hne : (offset + 1 == 8) = false := by
              simp only [beq_eq_false_iff_ne, ne_eq]; omega
            simpa [marshalLoop, hne] using hm
          | false =>
            simp only [Bool.false_eq_true, if_false, List.map_cons, bitRunOK, Bool.and_eq_true,
              decide_eq_true_eq] at hrun
            refine ⟨0, 0, by simp, by omega, ?_, hrun.2, by simp⟩
            simpa [marshalLoop] using hm
        have hb1 : byte0 ||| ((if x then 1 else 0) <<< off0) < 2 ^ (off0 + 1) := by
          apply Nat.or_lt_two_pow
          · exact Nat.lt_of_lt_of_le hb0 (Nat.pow_le_pow_right (by omega) (by omega))
          · cases x
            · simp [Nat.two_pow_pos]
            · simp only [if_true, Nat.one_shiftLeft]
              exact Nat.pow_lt_pow_right (by omega) (by omega)
        obtain ⟨B, t, ht, hB⟩ := head_keeps_bits args _ _ tail hb1 (by omega) hm0
        have hbit : B.toNat.testBit off0 = x := by
          rw [hB off0 (by omega), Nat.testBit_or, Nat.testBit_shiftLeft,
            Nat.testBit_lt_two_pow hb0]
          cases x <;> simp
        have ih' := ih _ (off0 + 1) true tail rest hwf' hm0 (fun _ => ⟨hb1, by omega⟩)
          (by simpa using hrun0)
        simp only [if_true] at ih'
        rw [hoff]
        have h7 : (off0 == 7) = false := by simp only [beq_eq_false_iff_ne, ne_eq]; omega
        simp only [List.map_cons, unmarshalLoop, h7, Bool.false_and, Bool.false_eq_true, if_false,
          bne_self_eq_false, Bool.and_false, beq_self_eq_true, if_true]
        subst ht
        simp only [List.cons_append, decByType, and_shift_ne_zero, hbit, bind, Except.bind] at ih' ⊢
        simp [ih', pure, Except.pure]
    · -- a non-bit argument
      have hne : (ty != .bit) = true := by simp [hty]
      have hne' : (ty == .bit) = false := by simp [hty]
      have hrun' : bitRunOK 0 (args.map (·.1)) = true := by
        cases ty <;> simp_all [bitRunOK]
      cases proc with
      | true =>
        obtain ⟨hb, ho⟩ := hinv rfl
        have h256 : byte < 256 := by
          have : 2 ^ offset ≤ 2 ^ 6 := Nat.pow_le_pow_right (by omega) ho
          omega
        simp only [marshalLoop, Bool.not_true, Bool.false_and, Bool.false_eq_true, if_false, if_true,
          hne, encOctet, h256] at hm
        cases he : encByType ty v with
        | error e => simp [he, bind, Except.bind] at hm
        | ok e =>
          cases hml : marshalLoop byte offset false args with
          | error e' => simp [he, hml, bind, Except.bind] at hm
          | ok t =>
            simp only [he, hml, bind, Except.bind, pure, Except.pure, Except.ok.injEq,
              List.singleton_append, List.cons_append, List.nil_append, List.append_assoc] at hm
            subst hm
            obtain ⟨c, hdec, hdrop⟩ := encByType_dec ty v e hty hw he (t ++ rest) 0
            have ih' := ih byte offset false t rest hwf' hml (by simp) (by simpa using hrun')
            simp only [Bool.false_eq_true, if_false] at ih'
            have h7 : (offset == 7) = false := by simp only [beq_eq_false_iff_ne, ne_eq]; omega
            simp only [List.map_cons, unmarshalLoop, if_true, h7, Bool.false_and, Bool.false_eq_true,
              if_false, hne, hne', Bool.true_and, List.cons_append, List.drop_succ_cons, List.drop_zero,
              List.append_assoc, hdec, hdrop, ih', bind, Except.bind, pure, Except.pure]
      | false =>
        simp only [marshalLoop, Bool.not_false, Bool.true_and, hne', Bool.false_eq_true, if_false] at hm
        cases he : encByType ty v with
        | error e => simp [he, bind, Except.bind] at hm
        | ok e =>
          cases hml : marshalLoop byte offset false args with
          | error e' => simp [he, hml, bind, Except.bind] at hm
          | ok t =>
            simp only [he, hml, bind, Except.bind, pure, Except.pure, Except.ok.injEq] at hm
            subst hm
            obtain ⟨c, hdec, hdrop⟩ := encByType_dec ty v e hty hw he (t ++ rest) 0
            have ih' := ih byte offset false t rest hwf' hml (by simp) (by simpa using hrun')
            simp only [Bool.false_eq_true, if_false] at ih'
            simp only [List.map_cons, unmarshalLoop, Bool.false_eq_true, if_false, Bool.and_false,
              Bool.false_and, hne', List.append_assoc, hdec, hdrop, ih', bind, Except.bind, pure,
              Except.pure]

theorem marshal_unmarshal (args : List (Ty × Val)) (bs rest : Bytes)
    (hwf : ∀ a ∈ args, wfVal a.1 a.2) (hrun : bitRunOK 0 (args.map (·.1)) = true)
    (h : marshalArgs args = .ok bs) :
    unmarshalLoop 0 false (bs ++ rest) (args.map (·.1)) = .ok (args.map (·.2)) := by
  have := rt args 0 0 false bs rest hwf h (by simp) (by simpa using hrun)
  simpa using this

#print axioms marshal_unmarshal
end Spike2
