import BE
/-! Spike: offset-faithful model of decode.embedded_value / field_array / field_table (post-repair)
on an explicit step budget, and the theorem that a linear budget always suffices (C08). -/
namespace Spike3
open Spike

inductive V where
  | none | i8 (n : UInt8) | str (s : Bytes) | arr (l : List V) | tbl (l : List (Bytes × V))
  deriving Repr

inductive Err | struct | value | unicode deriving DecidableEq, Repr

inductive R (α : Type) where
  | ok (a : α) | err (e : Err) | oob
  deriving Repr

def u32 (bs : Bytes) : Option Nat := if bs.length < 4 then none else some (unbe (bs.take 4))

/-- dict insertion: replace in place, else append (Python dict order semantics) -/
def dictSet (d : List (Bytes × V)) (k : Bytes) (v : V) : List (Bytes × V) :=
  if d.any (·.1 == k) then d.map (fun e => if e.1 == k then (k, v) else e) else d ++ [(k, v)]

mutual
/-- decode.embedded_value -/
def embedded : Nat → Bytes → R (Nat × V)
  | 0, _ => .oob
  | _+1, [] => .ok (0, .none)                      -- `if not value: return 0, None`
  | f+1, t :: r =>
    if t = 98 then                                 -- b'b'
      match r with
      | [] => .err .struct
      | x :: _ => .ok (2, .i8 x)
    else if t = 83 then                            -- b'S'  (permissive slice)
      match u32 r with
      | none => .err .struct
      | some len => .ok (len + 4 + 1, .str ((r.drop 4).take len))
    else if t = 65 then                            -- b'A'
      match fieldArray f r with
      | .ok (c, v) => .ok (c + 1, v)
      | .err e => .err e
      | .oob => .oob
    else if t = 70 then                            -- b'F'
      match fieldTable f r with
      | .ok (c, v) => .ok (c + 1, v)
      | .err e => .err e
      | .oob => .oob
    else if t = 86 then .ok (1, .none)             -- b'V'
    else .err .value                               -- KeyError -> ValueError
/-- decode.field_array -/
def fieldArray : Nat → Bytes → R (Nat × V)
  | 0, _ => .oob
  | f+1, value =>
    match u32 value with
    | none => .err .struct
    | some len => arrLoop f value (4 + len) 4 []
/-- `while offset < field_array_end` -/
def arrLoop : Nat → Bytes → Nat → Nat → List V → R (Nat × V)
  | 0, _, _, _, _ => .oob
  | f+1, value, fin, offset, acc =>
    if offset < fin then
      match embedded f (value.drop offset) with
      | .ok (c, v) =>
        if c = 0 then .err .value                  -- the repair of D2
        else arrLoop f value fin (offset + c) (acc ++ [v])
      | .err e => .err e
      | .oob => .oob
    else .ok (offset, .arr acc)
/-- decode.field_table -/
def fieldTable : Nat → Bytes → R (Nat × V)
  | 0, _ => .oob
  | f+1, value =>
    match u32 value with
    | none => .err .struct
    | some len => tblLoop f value (4 + len) 4 []
/-- `while offset < field_table_end` -/
def tblLoop : Nat → Bytes → Nat → Nat → List (Bytes × V) → R (Nat × V)
  | 0, _, _, _, _ => .oob
  | f+1, value, fin, offset, acc =>
    if offset < fin then
      match value.drop offset with
      | [] => .err .struct                         -- unpack_from(value, offset) past the end
      | kl :: _ =>
        let key := (value.drop (offset + 1)).take kl.toNat
        let offset' := offset + 1 + kl.toNat
        match embedded f (value.drop offset') with
        | .ok (c, v) => tblLoop f value fin (offset' + c) (dictSet acc key v)
        | .err e => .err e
        | .oob => .oob
    else .ok (fin, .tbl acc)
end

/-- top level: the budget the model supplies -/
def decodeValue (bs : Bytes) : R (Nat × V) := embedded (2 * bs.length + 4) bs

def R.isOob {α} : R α → Bool | .oob => true | _ => false

theorem embedded_nil (f c : Nat) (v : V) (h : embedded f [] = .ok (c, v)) : c = 0 := by
  cases f with
  | zero => simp [embedded] at h
  | succ f => simp only [embedded, R.ok.injEq, Prod.mk.injEq] at h; omega

/-- C08 core: a budget linear in the input length is never exhausted, for EVERY byte string. -/
theorem budget_suffices (f : Nat) :
    (∀ bs, 2 * bs.length + 1 ≤ f → (embedded f bs).isOob = false) ∧
    (∀ value, 2 * value.length + 1 ≤ f → (fieldArray f value).isOob = false) ∧
    (∀ value fin offset acc, 2 * (value.length - offset) + 2 ≤ f →
        (arrLoop f value fin offset acc).isOob = false) ∧
    (∀ value, 2 * value.length + 1 ≤ f → (fieldTable f value).isOob = false) ∧
    (∀ value fin offset acc, 2 * (value.length - offset) + 2 ≤ f →
        (tblLoop f value fin offset acc).isOob = false) := by
  induction f with
  | zero => refine ⟨?_, ?_, ?_, ?_, ?_⟩ <;> intros <;> omega
  | succ f ih =>
    obtain ⟨ihE, ihA, ihAL, ihT, ihTL⟩ := ih
    refine ⟨?_, ?_, ?_, ?_, ?_⟩
    · intro bs hf
      cases bs with
      | nil => simp [embedded, R.isOob]
      | cons t r =>
        simp only [List.length_cons] at hf
        simp only [embedded]
        split
        · cases r <;> simp [R.isOob]
        · split
          · cases u32 r <;> simp [R.isOob]
          · split
            · have := ihA r (by omega)
              cases h : fieldArray f r <;> simp_all [R.isOob]
            · split
              · have := ihT r (by omega)
                cases h : fieldTable f r <;> simp_all [R.isOob]
              · split <;> simp [R.isOob]
    · intro value hf
      simp only [fieldArray]
      cases h : u32 value with
      | none => simp [R.isOob]
      | some len =>
        have : 4 ≤ value.length := by
          unfold u32 at h
          split at h
          · simp at h
          · omega
        exact ihAL value (4 + len) 4 [] (by omega)
    · intro value fin offset acc hf
      simp only [arrLoop]
      split
      · have hE := ihE (value.drop offset) (by simp only [List.length_drop]; omega)
        cases h : embedded f (value.drop offset) with
        | oob => simp [h, R.isOob] at hE
        | err e => simp [R.isOob]
        | ok p =>
          obtain ⟨c, v⟩ := p
          simp only
          split
          · simp [R.isOob]
          · rename_i hc
            have hlen : offset < value.length := by
              apply Classical.byContradiction
              intro hge
              have : value.drop offset = [] := List.drop_eq_nil_of_le (by omega)
              rw [this] at h
              exact hc (embedded_nil f c v h)
            exact ihAL value fin (offset + c) _ (by omega)
      · simp [R.isOob]
    · intro value hf
      simp only [fieldTable]
      cases h : u32 value with
      | none => simp [R.isOob]
      | some len =>
        have : 4 ≤ value.length := by
          unfold u32 at h
          split at h
          · simp at h
          · omega
        exact ihTL value (4 + len) 4 [] (by omega)
    · intro value fin offset acc hf
      simp only [tblLoop]
      split
      · split
        · simp [R.isOob]
        · rename_i kl rest hd
          have hlen : offset < value.length := by
            have : (value.drop offset).length = (kl :: rest).length := by rw [hd]
            simp only [List.length_drop, List.length_cons] at this; omega
          have hE := ihE (value.drop (offset + 1 + kl.toNat)) (by simp only [List.length_drop]; omega)
          cases h : embedded f (value.drop (offset + 1 + kl.toNat)) with
          | oob => simp [h, R.isOob] at hE
          | err e => simp [R.isOob]
          | ok p =>
            obtain ⟨c, v⟩ := p
            simp only
            exact ihTL value fin _ _ (by omega)
      · simp [R.isOob]

theorem C08_never_out_of_budget (bs : Bytes) : (decodeValue bs).isOob = false :=
  (budget_suffices _).1 bs (by omega)

#print axioms C08_never_out_of_budget
#eval decodeValue [65, 0,0,0,10, 98, 1]      -- D2 input: array length exceeds data: now an error
#eval decodeValue [70, 0,0,0,9, 1, 107, 65, 0,0,0,2, 98, 7, 86]
end Spike3
