import BE
namespace Spike

inductive V where
  | i8 (n : UInt8)
  | str (s : Bytes)
  | arr (l : List V)
  | tbl (l : List (Bytes × V))
  deriving Repr

mutual
def encV : V → Bytes
  | .i8 n => [98, n]
  | .str s => 83 :: (beN 4 s.length ++ s)
  | .arr l => 65 :: (beN 4 (encL l).length ++ encL l)
  | .tbl l => 70 :: (beN 4 (encT l).length ++ encT l)
def encL : List V → Bytes
  | [] => []
  | v :: vs => encV v ++ encL vs
def encT : List (Bytes × V) → Bytes
  | [] => []
  | (k, v) :: es => (UInt8.ofNat k.length :: k) ++ (encV v ++ encT es)
end

mutual
def wfV : V → Prop
  | .i8 _ => True
  | .str s => s.length < 256 ^ 4
  | .arr l => wfL l ∧ (encL l).length < 256 ^ 4
  | .tbl l => wfT l ∧ (encT l).length < 256 ^ 4
def wfL : List V → Prop
  | [] => True
  | v :: vs => wfV v ∧ wfL vs
def wfT : List (Bytes × V) → Prop
  | [] => True
  | (k, v) :: es => k.length < 256 ∧ wfV v ∧ wfT es
end

def take4 (bs : Bytes) : Option (Nat × Bytes) :=
  if bs.length < 4 then none else some (unbe (bs.take 4), bs.drop 4)

theorem take4_beN (n : Nat) (h : n < 256 ^ 4) (r : Bytes) : take4 (beN 4 n ++ r) = some (n, r) := by
  have h1 : (beN 4 n ++ r).take 4 = beN 4 n := take_beN_append 4 n r
  have h2 : (beN 4 n ++ r).drop 4 = r := drop_beN_append 4 n r
  simp [take4, h1, h2, unbe_beN_of_lt 4 n h]

mutual
def decV : Nat → Bytes → Option (V × Bytes)
  | 0, _ => none
  | fuel+1, bs =>
    match bs with
    | [] => none
    | t :: r =>
      if t = 98 then
        match r with
        | n :: r => some (.i8 n, r)
        | [] => none
      else if t = 83 then
        match take4 r with
        | none => none
        | some (len, r') => if r'.length < len then none else some (.str (r'.take len), r'.drop len)
      else if t = 65 then
        match take4 r with
        | none => none
        | some (len, r') =>
          if r'.length < len then none else
          match decL fuel (r'.take len) with
          | none => none
          | some l => some (.arr l, r'.drop len)
      else if t = 70 then
        match take4 r with
        | none => none
        | some (len, r') =>
          if r'.length < len then none else
          match decT fuel (r'.take len) with
          | none => none
          | some l => some (.tbl l, r'.drop len)
      else none
def decL : Nat → Bytes → Option (List V)
  | 0, _ => none
  | _+1, [] => some []
  | fuel+1, b :: bs =>
    match decV fuel (b :: bs) with
    | none => none
    | some (v, r) => match decL fuel r with
      | none => none
      | some vs => some (v :: vs)
def decT : Nat → Bytes → Option (List (Bytes × V))
  | 0, _ => none
  | _+1, [] => some []
  | fuel+1, kl :: bs =>
    if bs.length < kl.toNat then none else
    match decV fuel (bs.drop kl.toNat) with
    | none => none
    | some (v, r) => match decT fuel r with
      | none => none
      | some es => some ((bs.take kl.toNat, v) :: es)
end

theorem encV_ne_nil (v : V) : encV v ≠ [] := by
  cases v <;> simp [encV]

mutual
theorem rtV (v : V) (h : wfV v) (r : Bytes) (fuel : Nat) (hf : 2 * (encV v).length + 1 ≤ fuel) :
    decV fuel (encV v ++ r) = some (v, r) := by
  match fuel, hf with
  | fuel+1, hf =>
  match v, h with
  | .i8 n, _ => simp [encV, decV]
  | .str s, h =>
    have h' : s.length < 256 ^ 4 := h
    simp [encV, decV, List.append_assoc, take4_beN _ h']
  | .arr l, h =>
    have ⟨hl, hlen⟩ : wfL l ∧ (encL l).length < 256 ^ 4 := h
    have hf' : 2 * (encL l).length + 2 ≤ fuel := by simp [encV] at hf; omega
    simp [encV, decV, List.append_assoc, take4_beN _ hlen, rtL l hl fuel hf']
  | .tbl l, h =>
    have ⟨hl, hlen⟩ : wfT l ∧ (encT l).length < 256 ^ 4 := h
    have hf' : 2 * (encT l).length + 2 ≤ fuel := by simp [encV] at hf; omega
    simp [encV, decV, List.append_assoc, take4_beN _ hlen, rtT l hl fuel hf']
theorem rtL (l : List V) (h : wfL l) (fuel : Nat) (hf : 2 * (encL l).length + 2 ≤ fuel) :
    decL fuel (encL l) = some l := by
  match fuel, hf with
  | fuel+1, hf =>
  match l, h with
  | [], _ => simp [encL, decL]
  | v :: vs, h =>
    have ⟨hv, hvs⟩ : wfV v ∧ wfL vs := h
    have hlen : (encL (v :: vs)).length = (encV v).length + (encL vs).length := by simp [encL]
    have hne := encV_ne_nil v
    have hpos : 0 < (encV v).length := List.length_pos_iff.mpr hne
    have h1 : 2 * (encV v).length + 1 ≤ fuel := by omega
    have h2 : 2 * (encL vs).length + 2 ≤ fuel := by omega
    have t1 := rtV v hv (encL vs) fuel h1
    have t2 := rtL vs hvs fuel h2
    cases hev : encV v with
    | nil => exact absurd hev hne
    | cons b bs =>
      rw [hev, List.cons_append] at t1
      simp [encL, hev, decL, t1, t2]
theorem rtT (l : List (Bytes × V)) (h : wfT l) (fuel : Nat) (hf : 2 * (encT l).length + 2 ≤ fuel) :
    decT fuel (encT l) = some l := by
  match fuel, hf with
  | fuel+1, hf =>
  match l, h with
  | [], _ => simp [encT, decT]
  | (k, v) :: es, h =>
    have ⟨hk, hv, hes⟩ : k.length < 256 ∧ wfV v ∧ wfT es := h
    have hlen : (encT ((k, v) :: es)).length = 1 + k.length + ((encV v).length + (encT es).length) := by
      simp [encT]; omega
    have h1 : 2 * (encV v).length + 1 ≤ fuel := by omega
    have h2 : 2 * (encT es).length + 2 ≤ fuel := by omega
    have := rtV v hv (encT es) fuel h1
    have := rtT es hes fuel h2
    have hk' : (UInt8.ofNat k.length).toNat = k.length := by
      simp [UInt8.toNat_ofNat']; omega
    simp [encT, decT, hk', *]
end

end Spike
