/-! Spike: strict UTF-8 on code points (as CPython: no surrogates, no overlongs, <= U+10FFFF). -/
namespace Spike5
abbrev B := List Nat   -- byte values as Nat < 256 for the arithmetic; the model maps to UInt8

def enc1 (c : Nat) : Option B :=
  if c < 0x80 then some [c]
  else if c < 0x800 then some [0xC0 + c / 64, 0x80 + c % 64]
  else if c < 0x10000 then
    if 0xD800 ≤ c ∧ c < 0xE000 then none
    else some [0xE0 + c / 64 / 64, 0x80 + c / 64 % 64, 0x80 + c % 64]
  else if c < 0x110000 then
    some [0xF0 + c / 64 / 64 / 64, 0x80 + c / 64 / 64 % 64, 0x80 + c / 64 % 64, 0x80 + c % 64]
  else none

def cont (b : Nat) : Bool := 0x80 ≤ b && b < 0xC0

def dec1 : B → Option (Nat × B)
  | [] => none
  | b0 :: r =>
    if b0 < 0x80 then some (b0, r)
    else if b0 < 0xC2 then none
    else if b0 < 0xE0 then
      match r with
      | b1 :: r => if cont b1 then some ((b0 - 0xC0) * 64 + (b1 - 0x80), r) else none
      | _ => none
    else if b0 < 0xF0 then
      match r with
      | b1 :: b2 :: r =>
        let c := ((b0 - 0xE0) * 64 + (b1 - 0x80)) * 64 + (b2 - 0x80)
        if cont b1 && cont b2 && 0x800 ≤ c && !(0xD800 ≤ c && c < 0xE000) then some (c, r) else none
      | _ => none
    else if b0 < 0xF5 then
      match r with
      | b1 :: b2 :: b3 :: r =>
        let c := (((b0 - 0xF0) * 64 + (b1 - 0x80)) * 64 + (b2 - 0x80)) * 64 + (b3 - 0x80)
        if cont b1 && cont b2 && cont b3 && 0x10000 ≤ c && c < 0x110000 then some (c, r) else none
      | _ => none
    else none

theorem dec1_enc1 (c : Nat) (bs r : B) (h : enc1 c = some bs) : dec1 (bs ++ r) = some (c, r) := by
  unfold enc1 at h
  split at h
  · cases h; simp [dec1, *]
  · split at h
    · cases h
      have h0 : ¬ (192 + c / 64 < 128) := by omega
      have h1 : ¬ (192 + c / 64 < 194) := by omega
      have h2 : 192 + c / 64 < 224 := by omega
      have h3 : cont (128 + c % 64) = true := by simp [cont]; omega
      have hc : (192 + c / 64 - 192) * 64 + (128 + c % 64 - 128) = c := by omega
      simp only [List.cons_append, List.nil_append, dec1, h0, h1, h2, h3, hc, if_true, if_false]
    · split at h
      · split at h
        · cases h
        · cases h
          rename_i hs
          have h0 : ¬ (224 + c / 64 / 64 < 128) := by omega
          have h1 : ¬ (224 + c / 64 / 64 < 194) := by omega
          have h2 : ¬ (224 + c / 64 / 64 < 224) := by omega
          have h3 : 224 + c / 64 / 64 < 240 := by omega
          have hc : ((224 + c / 64 / 64 - 224) * 64 + (128 + c / 64 % 64 - 128)) * 64 + (128 + c % 64 - 128) = c := by omega
          have k1 : cont (128 + c / 64 % 64) = true := by simp [cont]; omega
          have k2 : cont (128 + c % 64) = true := by simp [cont]; omega
          have k3 : (2048 ≤ c) := by omega
          simp only [List.cons_append, List.nil_append, dec1, h0, h1, h2, h3, hc, k1, k2, if_true, if_false]
          have : (decide (2048 ≤ c) && !(decide (55296 ≤ c) && decide (c < 57344))) = true := by
            simp only [Bool.and_eq_true, decide_eq_true_eq, Bool.not_eq_true', Bool.and_eq_false_iff,
              decide_eq_false_iff_not]
            omega
          simp only [Bool.true_and, Bool.and_assoc, this, if_true]
      · split at h
        · cases h
          have h0 : ¬ (240 + c / 64 / 64 / 64 < 128) := by omega
          have h1 : ¬ (240 + c / 64 / 64 / 64 < 194) := by omega
          have h2 : ¬ (240 + c / 64 / 64 / 64 < 224) := by omega
          have h3 : ¬ (240 + c / 64 / 64 / 64 < 240) := by omega
          have h4 : 240 + c / 64 / 64 / 64 < 245 := by omega
          have hc : (((240 + c / 64 / 64 / 64 - 240) * 64 + (128 + c / 64 / 64 % 64 - 128)) * 64
              + (128 + c / 64 % 64 - 128)) * 64 + (128 + c % 64 - 128) = c := by omega
          have k1 : cont (128 + c / 64 / 64 % 64) = true := by simp [cont]; omega
          have k2 : cont (128 + c / 64 % 64) = true := by simp [cont]; omega
          have k3 : cont (128 + c % 64) = true := by simp [cont]; omega
          simp only [List.cons_append, List.nil_append, dec1, h0, h1, h2, h3, h4, hc, k1, k2, k3,
            if_true, if_false]
          have : (decide (65536 ≤ c) && decide (c < 1114112)) = true := by
            simp only [Bool.and_eq_true, decide_eq_true_eq]; omega
          simp only [Bool.true_and, Bool.and_assoc, this, if_true]
        · cases h

#print axioms dec1_enc1
end Spike5
