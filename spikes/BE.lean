namespace Spike
abbrev Bytes := List UInt8

/-- big-endian, `k` bytes, of `n mod 256^k` -/
def beN : Nat → Nat → Bytes
  | 0, _ => []
  | k+1, n => beN k (n / 256) ++ [UInt8.ofNat (n % 256)]

def unbe (bs : Bytes) : Nat := bs.foldl (fun acc b => acc * 256 + b.toNat) 0

@[simp] theorem beN_length (k n : Nat) : (beN k n).length = k := by
  induction k generalizing n with
  | zero => rfl
  | succ k ih => simp [beN, ih]

theorem unbe_append_single (bs : Bytes) (b : UInt8) : unbe (bs ++ [b]) = unbe bs * 256 + b.toNat := by
  simp [unbe, List.foldl_append]

theorem unbe_beN (k n : Nat) : unbe (beN k n) = n % 256 ^ k := by
  induction k generalizing n with
  | zero => simp [beN, unbe, Nat.mod_one]
  | succ k ih =>
    rw [beN, unbe_append_single, ih]
    have h256 : (UInt8.ofNat (n % 256)).toNat = n % 256 := by
      simp [UInt8.toNat_ofNat']
    rw [h256, Nat.pow_succ, Nat.mul_comm (256^k) 256, Nat.mod_mul]
    omega

theorem unbe_beN_of_lt (k n : Nat) (h : n < 256 ^ k) : unbe (beN k n) = n := by
  rw [unbe_beN, Nat.mod_eq_of_lt h]

/-- take/drop of a fixed-width prefix -/
theorem take_beN_append (k n : Nat) (r : Bytes) : (beN k n ++ r).take k = beN k n := by
  simp [List.take_append_of_le_length]
theorem drop_beN_append (k n : Nat) (r : Bytes) : (beN k n ++ r).drop k = r := by
  simp [List.drop_append_of_le_length]
end Spike
