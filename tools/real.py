"""Calls into the real pamqp (in-process, from /repo's working tree) with canonicalised results."""
import contextlib
import logging
import os
import signal
import threading
import sys
import warnings

REPO = os.environ.get('PAMQP_REPO', '/repo')
if REPO not in sys.path:
    sys.path.insert(0, REPO)
sys.dont_write_bytecode = True
warnings.simplefilter('ignore')
# (the library's log records go to a null handler: see set_logging below)

import pamqp  # noqa: E402
from pamqp import (base, body, commands, constants, decode, encode, exceptions, frame, header,  # noqa: E402,F401
                   heartbeat)

from proto import err_name, frame_sx, hexb, sx, Unrepresentable  # noqa: E402

assert os.path.realpath(os.path.dirname(pamqp.__file__)) == os.path.realpath(os.path.join(REPO, 'pamqp')), \
    'pamqp imported from %s, expected %s' % (pamqp.__file__, REPO)


class Hang(BaseException):
    """a call into pamqp exceeded its wall-clock or call budget"""


class GiveUp(Exception):
    """too many calls into pamqp hung: stop this lane / oracle instead of waiting for each one"""


HANGS = []          # descriptions of the calls that hung in this process
HANG_CALLS = []     # (function name, args) of those calls, for replay
MAX_HANGS = 3


def note_hang(desc, fn=None, args=()):
    HANGS.append(desc)
    HANG_CALLS.append((getattr(fn, '__module__', '?').split('.')[-1] + '.' + getattr(fn, '__name__', '?'), args))
    if len(HANGS) >= MAX_HANGS:
        raise GiveUp('%d calls into pamqp did not return within their deadline, e.g. %s' % (len(HANGS), HANGS[0][:300]))


class Budget:
    """Counts Python-level calls into pamqp/*.py (sys.setprofile) and raises Hang past `limit`."""
    def __init__(self):
        self.calls = 0
        self.limit = None
        self.prefix = os.path.join(os.path.realpath(REPO), 'pamqp') + os.sep

    def prof(self, frm, event, arg):
        if event == 'call' and frm.f_code.co_filename.startswith(self.prefix):
            self.calls += 1
            if self.limit is not None and self.calls > self.limit:
                sys.setprofile(None)
                raise Hang('call budget %d exceeded' % self.limit)

    @contextlib.contextmanager
    def counting(self, limit=None):
        self.calls, self.limit = 0, limit
        sys.setprofile(self.prof)
        try:
            yield self
        finally:
            sys.setprofile(None)


def _alarm(signum, frm):
    raise Hang('wall-clock limit exceeded')


_DEADLINE_ACTIVE = [False]


@contextlib.contextmanager
def deadline(seconds):
    """wall-clock limit for a call into pamqp (main thread only; re-entrant: an inner deadline inside an
    active one is a no-op, the outer limit applies)"""
    if _DEADLINE_ACTIVE[0] or threading.current_thread() is not threading.main_thread():
        yield
        return
    old = signal.signal(signal.SIGALRM, _alarm)
    signal.setitimer(signal.ITIMER_REAL, seconds)
    _DEADLINE_ACTIVE[0] = True
    try:
        yield
    finally:
        signal.setitimer(signal.ITIMER_REAL, 0)
        signal.signal(signal.SIGALRM, old)
        _DEADLINE_ACTIVE[0] = False


# ---- the application's logging configuration is part of the environment a call runs in, not of its arguments:
# results must not depend on it. In 'mixed' mode every call into the library alternates between the default
# configuration and DEBUG enabled for the `pamqp` loggers (records go to a null handler).
import logging  # noqa: E402

LOGMODE = 'default'
_LOGN = [0]


class _NullHandler(logging.Handler):
    def emit(self, record):
        pass


_NULL = _NullHandler()
logging.getLogger('pamqp').addHandler(_NULL)
logging.getLogger('pamqp').propagate = False


def set_logging(debug):
    lg = logging.getLogger('pamqp')
    if debug:
        if _NULL not in lg.handlers:
            lg.addHandler(_NULL)
        lg.setLevel(logging.DEBUG)
    else:
        lg.setLevel(logging.NOTSET)
    for name in list(logging.root.manager.loggerDict):
        if name.startswith('pamqp.'):
            sub = logging.getLogger(name)
            if isinstance(sub, logging.Logger):
                sub.setLevel(logging.NOTSET)


def tick_logging():
    if threading.current_thread() is not threading.main_thread():
        return
    if LOGMODE == 'mixed':
        _LOGN[0] += 1
        set_logging(_LOGN[0] % 2 == 0)
    elif LOGMODE == 'debug':
        set_logging(True)
    else:
        set_logging(False)


# ---- the thread's decimal context is ambient state as well: a caller may work at low precision, or trap Inexact.
# In 'mixed' mode calls into the library cycle through the default context, a 3-digit context and a context that
# traps Inexact and Rounded; the harness's own arithmetic always runs in the default context.
import decimal as _dec  # noqa: E402

DECMODE = 'default'
_DECN = [0]
DEC_CONTEXTS = {'default': _dec.Context(), 'prec3': _dec.Context(prec=3),
                'traps': _dec.Context(prec=5, traps=[_dec.Inexact, _dec.Rounded, _dec.InvalidOperation, _dec.DivisionByZero, _dec.Overflow])}


def ambient():
    """context manager for ONE call into the library"""
    if DECMODE == 'mixed':
        _DECN[0] += 1
        name = ('default', 'default', 'prec3', 'default', 'traps')[_DECN[0] % 5]
    else:
        name = DECMODE if DECMODE in DEC_CONTEXTS else 'default'
    return _dec.localcontext(DEC_CONTEXTS[name].copy())


def outcome(fn, *args, show=None, limit=3.0):
    """'ok <shown result>' | 'err <class>' | 'hang'"""
    tick_logging()
    try:
        if threading.current_thread() is threading.main_thread():
            with deadline(limit), ambient():
                res = fn(*args)
        else:
            res = fn(*args)
        return 'ok' + (' ' + show(res) if show else '')
    except Hang:
        note_hang('%s%r' % (getattr(fn, '__name__', fn), args)[:400], fn, args)
        return 'hang'
    except Unrepresentable:
        raise
    except Exception as e:  # noqa
        return 'err ' + err_name(e)


def show_bytes(b):
    return hexb(b)


def show_dec(t):
    n, v = t
    return '%d %s' % (n, sx(v))


def show_frame(t):
    n, ch, f = t
    return '%d %d %s' % (n, ch, frame_sx(f))


def set_legacy(flag):
    encode.support_deprecated_rabbitmq(bool(flag))


@contextlib.contextmanager
def legacy(flag):
    old = encode.DEPRECATED_RABBITMQ_SUPPORT
    set_legacy(flag)
    try:
        yield
    finally:
        encode.DEPRECATED_RABBITMQ_SUPPORT = old


def method_classes():
    """(key, class) in INDEX_MAPPING order"""
    return list(commands.INDEX_MAPPING.items())


def make_method(cls, vals):
    """instance with exactly these attribute values, bypassing __init__ (and so validate())"""
    obj = cls.__new__(cls)
    for a, v in zip(cls.__slots__, vals):
        setattr(obj, a, v)
    return obj


def make_props(vals):
    cls = commands.Basic.Properties
    obj = cls.__new__(cls)
    for a, v in zip(cls.__slots__, vals):
        setattr(obj, a, v)
    return obj


def make_header(body_size, props_vals, weight=0):
    h = header.ContentHeader.__new__(header.ContentHeader)
    h.class_id = None
    h.weight = weight
    h.body_size = body_size
    h.properties = make_props(props_vals)
    return h
