# Hand transcription of AMQP 0-9-1 + RabbitMQ extensions (amqp-rabbitmq-0.9.1.json semantics
# + codegen/extensions.xml overrides), written from the protocol documents, NOT from commands.py.
# arg = (wire-name, type, default) ; default None = no default in the specification
T, F = True, False
EX = ('exchange', 'shortstr', '')            # domain exchange-name: default '' (extensions.xml)
TICKET = ('ticket', 'short', 0)
ARGS = ('arguments', 'table', {})
NOWAIT = ('nowait', 'bit', F)
CLOSE = [('reply-code', 'short', None), ('reply-text', 'shortstr', ''), ('class-id', 'short', None), ('method-id', 'short', None)]
TUNE = [('channel-max', 'short', 0), ('frame-max', 'long', 0), ('heartbeat', 'short', 0)]
BIND_X = [TICKET, ('destination', 'shortstr', ''), ('source', 'shortstr', ''), ('routing-key', 'shortstr', ''), NOWAIT, ARGS]
SPEC = {
 ('connection', 10): [
  ('start', 10, ['start-ok'], [('version-major', 'octet', 0), ('version-minor', 'octet', 9), ('server-properties', 'table', {}), ('mechanisms', 'longstr', 'PLAIN'), ('locales', 'longstr', 'en_US')]),
  ('start-ok', 11, [], [('client-properties', 'table', {}), ('mechanism', 'shortstr', 'PLAIN'), ('response', 'longstr', ''), ('locale', 'shortstr', 'en_US')]),
  ('secure', 20, ['secure-ok'], [('challenge', 'longstr', None)]),
  ('secure-ok', 21, [], [('response', 'longstr', None)]),
  ('tune', 30, ['tune-ok'], TUNE),
  ('tune-ok', 31, [], TUNE),
  ('open', 40, ['open-ok'], [('virtual-host', 'shortstr', '/'), ('capabilities', 'shortstr', ''), ('insist', 'bit', F)]),
  ('open-ok', 41, [], [('known-hosts', 'shortstr', '')]),
  ('close', 50, ['close-ok'], CLOSE),
  ('close-ok', 51, [], []),
  ('blocked', 60, [], [('reason', 'shortstr', '')]),
  ('unblocked', 61, [], []),
  ('update-secret', 70, ['update-secret-ok'], [('new-secret', 'longstr', None), ('reason', 'shortstr', None)]),
  ('update-secret-ok', 71, [], []),
 ],
 ('channel', 20): [
  ('open', 10, ['open-ok'], [('out-of-band', 'shortstr', '0')]),
  ('open-ok', 11, [], [('channel-id', 'longstr', '0')]),
  ('flow', 20, ['flow-ok'], [('active', 'bit', None)]),
  ('flow-ok', 21, [], [('active', 'bit', None)]),
  ('close', 40, ['close-ok'], CLOSE),
  ('close-ok', 41, [], []),
 ],
 ('exchange', 40): [
  ('declare', 10, ['declare-ok'], [TICKET, EX, ('type', 'shortstr', 'direct'), ('passive', 'bit', F), ('durable', 'bit', F), ('auto-delete', 'bit', F), ('internal', 'bit', F), NOWAIT, ARGS]),
  ('declare-ok', 11, [], []),
  ('delete', 20, ['delete-ok'], [TICKET, EX, ('if-unused', 'bit', F), NOWAIT]),
  ('delete-ok', 21, [], []),
  ('bind', 30, ['bind-ok'], BIND_X),
  ('bind-ok', 31, [], []),
  ('unbind', 40, ['unbind-ok'], BIND_X),
  ('unbind-ok', 51, [], []),
 ],
 ('queue', 50): [
  ('declare', 10, ['declare-ok'], [TICKET, ('queue', 'shortstr', ''), ('passive', 'bit', F), ('durable', 'bit', F), ('exclusive', 'bit', F), ('auto-delete', 'bit', F), NOWAIT, ARGS]),
  ('declare-ok', 11, [], [('queue', 'shortstr', None), ('message-count', 'long', None), ('consumer-count', 'long', None)]),
  ('bind', 20, ['bind-ok'], [TICKET, ('queue', 'shortstr', ''), EX, ('routing-key', 'shortstr', ''), NOWAIT, ARGS]),
  ('bind-ok', 21, [], []),
  ('purge', 30, ['purge-ok'], [TICKET, ('queue', 'shortstr', ''), NOWAIT]),
  ('purge-ok', 31, [], [('message-count', 'long', None)]),
  ('delete', 40, ['delete-ok'], [TICKET, ('queue', 'shortstr', ''), ('if-unused', 'bit', F), ('if-empty', 'bit', F), NOWAIT]),
  ('delete-ok', 41, [], [('message-count', 'long', None)]),
  ('unbind', 50, ['unbind-ok'], [TICKET, ('queue', 'shortstr', ''), EX, ('routing-key', 'shortstr', ''), ARGS]),
  ('unbind-ok', 51, [], []),
 ],
 ('basic', 60): [
  ('qos', 10, ['qos-ok'], [('prefetch-size', 'long', 0), ('prefetch-count', 'short', 0), ('global', 'bit', F)]),
  ('qos-ok', 11, [], []),
  ('consume', 20, ['consume-ok'], [TICKET, ('queue', 'shortstr', ''), ('consumer-tag', 'shortstr', ''), ('no-local', 'bit', F), ('no-ack', 'bit', F), ('exclusive', 'bit', F), NOWAIT, ARGS]),
  ('consume-ok', 21, [], [('consumer-tag', 'shortstr', None)]),
  ('cancel', 30, ['cancel-ok'], [('consumer-tag', 'shortstr', None), NOWAIT]),
  ('cancel-ok', 31, [], [('consumer-tag', 'shortstr', None)]),
  ('publish', 40, [], [TICKET, EX, ('routing-key', 'shortstr', ''), ('mandatory', 'bit', F), ('immediate', 'bit', F)]),
  ('return', 50, [], [('reply-code', 'short', None), ('reply-text', 'shortstr', ''), EX, ('routing-key', 'shortstr', None)]),
  ('deliver', 60, [], [('consumer-tag', 'shortstr', None), ('delivery-tag', 'longlong', None), ('redelivered', 'bit', F), EX, ('routing-key', 'shortstr', None)]),
  ('get', 70, ['get-ok', 'get-empty'], [TICKET, ('queue', 'shortstr', ''), ('no-ack', 'bit', F)]),
  ('get-ok', 71, [], [('delivery-tag', 'longlong', None), ('redelivered', 'bit', F), EX, ('routing-key', 'shortstr', None), ('message-count', 'long', None)]),
  ('get-empty', 72, [], [('cluster-id', 'shortstr', '')]),
  ('ack', 80, [], [('delivery-tag', 'longlong', 0), ('multiple', 'bit', F)]),
  ('reject', 90, [], [('delivery-tag', 'longlong', None), ('requeue', 'bit', T)]),
  ('recover-async', 100, [], [('requeue', 'bit', F)]),
  ('recover', 110, ['recover-ok'], [('requeue', 'bit', F)]),
  ('recover-ok', 111, [], []),
  ('nack', 120, [], [('delivery-tag', 'longlong', 0), ('multiple', 'bit', F), ('requeue', 'bit', T)]),
 ],
 ('tx', 90): [
  ('select', 10, ['select-ok'], []), ('select-ok', 11, [], []),
  ('commit', 20, ['commit-ok'], []), ('commit-ok', 21, [], []),
  ('rollback', 30, ['rollback-ok'], []), ('rollback-ok', 31, [], []),
 ],
 ('confirm', 85): [
  ('select', 10, ['select-ok'], [NOWAIT]), ('select-ok', 11, [], []),
 ],
}
PROPS = [('content-type','shortstr'),('content-encoding','shortstr'),('headers','table'),('delivery-mode','octet'),('priority','octet'),
         ('correlation-id','shortstr'),('reply-to','shortstr'),('expiration','shortstr'),('message-id','shortstr'),('timestamp','timestamp'),
         ('type','shortstr'),('user-id','shortstr'),('app-id','shortstr'),('cluster-id','shortstr')]
REPLY = {311:('CONTENT-TOO-LARGE','soft'),312:('NO-ROUTE','soft'),313:('NO-CONSUMERS','soft'),320:('CONNECTION-FORCED','hard'),402:('INVALID-PATH','hard'),
         403:('ACCESS-REFUSED','soft'),404:('NOT-FOUND','soft'),405:('RESOURCE-LOCKED','soft'),406:('PRECONDITION-FAILED','soft'),501:('FRAME-ERROR','hard'),
         502:('SYNTAX-ERROR','hard'),503:('COMMAND-INVALID','hard'),504:('CHANNEL-ERROR','hard'),505:('UNEXPECTED-FRAME','hard'),506:('RESOURCE-ERROR','hard'),
         530:('NOT-ALLOWED','hard'),540:('NOT-IMPLEMENTED','hard'),541:('INTERNAL-ERROR','hard')}
RENAME = {'type': {'exchange.declare': 'exchange_type', 'props': 'message_type'}, 'global': 'global_'}


# attribute names as the library's documented API spells them (dashes -> underscores; the two
# Python keywords / builtins are renamed)
def pyname(arg):
    if arg == 'type':
        return 'exchange_type'
    if arg == 'global':
        return 'global_'
    return arg.replace('-', '_')


def prop_pyname(arg):
    return 'message_type' if arg == 'type' else arg.replace('-', '_')


def camel(s):
    return ''.join(p.capitalize() for p in s.split('-'))


CONSTANTS = dict(FRAME_METHOD=1, FRAME_HEADER=2, FRAME_BODY=3, FRAME_HEARTBEAT=8, FRAME_MIN_SIZE=4096,
                 FRAME_END=206, FRAME_END_CHAR=b'\xce', FRAME_HEADER_SIZE=7, VERSION=(0, 9, 1), AMQP=b'AMQP',
                 REPLY_SUCCESS=200)

# constraints of the protocol definition (domains + deprecated fields), per method:
#   ('eq', arg, value) fixed value; ('false', arg); ('maxlen', arg, n); ('chars', arg)
EXCHANGE_NAME = lambda a: [('maxlen', a, 127), ('chars', a)]      # noqa: E731
QUEUE_NAME = lambda a: [('maxlen', a, 256), ('chars', a)]          # noqa: E731
T0 = [('eq', 'ticket', 0)]
CONSTRAINTS = {
    'Connection.Open': [('maxlen', 'virtual_host', 127), ('eq', 'capabilities', ''), ('false', 'insist')],
    'Connection.OpenOk': [('eq', 'known_hosts', '')],
    'Channel.Open': [('eq', 'out_of_band', '0')],
    'Channel.OpenOk': [('eq', 'channel_id', '0')],
    'Exchange.Declare': T0 + EXCHANGE_NAME('exchange'),
    'Exchange.Delete': T0 + EXCHANGE_NAME('exchange'),
    'Exchange.Bind': T0 + EXCHANGE_NAME('destination') + EXCHANGE_NAME('source'),
    'Exchange.Unbind': T0 + EXCHANGE_NAME('destination') + EXCHANGE_NAME('source'),
    'Queue.Declare': T0 + QUEUE_NAME('queue'),
    'Queue.DeclareOk': QUEUE_NAME('queue'),
    'Queue.Bind': T0 + QUEUE_NAME('queue') + EXCHANGE_NAME('exchange'),
    'Queue.Purge': T0 + QUEUE_NAME('queue'),
    'Queue.Delete': T0 + QUEUE_NAME('queue'),
    'Queue.Unbind': T0 + QUEUE_NAME('queue') + EXCHANGE_NAME('exchange'),
    'Basic.Consume': T0 + QUEUE_NAME('queue'),
    'Basic.Publish': T0 + EXCHANGE_NAME('exchange'),
    'Basic.Return': EXCHANGE_NAME('exchange'),
    'Basic.Deliver': EXCHANGE_NAME('exchange'),
    'Basic.Get': T0 + QUEUE_NAME('queue'),
    'Basic.GetOk': EXCHANGE_NAME('exchange'),
    'Basic.GetEmpty': [('eq', 'cluster_id', '')],
}
PROPS_CONSTRAINTS = [('eq_bare', 'cluster_id', ''), ('oneof', 'delivery_mode', [1, 2])]
NAME_CHARS = 'abcdefghijklmnopqrstuvwxyzABCDEFGHIJKLMNOPQRSTUVWXYZ0123456789-_.:@#,/ '


def catalogue():
    """the specification transcription in the shape of the translator's catalogue (the fields the oracles'
    generators use). The oracles take their input domain - which classes exist, which argument has which
    wire type, which values the protocol definition allows - from HERE, never from the translated
    commands.py: an edit of commands.py (harmless or not) must not change what the oracles consider
    a valid input."""
    def rule(t, domain_of):
        k = t[0]
        if k == 'eq':
            return {'attr': pyname(t[1]), 'kind': 'mustEqInt' if isinstance(t[2], int) else 'mustEqStr', 'c': t[2]}
        if k == 'false':
            return {'attr': pyname(t[1]), 'kind': 'mustBeFalse'}
        if k == 'maxlen':
            return {'attr': pyname(t[1]), 'kind': 'maxLen', 'n': t[2]}
        if k == 'chars':
            return {'attr': pyname(t[1]), 'kind': 'regex', 'domain': domain_of.get(t[1], 'name')}
        if k == 'eq_bare':
            return {'attr': prop_pyname(t[1]), 'kind': 'mustEqStrBare', 'c': t[2]}
        if k == 'oneof':
            return {'attr': prop_pyname(t[1]), 'kind': 'oneOf', 'cs': list(t[2])}
        raise ValueError(t)
    methods = []
    for (cname, cid), ms in SPEC.items():
        for mname, mid, replies, args in ms:
            name = '%s.%s' % (camel(cname), camel(mname))
            cons = CONSTRAINTS.get(name, [])
            doms = {t[1]: ('queue-name' if any(c[0] == 'maxlen' and c[1] == t[1] and c[2] == 256 for c in cons) else 'exchange-name')
                    for t in cons if t[0] == 'chars'}
            methods.append({'key': cid << 16 | mid, 'index': cid << 16 | mid, 'name': name, 'className': camel(cname), 'classId': cid,
                            'methodId': mid, 'args': [{'name': pyname(a[0]), 'ty': a[1]} for a in args],
                            'rules': [rule(t, doms) for t in cons]})
    props = {'name': 'Basic.Properties', 'props': [{'name': prop_pyname(n), 'ty': t, 'flag': 1 << (15 - i)} for i, (n, t) in enumerate(PROPS)],
             'rules': [rule(t, {}) for t in PROPS_CONSTRAINTS]}
    return {'basicClassId': 60, 'classCount': len(SPEC), 'methods': methods, 'properties': props}
