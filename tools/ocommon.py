"""Common plumbing of the property oracles (checks on the REAL code, independent expectations)."""
import calendar
import datetime
import decimal
import hashlib
import math
import struct
import time

UTC = datetime.timezone.utc
EPOCH = datetime.datetime(1970, 1, 1, tzinfo=UTC)
D = decimal.Decimal


def pyrepr(v):
    """an eval-able repr (see REPLAY_ENV) of the values the generators produce"""
    if isinstance(v, float):
        if v != v:
            return "float.fromhex('nan')" if struct.pack('>d', v)[0] < 0x80 else "-float.fromhex('nan')"
        if math.isinf(v):
            return "float('inf')" if v > 0 else "float('-inf')"
        return 'float.fromhex(%r)' % v.hex()
    if isinstance(v, time.struct_time):
        return 'time.struct_time(%r)' % (tuple(v),)
    if isinstance(v, list):
        return '[' + ', '.join(pyrepr(x) for x in v) + ']'
    if isinstance(v, tuple):
        return '(' + ''.join(pyrepr(x) + ', ' for x in v) + ')'
    if isinstance(v, dict):
        return '{' + ', '.join(pyrepr(k) + ': ' + pyrepr(x) for k, x in v.items()) + '}'
    if type(v) is object:
        return 'object()'
    return repr(v)


REPLAY_ENV = {'datetime': datetime, 'time': time, 'Decimal': D, 'decimal': decimal, 'bytearray': bytearray,
              'float': float, 'bytes': bytes, 'memoryview': memoryview, 'object': object, 'frozenset': frozenset, 'set': set, 'range': range}


def pyeval(s):
    return eval(s, dict(REPLAY_ENV))  # noqa: S307 - replay files are written by this machinery


class Result:
    """what an oracle run covered and what it found"""
    def __init__(self, name):
        self.name = name
        self.evaluations = 0
        self.distinct = set()
        self.trivial = 0
        self.violations = []
        self.samples = []
        self.dist = {}
        self.notes = []

    def case(self, key, trivial=False, tag=None, sample=None):
        self.evaluations += 1
        h = hashlib.sha1(key.encode('utf-8', 'surrogatepass')).digest()[:8]
        if trivial:
            self.trivial += 1
        else:
            self.distinct.add(h)
        if tag:
            self.dist[tag] = self.dist.get(tag, 0) + 1
        if sample is not None and len(self.samples) < 3:
            self.samples.append(sample)

    def violation(self, what, replay, expected=None, actual=None):
        if len(self.violations) < 50:
            self.violations.append({'oracle': self.name, 'what': what, 'replay': replay,
                                    'expected': None if expected is None else str(expected)[:1500],
                                    'actual': None if actual is None else str(actual)[:1500]})

    def summary(self):
        return {'oracle': self.name, 'evaluations': self.evaluations, 'distinct_nontrivial': len(self.distinct),
                'trivial': self.trivial, 'violations': len(self.violations), 'distribution': self.dist,
                'samples': self.samples, 'notes': self.notes}


# ------------------------------------------------------------------ independent normalisation (C03)

def norm(v):
    """documented normalisation of a field value, written independently of pamqp"""
    if isinstance(v, bool) or v is None or isinstance(v, (int, str)):
        return v
    if isinstance(v, float):
        return struct.unpack('>f', struct.pack('>f', v))[0]
    if isinstance(v, D):
        return v
    if isinstance(v, bytearray):
        return bytearray(v)
    if isinstance(v, datetime.datetime):
        aware = v if (v.tzinfo is not None and v.tzinfo.utcoffset(v) is not None) else v.replace(tzinfo=UTC)
        delta = aware - EPOCH
        return EPOCH + datetime.timedelta(seconds=delta.days * 86400 + delta.seconds)
    if isinstance(v, time.struct_time):
        return EPOCH + datetime.timedelta(seconds=calendar.timegm(v))
    if isinstance(v, list):
        return [norm(x) for x in v]
    if isinstance(v, dict):
        return {k: norm(x) for k, x in v.items()}
    raise TypeError(type(v))


def same(a, b):
    """equal in value AND Python type, recursively; NaN equals NaN; datetimes must be UTC-aware
    and denote the same instant"""
    if type(a) is not type(b):
        return False
    if isinstance(a, float):
        return (a != a and b != b) or (a == b and math.copysign(1, a) == math.copysign(1, b))
    if isinstance(a, list):
        return len(a) == len(b) and all(same(x, y) for x, y in zip(a, b))
    if isinstance(a, dict):
        return set(a) == set(b) and all(same(a[k], b[k]) for k in a)
    if isinstance(a, datetime.datetime):
        return (b.tzinfo is not None and b.utcoffset() == datetime.timedelta(0) and a == b
                and a.utcoffset() == datetime.timedelta(0))
    if isinstance(a, D):
        return a == b or (a.is_nan() and b.is_nan())
    return a == b
