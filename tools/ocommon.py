"""Common plumbing of the property oracles (checks on the REAL code, independent expectations)."""
import calendar
import datetime
import decimal
import hashlib
import math
import struct
import time

UTC = datetime.timezone.utc
EPOCH = datetime.datetime(1970, 1, 1, tzinfo=UTC)
D = decimal.Decimal


# ------------------------------------------------------------------ well-behaved subclasses of the value types
# An application may pass a str-mixin Enum member, an IntEnum, a Decimal / datetime subclass ... : they ARE
# str / int / ... values (isinstance), their content is the base value, and only their display dunders differ.

import enum  # noqa: E402


class _Display:
    def __str__(self):
        return '<display text of a %s>' % type(self).__name__

    def __repr__(self):
        return '<repr of a %s>' % type(self).__name__

    def __format__(self, spec):
        return '<formatted %s>' % type(self).__name__


class VStr(_Display, str):
    pass


class VInt(_Display, int):
    pass


class VFloat(_Display, float):
    pass


class VBytes(_Display, bytes):
    pass


class VByteArray(_Display, bytearray):
    pass


class VDecimal(_Display, decimal.Decimal):
    pass


class VDateTime(_Display, datetime.datetime):
    pass


class VList(_Display, list):
    pass


class VDict(_Display, dict):
    pass


class VStrEnum(str, enum.Enum):
    INVOICE = 'invoice'
    EMPTY = ''
    ACCENT = 'caf\u00e9'
    LONG = 'x' * 300


class VIntEnum(enum.IntEnum):
    ONE = 1
    B200 = 200
    U40000 = 40000
    I3E9 = 3000000000
    N129 = -129
    N40000 = -40000
    BIG = 2 ** 40
    HUGE = 2 ** 70


class VIntMix(int, enum.Enum):
    """an (int, Enum) mixin: isinstance int, but str() / format() are Enum's"""
    SMALL = 5
    U16 = 40000
    U32 = 3000000000
    NEG = -40000
    HUGE = 2 ** 70


class VIntFlag(enum.IntFlag):
    X = 1
    Y = 256
    Z = 65536


V_CLASSES = (VStr, VInt, VFloat, VBytes, VByteArray, VDecimal, VDateTime, VList, VDict, VStrEnum, VIntEnum, VIntFlag, VIntMix)


def debase(v):
    """the plain built-in value a (possibly subclassed, possibly nested) value IS"""
    if isinstance(v, bool) or v is None:
        return v
    t = type(v)
    if t in (int, float, str, bytes, decimal.Decimal, datetime.datetime, time.struct_time):
        return v
    if isinstance(v, int):
        return int.__add__(v, 0)
    if isinstance(v, float):
        return float.__float__(v)
    if isinstance(v, str):
        return ''.join(str.__iter__(v))
    if isinstance(v, bytes):
        return bytes.__getitem__(v, slice(None))
    if isinstance(v, bytearray):
        return bytearray(bytearray.__getitem__(v, slice(None))) if t is not bytearray else v
    if isinstance(v, decimal.Decimal):
        return decimal.Decimal(v)
    if isinstance(v, datetime.datetime):
        return datetime.datetime.combine(datetime.datetime.date(v), datetime.datetime.timetz(v))
    if isinstance(v, list):
        return [debase(x) for x in list.__iter__(v)] if (t is not list or any(type(x) not in (int, str, float, bool, type(None)) for x in v)) else v
    if isinstance(v, dict):
        return {debase(k): debase(x) for k, x in dict.items(v)}
    return v


def pyrepr(v):
    """an eval-able repr (see REPLAY_ENV) of the values the generators produce"""
    if isinstance(v, enum.Enum) and type(v) in V_CLASSES:
        return '%s.%s' % (type(v).__name__, v.name)
    if type(v) in V_CLASSES:
        if isinstance(v, datetime.datetime):
            d = debase(v)
            return 'VDateTime(%d, %d, %d, %d, %d, %d, %d, tzinfo=%s, fold=%d)' % (d.year, d.month, d.day, d.hour, d.minute, d.second, d.microsecond,
                                                                               pyrepr(d.tzinfo), d.fold)
        if isinstance(v, list):
            return 'VList(%s)' % pyrepr(list(list.__iter__(v)))
        if isinstance(v, dict):
            return 'VDict(%s)' % pyrepr(dict(dict.items(v)))
        return '%s(%s)' % (type(v).__name__, pyrepr(debase(v)))
    if type(v) is int and v.bit_length() > 4000:
        return hex(v)          # decimal conversion of an int this long is refused by the interpreter (int_max_str_digits)
    if isinstance(v, float):
        if v != v:
            return "float.fromhex('nan')" if struct.pack('>d', v)[0] < 0x80 else "-float.fromhex('nan')"
        if math.isinf(v):
            return "float('inf')" if v > 0 else "float('-inf')"
        return 'float.fromhex(%r)' % v.hex()
    if isinstance(v, time.struct_time):
        return 'time.struct_time(%r)' % (tuple(v),)
    if isinstance(v, list):
        return '[' + ', '.join(pyrepr(x) for x in v) + ']'
    if isinstance(v, tuple):
        return '(' + ''.join(pyrepr(x) + ', ' for x in v) + ')'
    if isinstance(v, dict):
        return '{' + ', '.join(pyrepr(k) + ': ' + pyrepr(x) for k, x in v.items()) + '}'
    if type(v) is object:
        return 'object()'
    return repr(v)


REPLAY_ENV = {'datetime': datetime, 'time': time, 'Decimal': D, 'decimal': decimal, 'bytearray': bytearray,
              'float': float, 'bytes': bytes, 'memoryview': memoryview, 'object': object, 'frozenset': frozenset, 'set': set, 'range': range}
REPLAY_ENV.update({c.__name__: c for c in V_CLASSES})


def pyeval(s):
    return eval(s, dict(REPLAY_ENV))  # noqa: S307 - replay files are written by this machinery


class Result:
    """what an oracle run covered and what it found"""
    def __init__(self, name):
        self.name = name
        self.evaluations = 0
        self.distinct = set()
        self.trivial = 0
        self.violations = []
        self.samples = []
        self.dist = {}
        self.notes = []

    def case(self, key, trivial=False, tag=None, sample=None):
        self.evaluations += 1
        h = hashlib.sha1(key.encode('utf-8', 'surrogatepass')).digest()[:8]
        if trivial:
            self.trivial += 1
        else:
            self.distinct.add(h)
        if tag:
            self.dist[tag] = self.dist.get(tag, 0) + 1
        if sample is not None and len(self.samples) < 3:
            self.samples.append(sample)

    def violation(self, what, replay, expected=None, actual=None):
        if len(self.violations) < 50:
            self.violations.append({'oracle': self.name, 'what': what, 'replay': replay,
                                    'expected': None if expected is None else str(expected)[:1500],
                                    'actual': None if actual is None else str(actual)[:1500]})

    def summary(self):
        return {'oracle': self.name, 'evaluations': self.evaluations, 'distinct_nontrivial': len(self.distinct),
                'trivial': self.trivial, 'violations': len(self.violations), 'distribution': self.dist,
                'samples': self.samples, 'notes': self.notes}


# ------------------------------------------------------------------ independent normalisation (C03)

def norm(v):
    """documented normalisation of a field value, written independently of pamqp"""
    v = debase(v)
    if isinstance(v, bool) or v is None or isinstance(v, (int, str)):
        return v
    if isinstance(v, float):
        return struct.unpack('>f', struct.pack('>f', v))[0]
    if isinstance(v, D):
        return v
    if isinstance(v, bytearray):
        return bytearray(v)
    if isinstance(v, datetime.datetime):
        aware = v if (v.tzinfo is not None and v.tzinfo.utcoffset(v) is not None) else v.replace(tzinfo=UTC)
        delta = aware - EPOCH
        return EPOCH + datetime.timedelta(seconds=delta.days * 86400 + delta.seconds)
    if isinstance(v, time.struct_time):
        return EPOCH + datetime.timedelta(seconds=calendar.timegm(v))
    if isinstance(v, list):
        return [norm(x) for x in v]
    if isinstance(v, dict):
        return {k: norm(x) for k, x in v.items()}
    raise TypeError(type(v))


def same(a, b):
    """equal in value AND Python type, recursively; NaN equals NaN; datetimes must be UTC-aware
    and denote the same instant"""
    if type(a) is not type(b):
        return False
    if isinstance(a, float):
        return (a != a and b != b) or (a == b and math.copysign(1, a) == math.copysign(1, b))
    if isinstance(a, list):
        return len(a) == len(b) and all(same(x, y) for x, y in zip(a, b))
    if isinstance(a, dict):
        return set(a) == set(b) and all(same(a[k], b[k]) for k in a)
    if isinstance(a, datetime.datetime):
        return (b.tzinfo is not None and b.utcoffset() == datetime.timedelta(0) and a == b
                and a.utcoffset() == datetime.timedelta(0))
    if isinstance(a, D):
        return a == b or (a.is_nan() and b.is_nan())
    return a == b
