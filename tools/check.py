#!/usr/bin/env python3
"""./check <ID> --tier quick|thorough        decide one property on /repo's current working tree
   ./check <ID> --replay <path>              re-run one recorded case

Decision procedure (DESIGN.md section 3):
  1. regenerate Pamqp/Generated/* from /repo (Tie A);
  2. build the property's Lean module(s) and the model driver; audit axioms and forbidden constructs;
  3. run the correspondence lanes the property depends on (Tie B);
  4. run the property's oracle on the real code (this is also the failing-input search);
  5. verdict: oracle failure -> VIOLATION with the input as replay; broken obligation / lane without a
     failing input -> VIOLATION ... no-failing-input-found; infrastructure trouble -> exit 2.
"""
import argparse
import fcntl
import hashlib
import json
import os
import re
import subprocess
import sys
import time

HERE = os.path.dirname(os.path.abspath(__file__))
ROOT = os.path.dirname(HERE)
LEAN = os.path.join(ROOT, 'lean')
OUT = os.environ.get('VERIF_OUT') or ROOT          # evidence/ and replays/ go here
sys.path.insert(0, HERE)
os.environ.setdefault('PYTHONDONTWRITEBYTECODE', '1')
# pamqp must not depend on the host time zone (C15): run the whole harness in a zone with a
# 45-minute offset and DST (POSIX rule string, needs no tz database) instead of UTC
os.environ['TZ'] = os.environ.get('VERIF_TZ', 'CHAST-12:45CHADT,M9.5.0/2:45,M4.1.0/3:45')
time.tzset()

STD_AXIOMS = {'propext', 'Classical.choice', 'Quot.sound'}
FORBIDDEN = re.compile(r'\b(sorry|admit|native_decide|bv_decide|implemented_by|unsafe)\b|^\s*axiom\s|maxHeartbeats\s+0', re.M)

T = 'Pamqp.Props.'
# property -> (Lean modules, property theorems, Tie-A theorems, lanes, oracles)
REGISTRY = {
    'C01': dict(mods=['C01', 'C03'], thms=['C01_catalogue_wf', 'C01_catalogue_count', 'C01_roundtrip_generic', 'C01_method_roundtrip', 'C01_scalar_args_exact', 'C01_none_table'],
                tie=['tieA_table_mapping', 'tieA_methods', 'tieA_struct_formats', 'tieA_struct_uses', 'tieA_envelope_struct_uses', 'tieA_frame_constants', 'tieA_constant_values', 'tieA_codec_calls'],
                lanes=['args/args.marshal,args.unmarshal', 'frame/frame.marshal.M,frame.unmarshal.M,frame.envelope', 'enc_prim', 'dec_prim'], oracles=['c01']),
    'C02': dict(mods=['C02', 'C02Reencode'], thms=['C02_flags_wf', 'C02_flags_msb_first', 'C02_class_id', 'C02_roundtrip_generic', 'C02_header_roundtrip', 'C02_signed_flag_word', 'C02_cluster_id_default', 'C02_float_idempotent', 'C02_norm_invisible', 'C02_defaults_unset', 'C02_reencode_generic'],
                tie=['tieA_methods', 'tieA_struct_formats', 'tieA_struct_uses', 'tieA_envelope_struct_uses', 'tieA_content_header_struct_uses', 'tieA_frame_constants', 'tieA_constant_values', 'tieA_codec_calls'],
                lanes=['props', 'frame/frame.marshal.H,frame.unmarshal.H,frame.envelope'], oracles=['c02']),
    'C03': dict(mods=['C03'], thms=['C03_value_roundtrip', 'C03_table_roundtrip', 'C03_array_roundtrip', 'C03_type_preserved', 'C03_int_bool_exact', 'C03_keys_preserved', 'C03_decimal_value'],
                tie=['tieA_table_mapping', 'tieA_struct_formats', 'tieA_struct_uses', 'tieA_ladder', 'tieA_codec_calls'],
                lanes=['enc_prim', 'enc_tint', 'enc_value:ok', 'dec_prim', 'dec_value:wellformed', 'cpython_utf8', 'cpython_f32'], oracles=['c03']),
    'C04': dict(mods=['C04', 'C04Frame'], thms=['C04_method_frame', 'C04_header_frame', 'C04_body_frame', 'C04_value_refines_spec', 'C04_value_sorted', 'C04_args_refine_spec', 'C04_envelope_layout', 'C04_header_payload_layout', 'C04_fixed_frames'],
                tie=['tieA_methods', 'tieA_struct_formats', 'tieA_struct_uses', 'tieA_envelope_struct_uses', 'tieA_protocol_header_struct_uses', 'tieA_content_header_struct_uses', 'tieA_frame_constants', 'tieA_constant_values', 'tieA_ladder', 'tieA_codec_calls'],
                lanes=['enc_prim', 'enc_tint', 'enc_value:ok', 'enc_value:any', 'args/args.marshal', 'props/props.marshal', 'frame/frame.marshal', 'cpython_sort', 'spec/spec.enc,spec.args'], oracles=['c04']),
    'C05': dict(mods=['C05', 'C05Frame', 'C05Refuse'], thms=['C05_header_timestamp_refused', 'C05_header_timestamp_seconds', 'C05_decode_agrees_value', 'C05_decode_agrees_table', 'C05_parse_wire', 'C05_no_validation', 'C05_timestamp_refused', 'C05_timestamp_ms', 'C05_method_args', 'C05_method_frame', 'C05_header_frame'],
                tie=['tieA_table_mapping', 'tieA_methods', 'tieA_struct_formats', 'tieA_struct_uses', 'tieA_content_header_struct_uses', 'tieA_codec_calls'],
                lanes=['dec_prim', 'dec_value:wellformed', 'args/args.unmarshal', 'props/props.unmarshal,flags', 'frame/frame.unmarshal.M,frame.unmarshal.H', 'spec/spec.parse'], oracles=['c05']),
    'C06': dict(mods=['C06', 'C06Stream'], thms=['C06_stream_of_items', 'C06_prefix_determines', 'C06_envelope', 'C06_stream'],
                tie=['tieA_envelope_struct_uses', 'tieA_protocol_header_struct_uses', 'tieA_frame_constants', 'tieA_constant_values'], lanes=['frame/frame.unmarshal,frame.envelope'], oracles=['c06']),
    'C07': dict(mods=['C07'], thms=['C07_prefix_rejected'],
                tie=['tieA_envelope_struct_uses', 'tieA_protocol_header_struct_uses', 'tieA_frame_constants', 'tieA_constant_values', 'tieA_frame_except_sites'], lanes=['frame/frame.envelope,frame.unmarshal.malformed'], oracles=['c07']),
    'C08': dict(mods=['C08', 'C08Cost'], thms=['C08_cost_same_result', 'C08_steps_linear', 'C08_table_steps_linear', 'C08_value_fuel_suffices', 'C08_table_fuel_suffices', 'C08_value_fuel_monotone', 'C08_unmarshal_terminates', 'C08_progress', 'C08_flags_progress', 'C08_result_size'],
                tie=['tieA_table_mapping', 'tieA_content_header_struct_uses'], lanes=['dec_value:malformed', 'props/flags,props.unmarshal', 'frame/frame.unmarshal.malformed'], oracles=['c08']),
    'C09': dict(mods=['C09'], thms=['C09_inner_errors', 'C09_only_unmarshaling'],
                tie=['tieA_frame_except_sites', 'tieA_decode_except_sites'], lanes=['dec_prim', 'dec_value:malformed', 'frame/frame.unmarshal.malformed'], oracles=['c09']),
    'C10': dict(mods=['C10', 'C10Props'], thms=['C10_value', 'C10_accepts_only_encodable', 'C10_field_table_domain', 'C10_args', 'C10_props'],
                tie=['tieA_guards', 'tieA_guard_packers', 'tieA_ladder', 'tieA_struct_formats', 'tieA_struct_uses', 'tieA_codec_calls'],
                lanes=['enc_prim', 'enc_tint', 'enc_value:any', 'args', 'props/props.marshal,props.unmarshal'], oracles=['c10']),
    'C11': dict(mods=['C11', 'C11Nested'], thms=['C11_first_fit', 'C11_legacy', 'C11_domain', 'C11_fixed_width_guards', 'C11_fixed_width_accept', 'C11_nested_same_chain', 'C11_toggle', 'C11_legacy_tags_nested', 'C11_full_tags_nested', 'C11_adjacent_independent'],
                tie=['tieA_ladder', 'tieA_guards', 'tieA_guard_packers', 'tieA_toggle'], lanes=['enc_tint', 'enc_prim/enc.prim.short_int,enc.prim.short_uint,enc.prim.long_int,enc.prim.long_uint,enc.prim.long_long_int', 'api_toggle'], oracles=['c11']),
    'C12': dict(mods=['C12'], thms=['C12_perm_invariant', 'C12_table_perm_invariant', 'C12_sorted', 'C12_sorted_perm', 'C12_order_total', 'C12_order_antisymm'],
                tie=['tieA_no_shared_mutation'], lanes=['enc_value:ok', 'cpython_sort'], oracles=['c12']),
    'C13': dict(mods=['C13', 'C13Ctor', 'C13Props'], thms=['C13_constructor_iff', 'C13_unconstrained_accepts', 'C13_props_constructor_iff', 'C13_rules_eq_spec', 'C13_constrained_classes_exist', 'C13_ctor_validates', 'C13_char_class', 'C13_char_count', 'C13_validate_iff', 'C13_marshal_revalidates', 'C13_decode_never_validates'],
                tie=['tieA_domain_regex', 'tieA_runtime_agrees'], lanes=['validate', 'ctor', 'ctor_args', 'cpython_regex'], oracles=['c13']),
    'C14': dict(mods=['C14'], thms=['C14_catalogue_eq_spec', 'C14_count', 'C14_index', 'C14_keys_distinct', 'C14_sync_iff_replies', 'C14_replies_same_class', 'C14_python_names', 'C14_properties_eq_spec', 'C14_construct_defaults'],
                tie=['tieA_runtime_agrees'], lanes=['ctor'], oracles=['c14']),
    'C15': dict(mods=['C15', 'C15Wire'], thms=['C15_decode_wire', 'C15_naive_as_utc', 'C15_aware_instant', 'C15_encoding', 'C15_struct_time', 'C15_decode_utc', 'C15_roundtrip_instant'],
                tie=['tieA_time_calls'], lanes=['enc_prim/enc.prim.timestamp', 'dec_prim/dec.prim.timestamp'], oracles=['c15']),
    'C16': dict(mods=['C16'], thms=['C16_history', 'C16_schedule', 'C16_no_trace'],
                tie=['tieA_no_shared_mutation', 'tieA_no_hidden_state', 'tieA_toggle'], lanes=['api_seq', 'ctor'], oracles=['c16']),
    'C17': dict(mods=['C17'], thms=['C17_reply_codes', 'C17_class_mapping', 'C17_code_list', 'C17_constants'],
                tie=['tieA_reply_codes', 'tieA_class_mapping', 'tieA_constant_values', 'tieA_runtime_agrees'], lanes=[], oracles=['c17']),
    'C18': dict(mods=['C18'], thms=['C18_body', 'C18_empty_body', 'C18_heartbeat', 'C18_protocol_header'],
                tie=['tieA_envelope_struct_uses', 'tieA_protocol_header_struct_uses', 'tieA_frame_constants', 'tieA_constant_values'], lanes=['frame/frame.marshal.B,frame.marshal.P,frame.marshal.HB,frame.unmarshal.B,frame.unmarshal.P,frame.unmarshal.HB,frame.envelope'], oracles=['c18']),
    'C19': dict(mods=['C19', 'C13Props'], thms=['C19_slots_distinct', 'C19_mapping', 'C19_amqp_type', 'C19_constructed_iter'],
                tie=[], lanes=['ctor', 'mapping'], oracles=['c19']),
    'C20': dict(mods=['C20'], thms=['C20_short', 'C20_parts', 'C20_ranges', 'C20_peek_agrees', 'C20_body_accepted'],
                tie=['tieA_envelope_struct_uses', 'tieA_frame_constants', 'tieA_constant_values', 'tieA_frame_except_sites'], lanes=['frame/frame.parts,frame.envelope,frame.unmarshal'], oracles=['c20']),
}

TRUSTED_BASE = [
    "Lean 4.33.0 kernel (lake build); thorough tier additionally leanchecker on the compiled modules",
    "axioms allowed: propext, Classical.choice, Quot.sound (audited with #print axioms every run); no sorry/native_decide/bv_decide/own axioms",
    "tools/translate.py + translate_more.py (Python ast -> Pamqp/Generated/*.lean), regenerated every run; tools/introspect.py (data tables read from the imported module in a child interpreter: fallback where the source spells a table in a way the ast reader does not evaluate, cross-check everywhere else)",
    "shape obligations (which function uses which struct member / except clause / codec / time call; guard packers) are advisory: when one fails the lanes and the search run at an intensified budget and the verdict rests on the hard obligations, the lanes and the search",
    "hand-written model Pamqp/Model/*.lean of encode.py decode.py base.py frame.py header.py body.py heartbeat.py, tied to the code by the correspondence lanes (sampled)",
    "CPython primitives modelled, not verified: struct, UTF-8 codec, float->single rounding, Decimal, datetime/calendar, re, sorted, dict",
    "hand-transcribed specification tables Pamqp/Spec/Tables.lean (tools/spec_tables.py) and domain predicates Pamqp/Spec/Defs.lean",
    "the harness: generators, canonicalisers, driver parser/printer, Lean compiler for the driver executable; the failing-input search (oracles) is sampling and takes its input domain from the specification transcription; it alternates ambient state (logging configuration, decimal context) around calls and inspects child interpreters started with other flags / environments / time zones - none of this is proof, all of it only searches for failing inputs or validates the model",
]


class Ctx:
    pass


def sh(cmd, cwd=None, timeout=3600, env=None):
    p = subprocess.run(cmd, cwd=cwd, stdout=subprocess.PIPE, stderr=subprocess.STDOUT, timeout=timeout, env=env)
    return p.returncode, p.stdout.decode('utf-8', 'replace')


class Lock:
    def __enter__(self):
        os.makedirs(os.path.join(LEAN, '.lake'), exist_ok=True)
        self.f = open(os.path.join(LEAN, '.lake', 'verif.lock'), 'w')
        fcntl.flock(self.f, fcntl.LOCK_EX)
        return self

    def __exit__(self, *a):
        fcntl.flock(self.f, fcntl.LOCK_UN)
        self.f.close()


def tie_module(name):
    """tieA_frame_struct_uses -> Pamqp.Props.TieA.FrameStructUses"""
    return 'Pamqp.Props.TieA.' + ''.join(w.capitalize() for w in name[len('tieA_'):].split('_'))


# Tie-A obligations come in two kinds. MODEL-PARAMETER obligations say that the data the model is instantiated
# with (catalogue, constants, table mapping, struct formats, integer ladder and guards, reply codes, regexes) and
# the absence of hidden state were read from the current source: they are hard obligations. SHAPE obligations
# say that the source still has the syntactic shape it had when the model was written (which function uses which
# struct member, which except clause covers which statement, which time / codec call appears where): a harmless
# restructuring changes them although model and code still agree. A failing shape obligation is therefore not a
# verdict; it makes the check run its correspondence lanes and its failing-input search at the thorough budget
# (like an edited function, DESIGN 14.6) and is reported as ADVISORY.
SHAPE_TIES = {'tieA_struct_uses', 'tieA_envelope_struct_uses', 'tieA_protocol_header_struct_uses',
              'tieA_content_header_struct_uses', 'tieA_frame_except_sites', 'tieA_decode_except_sites',
              'tieA_codec_calls', 'tieA_time_calls', 'tieA_frame_constants', 'tieA_guard_packers'}
# the integer ladder and the range guards are what C11 is about: hard there. For the other properties that rely on
# them (C03, C04, C10: values round-trip / refine the grammar / are never corrupted) the hand-written model's ladder is
# tied to the code by the `enc_tint` / `enc_prim` lanes as well, so there the syntactic reading is a shape obligation.
SOFT_FOR = {'C03': {'tieA_ladder', 'tieA_guards'}, 'C04': {'tieA_ladder', 'tieA_guards'}, 'C10': {'tieA_ladder', 'tieA_guards'}}
SKIP_TIES = set()      # shape obligations that did not build in this run


def is_shape(pid, t):
    return t in SHAPE_TIES or t in SOFT_FOR.get(pid, ())


def lean_targets(pid, shape=None):
    """shape=None: everything that built; False: hard targets only; True: shape obligations only"""
    reg = REGISTRY[pid]
    ties = [t for t in reg['tie'] if t not in SKIP_TIES]
    if shape is False:
        ties = [t for t in ties if not is_shape(pid, t)]
    if shape is True:
        return [tie_module(t) for t in ties if is_shape(pid, t)]
    return [T + m for m in reg['mods']] + [tie_module(t) for t in ties]


def prepare(pid, need_driver=True):
    """translate + build; -> dict(build_ok, driver_ok, log, broken_modules)"""
    info = {'translate': None, 'build_ok': True, 'driver_ok': True, 'log': '', 'failed_modules': []}
    with Lock():
        rc, out = sh([sys.executable, '-B', os.path.join(HERE, 'translate.py')], cwd=ROOT)
        info['translate'] = out.strip().splitlines()[-1] if out.strip() else ''
        if rc != 0:
            info['build_ok'] = False
            info['log'] = 'translator failed:\n' + out[-3000:]
            info['translator_failed'] = True
            return info
        targets = lean_targets(pid, shape=False)
        rc, out = sh(['lake', 'build'] + targets, cwd=LEAN)
        if rc != 0:
            info['build_ok'] = False
            info['log'] = out[-6000:]
            info['failed_modules'] = sorted(set(re.findall(r'^- (Pamqp[\w.]*)', out, re.M)))
        info['advisory'] = []
        for t in [t for t in REGISTRY[pid]['tie'] if is_shape(pid, t)]:
            rc3, out3 = sh(['lake', 'build', tie_module(t)], cwd=LEAN)
            if rc3 != 0:
                SKIP_TIES.add(t)
                info['advisory'].append({'obligation': t, 'detail': first_error(out3)[:600]})
        if need_driver:
            rc2, out2 = sh(['lake', 'build', 'driver'], cwd=LEAN)
            if rc2 != 0:
                info['driver_ok'] = False
                info['log'] += '\n' + out2[-3000:]
    return info


def audit(pid, work):
    """#print axioms for every theorem of the property + forbidden-construct scan of the sources"""
    reg = REGISTRY[pid]
    names = [T + t for t in reg['thms'] + [t for t in reg['tie'] if t not in SKIP_TIES]]
    src = ''.join('import %s\n' % m for m in lean_targets(pid))
    src += ''.join('#print axioms %s\n' % n for n in names)
    path = os.path.join(work, 'Audit_%s.lean' % pid)
    with open(path, 'w') as f:
        f.write(src)
    rc, out = sh(['lake', 'env', 'lean', path], cwd=LEAN)
    res = {}
    for m in re.finditer(r"'([\w.]+)' depends on axioms: \[([^\]]*)\]", out.replace('\n', ' ')):
        res[m.group(1)] = sorted(a.strip() for a in m.group(2).split(',') if a.strip())
    for m in re.finditer(r"'([\w.]+)' does not depend on any axioms", out):
        res[m.group(1)] = []
    missing = [n for n in names if n not in res]
    bad = {n: a for n, a in res.items() if set(a) - STD_AXIOMS}
    hits = []
    for rel in sorted(transitive_sources(lean_targets(pid))):
        text = open(os.path.join(LEAN, rel), encoding='utf-8').read()
        text = re.sub(r'/-.*?-/', '', text, flags=re.S)
        text = re.sub(r'--[^\n]*', '', text)
        for m in FORBIDDEN.finditer(text):
            hits.append('%s: %s' % (rel, m.group(0).strip()))
    return {'axioms': res, 'missing': missing, 'nonstandard': bad, 'forbidden': hits, 'raw': out[-1500:] if (missing or rc != 0) else ''}


def transitive_sources(mods):
    """source files (relative to lean/) of the given modules and everything of this project they import"""
    seen, todo = set(), list(mods)
    while todo:
        m = todo.pop()
        rel = m.replace('.', '/') + '.lean'
        if rel in seen or not os.path.exists(os.path.join(LEAN, rel)):
            continue
        seen.add(rel)
        for line in open(os.path.join(LEAN, rel), encoding='utf-8'):
            mm = re.match(r'\s*import\s+(Pamqp[\w.]*)', line)
            if mm:
                todo.append(mm.group(1))
    return seen


def write_replay(pid, payload):
    d = os.path.join(OUT, 'replays', pid)
    os.makedirs(d, exist_ok=True)
    h = hashlib.sha1(json.dumps(payload, sort_keys=True, default=str).encode()).hexdigest()[:16]
    path = os.path.join(d, h + '.json')
    with open(path, 'w') as f:
        json.dump(payload, f, indent=1, default=str)
    return os.path.relpath(path, OUT)


def load_known():
    try:
        with open(os.path.join(ROOT, 'known_findings.json')) as f:
            return json.load(f)
    except FileNotFoundError:
        return {'known': [], 'fixed': []}


def is_known(known, pid, viol):
    for k in known.get('known', []):
        if k.get('property') == pid and k.get('match') and k['match'] in json.dumps(viol, default=str):
            return k
    return None


def run_lanes(ctx, names):
    import lanes
    out = []
    for name in names:
        name, _, keep = name.partition('/')
        parts = name.split(':')
        fn = getattr(lanes, 'lane_' + parts[0])
        res = fn(ctx, *parts[1:])
        res = res if isinstance(res, list) else [res]
        if keep:      # only these sub-lanes are what the property depends on
            ks = keep.split(',')
            res = [r for r in res if any(r['lane'] == k or r['lane'].startswith(k + '.') for k in ks)]
        out += res
    return out


def main():
    ap = argparse.ArgumentParser()
    ap.add_argument('pid')
    ap.add_argument('--tier', default=os.environ.get('VERIF_TIER', 'quick'), choices=['quick', 'thorough'])
    ap.add_argument('--replay')
    args = ap.parse_args()
    pid = args.pid
    if pid not in REGISTRY:
        print('unknown property', pid)
        return 2
    t0 = time.time()
    seed = int(os.environ.get('VERIF_SEED', '0') or 0)
    work = os.path.join(ROOT, '.work', '%d' % os.getpid())
    os.makedirs(work, exist_ok=True)
    try:
        return run(pid, args, seed, work, t0)
    finally:
        import shutil
        shutil.rmtree(work, ignore_errors=True)


def run(pid, args, seed, work, t0):
    reg = REGISTRY[pid]
    if args.replay:
        return do_replay(pid, args.replay)
    prep = prepare(pid, need_driver=bool(reg['lanes']))
    if prep.get('translator_failed'):
        print('translator failed (infrastructure):\n' + prep['log'][-1500:])
        return 2
    try:
        gen_json = json.load(open(os.path.join(LEAN, 'Pamqp', 'Generated', 'generated.json')))
    except Exception as e:  # noqa
        print('cannot read generated.json: %r' % e)
        return 2
    try:
        import gen
        import oracles
        import spec_tables
        import real  # noqa: F401
    except Exception as e:  # noqa
        # the package itself does not import: nothing can be decided about behaviour
        import traceback
        traceback.print_exc()
        print('pamqp (or the harness) failed to import: %r' % e)
        return 2
    ctx = Ctx()
    ctx.thorough = args.tier == 'thorough'
    ctx.exhaustive_versions = ctx.thorough
    ctx.generated = gen_json
    literals = mined_literals()
    ctx.literals = literals
    gen.MINED_STRINGS[:] = mined_strings()
    # which modelled functions differ (up to renaming / comments) from the tree the model was written for
    changed_fns = changed_functions(pid, gen_json)
    ctx.byte_literals = mined_byte_literals()
    ctx.gen = gen.Gen(seed, literals)
    broken = []            # broken obligations / lanes
    # ---- proof obligations
    aud = {'axioms': {}, 'missing': [], 'nonstandard': {}, 'forbidden': []}
    if not prep['build_ok']:
        broken.append({'kind': 'build', 'what': 'lake build of %s failed' % ', '.join(prep['failed_modules'] or reg['mods']),
                       'detail': first_error(prep['log'])})
    else:
        aud = audit(pid, work)
        if aud['missing']:
            broken.append({'kind': 'audit', 'what': 'theorems not found: %s' % ', '.join(aud['missing']), 'detail': aud['raw']})
        if aud['nonstandard']:
            broken.append({'kind': 'audit', 'what': 'non-standard axioms', 'detail': json.dumps(aud['nonstandard'])})
        if aud['forbidden']:
            broken.append({'kind': 'audit', 'what': 'forbidden constructs in the Lean sources', 'detail': '; '.join(aud['forbidden'][:10])})
    advisory = prep.get('advisory') or []
    obligations = len(reg['thms']) + len(reg['tie']) - len(advisory)
    discharged = sum(1 for t in reg['thms'] + [t for t in reg['tie'] if t not in SKIP_TIES] if (T + t) in aud['axioms'] and not (set(aud['axioms'][T + t]) - STD_AXIOMS)) \
        if prep['build_ok'] and not aud['forbidden'] else 0
    # ---- lanes (ambient state - logging configuration, decimal context - alternates across the calls into the library)
    real.LOGMODE = 'mixed'
    real.DECMODE = 'mixed'
    lane_results = []
    lane_hangs = []
    if reg['lanes']:
        if prep['driver_ok']:
            try:
                ctx.gen = gen.Gen(seed, literals)
                lane_results = run_lanes(ctx, reg['lanes'])
            except real.GiveUp as e:
                broken.append({'kind': 'lane', 'what': 'correspondence lanes abandoned, calls into pamqp hang: %s' % str(e)[:400], 'detail': real.HANGS[:3]})
                lane_hangs = list(real.HANGS)
            except Exception as e:  # noqa
                import traceback
                traceback.print_exc()
                broken.append({'kind': 'lane', 'what': 'lane run failed: %r' % e, 'detail': ''})
        else:
            broken.append({'kind': 'build', 'what': 'model driver does not build', 'detail': first_error(prep['log'])})
    for lr in lane_results:
        if lr['disagreements']:
            broken.append({'kind': 'lane', 'what': 'correspondence lane %s: %d disagreement(s) between the model and the real code'
                           % (lr['lane'], len(lr['disagreements'])), 'detail': lr['disagreements'][:5]})
    # ---- oracle = failing-input search on the real code. The oracles take their input domain (classes,
    # argument types, constraints) from the specification transcription, not from the translated
    # commands.py: what counts as a valid input must not move with the code under examination.
    ctx.generated = dict(ctx.generated, catalogue=spec_tables.catalogue())
    ctx.gen = gen.Gen(seed + 1000003, literals)
    real.LOGMODE = 'mixed'      # calls alternate between default logging and DEBUG enabled for pamqp's loggers
    real.DECMODE = 'mixed'      # ... and cycle through decimal contexts (default, 3 digits, trapping Inexact / Rounded)
    results = []
    gave_up = None
    for o in reg['oracles']:
        try:
            real.HANGS.clear()
            real.HANG_CALLS.clear()
            results.append(getattr(oracles, 'oracle_' + o)(ctx))
        except real.GiveUp as e:
            gave_up = str(e)
    if gave_up:
        # calls into the real code do not return: for C08 that IS the violation, for the others the
        # property can no longer be examined
        r = oracles.Result('hang')
        r.evaluations = 1
        # a call into the library that does not return within its deadline (3 of them: the search was abandoned) is a
        # failing input of whichever property was being examined: no bytes, no frame, no exception were produced
        r.violation('a call into the library does not return within its deadline' if pid != 'C08' else 'decoding does not terminate within its deadline',
                    dict(oracles.hang_replay(), calls=real.HANGS[:3]), 'returns or raises', gave_up)
        results.append(r)
    if (changed_fns or advisory) and not broken and not gave_up and not any(r.violations for r in results) and not ctx.thorough:
        # the code this property is anchored in was edited (or no longer has the shape the model was written
        # against): compare model and code, and search for a failing input, at the thorough budget before
        # saying that the property still holds
        broken_before = list(broken)
        ctx.thorough = True
        ctx.exhaustive_versions = False
        ctx.sweep = False
        if advisory and reg['lanes'] and prep['driver_ok']:
            try:
                ctx.generated = gen_json
                ctx.gen = gen.Gen(seed + 4000003, literals)
                more = run_lanes(ctx, reg['lanes'])
                lane_results += [dict(l, lane=l['lane'] + ' (thorough)') for l in more]
                for lr in more:
                    if lr['disagreements']:
                        broken.append({'kind': 'lane', 'what': 'correspondence lane %s (thorough budget): %d disagreement(s) between the model and the real code'
                                       % (lr['lane'], len(lr['disagreements'])), 'detail': lr['disagreements'][:5]})
            except real.GiveUp as e:
                broken.append({'kind': 'lane', 'what': 'correspondence lanes abandoned, calls into pamqp hang: %s' % str(e)[:400], 'detail': real.HANGS[:3]})
            ctx.generated = dict(gen_json, catalogue=spec_tables.catalogue())
        ctx.gen = gen.Gen(seed + 3000003, literals)
        for o in reg['oracles']:
            try:
                results.append(getattr(oracles, 'oracle_' + o)(ctx))
            except real.GiveUp as e:
                gave_up = str(e)
        ctx.thorough = False
    if broken and not gave_up and not any(r.violations for r in results) and not ctx.thorough:
        # an obligation broke: widen the search before concluding that no failing input exists
        ctx.thorough = True
        ctx.exhaustive_versions = False
        ctx.gen = gen.Gen(seed + 2000003, literals)
        for o in reg['oracles']:
            results.append(getattr(oracles, 'oracle_' + o)(ctx))
        ctx.thorough = False
    if pid == 'C08' and lane_hangs and not any(r.violations for r in results):
        # a decoder call that does not return IS a failing input of C08, whichever lane met it
        r = oracles.Result('lane-hang')
        r.evaluations = len(lane_hangs)
        r.violation('a decoder call does not terminate within its deadline', dict(oracles.hang_replay(), calls=lane_hangs[:3]),
                    'returns or raises', lane_hangs[0])
        results.append(r)
    known = load_known()
    viols = []
    for r in results:
        for v in r.violations:
            k = is_known(known, pid, v)
            if k:
                print('KNOWN-FINDING: property=%s %s' % (pid, k.get('what', '')))
            else:
                viols.append(v)
    real.LOGMODE = 'default'
    real.DECMODE = 'default'
    for v in viols[:3]:
        # which logging configuration does the recorded case need to reproduce? (kept in the replay file)
        rep = v.get('replay') or {}
        if rep.get('fn') in oracles.REPLAYS:
            found = False
            for dmode in ('default', 'prec3', 'traps', 'mixed'):
                for mode in ('default', 'debug', 'mixed'):
                    try:
                        if oracles.replay(dict(rep, logging=mode, decimal_context=dmode)):
                            rep['logging'] = mode
                            rep['decimal_context'] = dmode
                            found = True
                            break
                    except Exception:  # noqa
                        pass
                if found:
                    break
            if not found:
                rep['reproduces'] = 'not in isolation: the case depends on what ran before it in this process'
    # ---- evidence
    evals = sum(r.evaluations for r in results) + sum(l['evaluations'] for l in lane_results)
    distinct = sum(len(r.distinct) for r in results)
    samples = []
    for r in results:
        samples += r.samples[:2]
    samples += [{'obligation': T + t, 'axioms': aud['axioms'].get(T + t)} for t in (reg['thms'] + reg['tie'])[:3]]
    verdict_violation = bool(viols) or bool(broken)
    evidence = {
        'property_id': pid, 'tier': args.tier, 'seed': seed, 'level': 'proof',
        'coverage': {
            'obligations': obligations, 'discharged': discharged,
            'checker_cmd': 'cd lean && lake build %s && lake env lean <#print axioms of every listed theorem>' % ' '.join(lean_targets(pid)),
            'trusted_base': TRUSTED_BASE,
            'theorems': {T + t: aud['axioms'].get(T + t) for t in reg['thms']},
            'tie_a_obligations': {T + t: aud['axioms'].get(T + t) for t in reg['tie']},
            'translate': prep['translate'],
            'evaluations': evals, 'distinct_nontrivial': distinct,
            'rule': 'oracle cases are hashed on their canonical input; empty / default inputs are counted as trivial and excluded; lane evaluations are counted in evaluations only',
            'samples': samples,
            'lanes': [{k: v for k, v in l.items() if k not in ('disagreements',)} | {'disagreements': len(l['disagreements'])} for l in lane_results],
            'oracles': [r.summary() for r in results],
            'broken_obligations': broken,
            'advisory_shape_obligations': advisory,
            'intensified': bool((changed_fns or advisory) and args.tier == 'quick'),
            'exhaustive': pid in ('C14', 'C17'),
            'mined_literals': len(literals),
            'changed_functions_vs_baseline': changed_fns,
        },
        'assumptions': TRUSTED_BASE,
        'wall_s': round(time.time() - t0, 2),
        'violations': len(viols) + (1 if broken and not viols else 0),
    }
    if ctx.thorough and prep['build_ok']:
        rc, out = sh(['lake', 'env', 'leanchecker'] + [T + m for m in reg['mods']], cwd=LEAN, timeout=1800)
        evidence['coverage']['leanchecker'] = 'ok' if rc == 0 else out[-500:]
        if rc != 0:
            broken.append({'kind': 'audit', 'what': 'leanchecker rejected the compiled modules', 'detail': out[-800:]})
            verdict_violation = True
    evidence['wall_s'] = round(time.time() - t0, 2)
    os.makedirs(os.path.join(OUT, 'evidence'), exist_ok=True)
    with open(os.path.join(OUT, 'evidence', pid + '.json'), 'w') as f:
        json.dump(evidence, f, indent=1, default=str)
    # ---- verdict
    if viols:
        v = viols[0]
        path = write_replay(pid, {'property': pid, 'kind': 'oracle', 'violation': v, 'seed': seed, 'tier': args.tier,
                                  'broken_obligations': broken, 'more': viols[1:10]})
        print('%s: the property fails on the real code: %s' % (pid, v['what']))
        print('  expected: %s' % str(v.get('expected'))[:300])
        print('  actual:   %s' % str(v.get('actual'))[:300])
        print('VIOLATION property=%s replay=%s' % (pid, path))
        return 1
    if broken:
        path = write_replay(pid, {'property': pid, 'kind': 'obligation', 'broken': broken, 'seed': seed, 'tier': args.tier,
                                  'note': 'a proof obligation or correspondence lane this property depends on no longer checks; '
                                          'the search on the real code (quick and thorough generators) found no input on which the property fails'})
        for b in broken:
            print('%s: broken: %s' % (pid, b['what']))
            if b.get('detail'):
                print('   ' + (json.dumps(b['detail'], default=str) if not isinstance(b['detail'], str) else b['detail'])[:1200])
        print('VIOLATION property=%s replay=%s no-failing-input-found' % (pid, path))
        return 1
    for r in results:
        for n_ in r.notes:
            if 'failed' in n_ or 'not reproducible' in n_ or 'raised' in n_:
                print('NOTE: %s: %s: %s' % (pid, r.name, n_[:300]))
    for a in advisory:
        print('ADVISORY: %s: shape obligation %s no longer matches the source (restructured code); lanes and failing-input '
              'search were run at the thorough budget and found no difference' % (pid, a['obligation']))
    print('%s ok: %d/%d obligations, %d lane evaluations, %d oracle cases (%d distinct), %.1fs'
          % (pid, discharged, obligations, sum(l['evaluations'] for l in lane_results), sum(r.evaluations for r in results), distinct, time.time() - t0))
    return 0


def first_error(log):
    m = re.search(r'error:.*', log, re.S)
    return (m.group(0) if m else log)[:1500]


def mined_strings():
    """short string literals (not docstrings, not log / error messages with spaces beyond a few words) of the
    current pamqp source: keys, type names, product names ... the code may treat specially"""
    import ast
    out = set()
    repo = os.environ.get('PAMQP_REPO', '/repo')
    for fn in ('encode.py', 'decode.py', 'base.py', 'frame.py', 'header.py', 'common.py', 'body.py', 'heartbeat.py', 'commands.py', 'constants.py', 'exceptions.py'):
        try:
            tree = ast.parse(open(os.path.join(repo, 'pamqp', fn), encoding='utf-8').read())
        except Exception:  # noqa
            continue
        docs = set()
        for n in ast.walk(tree):
            if isinstance(n, (ast.Module, ast.ClassDef, ast.FunctionDef, ast.AsyncFunctionDef)) and n.body and \
                    isinstance(n.body[0], ast.Expr) and isinstance(n.body[0].value, ast.Constant):
                docs.add(id(n.body[0].value))
        for n in ast.walk(tree):
            if isinstance(n, ast.Constant) and isinstance(n.value, str) and id(n) not in docs and 0 < len(n.value) <= 48 \
                    and n.value.count(' ') <= 2 and '\n' not in n.value:
                out.add(n.value)
    return sorted(out)


def mined_literals():
    """integer literals of the current pamqp source (feeds the boundary generators)"""
    import ast
    out = set()
    repo = os.environ.get('PAMQP_REPO', '/repo')
    for fn in ('encode.py', 'decode.py', 'base.py', 'frame.py', 'header.py', 'common.py', 'constants.py', 'body.py', 'heartbeat.py'):
        try:
            tree = ast.parse(open(os.path.join(repo, 'pamqp', fn), encoding='utf-8').read())
        except Exception:  # noqa
            continue
        for node in ast.walk(tree):
            if isinstance(node, ast.Constant) and isinstance(node.value, int) and not isinstance(node.value, bool):
                if abs(node.value) < 2 ** 70:
                    out.add(node.value)
    return sorted(out)


ANCHOR_MODULES = None


def changed_functions(pid, gen_json):
    """modelled functions (in the files the property is anchored in) whose normalised AST differs from
    baseline_fingerprints.json; only used to intensify the failing-input search, never a verdict"""
    global ANCHOR_MODULES
    try:
        base = json.load(open(os.path.join(ROOT, 'baseline_fingerprints.json')))
    except Exception:  # noqa
        return []
    if ANCHOR_MODULES is None:
        ANCHOR_MODULES = {}
        try:
            for line in open(os.path.join(ROOT, 'properties.jsonl')):
                p = json.loads(line)
                ANCHOR_MODULES[p['id']] = sorted(set(os.path.basename(f)[:-3] for f in p['anchors'].get('files', []) if f.endswith('.py')))
        except Exception:  # noqa
            pass
    cur = gen_json.get('fingerprints', {})
    mods = ANCHOR_MODULES.get(pid, [])
    out = []
    for k in sorted(set(base) | set(cur)):
        if base.get(k) != cur.get(k) and k.split('.')[0] in mods:
            out.append(k)
    return out


def mined_byte_literals():
    """bytes literals of the current pamqp source (prefixes / suffixes for buffer generators)"""
    import ast
    out = set()
    repo = os.environ.get('PAMQP_REPO', '/repo')
    for fn in ('frame.py', 'header.py', 'constants.py', 'heartbeat.py', 'body.py', 'decode.py', 'encode.py', 'base.py'):
        try:
            tree = ast.parse(open(os.path.join(repo, 'pamqp', fn), encoding='utf-8').read())
        except Exception:  # noqa
            continue
        for node in ast.walk(tree):
            if isinstance(node, ast.Constant) and isinstance(node.value, bytes) and 1 <= len(node.value) <= 8:
                out.add(node.value)
    return sorted(out)


def do_replay(pid, path):
    import oracles
    p = path if os.path.isabs(path) else os.path.join(OUT, path)
    data = json.load(open(p))
    if data.get('kind') == 'obligation':
        # a broken obligation / lane: replaying means running the check again with the recorded seed and tier
        import tempfile
        import shutil
        os.makedirs(os.path.join(ROOT, '.work'), exist_ok=True)
        tmp = tempfile.mkdtemp(prefix='replay_', dir=os.path.join(ROOT, '.work'))
        try:
            rc, out = sh([sys.executable, '-B', os.path.abspath(__file__), pid, '--tier', data.get('tier', 'quick')],
                         env=dict(os.environ, VERIF_SEED=str(data.get('seed', 0)), VERIF_OUT=tmp), timeout=3600)
        finally:
            shutil.rmtree(tmp, ignore_errors=True)
        lines = [l for l in out.splitlines() if l.startswith(pid + ':') or l.startswith('VIOLATION')]
        print('\n'.join(lines[:6]))
        if rc == 1:
            nf = ' no-failing-input-found' if any('no-failing-input-found' in l for l in lines) else ''
            print('VIOLATION property=%s replay=%s%s' % (pid, path, nf))
            return 1
        print('%s: the obligations and lanes check on the current tree' % pid)
        return 0 if rc == 0 else 2
    v = data['violation']
    if (v.get('replay') or {}).get('fn') not in oracles.REPLAYS:
        # the case cannot be isolated from what ran before it in its process (a history, a catalogue sweep, a thread
        # run): replaying it means running the same search again, with the recorded seed and tier
        import tempfile
        os.makedirs(os.path.join(ROOT, '.work'), exist_ok=True)
        tmp = tempfile.mkdtemp(prefix='replay_', dir=os.path.join(ROOT, '.work'))
        try:
            rc, out = sh([sys.executable, '-B', os.path.abspath(__file__), pid, '--tier', data.get('tier', 'quick')],
                         env=dict(os.environ, VERIF_SEED=str(data.get('seed', 0)), VERIF_OUT=tmp), timeout=3600)
        finally:
            import shutil
            shutil.rmtree(tmp, ignore_errors=True)
        lines = [l for l in out.splitlines() if l.startswith(pid + ':') or l.startswith('VIOLATION')]
        if rc == 1 and any(l.startswith('VIOLATION') and 'no-failing-input-found' not in l for l in lines):
            print('\n'.join(lines[:4]))
            print('%s: replay (the recorded search, seed %s) fails on the current tree' % (pid, data.get('seed', 0)))
            print('VIOLATION property=%s replay=%s' % (pid, path))
            return 1
        print('%s: replay (the recorded search, seed %s) passes on the current tree' % (pid, data.get('seed', 0)))
        return 0
    bad = oracles.replay(v['replay'])
    if bad:
        print('%s: replay fails: expected %s, actual %s' % (pid, str(bad[0])[:300], str(bad[1])[:300]))
        print('VIOLATION property=%s replay=%s' % (pid, path))
        return 1
    print('%s: replay passes on the current tree' % pid)
    return 0


if __name__ == '__main__':
    try:
        sys.exit(main())
    except subprocess.TimeoutExpired as e:
        print('timeout in infrastructure: %r' % e)
        sys.exit(2)
