"""Generators for the correspondence lanes and the property oracles.

Everything derives from one `random.Random(seed)`; boundary / exhaustive parts do not depend on
the seed.  `literals` (integer literals mined from the current pamqp source by the translator)
are added to the integer boundary set so that a boundary moved to a new place is probed there.
"""
import calendar
import datetime
import decimal
import itertools
import random
import struct
import time

D = decimal.Decimal
UTC = datetime.timezone.utc

WIDTH_BOUNDS = [0, 1, 127, 128, 255, 256, 32767, 32768, 65535, 65536, 2 ** 31 - 1, 2 ** 31, 2 ** 32 - 1,
                2 ** 32, 2 ** 63 - 1, 2 ** 63, 2 ** 64 - 1, 2 ** 64, -1, -128, -129, -32768, -32769,
                -2 ** 31, -2 ** 31 - 1, -2 ** 63, -2 ** 63 - 1]

CODEPOINTS = [0, 1, 0x20, 0x2f, 0x30, 0x41, 0x61, 0x7a, 0x7e, 0x7f, 0x80, 0xe9, 0x7ff, 0x800, 0xfff,
              0x20ac, 0xd7ff, 0xe000, 0xfffd, 0xffff, 0x10000, 0x1f600, 0x10ffff,
              # code points codecs / normalisers / case folding treat specially
              0xfeff, 0xfffe, 0x85, 0xa0, 0xad, 0x2028, 0x2029, 0x200b, 0x301, 0x130, 0x131, 0x17f, 0x212a, 0x2126, 0x212b,
              0xdf, 0x1e9e, 0xf900, 0x1100, 0xac00, 0xff21, 0x3a3, 0x3c2, 0x0a, 0x0d, 0x09, 0x1b]
# strings that a lossy transformation (BOM stripping, NFC/NFKC, case folding, newline translation) changes
TRICKY_STRINGS = ['\ufeff', '\ufeffabc', 'a\ufeff', 'e\u0301', 'cafe\u0301', '\u212b', '\u2126', '\uf900', '\u1100\u1161',
                  '\u0130', '\u017f', '\u212a', 'stra\u00dfe', 'a\r\nb', 'a\nb', '\x00', 'a\x00b', ' a ', 'a ', '\ta',
                  '\ud7ff', '\ue000', '\U0010ffff', 'A', 'a']
NAME_OK = "abzAZ059-_.:@#,/ "
NAME_BAD = "\n\t!$%&'()*+;<=>?[\\]^`{|}~\x00\x7f\xe9€\U0001f600"

# names a broker, a client library or an application gives to table entries and headers
WELL_KNOWN_KEYS = ['x-message-ttl', 'x-expires', 'x-max-length', 'x-max-length-bytes', 'x-max-priority', 'x-dead-letter-exchange',
                   'x-dead-letter-routing-key', 'x-queue-type', 'x-overflow', 'x-delivery-limit', 'x-death', 'x-match', 'CC', 'BCC',
                   'x-priority', 'x-stream-offset', 'x-cancel-on-ha-failover', 'x-single-active-consumer', 'x-queue-mode',
                   'x-queue-master-locator', 'x-ha-policy', 'alternate-exchange', 'x-delayed-type', 'x-delay', 'x-received-from',
                   'x-first-death-reason', 'x-first-death-queue', 'x-delivery-count', 'x-max-age', 'x-stream-max-segment-size-bytes',
                   'x-consumer-timeout', 'x-max-in-memory-length', 'x-quorum-initial-group-size', 'traceparent', 'content-type',
                   'product', 'version', 'platform', 'capabilities', 'information', 'copyright', 'cluster_name', 'connection_name',
                   'publisher_confirms', 'basic.nack', 'consumer_cancel_notify', 'exchange_exchange_bindings', 'count', 'reason',
                   'queue', 'time', 'exchange', 'routing-keys', 'original-expiration', 'X-MESSAGE-TTL', 'x-message-ttl ']
WELL_KNOWN_NAMES = ['amq.direct', 'amq.fanout', 'amq.topic', 'amq.headers', 'amq.match', 'amq.rabbitmq.reply-to', 'amq.rabbitmq.trace',
                    'amq.rabbitmq.log', 'amq.gen-', 'amq.', 'amq', 'amqp.x', 'AMQ.x', 'x.amq.y', 'amq.ctag-', 'celery', 'default', '/', 'mqtt-subscription-']
NAME_CHARS = 'abcdefghijklmnopqrstuvwxyzABCDEFGHIJKLMNOPQRSTUVWXYZ0123456789-_.:@#,/ '
# strings that mean something to a formatting / templating / escaping step
FORMAT_STRINGS = ['{}', '{0}', '{1}', '{x}', '{0.name}', '{!r}', '{:>10}', '{{}}', '{', '}', '%s', '%d', '%(x)s', '%', '%%', '${x}', '$x',
                  '\\', '\\n', '\\x00', "'", '"', '`', 'a{b}c', 'key {}', '{0}{1}']
MINED_STRINGS = []     # string literals of the current pamqp source (set by check.py): names the code treats specially

F32_EDGE_BITS = [
    0x0000000000000000, 0x8000000000000000, 0x3ff0000000000000, 0xbff0000000000000,
    0x7ff0000000000000, 0xfff0000000000000, 0x7ff8000000000000, 0x7ff0000000000001, 0xfff8000000000123,
    0x47efffffe0000000, 0x47efffffefffffff, 0x47effffff0000000, 0x47f0000000000000,   # around FLT_MAX
    0x36a0000000000000, 0x369fffffffffffff, 0x36a0000000000001, 0x3690000000000000,   # smallest subnormal
    0x3810000000000000, 0x380fffffffffffff, 0x380ffffff0000000,                       # smallest normal
    0x3ff0000010000000, 0x3ff0000010000001, 0x3ff0000030000000, 0x3ff000002fffffff,   # halfway cases
    0x400921fb54442d18, 0x0000000000000001, 0x000fffffffffffff, 0x7fefffffffffffff,
    0x3fb999999999999a, 0xc05edd2f1a9fbe77,
]


def f64(bits):
    return struct.unpack('>d', struct.pack('>Q', bits))[0]


class Gen:
    def __init__(self, seed, literals=()):
        self.r = random.Random(seed)
        b = set()
        for x in list(WIDTH_BOUNDS) + list(literals):
            for d in (-2, -1, 0, 1, 2):
                b.add(x + d)
                b.add(-x + d)
        self.int_bounds = sorted(b)

    # ---------------------------------------------------------------- scalars
    def integer(self, lo=None, hi=None):
        r = self.r
        k = r.random()
        if k < 0.55:
            v = r.choice(self.int_bounds)
        elif k < 0.7:
            v = r.randrange(-70000, 70001)
        elif k < 0.85:
            v = r.getrandbits(64) - 2 ** 63
        elif k < 0.93:
            v = (1 << r.randrange(0, 70)) + r.choice([-1, 0, 1])
            v = -v if r.random() < 0.4 else v
        else:
            v = r.getrandbits(r.choice([65, 80, 128])) * r.choice([1, -1])
        if lo is not None and not (lo <= v <= hi):
            v = r.choice([lo, hi, lo + 1, hi - 1, r.randrange(lo, hi + 1)])
            v = min(max(v, lo), hi)
        return v

    def codepoint(self, allow_surrogate=False):
        r = self.r
        k = r.random()
        if k < 0.35:
            c = r.randrange(0x20, 0x7f)
        elif k < 0.7:
            c = r.choice(CODEPOINTS)
        else:
            c = r.randrange(0, 0x110000)
        if 0xd800 <= c < 0xe000 and not allow_surrogate:
            c = 0xe000
        return c

    def string(self, maxlen=40, allow_surrogate=False):
        r = self.r
        k = r.random()
        if k < 0.1:
            return ''
        if k < 0.16:
            return r.choice(TRICKY_STRINGS)
        if k < 0.18:
            return r.choice(FORMAT_STRINGS + WELL_KNOWN_KEYS + MINED_STRINGS)[:maxlen]
        if k < 0.2:
            n = r.choice([1, 2, 127, 128, 129, 255, 256, 257])
            n = min(n, maxlen) if maxlen < n else n
            ch = chr(self.codepoint(allow_surrogate))
            return ch * n
        n = r.randrange(1, maxlen + 1)
        return ''.join(chr(self.codepoint(allow_surrogate)) for _ in range(n))

    def short_string(self):
        """<= 255 UTF-8 bytes, surrogate free, boundary heavy"""
        r = self.r
        k = r.random()
        if k < 0.25:
            ch = chr(r.choice([0x61, 0xe9, 0x20ac, 0x1f600]))
            width = len(ch.encode('utf-8'))
            n = 255 // width - r.choice([0, 0, 1, 2])
            return ch * max(n, 0)
        s = self.string(60)
        if k < 0.35:
            s = r.choice(TRICKY_STRINGS)
        while len(s.encode('utf-8')) > 255:
            s = s[:len(s) // 2]
        return s

    def key(self):
        """table key: <= 128 characters and <= 255 UTF-8 bytes"""
        r = self.r
        k = r.random()
        if k < 0.08:
            return ''
        if k < 0.2:
            return r.choice(['a', 'b', 'A', 'aa', 'ab', 'x-death', '\xe9', 'z' * 128, 'k' * 127, '€' * 85,
                             '\U0001f600' * 63, 'a\x00', 'a '])
        if k < 0.34:
            c = r.choice(WELL_KNOWN_KEYS if r.random() < 0.6 else (FORMAT_STRINGS + [m for m in MINED_STRINGS if 0 < len(m) <= 128]))
            return c if len(c.encode('utf-8', 'replace')) <= 255 else c[:60]
        n = r.randrange(1, 12)
        s = ''.join(chr(self.codepoint()) for _ in range(n))
        while len(s.encode('utf-8')) > 255:
            s = s[:-1]
        return s

    def decimal_ok(self):
        """scale 0..255, unscaled value in signed 32 bits"""
        r = self.r
        raw = r.choice([0, 1, -1, 15, -15, 2 ** 31 - 1, -2 ** 31, 2 ** 31 - 2, 10 ** 9, -10 ** 9 + 1,
                        r.randrange(-2 ** 31, 2 ** 31), r.randrange(-1000, 1000)])
        scale = r.choice([0, 0, 1, 2, 3, 7, 28, 29, 100, 254, 255, r.randrange(0, 256)])
        d = D(raw).scaleb(-scale) if scale else D(raw)
        if scale == 0 and raw and raw % 10 == 0 and r.random() < 0.5:
            d = D((int(raw < 0), tuple(int(c) for c in str(abs(raw) // 10)), 1))      # positive exponent
        if raw == 0 and r.random() < 0.3:
            d = D((r.choice([0, 1]), (0,), -scale))
        return d

    def decimal_any(self):
        r = self.r
        k = r.random()
        if k < 0.4:
            return self.decimal_ok()
        if k < 0.5:
            return D(r.choice(['NaN', 'Infinity', '-Infinity', '-NaN']))
        if k < 0.6:       # a short number plus a far-away tail: more digits than the context precision
            head = r.choice(['1.5', '0.2', '-7', '2147483647', '0.29', '12.34'])
            body = r.choice(['0', '9']) * r.choice([26, 27, 28, 29, 30, 40])
            tail = r.choice(['1', '9', '5', ''])
            return D(head + ('' if '.' in head else '.') + body + tail)
        sign = r.choice([0, 1])
        coeff = r.choice([0, 1, 15, 2 ** 31 - 1, 2 ** 31, 2 ** 31 + 1, 2 ** 32 - 1, 2 ** 32, 10 ** 10, 10 ** 27,
                          10 ** 28 + 1, 10 ** 30 + 7, r.getrandbits(40)])
        exp = r.choice([0, 1, 2, 9, 10, 11, 12, 30, -1, -2, -7, -255, -256, -257, -300, r.randrange(-300, 31)])
        return D((sign, tuple(int(c) for c in str(coeff)), exp))

    def float_any(self):
        r = self.r
        k = r.random()
        if k < 0.45:
            return f64(r.choice(F32_EDGE_BITS))
        if k < 0.6:
            return f64(r.getrandbits(64))
        if k < 0.8:   # in single range, with interesting low bits
            b = (r.getrandbits(1) << 63) | (r.randrange(896 - 30, 896 + 260) << 52) | (r.getrandbits(23) << 29) | \
                r.choice([0, 1 << 28, (1 << 28) + 1, (1 << 28) - 1, (1 << 29) - 1])
            return f64(b)
        return r.choice([0.1, -2.5, 3.14159, 1e10, -1e-10, 123456.789, 1e38, 3.4e38, 1e39, -1e300])

    def float_ok(self):
        """a float the single-precision encoder accepts (no OverflowError)"""
        while True:
            x = self.float_any()
            try:
                struct.pack('>f', x)
                return x
            except OverflowError:
                continue

    def instant_secs(self, lo=0, hi=2 ** 32 - 1):
        r = self.r
        k = r.random()
        if k < 0.5:
            v = r.choice([0, 1, 59, 60, 86399, 86400, 951782400, 1163089810, 2 ** 31 - 1, 2 ** 31, 2 ** 32 - 2,
                          2 ** 32 - 1, 1711846800, 1729994400, 68169600])
        else:
            v = r.randrange(lo, hi + 1)
        return min(max(v, lo), hi)

    def tzinfo(self):
        r = self.r
        mins = r.choice([0, 0, 60, -60, 330, 345, -300, -660, 765, 840, -720, 1, -1, 90])
        if r.random() < 0.15:      # local-mean-time style offsets: not a whole number of minutes
            return datetime.timezone(datetime.timedelta(seconds=r.choice([1, -1, 30, -30, -2670, 1172, 3599, -3599, 86399, -86399, 20 * 3600 + 7])))
        return datetime.timezone(datetime.timedelta(minutes=mins))

    def datetime_ok(self):
        """between the epoch and 2106-02-07 06:28:15 UTC (as an instant)"""
        r = self.r
        secs = self.instant_secs()
        micro = r.choice([0, 0, 1, 500000, 999999])
        kind = r.random()
        base = datetime.datetime(1970, 1, 1) + datetime.timedelta(seconds=secs, microseconds=micro)
        if kind < 0.4:
            return base                                         # naive: read as UTC
        if kind < 0.85:
            tz = self.tzinfo() if r.random() < 0.7 else UTC
            return base.replace(tzinfo=UTC).astimezone(tz)        # aware, same instant
        return time.struct_time(time.gmtime(secs))

    def datetime_any(self):
        r = self.r
        k = r.random()
        if k < 0.5:
            return self.datetime_ok()
        micro = r.choice([0, 1, 500000, 999000])
        if k < 0.7:       # pre-epoch
            secs = -r.choice([0, 1, 2, 59, 86400, 10 ** 9, 62135596800 - 86400 * 2])
            micro = r.choice([0, 1, 500000, 999999])
            base = datetime.datetime(1970, 1, 1) + datetime.timedelta(seconds=secs, microseconds=-micro)
        else:             # after 2106
            secs = r.choice([2 ** 32, 2 ** 32 + 1, 2 ** 33, 253402300799, 253402300799 - 86400 * 2,
                             r.randrange(2 ** 32, 253402300799 - 86400 * 2)])
            base = datetime.datetime(1970, 1, 1) + datetime.timedelta(seconds=secs, microseconds=micro)
        if r.random() < 0.5:
            return base
        try:
            return base.replace(tzinfo=UTC).astimezone(self.tzinfo())
        except OverflowError:
            return base.replace(tzinfo=UTC)

    # ---------------------------------------------------------------- field values
    exotic = False      # oracles that take any value switch this on: subclass instances of the value types

    def exotic_of(self, v):
        """the same value as an instance of a well-behaved subclass (str-mixin Enum, IntEnum, Decimal subclass ...)"""
        import ocommon as O
        r = self.r
        if isinstance(v, bool) or v is None:
            return v
        if isinstance(v, int):
            return r.choice([m for m in list(O.VIntEnum) + list(O.VIntFlag) if -2 ** 63 <= m < 2 ** 63]) if r.random() < 0.4 else O.VInt(v)
        if isinstance(v, float):
            return O.VFloat(v)
        if isinstance(v, str):
            return r.choice([m for m in O.VStrEnum if len(m.value) <= 255]) if r.random() < 0.3 else O.VStr(v)
        if isinstance(v, bytearray):
            return O.VByteArray(v)
        if isinstance(v, decimal.Decimal):
            return O.VDecimal(v)
        if isinstance(v, datetime.datetime):
            return O.VDateTime(v.year, v.month, v.day, v.hour, v.minute, v.second, v.microsecond, tzinfo=v.tzinfo, fold=v.fold)
        if isinstance(v, list):
            return O.VList(v)
        if isinstance(v, dict):
            return O.VDict(v)
        return v

    def scalar_ok(self):
        v = self.scalar_plain_ok()
        if self.exotic and self.r.random() < 0.1:
            return self.exotic_of(v)
        return v

    def scalar_plain_ok(self):
        r = self.r
        k = r.randrange(10)
        if k == 0:
            return r.choice([True, False])
        if k in (1, 2, 3):
            return self.integer(-2 ** 63, 2 ** 63 - 1)
        if k == 4:
            return self.float_ok()
        if k == 5:
            return self.decimal_ok()
        if k == 6:
            return self.string()
        if k == 7:
            return bytearray(r.getrandbits(8) for _ in range(r.choice([0, 1, 2, 5, 300])))
        if k == 8:
            return self.datetime_ok()
        return None

    def value_ok(self, depth=3, breadth=4):
        """an encodable field value (C03's domain); now and then the SAME container object occurs twice
        in one value (shared, never circular)"""
        r = self.r
        if depth <= 0 or r.random() < 0.5:
            return self.scalar_ok()
        pool = getattr(self, '_pool', None)
        if pool and r.random() < 0.12:
            return r.choice(pool)
        if r.random() < 0.5:
            v = [self.value_ok(depth - 1, breadth) for _ in range(r.randrange(0, breadth + 1))]
        else:
            v = self.table_ok(depth - 1, breadth)
        if pool is not None and len(pool) < 6:
            pool.append(v)
        if self.exotic and r.random() < 0.06:
            return self.exotic_of(v)
        return v

    def shared_value_ok(self, depth=3, breadth=4):
        """like value_ok, with a fresh pool so that sub-containers are shared inside this one value"""
        self._pool = []
        try:
            top = [self.value_ok(depth, breadth) for _ in range(3)]
            if self._pool:
                t = self.r.choice(self._pool)
                top += [t, {'x': t, 'y': t}]
            return top
        finally:
            self._pool = None

    def table_ok(self, depth=3, breadth=4):
        r = self.r
        d = {}
        for _ in range(r.randrange(0, breadth + 1)):
            d[self.key()] = self.value_ok(depth, breadth)
        return d

    def deep_ok(self, depth):
        """a chain of containers nested `depth` deep"""
        v = self.scalar_ok()
        for _ in range(depth):
            if self.r.random() < 0.5:
                v = [v] if self.r.random() < 0.7 else [self.scalar_ok(), v]
            else:
                v = {self.key(): v}
        return v

    def scalar_any(self):
        """any Python value, right or wrong type, in or out of range (C10's domain)"""
        r = self.r
        k = r.randrange(16)
        if k == 0:
            return r.choice([True, False])
        if k in (1, 2, 3):
            return self.integer()
        if k == 4:
            return self.float_any()
        if k == 5:
            return self.decimal_any()
        if k == 6:
            return self.string(allow_surrogate=r.random() < 0.2)
        if k == 7:
            return bytearray(r.getrandbits(8) for _ in range(r.choice([0, 1, 5])))
        if k == 8:
            return self.datetime_any()
        if k == 9:
            return None
        if k == 10:
            return bytes(r.getrandbits(8) for _ in range(r.choice([0, 1, 5])))
        if k == 11:
            return r.choice([(), (1, 2), frozenset(), object(), 1j, range(3), set()])
        if k == 12:
            return r.choice(['', 0, 0.0, [], {}, D(0), b'', bytearray()])
        if k == 13:
            return self.string(maxlen=300)
        return self.scalar_ok()

    def value_any(self, depth=2, breadth=3):
        r = self.r
        if depth <= 0 or r.random() < 0.55:
            return self.scalar_any()
        if r.random() < 0.5:
            return [self.value_any(depth - 1, breadth) for _ in range(r.randrange(0, breadth + 1))]
        d = {}
        for _ in range(r.randrange(0, breadth + 1)):
            k = self.key() if r.random() < 0.85 else r.choice(['q' * 129, 'k' * 200, '€' * 100, 'z' * 300])
            d[k] = self.value_any(depth - 1, breadth)
        return d

    # ---------------------------------------------------------------- method arguments
    def arg_ok(self, ty, name='', constrained=None):
        r = self.r
        if ty == 'bit':
            return r.choice([True, False])
        if ty == 'octet':
            return r.choice([0, 1, 2, 9, 127, 128, 254, 255, r.randrange(256)])
        if ty == 'short':
            return r.choice([0, 1, 255, 256, 32767, 32768, 65534, 65535, r.randrange(65536)])
        if ty == 'long':
            return r.choice([0, 1, 65535, 65536, 2 ** 31 - 1, 2 ** 31, 2 ** 32 - 2, 2 ** 32 - 1, r.randrange(2 ** 32)])
        if ty == 'longlong':
            return r.choice([0, 1, -1, 2 ** 32, 2 ** 63 - 1, -2 ** 63, -2 ** 63 + 1, 2 ** 63 - 2,
                             r.getrandbits(64) - 2 ** 63])
        if ty == 'shortstr':
            return self.short_string()
        if ty == 'longstr':
            return self.string(80) if r.random() < 0.9 else 'x' * r.choice([255, 256, 65536])
        if ty == 'table':
            k = r.random()
            if k < 0.1:
                return None
            return self.table_ok(2, 3)
        if ty == 'timestamp':
            return self.datetime_ok()
        raise ValueError(ty)

    def name_ok(self, limit):
        """a queue / exchange name that passes validation"""
        r = self.r
        k = r.random()
        if k < 0.15:
            return ''
        if k < 0.27:
            # names with a meaning to brokers, and the name-like string literals of the current source
            pool = WELL_KNOWN_NAMES + [m for m in MINED_STRINGS if m and all(c in NAME_CHARS for c in m)]
            base = r.choice(pool)
            tail = r.choice(['', '', 'gen-JzTY20BRgKO-HjmUJj0wLg', 'x', '.x'])
            return (base + tail)[:min(limit, 255)]
        if k < 0.45:
            n = r.choice([limit, limit - 1, 1, min(255, limit)])
            n = min(n, 255)          # shortstr wire limit
            return ''.join(r.choice(NAME_OK) for _ in range(n))
        return ''.join(r.choice(NAME_OK) for _ in range(r.randrange(1, 30)))


def permutations_of(d, limit, rnd):
    """up to `limit` insertion orders of the dict `d` (all of them when small)"""
    items = list(d.items())
    if len(items) <= 1:
        return [dict(items)]
    if len(items) <= 4:
        perms = list(itertools.permutations(items))
        rnd.shuffle(perms)
        return [dict(p) for p in perms[:limit]]
    out = []
    for _ in range(limit):
        rnd.shuffle(items)
        out.append(dict(items))
    return out
