#!/usr/bin/env python3
"""Runtime values of pamqp's DATA tables, read in a fresh child interpreter.

The translator (translate.py / translate_more.py) reads the source with `ast` only. That is exact for
code, but data can be SPELLED in ways no syntactic reader evaluates (`4 * 1024`, `bytes((FRAME_END,))`,
a dict comprehension over a tuple of classes, a helper that builds INDEX_MAPPING from each class's own
`index`). For such spellings the translator falls back on the value the module really has after import,
taken from here; and wherever it could read the value syntactically as well, the two readings are
compared (`runtimeMismatches`, a Tie-A obligation: a table that is edited after its literal - an entry
deleted at the end of the module, a class registering itself - shows up there).

Only data is taken from here: constants, the regex patterns, the two mapping tables, class attributes
(`index`, `frame_id`, `name`, `synchronous`, `valid_responses`, `__slots__`, the `_attr` wire types,
`flags`). Code (validate() bodies, constructors, encoders) is never evaluated."""
import json
import os
import subprocess
import sys

CHILD = r'''
import sys, json, re
sys.path.insert(0, sys.argv[1])
from pamqp import commands, constants, exceptions


def typed(v):
    if isinstance(v, bool) or v is None:
        return {'kind': 'other', 'v': repr(v)}
    if isinstance(v, int):
        return {'kind': 'int', 'v': v}
    if isinstance(v, str):
        return {'kind': 'str', 'v': v}
    if isinstance(v, bytes):
        return {'kind': 'bytes', 'v': list(v)}
    if isinstance(v, tuple) and all(isinstance(x, int) and not isinstance(x, bool) for x in v):
        return {'kind': 'tuple', 'v': list(v)}
    return {'kind': 'other', 'v': repr(v)[:200]}


def plain(v):
    if isinstance(v, (bool, int, str)) or v is None:
        return v
    if isinstance(v, (list, tuple)) and all(isinstance(x, (bool, int, str)) for x in v):
        return list(v)
    return {'unrecognised': repr(v)[:200]}


out = {'constants': {}, 'domain_regex': [], 'data_types': None, 'class_mapping': [], 'exceptions': {},
       'index_mapping': [], 'classes': {}, 'outer': {}}
for n, v in vars(constants).items():
    if n.startswith('__') or isinstance(v, type(sys)):
        continue
    out['constants'][n] = typed(v)
dr = getattr(constants, 'DOMAIN_REGEX', None)
if isinstance(dr, dict):
    for k, v in dr.items():
        ok = isinstance(k, str) and isinstance(v, re.Pattern) and isinstance(v.pattern, str) and v.flags == re.compile('').flags
        out['domain_regex'].append([k if isinstance(k, str) else repr(k), v.pattern if ok else None])
dt = getattr(constants, 'DATA_TYPES', None)
if isinstance(dt, (list, tuple)) and all(isinstance(x, str) for x in dt):
    out['data_types'] = list(dt)
cm = getattr(exceptions, 'CLASS_MAPPING', None)
if isinstance(cm, dict):
    for k, v in cm.items():
        out['class_mapping'].append([k if isinstance(k, int) and not isinstance(k, bool) else None,
                                     v.__name__ if isinstance(v, type) and vars(exceptions).get(v.__name__) is v else None])
for n, v in vars(exceptions).items():
    if isinstance(v, type) and v.__module__ == exceptions.__name__:
        out['exceptions'][n] = {'name': plain(vars(v).get('name')), 'value': plain(vars(v).get('value'))}


def class_data(c):
    d = vars(c)
    slots = d.get('__slots__')
    info = {'attrs': {k: plain(d[k]) for k in ('index', 'frame_id', 'name', 'synchronous', 'valid_responses') if k in d},
            'slots': list(slots) if isinstance(slots, (list, tuple)) and all(isinstance(s, str) for s in slots) else None,
            'types': {k[1:]: plain(v) for k, v in d.items() if k.startswith('_') and not k.startswith('__') and isinstance(v, str)},
            'flags': None}
    fl = d.get('flags')
    if isinstance(fl, dict):
        info['flags'] = {k: (v if isinstance(v, int) and not isinstance(v, bool) else None) for k, v in fl.items() if isinstance(k, str)}
    return info


for on, o in vars(commands).items():
    if isinstance(o, type) and o.__module__ == commands.__name__:
        out['outer'][on] = {'frame_id': plain(vars(o).get('frame_id')), 'index': plain(vars(o).get('index'))}
        for inn, c in vars(o).items():
            if isinstance(c, type) and c.__module__ == commands.__name__:
                out['classes'][on + '.' + inn] = class_data(c)
im = getattr(commands, 'INDEX_MAPPING', None)
if isinstance(im, dict):
    for k, v in im.items():
        q = getattr(v, '__qualname__', None)
        # the reference must be reachable under that name from the module (commands.Connection.Start)
        ok = isinstance(q, str) and q.count('.') == 1 and getattr(getattr(commands, q.split('.')[0], None), q.split('.')[1], None) is v
        out['index_mapping'].append([k if isinstance(k, int) and not isinstance(k, bool) else None, q if ok else None])
json.dump(out, sys.stdout)
'''

_CACHE = {}


def load(repo):
    """-> dict (see CHILD) or None when the package cannot be imported / does not answer in time"""
    if repo in _CACHE:
        return _CACHE[repo]
    res = None
    try:
        env = {k: v for k, v in os.environ.items() if k not in ('PYTHONPATH', 'PYTHONSTARTUP')}
        env['PYTHONDONTWRITEBYTECODE'] = '1'
        py = '/venv/bin/python' if os.path.exists('/venv/bin/python') else sys.executable
        p = subprocess.run([py, '-B', '-c', CHILD, repo], stdout=subprocess.PIPE, stderr=subprocess.PIPE, env=env, timeout=30,
                           cwd='/')
        if p.returncode == 0:
            res = json.loads(p.stdout.decode('utf-8'))
        else:
            sys.stderr.write('introspect: import of %s/pamqp failed: %s\n' % (repo, p.stderr.decode('utf-8', 'replace')[-300:]))
    except Exception as e:  # noqa: BLE001 - any failure means "no runtime reading"
        sys.stderr.write('introspect: %r\n' % (e,))
    _CACHE[repo] = res
    return res


if __name__ == '__main__':
    r = load(sys.argv[1] if len(sys.argv) > 1 else os.environ.get('PAMQP_REPO', '/repo'))
    print(json.dumps(r, indent=1)[:3000] if r else 'unavailable')
