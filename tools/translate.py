#!/usr/bin/env python3
"""Tie A: translate the *data* of /repo/pamqp into Lean literals (Pamqp/Generated/*.lean) and a
JSON mirror (lean/Pamqp/Generated/generated.json).  Pure `ast`; never imports pamqp.

Run on every check; files are rewritten only when their content changes so that a no-op
`lake build` stays fast.  A shape the matchers cannot read becomes an explicit
`unrecognised "<source>"` term, which makes the dependent `decide` obligation fail.
"""
import ast
import json
import os
import sys

REPO = os.environ.get('PAMQP_REPO', '/repo')
HERE = os.path.dirname(os.path.abspath(__file__))
OUT = os.environ.get('VERIF_GEN_OUT') or os.path.join(os.path.dirname(HERE), 'lean', 'Pamqp', 'Generated')

WIRE = {'bit', 'octet', 'short', 'long', 'longlong', 'shortstr', 'longstr', 'table', 'timestamp'}


def src(path):
    with open(os.path.join(REPO, 'pamqp', path), encoding='utf-8') as f:
        return f.read()


def seg(text, node):
    try:
        return ast.get_source_segment(text, node) or ast.dump(node)
    except Exception:  # pragma: no cover
        return ast.dump(node)


# ---------------------------------------------------------------- Lean printing helpers

def lstr(s):
    out = ['"']
    for ch in s:
        o = ord(ch)
        if ch == '"':
            out.append('\\"')
        elif ch == '\\':
            out.append('\\\\')
        elif ch == '\n':
            out.append('\\n')
        elif ch == '\t':
            out.append('\\t')
        elif o < 32 or o == 127:
            out.append('\\x%02x' % o)
        else:
            out.append(ch)
    out.append('"')
    return ''.join(out)


def lint(i):
    return '(%d)' % i if i < 0 else '%d' % i


def lbool(b):
    return 'true' if b else 'false'


def llist(items):
    return '[' + ', '.join(items) + ']'


def lopt(x):
    return 'none' if x is None else '(some %s)' % x


def lty(t):
    return '.' + t if t in WIRE else '.unknown'


# ---------------------------------------------------------------- constant folding

class NotConst(Exception):
    pass


def const_eval(node, env=None):
    """Fold integer/str/bool/None constant expressions (2 ** 31 - 1, 0xFFFF, -5, names in env)."""
    env = env or {}
    if isinstance(node, ast.Constant):
        return node.value
    if isinstance(node, ast.UnaryOp) and isinstance(node.op, (ast.USub, ast.UAdd, ast.Invert)):
        v = const_eval(node.operand, env)
        if isinstance(v, bool) or not isinstance(v, int):
            raise NotConst
        return -v if isinstance(node.op, ast.USub) else (+v if isinstance(node.op, ast.UAdd) else ~v)
    if isinstance(node, ast.BinOp):
        a, b = const_eval(node.left, env), const_eval(node.right, env)
        if not (isinstance(a, int) and isinstance(b, int)):
            raise NotConst
        ops = {ast.Add: lambda: a + b, ast.Sub: lambda: a - b, ast.Mult: lambda: a * b,
               ast.Pow: lambda: a ** b if 0 <= b <= 128 else (_ for _ in ()).throw(NotConst()),
               ast.LShift: lambda: a << b if 0 <= b <= 128 else (_ for _ in ()).throw(NotConst()),
               ast.BitOr: lambda: a | b, ast.BitAnd: lambda: a & b,
               ast.FloorDiv: lambda: a // b if b else (_ for _ in ()).throw(NotConst())}
        for k, f in ops.items():
            if isinstance(node.op, k):
                return f()
        raise NotConst
    if isinstance(node, ast.Name) and node.id in env:
        return env[node.id]
    if isinstance(node, ast.Attribute) and isinstance(node.value, ast.Name):
        key = node.value.id + '.' + node.attr
        if key in env:
            return env[key]
    raise NotConst


# ---------------------------------------------------------------- validate() rules

def is_self_attr(node):
    if isinstance(node, ast.Attribute) and isinstance(node.value, ast.Name) and node.value.id == 'self':
        return node.attr
    return None


def match_is_not_none(node):
    if (isinstance(node, ast.Compare) and len(node.ops) == 1 and isinstance(node.ops[0], ast.IsNot)
            and isinstance(node.comparators[0], ast.Constant) and node.comparators[0].value is None):
        return is_self_attr(node.left)
    return None


def match_len_gt(node):
    """len(self.X) > N  (also N < len(..), >= N+1, N+1 <= ..) -> (X, N)"""
    if not (isinstance(node, ast.Compare) and len(node.ops) == 1):
        return None
    left, op, right = node.left, node.ops[0], node.comparators[0]

    def len_of(n):
        if (isinstance(n, ast.Call) and isinstance(n.func, ast.Name) and n.func.id == 'len'
                and len(n.args) == 1 and not n.keywords):
            return is_self_attr(n.args[0])
        return None
    try:
        if len_of(left) and isinstance(op, ast.Gt):
            return len_of(left), const_eval(right)
        if len_of(left) and isinstance(op, ast.GtE):
            return len_of(left), const_eval(right) - 1
        if len_of(right) and isinstance(op, ast.Lt):
            return len_of(right), const_eval(left)
        if len_of(right) and isinstance(op, ast.LtE):
            return len_of(right), const_eval(left) - 1
    except (NotConst, TypeError):
        return None
    return None


def conjuncts(test):
    return list(test.values) if isinstance(test, ast.BoolOp) and isinstance(test.op, ast.And) else [test]


def match_rule(test, text, guards=()):
    """One `if` test of a validate() body -> rule dict (or unrecognised). `guards` are the tests of the
    enclosing `if X is not None:` blocks (pure, so `if G: if A: raise` means `if G and A: raise`)."""
    unrec = {'kind': 'unrecognised', 'src': ' '.join(seg(text, test).split())}
    conj = list(guards) + conjuncts(test)
    # a repeated guard (`X is not None` outside and inside) is one guard
    seen = []
    for c in conj:
        if match_is_not_none(c) and any(match_is_not_none(d) == match_is_not_none(c) for d in seen):
            continue
        seen.append(c)
    conj = seen
    if len(conj) == 1:
        c = conj[0]
        # self.X != 'c'   (Basic.Properties.cluster_id)
        if isinstance(c, ast.Compare) and len(c.ops) == 1 and isinstance(c.ops[0], ast.NotEq):
            a = is_self_attr(c.left)
            try:
                v = const_eval(c.comparators[0])
            except NotConst:
                return unrec
            if a and isinstance(v, str):
                return {'kind': 'mustEqStrBare', 'attr': a, 'c': v}
        return unrec
    if len(conj) != 2:
        return unrec
    attr = match_is_not_none(conj[0])
    if not attr:
        return unrec
    c = conj[1]
    # self.X != C
    if isinstance(c, ast.Compare) and len(c.ops) == 1 and isinstance(c.ops[0], ast.NotEq):
        l, r = c.left, c.comparators[0]
        if is_self_attr(r) == attr:
            l, r = r, l
        if is_self_attr(l) != attr:
            return unrec
        try:
            v = const_eval(r)
        except NotConst:
            return unrec
        if isinstance(v, bool) or v is None:
            return unrec
        if isinstance(v, int):
            return {'kind': 'mustEqInt', 'attr': attr, 'c': v}
        if isinstance(v, str):
            return {'kind': 'mustEqStr', 'attr': attr, 'c': v}
        return unrec
    # self.X is not False
    if (isinstance(c, ast.Compare) and len(c.ops) == 1 and isinstance(c.ops[0], ast.IsNot)
            and is_self_attr(c.left) == attr and isinstance(c.comparators[0], ast.Constant)
            and c.comparators[0].value is False):
        return {'kind': 'mustBeFalse', 'attr': attr}
    # len(self.X) > N
    m = match_len_gt(c)
    if m and m[0] == attr and isinstance(m[1], int) and m[1] >= 0:
        return {'kind': 'maxLen', 'attr': attr, 'n': m[1]}
    # not constants.DOMAIN_REGEX['d'].fullmatch(self.X)
    if isinstance(c, ast.UnaryOp) and isinstance(c.op, ast.Not) and isinstance(c.operand, ast.Call):
        call = c.operand
        f = call.func
        if (isinstance(f, ast.Attribute) and f.attr == 'fullmatch' and isinstance(f.value, ast.Subscript)
                and len(call.args) == 1 and is_self_attr(call.args[0]) == attr):
            sub = f.value
            base = sub.value
            if (isinstance(base, ast.Attribute) and base.attr == 'DOMAIN_REGEX'
                    and isinstance(sub.slice, ast.Constant) and isinstance(sub.slice.value, str)):
                return {'kind': 'regex', 'attr': attr, 'domain': sub.slice.value}
        return unrec
    # self.X not in [..]
    if (isinstance(c, ast.Compare) and len(c.ops) == 1 and isinstance(c.ops[0], ast.NotIn)
            and is_self_attr(c.left) == attr and isinstance(c.comparators[0], (ast.List, ast.Tuple, ast.Set))):
        try:
            cs = [const_eval(e) for e in c.comparators[0].elts]
        except NotConst:
            return unrec
        if all(isinstance(x, int) and not isinstance(x, bool) for x in cs):
            return {'kind': 'oneOf', 'attr': attr, 'cs': sorted(cs)}
    return unrec


def rules_of(func, text):
    """Rules of a validate() body in source order. Every statement must be
    `if <test>: raise ValueError(...)`; anything else is unrecognised."""
    rules = []
    body = list(func.body)
    if body and isinstance(body[0], ast.Expr) and isinstance(body[0].value, ast.Constant) \
            and isinstance(body[0].value.value, str):
        body = body[1:]

    def walk(stmts, guards):
        for st in stmts:
            if isinstance(st, ast.Pass):
                continue
            ok = (isinstance(st, ast.If) and not st.orelse and len(st.body) == 1
                  and isinstance(st.body[0], ast.Raise) and st.body[0].exc is not None)
            if ok:
                exc = st.body[0].exc
                name = exc.func if isinstance(exc, ast.Call) else exc
                ok = isinstance(name, ast.Name) and name.id == 'ValueError'
            if ok:
                rules.append(match_rule(st.test, text, guards))
                continue
            # `if X is not None [and Y is not None]:` around further checks: the guard distributes
            if (isinstance(st, ast.If) and not st.orelse and st.body
                    and all(match_is_not_none(c) for c in conjuncts(st.test))
                    and all(isinstance(b, (ast.If, ast.Pass)) for b in st.body)):
                walk(st.body, tuple(guards) + tuple(conjuncts(st.test)))
                continue
            rules.append({'kind': 'unrecognised', 'src': ' '.join(seg(text, st).split())[:200]})
    walk(body, ())
    return rules


def lrule(r):
    k = r['kind']
    if k == 'mustEqInt':
        return '.mustEqInt %s %s' % (lstr(r['attr']), lint(r['c']))
    if k == 'mustEqStr':
        return '.mustEqStr %s %s' % (lstr(r['attr']), lstr(r['c']))
    if k == 'mustEqStrBare':
        return '.mustEqStrBare %s %s' % (lstr(r['attr']), lstr(r['c']))
    if k == 'mustBeFalse':
        return '.mustBeFalse %s' % lstr(r['attr'])
    if k == 'maxLen':
        return '.maxLen %s %d' % (lstr(r['attr']), r['n'])
    if k == 'regex':
        return '.regex %s %s' % (lstr(r['attr']), lstr(r['domain']))
    if k == 'oneOf':
        return '.oneOf %s %s' % (lstr(r['attr']), llist(lint(c) for c in r['cs']))
    return '.unrecognised %s' % lstr(r['src'])


# ---------------------------------------------------------------- catalogue

def lit_of(node, text):
    if node is None:
        return {'kind': 'other', 'src': '<required>'}
    try:
        v = const_eval(node)
    except NotConst:
        if isinstance(node, ast.Dict) and not node.keys:
            return {'kind': 'emptyDict'}
        return {'kind': 'other', 'src': ' '.join(seg(text, node).split())}
    if v is None:
        return {'kind': 'none'}
    if isinstance(v, bool):
        return {'kind': 'bool', 'v': v}
    if isinstance(v, int):
        return {'kind': 'int', 'v': v}
    if isinstance(v, str):
        return {'kind': 'str', 'v': v}
    return {'kind': 'other', 'src': repr(v)}


def llit(l):
    k = l['kind']
    if k == 'none':
        return '.none'
    if k == 'bool':
        return '(.bool %s)' % lbool(l['v'])
    if k == 'int':
        return '(.int %s)' % lint(l['v'])
    if k == 'str':
        return '(.str %s)' % lstr(l['v'])
    if k == 'emptyDict':
        return '.emptyDict'
    return '(.other %s)' % lstr(l['src'])


def doc_defaults(doc):
    """':param name: ...' followed by '- Default: ``v``' lines -> {name: text}"""
    out = {}
    cur = None
    for line in (doc or '').splitlines():
        s = line.strip()
        if s.startswith(':param '):
            cur = s[len(':param '):].split(':', 1)[0].strip()
        elif s.startswith(':') and not s.startswith(':param'):
            cur = None if s.startswith((':raises', ':rtype', ':return')) else cur
        elif s.startswith('- Default:') and cur:
            v = s[len('- Default:'):].strip()
            if v.startswith('``') and v.endswith('``'):
                v = v[2:-2]
            out[cur] = v
    return out


def class_info(outer, cls, text, base_validate):
    info = {'className': outer.name, 'pyName': cls.name, 'bases': [seg(text, b) for b in cls.bases],
            'slots': None, 'annotations': {}, 'attrs': {}, 'types': {}, 'flags': None,
            'init': None, 'rules': None, 'doc': ast.get_docstring(cls, clean=False)}
    validate = None
    for st in cls.body:
        tgt = val = None
        if isinstance(st, ast.AnnAssign) and isinstance(st.target, ast.Name) and st.value is not None:
            tgt, val = st.target.id, st.value
        elif isinstance(st, ast.Assign) and len(st.targets) == 1 and isinstance(st.targets[0], ast.Name):
            tgt, val = st.targets[0].id, st.value
        if tgt is not None:
            if tgt == '__slots__' and isinstance(val, (ast.List, ast.Tuple)):
                info['slots'] = [e.value for e in val.elts if isinstance(e, ast.Constant)]
            elif tgt == '__annotations__' and isinstance(val, ast.Dict):
                for k, v in zip(val.keys, val.values):
                    if isinstance(k, ast.Constant):
                        info['annotations'][k.value] = ' '.join(seg(text, v).split())
            elif tgt == 'flags' and isinstance(val, ast.Dict):
                fl = {}
                for k, v in zip(val.keys, val.values):
                    try:
                        fl[k.value] = const_eval(v)
                    except (NotConst, AttributeError):
                        fl[getattr(k, 'value', '?')] = None
                info['flags'] = fl
            elif tgt.startswith('_') and not tgt.startswith('__'):
                try:
                    info['types'][tgt[1:]] = const_eval(val)
                except NotConst:
                    info['types'][tgt[1:]] = None
            else:
                try:
                    info['attrs'][tgt] = const_eval(val)
                except NotConst:
                    if isinstance(val, (ast.List, ast.Tuple)):
                        try:
                            info['attrs'][tgt] = [const_eval(e) for e in val.elts]
                        except NotConst:
                            info['attrs'][tgt] = {'unrecognised': seg(text, val)}
                    else:
                        info['attrs'][tgt] = {'unrecognised': ' '.join(seg(text, val).split())}
        elif isinstance(st, ast.FunctionDef) and st.name == '__init__':
            info['init'] = init_info(st, text)
        elif isinstance(st, ast.FunctionDef) and st.name == 'validate':
            validate = st
    if validate is not None:
        info['rules'] = rules_of(validate, text)
    else:
        info['rules'] = base_validate.get(info['bases'][0] if info['bases'] else '', [])
    return info


def init_info(func, text):
    args = func.args
    names = [a.arg for a in args.args][1:]
    defaults = [None] * (len(args.args) - len(args.defaults)) + list(args.defaults)
    defaults = defaults[1:]
    params = {n: lit_of(d, text) for n, d in zip(names, defaults)}
    order = names
    stores = {}
    calls_validate = False
    body = list(func.body)
    for i, st in enumerate(body):
        if (isinstance(st, ast.Assign) and len(st.targets) == 1 and is_self_attr(st.targets[0])):
            a = is_self_attr(st.targets[0])
            v = st.value
            if isinstance(v, ast.Name):
                stores[a] = {'param': v.id, 'norm': 'plain'}
            elif (isinstance(v, ast.BoolOp) and isinstance(v.op, ast.Or) and len(v.values) == 2
                  and isinstance(v.values[0], ast.Name)):
                alt = v.values[1]
                if isinstance(alt, ast.Dict) and not alt.keys:
                    norm = 'orEmptyDict'
                elif isinstance(alt, ast.Constant) and alt.value == '':
                    norm = 'orEmptyStr'
                elif isinstance(alt, ast.Constant) and alt.value is False:
                    norm = 'orFalse'
                else:
                    norm = 'orOther'
                stores[a] = {'param': v.values[0].id, 'norm': norm}
            else:
                stores[a] = {'param': None, 'norm': 'orOther'}
        elif (isinstance(st, ast.Expr) and isinstance(st.value, ast.Call)
              and isinstance(st.value.func, ast.Attribute) and is_self_attr(st.value.func) == 'validate'):
            calls_validate = (i == len(body) - 1) or calls_validate
    return {'params': params, 'order': order, 'stores': stores, 'validates': calls_validate}


RUNTIME_NOTES = []     # disagreements between the syntactic and the runtime reading of a data table
RUNTIME_USED = []      # places where only the runtime reading was available


def runtime():
    try:
        import introspect
        return introspect.load(REPO) or {}
    except Exception as e:  # noqa
        sys.stderr.write('introspect unavailable: %r\n' % (e,))
        return {}


def reconcile(label, ast_val, ast_ok, rt_val, rt_ok=True):
    """the value to use for one data item: the syntactic reading when there is one (and then it must agree
    with the runtime reading), else the runtime reading, else the unrecognised syntactic one"""
    if ast_ok:
        if rt_val is not None and rt_ok and rt_val != ast_val:
            RUNTIME_NOTES.append('%s: source says %r, the imported module has %r' % (label, ast_val, rt_val))
        return ast_val
    if rt_val is not None and rt_ok:
        RUNTIME_USED.append(label)
        return rt_val
    return ast_val


def reconcile_class(qual, info, R):
    rc = (R.get('classes') or {}).get(qual)
    if rc is None:
        return
    ra = rc.get('attrs', {})
    for k in ('index', 'frame_id', 'name', 'synchronous', 'valid_responses'):
        if k not in info['attrs'] and k not in ra:
            continue
        a = info['attrs'].get(k)
        a_ok = k in info['attrs'] and not isinstance(a, dict)
        r = ra.get(k)
        r_ok = k in ra and not isinstance(r, dict)
        if k in info['attrs'] or r_ok:
            v = reconcile('%s.%s' % (qual, k), a, a_ok, r if r_ok else None, r_ok)
            if a_ok or r_ok:
                info['attrs'][k] = v
    info['slots'] = reconcile(qual + '.__slots__', info['slots'], info['slots'] is not None, rc.get('slots'))
    rt_types = rc.get('types') or {}
    for s_ in list(info['types']):
        info['types'][s_] = reconcile('%s._%s' % (qual, s_), info['types'][s_], isinstance(info['types'][s_], str),
                                      rt_types.get(s_), isinstance(rt_types.get(s_), str))
    if info['flags'] is not None and rc.get('flags') is not None:
        for k in list(info['flags']):
            info['flags'][k] = reconcile('%s.flags[%s]' % (qual, k), info['flags'][k], isinstance(info['flags'][k], int),
                                         rc['flags'].get(k), isinstance(rc['flags'].get(k), int))
    elif info['flags'] is None and rc.get('flags') is not None and all(isinstance(v, int) for v in rc['flags'].values()):
        RUNTIME_USED.append(qual + '.flags')
        info['flags'] = dict(rc['flags'])


def extract_catalogue():
    text = src('commands.py')
    tree = ast.parse(text)
    btext = src('base.py')
    btree = ast.parse(btext)
    base_validate = {}
    for node in btree.body:
        if isinstance(node, ast.ClassDef):
            for st in node.body:
                if isinstance(st, ast.FunctionDef) and st.name == 'validate':
                    base_validate['base.' + node.name] = rules_of(st, btext)
    classes = {}
    outer_frame_id = {}
    index_mapping = []
    for node in tree.body:
        if isinstance(node, ast.ClassDef):
            for st in node.body:
                if isinstance(st, ast.Assign) and len(st.targets) == 1 and isinstance(st.targets[0], ast.Name) \
                        and st.targets[0].id == 'frame_id':
                    try:
                        outer_frame_id[node.name] = const_eval(st.value)
                    except NotConst:
                        outer_frame_id[node.name] = None
                if isinstance(st, ast.ClassDef):
                    classes[node.name + '.' + st.name] = class_info(node, st, text, base_validate)
        tgt = val = None
        if isinstance(node, ast.Assign) and len(node.targets) == 1 and isinstance(node.targets[0], ast.Name):
            tgt, val = node.targets[0].id, node.value
        elif isinstance(node, ast.AnnAssign) and isinstance(node.target, ast.Name):
            tgt, val = node.target.id, node.value
        if tgt == 'INDEX_MAPPING' and isinstance(val, ast.Dict):
            for k, v in zip(val.keys, val.values):
                try:
                    key = const_eval(k)
                except NotConst:
                    key = None
                index_mapping.append((key, ' '.join(seg(text, v).split())))
    R = runtime()
    for qual, info in classes.items():
        reconcile_class(qual, info, R)
    for on in list(outer_frame_id):
        ro = (R.get('outer') or {}).get(on, {}).get('frame_id')
        outer_frame_id[on] = reconcile(on + '.frame_id', outer_frame_id[on], isinstance(outer_frame_id[on], int), ro, isinstance(ro, int))
    rim = R.get('index_mapping')
    ast_ok = bool(index_mapping) and all(k is not None and ref in classes for k, ref in index_mapping)
    rim_ok = bool(rim) and all(k is not None and q is not None for k, q in rim)
    index_mapping = [tuple(x) for x in reconcile('commands.INDEX_MAPPING', [list(x) for x in index_mapping], ast_ok,
                                                 rim if rim_ok else None, rim_ok)]
    methods = []
    for key, ref in index_mapping:
        c = classes.get(ref)
        if c is None or key is None:
            methods.append({'key': key if key is not None else -1, 'index': -1, 'classId': 0, 'methodId': 0,
                            'className': ref, 'pyName': '?', 'name': '<unresolved %s>' % ref,
                            'synchronous': False, 'validResponses': [], 'args': [], 'rules':
                                [{'kind': 'unrecognised', 'src': 'INDEX_MAPPING entry ' + ref}],
                            'ctorValidates': False})
            continue
        methods.append(method_entry(key, c, outer_frame_id))
    props = classes.get('Basic.Properties')
    return {'methods': methods, 'properties': props_entry(props) if props else None,
            'basicClassId': outer_frame_id.get('Basic'),
            'classCount': sum(1 for c in classes.values() if c['bases'] == ['base.Frame'])}


def arg_entries(c):
    slots = c['slots'] or []
    init = c['init'] or {'params': {}, 'order': [], 'stores': {}, 'validates': False}
    docd = doc_defaults(c['doc'])
    out = []
    for s in slots:
        st = init['stores'].get(s)
        if st and st['param'] in init['params']:
            default, norm = init['params'][st['param']], st['norm']
            if st['param'] != s:
                norm = 'orOther'
        else:
            default, norm = {'kind': 'other', 'src': '<no parameter>'}, 'orOther'
        out.append({'name': s, 'ty': c['types'].get(s) or '<missing>', 'annotation': c['annotations'].get(s, '<missing>'),
                    'default': default, 'norm': norm, 'docDefault': docd.get(s)})
    # slots, _attr names and __annotations__ must name the same attributes in the same order
    extra = [k for k in c['types'] if k not in slots] + [k for k in c['annotations'] if k not in slots]
    if list(c['annotations'].keys()) != slots or extra or init['order'] != slots:
        out.append({'name': '<mismatch slots/types/annotations/ctor: %s>' % (extra or 'order'), 'ty': '<missing>',
                    'annotation': '', 'default': {'kind': 'other', 'src': ''}, 'norm': 'orOther', 'docDefault': None})
    return out


def method_entry(key, c, outer_frame_id):
    a = c['attrs']

    def geti(k):
        v = a.get(k)
        return v if isinstance(v, int) and not isinstance(v, bool) else -1
    vr = a.get('valid_responses', [])
    if not isinstance(vr, list) or not all(isinstance(x, str) for x in vr):
        vr = ['<unrecognised>']
    sync = a.get('synchronous', False)
    return {'key': key, 'index': geti('index'), 'classId': outer_frame_id.get(c['className']) or 0,
            'methodId': max(geti('frame_id'), 0), 'className': c['className'], 'pyName': c['pyName'],
            'name': a.get('name') if isinstance(a.get('name'), str) else '<unrecognised>',
            'synchronous': sync if isinstance(sync, bool) else False,
            'syncRecognised': isinstance(sync, bool),
            'validResponses': vr, 'args': arg_entries(c), 'rules': c['rules'],
            'ctorValidates': bool(c['init'] and c['init']['validates'])}


def props_entry(c):
    args = arg_entries(c)
    flags = c['flags'] or {}
    out = []
    for a in args:
        f = flags.get(a['name'])
        out.append({'name': a['name'], 'ty': a['ty'], 'annotation': a['annotation'],
                    'flag': f if isinstance(f, int) and f >= 0 else 0, 'default': a['default'],
                    'flagRecognised': isinstance(f, int) and f >= 0})
    extra = [k for k in flags if k not in (c['slots'] or [])]
    if extra:
        out.append({'name': '<extra flags %s>' % extra, 'ty': '<missing>', 'annotation': '', 'flag': 0,
                    'default': {'kind': 'other', 'src': ''}, 'flagRecognised': False})
    a = c['attrs']
    return {'props': out, 'rules': c['rules'], 'ctorValidates': bool(c['init'] and c['init']['validates']),
            'frameId': a.get('frame_id'), 'index': a.get('index'), 'name': a.get('name')}


def larg(a):
    return ('{ name := %s, ty := %s, annotation := %s, default := %s, norm := .%s, docDefault := %s }'
            % (lstr(a['name']), lty(a['ty']), lstr(a['annotation']), llit(a['default']), a['norm'],
               lopt(lstr(a['docDefault']) if a['docDefault'] is not None else None)))


def lmethod(m):
    return ('  { key := %s, index := %s, classId := %d, methodId := %d, className := %s, pyName := %s,\n'
            '    name := %s, synchronous := %s, validResponses := %s,\n'
            '    args := %s,\n    rules := %s, ctorValidates := %s }'
            % (lint(m['key']), lint(m['index']), m['classId'], m['methodId'], lstr(m['className']),
               lstr(m['pyName']), lstr(m['name']), lbool(m['synchronous']),
               llist(lstr(x) for x in m['validResponses']),
               '[' + ',\n      '.join(larg(a) for a in m['args']) + ']',
               llist(lrule(r) for r in m['rules']), lbool(m['ctorValidates'])))


def emit_catalogue(cat):
    L = ['import Pamqp.Model.Frame',
         '/-! GENERATED by tools/translate.py from /repo/pamqp/commands.py and base.py - do not edit. -/',
         'namespace Pamqp.Generated', '',
         'def methods : List MethodSpec := [',
         ',\n'.join(lmethod(m) for m in cat['methods']), ']', '']
    p = cat['properties'] or {'props': [], 'rules': [{'kind': 'unrecognised', 'src': 'no Basic.Properties'}],
                              'ctorValidates': False, 'frameId': None, 'index': None, 'name': None}
    L.append('def props : List PropSpec := [')
    L.append(',\n'.join('  { name := %s, ty := %s, annotation := %s, flag := %d, default := %s }'
                        % (lstr(x['name']), lty(x['ty']), lstr(x['annotation']), x['flag'], llit(x['default']))
                        for x in p['props']))
    L += [']', '',
          'def propsRules : List Rule := %s' % llist(lrule(r) for r in p['rules']),
          'def propsCtorValidates : Bool := %s' % lbool(p['ctorValidates']),
          'def propsFlagsRecognised : Bool := %s' % lbool(all(x['flagRecognised'] for x in p['props'])),
          'def propsFrameId : Int := %s' % lint(p['frameId'] if isinstance(p['frameId'], int) else -1),
          'def propsIndex : Int := %s' % lint(p['index'] if isinstance(p['index'], int) else -1),
          'def propsName : String := %s' % lstr(p['name'] if isinstance(p['name'], str) else '<unrecognised>'),
          'def basicClassId : Nat := %d' % (cat['basicClassId'] if isinstance(cat['basicClassId'], int)
                                           and cat['basicClassId'] >= 0 else 0),
          'def frameClassCount : Nat := %d' % cat['classCount'],
          'def syncRecognised : Bool := %s' % lbool(all(m.get('syncRecognised', False) for m in cat['methods'])),
          '',
          'def cat : Cat := { methods := methods, props := props, basicClassId := basicClassId }',
          '', 'end Pamqp.Generated', '']
    return '\n'.join(L)


# ---------------------------------------------------------------- fingerprints of the modelled functions

class _Normalise(ast.NodeTransformer):
    """alpha-rename locals and parameters, drop docstrings and annotations: the fingerprint of a
    function changes exactly when its code changes up to renaming and comments"""
    def __init__(self):
        self.names = {}

    def _n(self, name):
        return self.names.setdefault(name, 'v%d' % len(self.names))

    def visit_FunctionDef(self, node):
        node.returns = None
        node.decorator_list = [self.visit(d) for d in node.decorator_list]
        for a in node.args.args + node.args.kwonlyargs + ([node.args.vararg] if node.args.vararg else []) + ([node.args.kwarg] if node.args.kwarg else []):
            a.annotation = None
            a.arg = self._n(a.arg)
        node.args.defaults = [self.visit(d) for d in node.args.defaults]
        body = node.body
        if body and isinstance(body[0], ast.Expr) and isinstance(body[0].value, ast.Constant) and isinstance(body[0].value.value, str):
            body = body[1:] or [ast.Pass()]
        node.body = [self.visit(b) for b in body]
        return node

    def visit_Name(self, node):
        if isinstance(node.ctx, ast.Store) or node.id in self.names:
            node.id = self._n(node.id)
        return node

    def visit_AnnAssign(self, node):
        node.annotation = ast.Constant(value=None)
        return self.generic_visit(node)


def fingerprints():
    import copy
    import hashlib
    out = {}
    for mod in ('encode', 'decode', 'base', 'frame', 'header', 'body', 'heartbeat', 'common'):
        try:
            tree = ast.parse(src(mod + '.py'))
        except Exception:  # noqa
            out[mod] = 'unparsable'
            continue

        def walk(stmts, prefix):
            for st in stmts:
                if isinstance(st, (ast.FunctionDef, ast.AsyncFunctionDef)):
                    # first pass collects stored names so that loads of locals are renamed too
                    n = _Normalise()
                    for sub in ast.walk(st):
                        if isinstance(sub, ast.Name) and isinstance(sub.ctx, ast.Store):
                            n._n(sub.id)
                    norm = n.visit(copy.deepcopy(st))
                    norm.name = 'f'
                    out[prefix + st.name] = hashlib.sha1(ast.dump(norm, annotate_fields=False).encode()).hexdigest()[:16]
                elif isinstance(st, ast.ClassDef):
                    walk(st.body, prefix + st.name + '.')
        walk(tree.body, mod + '.')
    return out


# ---------------------------------------------------------------- driver

def write_if_changed(path, content):
    try:
        with open(path, encoding='utf-8') as f:
            if f.read() == content:
                return False
    except FileNotFoundError:
        pass
    tmp = path + '.tmp%d' % os.getpid()
    with open(tmp, 'w', encoding='utf-8') as f:
        f.write(content)
    os.replace(tmp, path)
    return True


def main():
    os.makedirs(OUT, exist_ok=True)
    data = {}
    cat = extract_catalogue()
    data['catalogue'] = cat
    data['fingerprints'] = fingerprints()
    changed = []
    if write_if_changed(os.path.join(OUT, 'Catalogue.lean'), emit_catalogue(cat)):
        changed.append('Catalogue.lean')
    try:
        import translate_more
        translate_more.RECONCILE = reconcile
        translate_more.RUNTIME.clear()
        translate_more.RUNTIME.update(runtime())
        changed += translate_more.run(REPO, OUT, data, write_if_changed)
    except ImportError:
        pass
    data['runtime'] = {'mismatches': sorted(set(RUNTIME_NOTES)), 'used': sorted(set(RUNTIME_USED))}
    rt_lean = '\n'.join(['/-! GENERATED by tools/translate.py - do not edit. Data items the translator read both syntactically and',
                         'from the imported module and found different (`runtimeMismatches`), and items only the imported module',
                         'could supply because of how the source spells them (`runtimeUsed`). -/',
                         'namespace Pamqp.Generated', '',
                         'def runtimeMismatches : List String := %s' % llist(lstr(x[:300]) for x in data['runtime']['mismatches']),
                         'def runtimeUsed : List String := %s' % llist(lstr(x[:300]) for x in data['runtime']['used']),
                         '', 'end Pamqp.Generated', ''])
    if write_if_changed(os.path.join(OUT, 'Runtime.lean'), rt_lean):
        changed.append('Runtime.lean')
    if write_if_changed(os.path.join(OUT, 'generated.json'), json.dumps(data, indent=1, sort_keys=True, default=str)):
        changed.append('generated.json')
    print('translate: %d methods, changed: %s' % (len(cat['methods']), ', '.join(changed) or 'nothing'))


if __name__ == '__main__':
    sys.path.insert(0, HERE)
    main()
