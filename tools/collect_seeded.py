#!/usr/bin/env python3
"""collect_seeded.py <source dir with <ID>/<n>/{patch.diff,demo.py,meta.json,eval.json}> ...
Copies every confirmed seeded change into /verif/seeded/<ID>-<n>/ and writes the summary table
seeded/SUMMARY.md (which checks catch which change)."""
import glob
import json
import os
import shutil
import subprocess
import sys
import tempfile

BASES = ['HEAD', '9f11385', '781a972', '0d76953', '1151be2', 'd4c991b']
_WT = {}


def applies_to(patch):
    """the newest /repo commit (of the fix: commits made during the build) to which the patch applies as it is"""
    for b in BASES:
        if b not in _WT:
            wt = tempfile.mkdtemp(prefix='collect_wt_', dir='/tmp')
            os.rmdir(wt)
            subprocess.run(['git', '-C', '/repo', 'worktree', 'add', '-q', '--detach', wt, b], check=True)
            _WT[b] = wt
        r = subprocess.run(['git', '-C', _WT[b], 'apply', '--check', patch], stdout=subprocess.PIPE, stderr=subprocess.STDOUT)
        if r.returncode == 0:
            return subprocess.check_output(['git', '-C', _WT[b], 'rev-parse', '--short', 'HEAD']).decode().strip(), b == 'HEAD'
    return None, False

ROOT = os.path.dirname(os.path.dirname(os.path.abspath(__file__)))
DEST = os.path.join(ROOT, 'seeded')


def main():
    rows = []
    for src in sys.argv[1:]:
        src, _, prefix = src.partition(':')
        for ev in sorted(glob.glob(os.path.join(src, '*', 'eval.json')) + glob.glob(os.path.join(src, '*', '*', 'eval.json'))):
            d = os.path.dirname(ev)
            e = json.load(open(ev))
            meta = {}
            if os.path.exists(os.path.join(d, 'meta.json')):
                try:
                    meta = json.load(open(os.path.join(d, 'meta.json')))
                except Exception:  # noqa
                    meta = {}
            rel = os.path.relpath(d, src).replace(os.sep, '-')
            name = prefix + rel
            checks = e.get('checks', {})
            if len(checks) < 20:
                continue
            inp = sorted(p for p, c in checks.items() if c['rc'] == 1 and c['violation'] and 'no-failing' not in c['violation'])
            brk = sorted(p for p, c in checks.items() if c['rc'] == 1 and c['violation'] and 'no-failing' in c['violation'])
            other = sorted(p for p, c in checks.items() if c['rc'] not in (0, 1))
            tests_ok = e.get('tests', '').startswith('846 passed')
            confirmed = tests_ok and (e.get('demo_mutant') in (1, None)) and (e.get('demo_clean') in (0, None))
            target = 'neutral' if prefix.startswith('neutral') else ('revert' if prefix.startswith('revert') else (meta.get('property') or rel.split('-')[0]))
            out = os.path.join(DEST, name)
            if confirmed:
                os.makedirs(out, exist_ok=True)
                for fn in ('patch.diff', 'demo.py', 'equiv.py'):
                    if os.path.exists(os.path.join(d, fn)):
                        shutil.copy(os.path.join(d, fn), os.path.join(out, fn))
                if e.get('rebased') and os.path.exists(os.path.join(d, 'patch.rebased.diff')):
                    shutil.copy(os.path.join(d, 'patch.diff'), os.path.join(out, 'patch.original.diff'))
                    shutil.copy(os.path.join(d, 'patch.rebased.diff'), os.path.join(out, 'patch.diff'))
                base, at_head = applies_to(os.path.join(out, 'patch.diff'))
                meta_out = {
                    'applies_to': base, 'applies_to_current_head': at_head,
                    'note_on_base': None if at_head else 'the patch overlaps lines repaired by a later fix: commit of this build; it applies to the commit named in '
                                                         'applies_to and was evaluated there (with the checks of that time); it was not rebased',
                    'property': target, 'summary': meta.get('summary', ''), 'needs': meta.get('needs', ''),
                    'origin': ('behaviour-preserving refactoring written by a sub-agent (equiv.py = its old-versus-new comparison)' if prefix.startswith('neutral') and meta else
                               'written by a sub-agent that saw only the property text and its own worktree' if meta else
                               'revert of one fix: commit / neutral rewrite written for the machinery self-test'),
                    'why_equivalent': meta.get('why_equivalent', '') if prefix.startswith('neutral') else None,
                    'confirmed': {'test_suite_with_change': e.get('tests'), 'demo_exit_without_change': e.get('demo_clean'),
                                  'demo_exit_with_change': e.get('demo_mutant'),
                                  'how': 'tools/evalmut.py: scratch worktree of /repo, git apply, pytest, demo with and without the change, '
                                         'then every ./check <ID> --tier quick with PAMQP_REPO=<worktree>; worktree removed afterwards'},
                    'caught_with_failing_input_by': inp, 'reported_as_broken_obligation_by': brk, 'infrastructure_exit_2': other,
                    'first_lines': {p: checks[p]['first'] for p in inp + brk},
                }
                with open(os.path.join(out, 'meta.json'), 'w') as f:
                    json.dump(meta_out, f, indent=1)
            rows.append((name, target, confirmed, inp, brk, other, meta.get('summary', '') or ''))
    os.makedirs(DEST, exist_ok=True)
    with open(os.path.join(DEST, 'SUMMARY.md'), 'w') as f:
        f.write('# Seeded changes and what catches them\n\n'
                '`input` = the check found a concrete failing input on the changed tree (VIOLATION with a replay that fails there and passes on the clean tree); '
                '`broken` = a proof obligation or correspondence lane of that property stopped checking and no failing input of THAT property was found '
                '(`no-failing-input-found`).\n\n'
                '| change | target | confirmed | caught with input by | broken obligation reported by | summary |\n|---|---|---|---|---|---|\n')
        for name, target, confirmed, inp, brk, other, summ in rows:
            if target == 'neutral':
                hit = 'silent' if not inp and not brk and not other else ('FALSE FAILING INPUT' if inp else 'obligation no longer checks (no-failing-input-found)')
            elif target == 'revert':
                hit = 'caught with input' if inp else 'MISSED'
            else:
                hit = 'TARGET HIT' if target in inp else ('target broken' if target in brk else 'TARGET MISSED')
            f.write('| %s | %s (%s) | %s | %s | %s | %s |\n' % (name, target, hit, 'yes' if confirmed else 'NO', ' '.join(inp) or '-',
                                                              ' '.join(brk) or '-', summ.replace('|', '/')[:160]))
    for wt in _WT.values():
        subprocess.run(['git', '-C', '/repo', 'worktree', 'remove', '--force', wt])
    print('wrote %d rows' % len(rows))


if __name__ == '__main__':
    main()
