#!/usr/bin/env python3
"""Tie A, part 2: further *data* of /repo/pamqp translated into Lean literals.

    Constants.lean   constants.py                       data['constants']
    ReplyCodes.lean  exceptions.py                      data['reply_codes']
    Tables.lean      decode/encode/common tables, struct uses, except sites   data['tables']
    Ladder.lean      table_integer comparison chains, range guards, toggle    data['ladder']
    Purity.lean      defaults, globals, mutation sites, time calls, env reads data['purity']

Pure `ast` (never imports pamqp).  Record types: lean/Pamqp/Spec/DataTypes.lean.
A shape that cannot be read becomes an explicit marker (`<unrecognised: SOURCE>`, tag 0,
lo := none ...); an extractor that crashes yields a marker entry and a message on stderr.
Called from translate.main() as  run(REPO, OUT, data, write_if_changed).
"""
import ast
import copy
import glob
import os
import sys

from translate import lstr, lint, llist, lopt, const_eval, NotConst, seg

FUNC = (ast.FunctionDef, ast.AsyncFunctionDef)
CONST_ERRORS = (NotConst, TypeError, ValueError, OverflowError, RecursionError, AttributeError)


# ---------------------------------------------------------------- small helpers

def warn(msg):
    sys.stderr.write('translate_more: %s\n' % msg)


def unrec(s):
    return '<unrecognised: %s>' % s


def clip(s, n=200):
    return s if len(s) <= n else s[:n - 3] + '...'


def usrc(node, text=None):
    """Whitespace-normalised source of a node (comments dropped, literals normalised)."""
    try:
        s = ast.unparse(node)
    except Exception:  # pragma: no cover
        s = seg(text, node) if text is not None else ast.dump(node)
    return ' '.join(s.split())


def guarded(label, default, f, *args):
    """Run one extractor; an unexpected exception gives `default` and a message on stderr."""
    try:
        return f(*args)
    except Exception as e:  # noqa: the translator must never raise on valid Python
        warn('%s: extractor failed (%s: %s)' % (label, type(e).__name__, e))
        return default(e) if callable(default) else default


def crash(e):
    return unrec('extractor failed: %s' % type(e).__name__)


def strip_doc(body):
    body = list(body)
    if body and isinstance(body[0], ast.Expr) and isinstance(body[0].value, ast.Constant) \
            and isinstance(body[0].value.value, str):
        return body[1:]
    return body


def int_const(node, env=None):
    v = const_eval(node, env)
    if isinstance(v, bool) or not isinstance(v, int):
        raise NotConst
    return v


def dotted(node, aliases=None):
    """a.b.c -> 'a.b.c' with the root name resolved through the import aliases; else None."""
    parts = []
    while isinstance(node, ast.Attribute):
        parts.append(node.attr)
        node = node.value
    if isinstance(node, ast.Name):
        root = (aliases or {}).get(node.id, node.id)
        return '.'.join([root] + parts[::-1])
    return None


def last2(name):
    return '.'.join(name.split('.')[-2:])


def raised_class(st, aliases=None):
    """`raise X(...)` / `raise a.b.X(...)` / `raise X` -> 'X' / 'b.X'; bare raise -> '<reraise>'."""
    if not isinstance(st, ast.Raise):
        return None
    if st.exc is None:
        return '<reraise>'
    f = st.exc.func if isinstance(st.exc, ast.Call) else st.exc
    d = dotted(f)
    return last2(d) if d else unrec(usrc(f))


def bindings(stmts):
    """(name, value-node) of the simple bindings directly in a statement list, source order."""
    out = []
    for st in stmts:
        if isinstance(st, ast.Assign):
            for t in st.targets:
                if isinstance(t, ast.Name):
                    out.append((t.id, st.value, st))
                elif isinstance(t, (ast.Tuple, ast.List)) and isinstance(st.value, (ast.Tuple, ast.List)) \
                        and len(t.elts) == len(st.value.elts):
                    for a, b in zip(t.elts, st.value.elts):
                        if isinstance(a, ast.Name):
                            out.append((a.id, b, st))
        elif isinstance(st, ast.AnnAssign) and isinstance(st.target, ast.Name) and st.value is not None:
            out.append((st.target.id, st.value, st))
    return out


def find_binding(stmts, name):
    r = None
    for n, v, _ in bindings(stmts):
        if n == name:
            r = v   # the last binding wins, as at run time
    return r


# ---------------------------------------------------------------- modules, scopes

class Mod:
    def __init__(self, repo, name):
        self.name = name
        self.path = os.path.join(repo, 'pamqp', name + '.py')
        self.ok = True
        try:
            with open(self.path, encoding='utf-8') as f:
                self.text = f.read()
            self.tree = ast.parse(self.text)
        except (OSError, SyntaxError, ValueError) as e:
            warn('cannot read %s (%s)' % (self.path, e))
            self.ok = False
            self.text = ''
            self.tree = ast.parse('')
        self.aliases = import_aliases(self.tree)
        self.scopes = scopes_of(name, self.tree)
        self.mod_names = module_names(self.tree)
        self.classes = [n.name for n in self.tree.body if isinstance(n, ast.ClassDef)]
        self.funcs = {s['name']: s for s in self.scopes if s['kind'] == 'function'}

    def func(self, name):
        s = self.funcs.get(self.name + '.' + name)
        return s['node'] if s else None


def import_aliases(tree):
    al = {}
    for node in ast.walk(tree):
        if isinstance(node, ast.Import):
            for a in node.names:
                if a.asname:
                    al[a.asname] = a.name
                else:
                    al[a.name.split('.')[0]] = a.name.split('.')[0]
        elif isinstance(node, ast.ImportFrom):
            for a in node.names:
                al[a.asname or a.name] = (node.module + '.' + a.name) if node.module else a.name
    return al


def module_names(tree):
    names = set()
    for node in tree.body:
        if isinstance(node, FUNC + (ast.ClassDef,)):
            names.add(node.name)
        elif isinstance(node, (ast.Import, ast.ImportFrom)):
            for a in node.names:
                names.add(a.asname or a.name.split('.')[0])
        else:
            for n in ast.walk(node):
                if isinstance(n, ast.Name) and isinstance(n.ctx, ast.Store):
                    names.add(n.id)
    return names


def own_nodes(stmts):
    """All AST nodes lexically inside the statements, in source order, WITHOUT descending into
    nested def/class bodies (their decorators, defaults and bases belong to this scope)."""
    out = []
    seq = [0]

    def visit(n, pl, pc):
        l, c = getattr(n, 'lineno', pl), getattr(n, 'col_offset', pc)
        out.append(((l, c, seq[0]), n))
        seq[0] += 1
        if isinstance(n, FUNC):
            for d in n.decorator_list:
                visit(d, l, c)
            for d in list(n.args.defaults) + [k for k in n.args.kw_defaults if k is not None]:
                visit(d, l, c)
            return
        if isinstance(n, ast.ClassDef):
            for d in list(n.decorator_list) + list(n.bases) + [k.value for k in n.keywords]:
                visit(d, l, c)
            return
        for ch in ast.iter_child_nodes(n):
            visit(ch, l, c)
    for s in stmts:
        visit(s, 0, 0)
    out.sort(key=lambda t: t[0])
    return [n for _, n in out]


def scopes_of(mod, tree):
    res = []

    def rec(stmts, qual, kind, node, classes):
        nodes = own_nodes(stmts)
        res.append({'name': qual, 'kind': kind, 'node': node, 'nodes': nodes, 'stmts': stmts,
                    'classes': classes, 'mod': mod})
        for n in nodes:
            if isinstance(n, FUNC):
                rec(n.body, qual + '.' + n.name, 'function', n, classes)
            elif isinstance(n, ast.ClassDef):
                rec(n.body, qual + '.' + n.name, 'class', n, classes + [n.name])
    rec(tree.body, mod, 'module', tree, [])
    return res


def fn_label(s):
    """How a scope is named in the `fn` field."""
    return s['name'] + '.<module>' if s['kind'] == 'module' else s['name']


def param_names(func):
    a = func.args
    names = [x.arg for x in list(getattr(a, 'posonlyargs', [])) + list(a.args) + list(a.kwonlyargs)]
    if a.vararg:
        names.append(a.vararg.arg)
    if a.kwarg:
        names.append(a.kwarg.arg)
    return names


def first_value_param(func):
    names = [x.arg for x in list(getattr(func.args, 'posonlyargs', [])) + list(func.args.args)]
    names = [n for n in names if n not in ('self', 'cls')]
    return names[0] if names else None


def param_defaults(args):
    pos = list(getattr(args, 'posonlyargs', [])) + list(args.args)
    ds = [None] * (len(pos) - len(args.defaults)) + list(args.defaults)
    out = [(a.arg, d) for a, d in zip(pos, ds) if d is not None]
    out += [(a.arg, d) for a, d in zip(args.kwonlyargs, args.kw_defaults) if d is not None]
    return out


# ---------------------------------------------------------------- struct recognition

def struct_member(node, m):
    """common.Struct.<member> (or Struct.<member> inside common.py) -> member name."""
    if not isinstance(node, ast.Attribute):
        return None
    d = dotted(node.value, m.aliases)
    if d is None:
        return None
    parts = d.split('.')
    if parts[-2:] == ['common', 'Struct'] or (m.name == 'common' and d == 'Struct'):
        return node.attr
    return None


STRUCT_OPS = ('pack', 'unpack', 'unpack_from')


def struct_use(call, m, params=()):
    """A Call node -> (what, op) or None."""
    f = call.func
    d = dotted(f, m.aliases)
    if d in ('struct.pack', 'struct.unpack', 'struct.unpack_from'):
        if call.args and isinstance(call.args[0], ast.Constant) and isinstance(call.args[0].value, str):
            return call.args[0].value, d.split('.')[1]
        return unrec(usrc(call.args[0]) if call.args else usrc(call)), d.split('.')[1]
    if isinstance(f, ast.Attribute) and f.attr in STRUCT_OPS:
        mem = struct_member(f.value, m)
        if mem is not None:
            return 'Struct.' + mem, f.attr
        # a Struct object handed in as an argument (encode._string)
        if isinstance(f.value, ast.Name) and f.value.id in params:
            return 'param:' + f.value.id, f.attr
    return None


# ================================================================ 1. Constants

def const_val(node):
    try:
        v = const_eval(node)
        if isinstance(v, bool) or v is None:
            raise NotConst
        if isinstance(v, int):
            return {'kind': 'int', 'v': v}
        if isinstance(v, str):
            return {'kind': 'str', 'v': v}
        if isinstance(v, bytes):
            return {'kind': 'bytes', 'v': list(v)}
    except CONST_ERRORS:
        pass
    if isinstance(node, ast.Tuple):
        try:
            return {'kind': 'tuple', 'v': [int_const(e) for e in node.elts]}
        except CONST_ERRORS:
            pass
    return {'kind': 'other', 'v': usrc(node)}


RUNTIME = {}


def RECONCILE(label, a, a_ok, r, r_ok=True):      # replaced by translate.main with translate.reconcile
    return a


def extract_constants(m):
    out = {'constants': [], 'domainRegex': [], 'dataTypes': []}

    R = RUNTIME.get('constants') or {}

    def consts():
        res = []
        for n, v, _ in bindings(m.tree.body):
            val = guarded('constants.' + n, lambda e: {'kind': 'other', 'v': crash(e)}, const_val, v)
            r = R.get(n)
            r_ok = isinstance(r, dict) and r.get('kind') != 'other'
            val = RECONCILE('constants.' + n, val, val['kind'] != 'other', r if r_ok else None, r_ok)
            res.append({'name': n, 'val': val})
        return res
    out['constants'] = guarded('constants', lambda e: [{'name': crash(e), 'val': {'kind': 'other', 'v': ''}}],
                               consts)

    def regex():
        d = find_binding(m.tree.body, 'DOMAIN_REGEX')
        if not isinstance(d, ast.Dict):
            return [[unrec('DOMAIN_REGEX ' + (usrc(d) if d is not None else 'missing')), '']]
        res = []
        for k, v in zip(d.keys, d.values):
            key = k.value if isinstance(k, ast.Constant) and isinstance(k.value, str) \
                else unrec(usrc(k) if k is not None else '**' + usrc(v))
            pat = unrec(usrc(v))
            if (isinstance(v, ast.Call) and dotted(v.func, m.aliases) == 're.compile' and len(v.args) == 1
                    and not v.keywords and isinstance(v.args[0], ast.Constant)
                    and isinstance(v.args[0].value, str)):
                pat = v.args[0].value
            res.append([key, pat])
        return res

    def regex_rt():
        try:
            a = regex()
        except Exception as e:  # noqa
            a = [[crash(e), '']]
        a_ok = all(not str(k).startswith('<unrecognised') and not str(p_).startswith('<unrecognised') and not str(k).startswith('<crash')
                   for k, p_ in a)
        r = RUNTIME.get('domain_regex')
        r_ok = bool(r) and all(p_ is not None for _, p_ in r)
        return RECONCILE('constants.DOMAIN_REGEX', a, a_ok, r if r_ok else None, r_ok)
    out['domainRegex'] = guarded('domainRegex', lambda e: [[crash(e), '']], regex_rt)

    def dtypes():
        d = find_binding(m.tree.body, 'DATA_TYPES')
        if isinstance(d, (ast.List, ast.Tuple)) and all(
                isinstance(e, ast.Constant) and isinstance(e.value, str) for e in d.elts):
            return [e.value for e in d.elts]
        return [unrec('DATA_TYPES ' + (usrc(d) if d is not None else 'missing'))]
    out['dataTypes'] = guarded('dataTypes', lambda e: [crash(e)], dtypes)
    return out


def lconst(c):
    k, v = c['kind'], c['v']
    if k == 'int':
        return '.int %s' % lint(v)
    if k == 'str':
        return '.str %s' % lstr(v)
    if k == 'bytes':
        return '.bytes %s' % llist('%d' % b for b in v)
    if k == 'tuple':
        return '.tuple %s' % llist(lint(i) for i in v)
    return '.other %s' % lstr(v)


# ---------------------------------------------------------------- Lean emission helpers

CHUNK = 200


def ldef(name, ty, items):
    """`def name : List ty := [...]`, one item per line; very long lists are split into chunks."""
    items = list(items)
    if not items:
        return ['def %s : List %s := []' % (name, ty), '']
    if len(items) <= CHUNK:
        return ['def %s : List %s := [' % (name, ty), ',\n'.join('  ' + i for i in items), ']', '']
    L, parts = [], []
    for k in range(0, len(items), CHUNK):
        p = '%s_part%d' % (name, k // CHUNK)
        parts.append(p)
        L += ['def %s : List %s := [' % (p, ty), ',\n'.join('  ' + i for i in items[k:k + CHUNK]), ']', '']
    L += ['def %s : List %s := %s' % (name, ty, ' ++ '.join(parts)), '']
    return L


def lpair(a, b):
    return '(%s, %s)' % (a, b)


def lfile(origin, body):
    return '\n'.join(['import Pamqp.Spec.DataTypes',
                      '/-! GENERATED by tools/translate_more.py from %s - do not edit. -/' % origin,
                      'namespace Pamqp.Generated', ''] + body + ['end Pamqp.Generated', ''])


def emit_constants(d):
    body = ldef('constants', '(String × ConstVal)', (lpair(lstr(c['name']), lconst(c['val'])) for c in d['constants']))
    body += ldef('domainRegex', '(String × String)', (lpair(lstr(k), lstr(p)) for k, p in d['domainRegex']))
    body += ['def dataTypes : List String := %s' % llist(lstr(x) for x in d['dataTypes']), '']
    return lfile('/repo/pamqp/constants.py', body)


# ================================================================ 2. ReplyCodes

ROOTS = ('Exception', 'BaseException', 'object')


def extract_reply_codes(m):
    classes = {}
    order = []
    for s in m.scopes:
        if s['kind'] == 'class' and s['name'].count('.') == 1:
            classes[s['node'].name] = s['node']
            order.append(s['node'].name)

    def chain(name):
        out, seen = [], {name}

        def go(c):
            for b in classes[c].bases:
                bn = dotted(b) or usrc(b)
                if bn in ROOTS or bn in seen:
                    continue
                seen.add(bn)
                out.append(bn)
                if bn in classes:
                    go(bn)
        go(name)
        return out
    res = {'replyCodes': [], 'classMapping': [], 'exceptionBases': []}

    def bases():
        return [[n, chain(n)] for n in order]
    res['exceptionBases'] = guarded('exceptionBases', lambda e: [[crash(e), []]], bases)

    def codes():
        out = []
        for n in order:
            nm = find_binding(classes[n].body, 'name')
            vl = find_binding(classes[n].body, 'value')
            if nm is None or vl is None:
                continue
            try:
                name = const_eval(nm)
                if not isinstance(name, str):
                    raise NotConst
            except CONST_ERRORS:
                name = unrec(usrc(nm))
            rx = (RUNTIME.get('exceptions') or {}).get(n, {})
            name = RECONCILE('exceptions.%s.name' % n, name, not str(name).startswith('<unrecognised'), rx.get('name'),
                             isinstance(rx.get('name'), str))
            try:
                value = int_const(vl)
                value = RECONCILE('exceptions.%s.value' % n, value, True, rx.get('value'), isinstance(rx.get('value'), int))
            except CONST_ERRORS:
                if isinstance(rx.get('value'), int) and not isinstance(rx.get('value'), bool):
                    value = RECONCILE('exceptions.%s.value' % n, -1, False, rx.get('value'), True)
                else:
                    value, name = -1, name + ' ' + unrec('value ' + usrc(vl))
            out.append({'value': value, 'name': name, 'className': n, 'bases': chain(n)})
        return out
    res['replyCodes'] = guarded('replyCodes', lambda e: [{'value': -1, 'name': crash(e), 'className': '', 'bases': []}],
                                codes)

    def mapping():
        d = find_binding(m.tree.body, 'CLASS_MAPPING')
        if not isinstance(d, ast.Dict):
            return [[-1, unrec('CLASS_MAPPING ' + (usrc(d) if d is not None else 'missing'))]]
        out = []
        for k, v in zip(d.keys, d.values):
            ref = v.id if isinstance(v, ast.Name) else unrec(usrc(v))
            try:
                key = int_const(k)
            except CONST_ERRORS:
                key, ref = -1, ref + ' ' + unrec('key ' + (usrc(k) if k is not None else '**'))
            out.append([key, ref])
        return out

    def mapping_rt():
        try:
            a = mapping()
        except Exception as e:  # noqa
            a = [[-1, crash(e)]]
        a_ok = all(k != -1 and not str(v).startswith('<') for k, v in a)
        r = RUNTIME.get('class_mapping')
        r_ok = bool(r) and all(k is not None and v is not None for k, v in r)
        return RECONCILE('exceptions.CLASS_MAPPING', a, a_ok, r if r_ok else None, r_ok)
    res['classMapping'] = guarded('classMapping', lambda e: [[-1, crash(e)]], mapping_rt)
    return res


def emit_reply_codes(d):
    body = ldef('replyCodes', 'ReplyCode',
                ('{ value := %s, name := %s, className := %s, bases := %s }'
                 % (lint(r['value']), lstr(r['name']), lstr(r['className']), llist(lstr(b) for b in r['bases']))
                 for r in d['replyCodes']))
    body += ldef('classMapping', '(Int × String)', (lpair(lint(k), lstr(v)) for k, v in d['classMapping']))
    body += ldef('exceptionBases', '(String × List String)',
                 (lpair(lstr(n), llist(lstr(b) for b in bs)) for n, bs in d['exceptionBases']))
    return lfile('/repo/pamqp/exceptions.py', body)


# ================================================================ 3. Tables

def func_ref(node, m):
    if isinstance(node, ast.Lambda):
        return '<lambda>'
    if isinstance(node, ast.Name):
        if node.id in m.aliases and (m.name + '.' + node.id) not in m.funcs:
            a = m.aliases[node.id]
            return a[len('pamqp.'):] if a.startswith('pamqp.') else a
        return m.name + '.' + node.id
    d = dotted(node, m.aliases)
    if d:
        return d[len('pamqp.'):] if d.startswith('pamqp.') else d
    return unrec(usrc(node))


def dict_table(m, name, keyf, bad_key):
    d = find_binding(m.tree.body, name)
    if not isinstance(d, ast.Dict):
        return [[bad_key, unrec('%s.%s %s' % (m.name, name, usrc(d) if d is not None else 'missing'))]]
    out = []
    for k, v in zip(d.keys, d.values):
        key = keyf(k)
        ref = func_ref(v, m)
        if key is None:
            key, ref = bad_key, ref + ' ' + unrec('key ' + (usrc(k) if k is not None else '**'))
        out.append([key, ref])
    return out


def key_byte(k):
    if isinstance(k, ast.Constant) and isinstance(k.value, bytes) and len(k.value) == 1:
        return k.value[0]
    return None


def key_str(k):
    if isinstance(k, ast.Constant) and isinstance(k.value, str):
        return k.value
    return None


def extract_struct_formats(m):
    cls = [n for n in m.tree.body if isinstance(n, ast.ClassDef) and n.name == 'Struct']
    if not cls:
        return [[unrec('common.Struct missing'), '']]
    out = []
    for n, v, _ in bindings(cls[-1].body):
        fmt = unrec(usrc(v))
        if (isinstance(v, ast.Call) and dotted(v.func, m.aliases) == 'struct.Struct' and len(v.args) == 1
                and not v.keywords and isinstance(v.args[0], ast.Constant) and isinstance(v.args[0].value, str)):
            fmt = v.args[0].value
        out.append([n, fmt])
    return out


def extract_struct_uses(mods):
    out = []
    for m in mods:
        if m.name == 'commands':
            continue
        for s in m.scopes:
            params = param_names(s['node']) if s['kind'] == 'function' else []
            receivers = set()
            calls = [n for n in s['nodes'] if isinstance(n, ast.Call)]
            for c in calls:
                u = struct_use(c, m, params)
                if u:
                    out.append({'fn': fn_label(s), 'what': u[0], 'op': u[1], 'pos': (c.lineno, c.col_offset)})
                    if isinstance(c.func, ast.Attribute):
                        receivers.add(id(c.func.value))
            # a Struct member passed around rather than used on the spot (encode.long_string)
            for n in s['nodes']:
                if isinstance(n, ast.Attribute) and id(n) not in receivers and struct_member(n, m) is not None \
                        and not (m.name == 'common' and s['kind'] == 'class'):
                    out.append({'fn': fn_label(s), 'what': 'Struct.' + n.attr, 'op': 'ref',
                                'pos': (n.lineno, n.col_offset)})
    # source order inside each function (calls and refs interleaved), functions in scope order
    order = {}
    for i, e in enumerate(out):
        order.setdefault(e['fn'], len(order))
    out.sort(key=lambda e: (order[e['fn']], e['pos']))
    return [{'fn': e['fn'], 'what': e['what'], 'op': e['op']} for e in out]


EXCEPT_MODS = ('frame', 'header', 'decode', 'encode', 'base')


def handler_catches(h):
    if h.type is None:
        return ['<bare>']
    ts = h.type.elts if isinstance(h.type, ast.Tuple) else [h.type]
    return [dotted(t) or unrec(usrc(t)) for t in ts]


def handler_action(h):
    last = h.body[-1] if h.body else None
    if isinstance(last, ast.Raise):
        return 'raise ' + raised_class(last)
    if isinstance(last, ast.Return):
        return clip(usrc(last), 220)
    return 'other'


def extract_except_sites(mods):
    out = []
    for m in mods:
        if m.name not in EXCEPT_MODS:
            continue
        for s in m.scopes:
            for n in s['nodes']:
                if isinstance(n, ast.Try) or type(n).__name__ == 'TryStar':
                    covers = [clip(usrc(st)) for st in n.body]
                    for h in n.handlers:
                        out.append({'fn': fn_label(s), 'covers': covers, 'catches': handler_catches(h),
                                    'action': handler_action(h)})
    return out


def extract_frame_const_uses(m):
    out = []
    for s in m.scopes:
        if s['kind'] != 'function':
            continue
        seen = set()
        for n in s['nodes']:
            if isinstance(n, ast.Attribute):
                d = dotted(n.value, m.aliases)
                if d in ('pamqp.constants', 'constants') and n.attr not in seen:
                    seen.add(n.attr)
                    out.append([s['name'], n.attr])
    return out


def extract_codec_calls(mods):
    """every `<expr>.encode(...)` / `<expr>.decode(...)` call on a value (not on a pamqp module): the codec
    name and error handling the model's strict UTF-8 stands for"""
    out = []
    for m in mods:
        if m.name == 'commands':
            continue
        for s in m.scopes:
            for n in s['nodes']:
                if isinstance(n, ast.Call) and isinstance(n.func, ast.Attribute) and n.func.attr in ('encode', 'decode'):
                    recv = n.func.value
                    if isinstance(recv, ast.Name) and (recv.id in m.aliases or recv.id in ('encode', 'decode', 'codecs')):
                        continue
                    args = ', '.join([usrc(a) for a in n.args] + ['%s=%s' % (k.arg, usrc(k.value)) for k in n.keywords])
                    out.append([fn_label(s), n.func.attr, args])
    return out


def extract_tables(M):
    dec, enc, com, frm = M['decode'], M['encode'], M['common'], M['frame']
    mods = [M[k] for k in sorted(M)]
    return {
        'tableMapping': guarded('tableMapping', lambda e: [[0, crash(e)]], dict_table, dec, 'TABLE_MAPPING', key_byte, 0),
        'decodeMethods': guarded('decodeMethods', lambda e: [[crash(e), '']], dict_table, dec, 'METHODS', key_str,
                                 unrec('key')),
        'encodeMethods': guarded('encodeMethods', lambda e: [[crash(e), '']], dict_table, enc, 'METHODS', key_str,
                                 unrec('key')),
        'structFormats': guarded('structFormats', lambda e: [[crash(e), '']], extract_struct_formats, com),
        'structUses': guarded('structUses', lambda e: [{'fn': crash(e), 'what': '', 'op': ''}],
                              extract_struct_uses, mods),
        'exceptSites': guarded('exceptSites', lambda e: [{'fn': crash(e), 'covers': [], 'catches': [], 'action': 'other'}],
                               extract_except_sites, mods),
        'frameConstUses': guarded('frameConstUses', lambda e: [[crash(e), '']], extract_frame_const_uses, frm),
        'codecCalls': guarded('codecCalls', lambda e: [[crash(e), '', '']], extract_codec_calls, mods),
    }


def emit_tables(d):
    body = ldef('tableMapping', '(Nat × String)', (lpair('%d' % k, lstr(v)) for k, v in d['tableMapping']))
    body += ldef('decodeMethods', '(String × String)', (lpair(lstr(k), lstr(v)) for k, v in d['decodeMethods']))
    body += ldef('encodeMethods', '(String × String)', (lpair(lstr(k), lstr(v)) for k, v in d['encodeMethods']))
    body += ldef('structFormats', '(String × String)', (lpair(lstr(k), lstr(v)) for k, v in d['structFormats']))
    body += ldef('structUses', 'StructUse', ('{ fn := %s, what := %s, op := %s }'
                                             % (lstr(u['fn']), lstr(u['what']), lstr(u['op'])) for u in d['structUses']))
    body += ldef('exceptSites', 'ExceptSite',
                 ('{ fn := %s, covers := %s,\n    catches := %s, action := %s }'
                  % (lstr(x['fn']), llist(lstr(c) for c in x['covers']), llist(lstr(c) for c in x['catches']),
                     lstr(x['action'])) for x in d['exceptSites']))
    body += ldef('frameConstUses', '(String × String)', (lpair(lstr(k), lstr(v)) for k, v in d['frameConstUses']))
    body += ldef('codecCalls', '(String × String × String)', ('(%s, %s, %s)' % (lstr(a), lstr(b), lstr(c)) for a, b, c in d['codecCalls']))
    return lfile('/repo/pamqp/{decode,encode,common,frame,header,base,heartbeat}.py', body)


# ================================================================ 4. Ladder

INVERT = {ast.Lt: ast.GtE, ast.LtE: ast.Gt, ast.Gt: ast.LtE, ast.GtE: ast.Lt}


def _pair(l, op, r, v, env, neg):
    def isv(n):
        return isinstance(n, ast.Name) and n.id == v
    k = type(op)
    if neg:
        if k not in INVERT:
            return None
        k = INVERT[k]
    try:
        if isv(l) and not isv(r):
            c = int_const(r, env)
            return {ast.Lt: [('hi', c - 1)], ast.LtE: [('hi', c)], ast.Gt: [('lo', c + 1)], ast.GtE: [('lo', c)],
                    ast.Eq: [('lo', c), ('hi', c)]}.get(k)
        if isv(r) and not isv(l):
            c = int_const(l, env)
            return {ast.Lt: [('lo', c + 1)], ast.LtE: [('lo', c)], ast.Gt: [('hi', c - 1)], ast.GtE: [('hi', c)],
                    ast.Eq: [('lo', c), ('hi', c)]}.get(k)
    except CONST_ERRORS:
        return None
    return None


def _bounds(node, v, env, neg):
    """Conjunction of lower/upper bounds on v equivalent to `node` (or to `not node`), else None."""
    if isinstance(node, ast.UnaryOp) and isinstance(node.op, ast.Not):
        return _bounds(node.operand, v, env, not neg)
    if isinstance(node, ast.BoolOp):
        if isinstance(node.op, ast.And) == neg:     # `and` under negation / `or` without: a disjunction
            return None
        out = []
        for x in node.values:
            b = _bounds(x, v, env, neg)
            if b is None:
                return None
            out += b
        return out
    if isinstance(node, ast.Compare):
        if neg and len(node.ops) != 1:
            return None
        out, l = [], node.left
        for op, r in zip(node.ops, node.comparators):
            b = _pair(l, op, r, v, env, neg)
            if b is None:
                return None
            out += b
            l = r
        return out
    return None


def interval(node, v, env, neg=False):
    """Closed interval [lo, hi] such that node (or `not node` if neg) <-> lo <= v <= hi; else None."""
    b = _bounds(node, v, env, neg)
    if not b:
        return None
    los = [x for k, x in b if k == 'lo']
    his = [x for k, x in b if k == 'hi']
    if not los or not his:
        return None
    return max(los), min(his)


def int_env(tree):
    env = {}
    for n, v, _ in bindings(tree.body):
        try:
            env[n] = int_const(v, env)
        except CONST_ERRORS:
            env.pop(n, None)
    return env


def bad_rung(what):
    return {'lo': 0, 'hi': 0, 'tag': 0, 'encoder': unrec(clip(what, 300))}


def parse_arm(test, body, v, env, m):
    whole = 'if %s: %s' % (usrc(test), ' '.join(usrc(s) for s in body))
    iv = interval(test, v, env)
    if iv is None or len(body) != 1 or not isinstance(body[0], ast.Return):
        return bad_rung(whole)
    e = body[0].value
    if not (isinstance(e, ast.BinOp) and isinstance(e.op, ast.Add) and isinstance(e.left, ast.Constant)
            and isinstance(e.left.value, bytes) and len(e.left.value) == 1 and isinstance(e.right, ast.Call)):
        return bad_rung(whole)
    call = e.right
    if not (len(call.args) == 1 and not call.keywords and isinstance(call.args[0], ast.Name)
            and call.args[0].id == v):
        return bad_rung(whole)
    f = call.func
    enc = None
    if isinstance(f, ast.Name):
        enc = f.id
    elif isinstance(f, ast.Attribute) and f.attr == 'pack' and struct_member(f.value, m) is not None:
        enc = 'Struct.' + struct_member(f.value, m)
    if enc is None:
        return bad_rung(whole)
    return {'lo': iv[0], 'hi': iv[1], 'tag': e.left.value[0], 'encoder': enc}


def parse_chain(stmts, v, env, m):
    rungs, fall = [], None
    for idx, st in enumerate(stmts):
        last = idx == len(stmts) - 1
        if isinstance(st, ast.If):
            cur = st
            while True:
                rungs.append(parse_arm(cur.test, cur.body, v, env, m))
                if len(cur.orelse) == 1 and isinstance(cur.orelse[0], ast.If):
                    cur = cur.orelse[0]
                    continue
                if cur.orelse:
                    if last and len(cur.orelse) == 1 and isinstance(cur.orelse[0], ast.Raise):
                        fall = raised_class(cur.orelse[0])
                    else:
                        rungs.append(bad_rung('else: ' + ' '.join(usrc(s) for s in cur.orelse)))
                break
        elif isinstance(st, ast.Raise) and last:
            fall = raised_class(st)
        elif isinstance(st, ast.Pass):
            continue
        else:
            rungs.append(bad_rung(usrc(st)))
    if fall is None:
        fall = unrec('no final raise' + (': ' + clip(usrc(stmts[-1])) if stmts else ''))
    return rungs, fall


PRELUDE = 'DEPRECATED_RABBITMQ_SUPPORT -> _deprecated_table_integer'


def extract_ladders(m):
    env = int_env(m.tree)
    res = {'ladder': [], 'legacyLadder': [], 'ladderPrelude': '', 'ladderFallthrough': []}
    f = m.func('table_integer')
    if f is None:
        res['ladder'] = [bad_rung('encode.table_integer missing')]
        res['ladderPrelude'] = unrec('encode.table_integer missing')
        res['ladderFallthrough'].append(unrec('encode.table_integer missing'))
    else:
        v = first_value_param(f)
        body = strip_doc(f.body)
        st = body[0] if body else None
        if (isinstance(st, ast.If) and isinstance(st.test, ast.Name) and st.test.id == 'DEPRECATED_RABBITMQ_SUPPORT'
                and not st.orelse and len(st.body) == 1 and isinstance(st.body[0], ast.Return)
                and isinstance(st.body[0].value, ast.Call) and isinstance(st.body[0].value.func, ast.Name)
                and st.body[0].value.func.id == '_deprecated_table_integer' and not st.body[0].value.keywords
                and len(st.body[0].value.args) == 1 and isinstance(st.body[0].value.args[0], ast.Name)
                and st.body[0].value.args[0].id == v):
            res['ladderPrelude'] = PRELUDE
            body = body[1:]
        else:
            res['ladderPrelude'] = unrec(clip(usrc(st)) if st is not None else 'empty body')
        res['ladder'], fall = parse_chain(body, v, env, m)
        res['ladderFallthrough'].append(fall)
    g = m.func('_deprecated_table_integer')
    if g is None:
        res['legacyLadder'] = [bad_rung('encode._deprecated_table_integer missing')]
        res['ladderFallthrough'].append(unrec('encode._deprecated_table_integer missing'))
    else:
        res['legacyLadder'], fall = parse_chain(strip_doc(g.body), first_value_param(g), env, m)
        res['ladderFallthrough'].append(fall)
    return res


GUARD_FNS = ('boolean', 'byte_array', 'decimal', 'double', 'floating_point', 'long_int', 'long_uint',
             'long_long_int', 'octet', 'short_int', 'short_uint', 'bit')


def not_isinstance(test, v):
    """`not isinstance(v, T)` -> source of T."""
    if (isinstance(test, ast.UnaryOp) and isinstance(test.op, ast.Not) and isinstance(test.operand, ast.Call)
            and isinstance(test.operand.func, ast.Name) and test.operand.func.id == 'isinstance'
            and len(test.operand.args) == 2 and not test.operand.keywords
            and isinstance(test.operand.args[0], ast.Name) and test.operand.args[0].id == v):
        return usrc(test.operand.args[1])
    return None


def guard_of(name, m, env):
    g = {'fn': 'encode.' + name, 'isinstanceOf': '', 'lo': None, 'hi': None, 'exc': '', 'packer': ''}
    s = m.funcs.get('encode.' + name)
    if s is None:
        g['isinstanceOf'] = unrec('encode.%s missing' % name)
        return g
    f = s['node']
    v = first_value_param(f)
    arms = []       # leading `if/elif ...: raise` arms
    for st in strip_doc(f.body):
        if not isinstance(st, ast.If):
            break
        cur, ok, got = st, True, []
        while True:
            if len(cur.body) == 1 and isinstance(cur.body[0], ast.Raise):
                got.append((cur.test, cur.body[0]))
            else:
                ok = False
                break
            if len(cur.orelse) == 1 and isinstance(cur.orelse[0], ast.If):
                cur = cur.orelse[0]
                continue
            if cur.orelse:
                ok = False
            break
        if not ok:
            break
        arms += got
    type_exc = range_exc = None
    for i, (test, r) in enumerate(arms):
        t = not_isinstance(test, v)
        iv = interval(test, v, env, neg=True) if t is None else None
        if t is not None and type_exc is None and not g['isinstanceOf']:
            g['isinstanceOf'], type_exc = t, raised_class(r)
        elif iv is not None and range_exc is None:
            g['lo'], g['hi'], range_exc = iv[0], iv[1], raised_class(r)
        elif i == 0:
            g['isinstanceOf'], type_exc = usrc(test), raised_class(r)     # e.g. `value not in (0, 1)`
        else:
            g['isinstanceOf'] += '; ' + unrec(clip(usrc(test)))
    g['exc'] = range_exc or type_exc or ''
    packers = []
    for n in s['nodes']:
        if isinstance(n, ast.Return) and n.value is not None:
            for c in own_nodes([n.value]):
                if isinstance(c, ast.Call):
                    u = struct_use(c, m)
                    if u and u[1] == 'pack' and u[0] not in packers:
                        packers.append(u[0])
    g['packer'] = '|'.join(packers)
    return g


def extract_toggle(m):
    res = {'toggleDefault': unrec('encode.support_deprecated_rabbitmq missing'),
           'toggleGlobal': unrec('encode.support_deprecated_rabbitmq missing'), 'legacyInitial': ''}
    s = m.funcs.get('encode.support_deprecated_rabbitmq')
    name = 'DEPRECATED_RABBITMQ_SUPPORT'
    if s is not None:
        ds = dict(param_defaults(s['node'].args))
        res['toggleDefault'] = usrc(ds['enabled']) if 'enabled' in ds else unrec(
            'no default for enabled in (%s)' % usrc(s['node'].args))
        gs = [n for _, n in global_stores_of(s)]
        res['toggleGlobal'] = ','.join(gs) if gs else unrec('no global store')
        if len(gs) == 1:
            name = gs[0]
    v = find_binding(m.tree.body, name)
    res['legacyInitial'] = usrc(v) if v is not None else unrec('no module-level %s' % name)
    return res


def toggle_sites(M):
    """every place inside the package that flips the switch: calls of support_deprecated_rabbitmq and
    stores to <module>.DEPRECATED_RABBITMQ_SUPPORT / global stores of that name outside the toggle itself"""
    out = []
    for k in sorted(M):
        m = M[k]
        for sc in m.scopes:
            for n in sc['nodes']:
                if isinstance(n, ast.Call):
                    f = n.func
                    nm = f.id if isinstance(f, ast.Name) else f.attr if isinstance(f, ast.Attribute) else None
                    if nm == 'support_deprecated_rabbitmq':
                        out.append('%s calls support_deprecated_rabbitmq (line %d)' % (sc['name'], n.lineno))
                    if nm in ('setattr', 'globals', 'vars', '__setattr__') and 'DEPRECATED_RABBITMQ_SUPPORT' in usrc(n):
                        out.append('%s: %s (line %d)' % (sc['name'], usrc(n)[:80], n.lineno))
                if isinstance(n, ast.Attribute) and isinstance(n.ctx, (ast.Store, ast.Del)) \
                        and n.attr == 'DEPRECATED_RABBITMQ_SUPPORT':
                    out.append('%s stores %s (line %d)' % (sc['name'], usrc(n), n.lineno))
                if isinstance(n, ast.Name) and isinstance(n.ctx, (ast.Store, ast.Del)) and n.id == 'DEPRECATED_RABBITMQ_SUPPORT' \
                        and sc['kind'] == 'function' and sc['name'] != 'encode.support_deprecated_rabbitmq':
                    out.append('%s stores %s (line %d)' % (sc['name'], n.id, n.lineno))
    return out


def extract_ladder(M):
    m = M['encode']
    env = guarded('encode int constants', {}, int_env, m.tree)
    res = guarded('ladder', lambda e: {'ladder': [bad_rung(crash(e))], 'legacyLadder': [bad_rung(crash(e))],
                                       'ladderPrelude': crash(e), 'ladderFallthrough': [crash(e), crash(e)]},
                  extract_ladders, m)
    res['guards'] = [guarded('guard ' + n, lambda e, n=n: {'fn': 'encode.' + n, 'isinstanceOf': crash(e), 'lo': None,
                                                           'hi': None, 'exc': '', 'packer': ''},
                             guard_of, n, m, env) for n in GUARD_FNS]
    res.update(guarded('toggle', lambda e: {'toggleDefault': crash(e), 'toggleGlobal': crash(e),
                                            'legacyInitial': crash(e)}, extract_toggle, m))
    res['toggleSites'] = guarded('toggle sites', lambda e: [crash(e)], toggle_sites, M)
    return res


def lrung(r):
    return '{ lo := %s, hi := %s, tag := %d, encoder := %s }' % (lint(r['lo']), lint(r['hi']), r['tag'],
                                                                 lstr(r['encoder']))


def emit_ladder(d):
    body = ldef('ladder', 'Rung', (lrung(r) for r in d['ladder']))
    body += ldef('legacyLadder', 'Rung', (lrung(r) for r in d['legacyLadder']))
    body += ['def ladderPrelude : String := %s' % lstr(d['ladderPrelude']),
             'def ladderFallthrough : List String := %s' % llist(lstr(x) for x in d['ladderFallthrough']), '']
    body += ldef('guards', 'Guard',
                 ('{ fn := %s, isinstanceOf := %s, lo := %s, hi := %s, exc := %s, packer := %s }'
                  % (lstr(g['fn']), lstr(g['isinstanceOf']), lopt(lint(g['lo']) if g['lo'] is not None else None),
                     lopt(lint(g['hi']) if g['hi'] is not None else None), lstr(g['exc']), lstr(g['packer']))
                  for g in d['guards']))
    body += ['def toggleDefault : String := %s' % lstr(d['toggleDefault']),
             'def toggleGlobal : String := %s' % lstr(d['toggleGlobal']),
             'def legacyInitial : String := %s' % lstr(d['legacyInitial']),
             'def toggleSites : List String := %s' % llist(lstr(x) for x in d['toggleSites']), '']
    return lfile('/repo/pamqp/encode.py', body)


# ================================================================ 5. Purity

MUTATORS = ('append', 'extend', 'insert', 'pop', 'remove', 'clear', 'update', 'setdefault', 'popitem', 'sort',
            'reverse', 'add', 'discard')
CONTAINER_CALLS = {'list': 'list', 'dict': 'dict', 'set': 'set', 'bytearray': 'bytearray',
                   'defaultdict': 'dict', 'OrderedDict': 'dict', 'Counter': 'dict', 'deque': 'list'}
TIME_MODS = ('time', 'datetime', 'calendar')
TIME_METHODS = ('timestamp', 'replace', 'astimezone', 'utcoffset', 'timetuple', 'utctimetuple', 'mktime',
                'localtime', 'gmtime', 'now', 'utcnow', 'today', 'fromtimestamp', 'utcfromtimestamp',
                'strftime', 'strptime')
TIME_FILES = ('encode', 'decode', 'base', 'frame', 'header', 'body', 'heartbeat', 'common')
ENV_PREFIXES = ('os.environ', 'os.environb', 'os.getenv', 'os.getenvb', 'os.putenv', 'os.unsetenv',
                'time.tzset', 'time.timezone', 'time.altzone', 'time.tzname')


def mutable_kind(node):
    if isinstance(node, (ast.List, ast.ListComp)):
        return 'list'
    if isinstance(node, (ast.Dict, ast.DictComp)):
        return 'dict'
    if isinstance(node, (ast.Set, ast.SetComp)):
        return 'set'
    if isinstance(node, ast.Call):
        f = node.func
        n = f.id if isinstance(f, ast.Name) else (f.attr if isinstance(f, ast.Attribute) else None)
        if isinstance(f, ast.Attribute) and n in ('list', 'dict', 'set', 'bytearray'):
            return None     # x.list() is not the builtin
        return CONTAINER_CALLS.get(n)
    return None


def is_immutable(node):
    try:
        const_eval(node)
        return True
    except CONST_ERRORS:
        pass
    if isinstance(node, ast.UnaryOp) and isinstance(node.op, (ast.USub, ast.UAdd)) \
            and isinstance(node.operand, ast.Constant) and isinstance(node.operand.value, (int, float, complex)):
        return True
    if isinstance(node, ast.Tuple):
        return all(is_immutable(e) for e in node.elts)
    return False


def is_fresh(node):
    """expression that creates a new object nobody else can see"""
    if mutable_kind(node) is not None:
        return True
    if isinstance(node, ast.Call):
        f = node.func
        if isinstance(f, ast.Name) and f.id in ('sorted', 'tuple', 'bytes', 'str', 'int'):
            return True
        if isinstance(f, ast.Attribute) and f.attr == 'join' and isinstance(f.value, ast.Constant):
            return True
    return False


def global_stores_of(s):
    """(fn, NAME) for names declared global in the function and stored there."""
    decl = []
    for n in s['nodes']:
        if isinstance(n, ast.Global):
            decl += [x for x in n.names if x not in decl]
    out = []
    for n in s['nodes']:
        if isinstance(n, ast.Name) and isinstance(n.ctx, (ast.Store, ast.Del)) and n.id in decl \
                and (s['name'], n.id) not in out:
            out.append((s['name'], n.id))
    return out


def local_assignments(s):
    """[(pos, name, fresh?)] of every binding of a local Name in the function, source order."""
    out = []

    def names(t):
        return [x.id for x in ast.walk(t) if isinstance(x, ast.Name)]
    for n in s['nodes']:
        pos = (getattr(n, 'lineno', 0), getattr(n, 'col_offset', 0))
        if isinstance(n, ast.Assign):
            for t in n.targets:
                if isinstance(t, ast.Name):
                    out.append((pos, t.id, is_fresh(n.value)))
                elif isinstance(t, (ast.Tuple, ast.List)):
                    if isinstance(n.value, (ast.Tuple, ast.List)) and len(n.value.elts) == len(t.elts) \
                            and not any(isinstance(e, ast.Starred) for e in list(t.elts) + list(n.value.elts)):
                        for a, b in zip(t.elts, n.value.elts):
                            if isinstance(a, ast.Name):
                                out.append((pos, a.id, is_fresh(b)))
                            elif isinstance(a, (ast.Tuple, ast.List)):
                                out += [(pos, x, False) for x in names(a)]
                    else:
                        for e in t.elts:
                            if isinstance(e, (ast.Name, ast.Tuple, ast.List, ast.Starred)):
                                out += [(pos, x, False) for x in names(e)]
        elif isinstance(n, ast.AnnAssign) and isinstance(n.target, ast.Name) and n.value is not None:
            out.append((pos, n.target.id, is_fresh(n.value)))
        elif isinstance(n, ast.AugAssign) and isinstance(n.target, ast.Name):
            out.append((pos, n.target.id, False))
        elif isinstance(n, (ast.For, ast.AsyncFor)):
            out += [(pos, x.id, False) for x in ast.walk(n.target)
                    if isinstance(x, ast.Name) and isinstance(x.ctx, ast.Store)]
        elif isinstance(n, (ast.With, ast.AsyncWith)):
            for it in n.items:
                if it.optional_vars is not None:
                    out += [(pos, x.id, False) for x in ast.walk(it.optional_vars)
                            if isinstance(x, ast.Name) and isinstance(x.ctx, ast.Store)]
        elif isinstance(n, ast.NamedExpr) and isinstance(n.target, ast.Name):
            out.append((pos, n.target.id, is_fresh(n.value)))
        elif isinstance(n, ast.ExceptHandler) and n.name:
            out.append((pos, n.name, False))
        elif isinstance(n, (ast.Import, ast.ImportFrom)):
            out += [(pos, a.asname or a.name.split('.')[0], False) for a in n.names]
        elif isinstance(n, FUNC + (ast.ClassDef,)):
            out.append((pos, n.name, False))
    return out


def root_of(expr):
    """(root Name id or None, depth) stripping attributes, subscripts and calls."""
    depth = 0
    while isinstance(expr, (ast.Attribute, ast.Subscript, ast.Call, ast.Starred)):
        expr = expr.func if isinstance(expr, ast.Call) else expr.value
        depth += 1
    return (expr.id, depth) if isinstance(expr, ast.Name) else (None, depth)


def mutation_sites_of(s, m):
    func = s['node']
    params = param_names(func)
    assigns = local_assignments(s)
    local_names = {a[1] for a in assigns}
    gdecl = set()
    for n in s['nodes']:
        if isinstance(n, (ast.Global, ast.Nonlocal)):
            gdecl.update(n.names)
    class_names = set(m.classes) | set(s['classes'])

    def classify(expr, pos):
        root, depth = root_of(expr)
        if root is None:
            return 'unknown'
        if root == 'self':
            return 'self-attribute'
        if root == 'cls' or (depth > 0 and root in class_names and root not in local_names and root not in params):
            return 'class-level'
        if root in gdecl:
            return 'module-level'
        if root in params:
            return 'parameter'
        before = [a for a in assigns if a[1] == root and a[0] < pos]
        if depth == 0 and before:
            return 'fresh-local' if all(a[2] for a in before) else 'unknown'
        if root in local_names:
            return 'unknown'
        if root in m.mod_names or root in m.aliases:
            return 'module-level'
        return 'unknown'
    sites, self_stores = [], 0

    def site(target, how, pos):
        sites.append({'fn': s['name'], 'target': clip(usrc(target)), 'targetKind': classify(target, pos), 'how': how})

    def store_target(t, pos, aug=False):
        nonlocal self_stores
        if isinstance(t, (ast.Tuple, ast.List)):
            for e in t.elts:
                store_target(e, pos, aug)
        elif isinstance(t, ast.Starred):
            store_target(t.value, pos, aug)
        elif isinstance(t, ast.Subscript):
            site(t.value, 'augassign' if aug else 'subscript-store', pos)
        elif isinstance(t, ast.Attribute):
            if aug:
                site(t, 'augassign', pos)
            elif isinstance(t.value, ast.Name) and t.value.id == 'self':
                self_stores += 1
            else:
                site(t, 'attribute-store', pos)
        elif isinstance(t, ast.Name) and t.id in gdecl:
            site(t, 'global-store', pos)
    for n in s['nodes']:
        pos = (getattr(n, 'lineno', 0), getattr(n, 'col_offset', 0))
        if isinstance(n, ast.Call):
            f = n.func
            if isinstance(f, ast.Attribute) and f.attr in MUTATORS and not isinstance(f.value, ast.Constant):
                site(f.value, '.' + f.attr, pos)
            elif isinstance(f, ast.Name) and f.id in ('setattr', 'delattr') and n.args:
                site(n.args[0], f.id, pos)
        elif isinstance(n, ast.Assign):
            for t in n.targets:
                store_target(t, pos)
        elif isinstance(n, ast.AnnAssign) and n.value is not None:
            store_target(n.target, pos)
        elif isinstance(n, ast.AugAssign):
            store_target(n.target, pos, aug=True)
        elif isinstance(n, (ast.For, ast.AsyncFor)):
            store_target(n.target, pos)
        elif isinstance(n, (ast.With, ast.AsyncWith)):
            for it in n.items:
                if it.optional_vars is not None:
                    store_target(it.optional_vars, pos)
        elif isinstance(n, ast.Delete):
            for t in n.targets:
                if isinstance(t, (ast.Subscript, ast.Attribute)):
                    site(t.value, 'del', pos)
                elif isinstance(t, ast.Name) and t.id in gdecl:
                    site(t, 'global-store', pos)
    return sites, self_stores


class _Normalise(ast.NodeTransformer):
    def __init__(self, local_names, consts=None):
        self.local_names = local_names
        self.consts = consts or {}

    def visit_Name(self, node):
        if node.id in self.local_names:
            return ast.copy_location(ast.Name(id='X', ctx=node.ctx), node)
        if node.id in self.consts and isinstance(node.ctx, ast.Load):
            return copy.deepcopy(self.consts[node.id])
        return node


def constant_aliases(m):
    """module-level `NAME = a.b.c` / `NAME = <literal>` bound exactly once and never re-bound in a function:
    a private name for a constant expression; uses are read as the expression itself"""
    seen = {}
    for n, v, _ in bindings(m.tree.body):
        seen.setdefault(n, []).append(v)
    rebound = set()
    for sc in m.scopes:
        if sc['kind'] == 'function':
            rebound |= {name for _, name in global_stores_of(sc)}
    out = {}
    for n, vs in seen.items():
        if len(vs) == 1 and n not in rebound and isinstance(vs[0], (ast.Attribute, ast.Constant)):
            node = vs[0]
            ok = True
            while isinstance(node, ast.Attribute):
                node = node.value
            ok = isinstance(node, (ast.Name, ast.Constant))
            if ok:
                out[n] = vs[0]
    return out


def time_calls_of(s, m):
    locs = set()
    if s['kind'] == 'function':
        locs = set(param_names(s['node'])) | {a[1] for a in local_assignments(s)}
    out = []
    for n in s['nodes']:
        if not isinstance(n, ast.Call):
            continue
        hit = any(isinstance(x, ast.Name) and x.id not in locs
                  and m.aliases.get(x.id, x.id).split('.')[0] in TIME_MODS
                  for x in ast.walk(n.func))
        if not hit and isinstance(n.func, ast.Attribute) and n.func.attr in TIME_METHODS:
            hit = True
        if hit:
            shape = usrc(_Normalise(locs, constant_aliases(m)).visit(copy.deepcopy(n)))
            out.append({'fn': fn_label(s), 'shape': clip(shape, 300)})
    return out


def env_reads_of(s, m):
    parent = {}
    for n in s['nodes']:
        for ch in ast.iter_child_nodes(n):
            parent[id(ch)] = n
    hits = []
    for n in s['nodes']:
        if isinstance(n, (ast.Attribute, ast.Name)) and isinstance(getattr(n, 'ctx', None), (ast.Load, ast.Store, ast.Del)):
            if isinstance(n, ast.Name) and n.id not in m.aliases:
                continue
            d = dotted(n, m.aliases)
            if d and (any(d == p or d.startswith(p + '.') for p in ENV_PREFIXES)
                      or (d.startswith('locale.') and isinstance(n, ast.Attribute))
                      or (isinstance(n, ast.Name) and d.startswith('locale.'))):
                hits.append(n)
    inner = {id(h.value) for h in hits if isinstance(h, ast.Attribute)}
    out = []
    for h in hits:
        if id(h) in inner:
            continue
        top = h
        p = parent.get(id(top))
        while p is not None and ((isinstance(p, ast.Call) and p.func is top)
                                 or (isinstance(p, ast.Subscript) and p.value is top)
                                 or (isinstance(p, ast.Attribute) and p.value is top)):
            top = p
            p = parent.get(id(top))
        out.append([fn_label(s), clip(usrc(top))])
    return out


def extract_purity(M):
    mods = [M[k] for k in sorted(M)]
    res = {'paramDefaults': [], 'paramDefaultCount': 0, 'immutableDefaultCount': 0, 'globalStores': [],
           'moduleMutables': [], 'slotsBindingCount': 0, 'decorators': [], 'mutationSites': [],
           'selfStoreCount': 0, 'timeCalls': [], 'envReads': []}
    for m in mods:
        for s in m.scopes:
            label = s['name']

            def defaults():
                fs = []
                if s['kind'] == 'function':
                    fs.append((s['name'], s['node'].args))
                fs += [(fn_label(s) + '.<lambda>', n.args) for n in s['nodes'] if isinstance(n, ast.Lambda)]
                out, total, imm = [], 0, 0
                for fn, args in fs:
                    for p, d in param_defaults(args):
                        total += 1
                        if is_immutable(d):
                            imm += 1
                        else:
                            out.append({'fn': fn, 'param': p, 'kind': 'mutable' if mutable_kind(d) else 'other',
                                        'src': clip(usrc(d))})
                return out, total, imm
            out, total, imm = guarded('paramDefaults ' + label, lambda e: (
                [{'fn': label, 'param': crash(e), 'kind': 'other', 'src': ''}], 0, 0), defaults)
            res['paramDefaults'] += out
            res['paramDefaultCount'] += total
            res['immutableDefaultCount'] += imm

            if s['kind'] == 'function':
                res['globalStores'] += [list(x) for x in guarded('globalStores ' + label, lambda e: [(label, crash(e))],
                                                                 global_stores_of, s)]
                sites, n_self = guarded('mutationSites ' + label, lambda e: (
                    [{'fn': label, 'target': crash(e), 'targetKind': 'unknown', 'how': 'other'}], 0),
                    mutation_sites_of, s, m)
                res['mutationSites'] += sites
                res['selfStoreCount'] += n_self
            else:
                def mutables():
                    out, slots = [], 0
                    for n, v, _ in bindings(s['stmts']):
                        k = mutable_kind(v)
                        if k is None:
                            continue
                        if n in ('__slots__', '__annotations__'):
                            slots += 1
                        else:
                            out.append([s['name'], n, k])
                    return out, slots
                out, slots = guarded('moduleMutables ' + label, lambda e: ([[label, crash(e), 'other']], 0), mutables)
                res['moduleMutables'] += out
                res['slotsBindingCount'] += slots

            if s['kind'] in ('function', 'class'):
                res['decorators'] += guarded('decorators ' + label, lambda e: [[label, crash(e)]],
                                             lambda: [[s['name'], clip(usrc(d))] for d in s['node'].decorator_list])
            if m.name in TIME_FILES:
                res['timeCalls'] += guarded('timeCalls ' + label, lambda e: [{'fn': label, 'shape': crash(e)}],
                                            time_calls_of, s, m)
            res['envReads'] += guarded('envReads ' + label, lambda e: [[label, crash(e)]], env_reads_of, s, m)
    return res


def emit_purity(d):
    body = ldef('paramDefaults', 'ParamDefault',
                ('{ fn := %s, param := %s, kind := %s, src := %s }'
                 % (lstr(p['fn']), lstr(p['param']), lstr(p['kind']), lstr(p['src'])) for p in d['paramDefaults']))
    body += ['def paramDefaultCount : Nat := %d' % d['paramDefaultCount'],
             'def immutableDefaultCount : Nat := %d' % d['immutableDefaultCount'], '']
    body += ldef('globalStores', '(String × String)', (lpair(lstr(a), lstr(b)) for a, b in d['globalStores']))
    body += ldef('moduleMutables', '(String × String × String)',
                 ('(%s, %s, %s)' % (lstr(a), lstr(b), lstr(c)) for a, b, c in d['moduleMutables']))
    body += ['def slotsBindingCount : Nat := %d' % d['slotsBindingCount'], '']
    body += ldef('decorators', '(String × String)', (lpair(lstr(a), lstr(b)) for a, b in d['decorators']))
    body += ldef('mutationSites', 'MutationSite',
                 ('{ fn := %s, target := %s, targetKind := %s, how := %s }'
                  % (lstr(x['fn']), lstr(x['target']), lstr(x['targetKind']), lstr(x['how']))
                  for x in d['mutationSites']))
    body += ['def selfStoreCount : Nat := %d' % d['selfStoreCount'], '']
    body += ldef('timeCalls', 'TimeCall', ('{ fn := %s, shape := %s }' % (lstr(t['fn']), lstr(t['shape']))
                                           for t in d['timeCalls']))
    body += ldef('envReads', '(String × String)', (lpair(lstr(a), lstr(b)) for a, b in d['envReads']))
    return lfile('/repo/pamqp/*.py', body)


# ================================================================ driver

NEEDED = ('constants', 'exceptions', 'decode', 'encode', 'common', 'frame', 'header', 'base', 'heartbeat', 'body',
          'commands')


def load_modules(repo):
    names = sorted({os.path.basename(p)[:-3] for p in glob.glob(os.path.join(repo, 'pamqp', '*.py'))} | set(NEEDED))
    return {n: Mod(repo, n) for n in names}


def extract_all(repo):
    M = load_modules(repo)
    return {
        'constants': guarded('Constants', lambda e: {'constants': [{'name': crash(e), 'val': {'kind': 'other', 'v': ''}}],
                                                     'domainRegex': [], 'dataTypes': []},
                             extract_constants, M['constants']),
        'reply_codes': guarded('ReplyCodes', lambda e: {'replyCodes': [{'value': -1, 'name': crash(e), 'className': '',
                                                                        'bases': []}],
                                                        'classMapping': [], 'exceptionBases': []},
                               extract_reply_codes, M['exceptions']),
        'tables': extract_tables(M),
        'ladder': extract_ladder(M),
        'purity': extract_purity(M),
    }


FILES = (('Constants.lean', 'constants', emit_constants), ('ReplyCodes.lean', 'reply_codes', emit_reply_codes),
         ('Tables.lean', 'tables', emit_tables), ('Ladder.lean', 'ladder', emit_ladder),
         ('Purity.lean', 'purity', emit_purity))


def run(repo, out_dir, data, write_if_changed):
    extracted = extract_all(repo)
    changed = []
    for fname, key, emit in FILES:
        data[key] = extracted[key]
        if write_if_changed(os.path.join(out_dir, fname), emit(extracted[key])):
            changed.append(fname)
    return changed


def summary(data):
    """entry counts of every generated definition, for a human"""
    lines = []
    for _, key, _ in FILES:
        parts = []
        for k in data[key]:
            v = data[key][k]
            parts.append('%s=%s' % (k, len(v) if isinstance(v, list) else repr(v)))
        lines.append('%s: %s' % (key, ', '.join(parts)))
    return '\n'.join(lines)


if __name__ == '__main__':
    import json
    import translate
    d = {}
    out = sys.argv[1] if len(sys.argv) > 1 else translate.OUT
    os.makedirs(out, exist_ok=True)
    ch = run(translate.REPO, out, d, translate.write_if_changed)
    json.dumps(d)
    print('changed: %s' % (', '.join(ch) or 'nothing'))
    print(summary(d))
