import sys, json, os, time
sys.path.insert(0, os.path.dirname(os.path.abspath(__file__)))
import gen, lanes
class Ctx: pass
ctx = Ctx()
ctx.thorough = '--thorough' in sys.argv
ctx.generated = json.load(open(os.path.join(os.path.dirname(__file__), '..', 'lean', 'Pamqp', 'Generated', 'generated.json')))
ctx.gen = gen.Gen(int(os.environ.get('VERIF_SEED', '0')))
names = [a for a in sys.argv[1:] if not a.startswith('--')]
for name in names:
    fn = getattr(lanes, 'lane_' + name.split(':')[0])
    args = name.split(':')[1:]
    t = time.time()
    res = fn(ctx, *args)
    for r in (res if isinstance(res, list) else [res]):
        print(r['lane'], 'evals', r['evaluations'], 'distinct', r['distinct'], 'dis', len(r['disagreements']), 'wall', r['wall_s'], 'skipped', r['skipped_unrepresentable'])
        print('   outcomes', r['outcomes'])
        for d in r['disagreements'][:8]:
            print('   DIS', json.dumps(d)[:700])
    print('  total', round(time.time() - t, 2))
