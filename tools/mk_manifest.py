#!/usr/bin/env python3
"""Writes /verif/MANIFEST.json from the table below (kept in one place so that it stays valid)."""
import json
import os
import sys

ROOT = os.path.dirname(os.path.dirname(os.path.abspath(__file__)))

NOTE = ("Trusted base: Lean 4.33 kernel; axioms propext/Classical.choice/Quot.sound only (audited every run, no sorry/"
        "native_decide/own axioms); the source->Lean translator for all data (Tie A, regenerated every run); the hand-written "
        "Lean model of encode/decode/base/frame/header, tied to the Python code by sampled correspondence lanes (Tie B); CPython "
        "primitives (struct, UTF-8, float narrowing, Decimal, datetime, re, sorted, dict) modelled and exercised by dedicated "
        "lanes, not verified; the hand-transcribed specification tables. ")

P = {
 'C01': ("Lean theorem C01_roundtrip_generic: for ANY catalogue with the decidable well-formedness facts, every accepted argument list "
         "(any length/type mix, all 2^k bit combinations by induction on the argument list, unbounded strings and nested tables), every "
         "channel and any trailing bytes, unmarshal(marshal(f)) returns the encoded length, the channel, the class and the normalised "
         "arguments; instantiated at the catalogue regenerated from commands.py (catWF by kernel `decide`).", "8.C01",
         "induction over the argument-type list with the (byte, offset, processing_bitset) loop state as invariant; decide on regenerated catalogue; lanes args/frame; round-trip oracle on all 64 classes"),
 'C02': ("Lean theorem C02_roundtrip_generic: for ANY property table with distinct single-bit flags in 15..2 (so all 2^13 presence subsets at once, "
         "by induction over the slot list), any accepted values, body size < 2^64, channel, trailing bytes: decoding yields class id, size, exactly the set "
         "properties and defaults elsewhere; C02_signed_flag_word proves the signed read of the flag word harmless. Re-encoding to identical bytes is "
         "checked by the oracle on all 8,192 subsets, not by a theorem (partial).", "8.C02",
         "induction over the property slot list; bit-level lemma on the signed flag word; decide on regenerated flags; all 8192 subsets through lanes and oracle"),
 'C03': ("Lean theorems C03_value/table/array_roundtrip: for every value of the decidable domain `Encodable` (all integers in [-2^63,2^63-1] under both "
         "ladders, floats in single range, decimals, strings, byte arrays, datetimes, None, lists and dicts nested to ANY depth) the encoder accepts, "
         "the encoding has the predicted size and decoding it followed by any bytes returns exactly (size, norm v); type preservation, key-set "
         "preservation and decimal value preservation as separate theorems.", "8.C03",
         "mutual structural induction on the value with a fuel-generalised decoder invariant; mergeSort/dictSet lemmas for tables; lanes enc.*/dec.*; oracle with independent norm()"),
 'C06': ("Lean theorems about the top-level decoder for EVERY byte string and catalogue: C06_prefix_determines (result depends only on the consumed prefix), "
         "C06_envelope (kind, channel, consumed count are those of the 7-byte header, last byte 0xCE, protocol header only for 'AMQP'), C06_stream "
         "(a concatenation of self-delimiting frames decodes to exactly those frames).", "8.C06",
         "case analysis of every success path of frame.unmarshal; induction over the frame list; lane frame.*; stream/tail-replacement oracle"),
 'C07': ("Lean theorem C07_prefix_rejected: for every frame object of any kind that the encoder accepts (any catalogue, any channel) and EVERY cut point, "
         "unmarshal of the strict prefix is exactly the UnmarshalingException outcome.", "8.C07",
         "shape lemma for marshal output + case analysis of the framing guards; lane frame.unmarshal.malformed; every-cut-point oracle"),
 'C08': ("Lean theorems for EVERY byte string: the fuel-driven decoder never exhausts a budget linear in the input (C08_value_fuel_suffices, "
         "C08_unmarshal_terminates), the result does not depend on the budget (monotone), every element consumes >= 1 byte (progress), the flag-word "
         "loop advances, and the decoded value has at most len+1 nodes (C08_result_size - false before the D11 repair, which this proof attempt exposed). "
         "Wall-clock seconds and allocator bytes are measured (call counts via sys.setprofile <= 4*len+64, tracemalloc peak), not proved: partial.", "8.C08",
         "potential argument by induction on the fuel (5-part mutual invariant); node-count invariant; call-count and memory measurement on the systematic fault stream"),
 'C09': ("Lean theorem C09_only_unmarshaling: for EVERY byte string and catalogue, unmarshal returns a frame or the UnmarshalingException outcome - a case "
         "analysis over the model's closed exception type, using that inner decoders raise only the classes the except clauses name (those clauses are "
         "read from frame.py every run: tieA_frame_except_sites). The interpreter's recursion limit is not modelled (property restricts depth <= 64).", "8.C09",
         "error-taxonomy lemmas per decoder + case analysis of the try/except sites; Tie-A on the except clauses; malformed-stream lanes and oracle"),
 'C11': ("Lean theorems C11_first_fit / C11_legacy: for EVERY integer, table_integer equals an independent first-fit over the documented ladder (b s u I i l; "
         "legacy b s I l), TypeError outside [-2^63,2^63-1] in both modes (same domain), the five fixed-width guards, and C11_toggle for any toggle sequence; "
         "ladder constants, guards and the toggle default are regenerated from encode.py and compared by `decide`.", "8.C11",
         "omega case analysis over the comparison chain; induction over the operation list for the toggle; decide on the regenerated ladder; exhaustive boundary lanes"),
 'C12': ("Lean theorem C12_perm_invariant: tables equal up to insertion order at EVERY nesting level encode to the same bytes (or the same error), and the "
         "concatenated entry list is sorted and a permutation of the input. Determinism is a property of the pure model; non-mutation of inputs cannot be "
         "expressed in a pure model and is tied by the static frame condition tieA_no_shared_mutation (no in-place mutation targets a parameter) plus the "
         "deep-snapshot monitor of the oracle: partial.", "8.C12",
         "mergeSort_perm / pairwise / antisymmetry of the code-point order; recursion on the deep-permutation derivation; static mutation-site analysis; snapshot monitor"),
 'C14': ("Kernel evaluation (`decide`, no axioms beyond propext) of Generated.methods.map project = Spec.methods and the companion facts (64 classes, "
         "index formula, synchronous iff replies, replies in the same class, properties with flag bits 15..2, constructor and documented defaults) on the "
         "catalogue regenerated from commands.py every run against a hand transcription of the specification. Finite and exhaustive.", "8.C14",
         "decide over the regenerated 64-entry catalogue vs a hand-transcribed specification table; runtime introspection oracle"),
 'C17': ("Kernel evaluation of the regenerated reply-code classes (value, name, soft/hard base, common base, CLASS_MAPPING bijection) and protocol constants "
         "against the transcribed table. Finite and exhaustive.", "8.C17",
         "decide over regenerated exception classes and constants vs a transcribed table; issubclass oracle"),
 'C18': ("Lean theorems C18_body (ANY non-empty content below 2^32 bytes, any channel, any trailing bytes), C18_heartbeat, C18_protocol_header (all 256^3 "
         "version triples by universal quantification).", "8.C18",
         "envelope lemmas; lane frame.*; adversarial-content oracle"),
 'C19': ("Lean theorem C19_mapping for ANY name list without duplicates and value list of the same length: iteration, len, membership, item access agree with "
         "the ordered name list; C19_amqp_type; distinctness of names for all 65 classes by `decide` on the regenerated catalogue. Agreement of __slots__, "
         "_attr, __annotations__ and constructor parameters is checked by the translator.", "8.C19",
         "list lemmas (zip / lookup with Nodup); decide on regenerated slots; mapping-protocol oracle before and after a round trip"),
 'C20': ("Lean theorems C20_short / C20_parts / C20_ranges for EVERY buffer, C20_peek_agrees for every frame the encoder produces; the '>BHI' format of "
         "frame_parts and _marshal is a Tie-A obligation.", "8.C20",
         "case analysis on the buffer length + big-endian lemmas; every value of each header byte through lane and oracle"),
 'C13': ("Lean theorems: C13_rules_eq_spec (the validate() body of every class, regenerated from the source, equals the transcribed constraint list; decide), "
         "C13_validate_iff (ValueError iff a constraint is broken, for typed-or-None values), C13_char_class (exactly the 71 characters), ctor validates, "
         "marshal re-validates, decode never validates.", "8.C13",
         "decide on regenerated rules vs transcription; induction over the rule list; every code point through the real regex (thorough) and a sample (quick)"),
 'C10': ("Lean theorems over ALL model values (right or wrong type, any magnitude): C10_accepts_only_encodable (whenever encode_table_value returns bytes the value "
         "is in C03's domain or a documented exception) and C10_value (hence decodes back to norm v); C10_args for method arguments with Python-== coercions.", "8.C10",
         "structural induction showing encoder success implies the C03 domain, then C03; wrong-typed / out-of-range streams through every encoder in lanes and oracle"),
 'C15': ("The model has no time-zone input; that this is faithful is the Tie-A obligation tieA_time_calls (every time/datetime/calendar call in the source has an "
         "environment-independent shape) plus child processes under 12 TZ settings incl. DST transition hours. Theorems state the meaning (naive = UTC, aware = instant, "
         "decoded value UTC-aware of the encoded instant). Host tz database/libc are outside the model: partial.", "8.C15",
         "static whitelist of time-call shapes (decide) + integer-arithmetic theorems on the model + 12-TZ child-process lanes"),
 'C16': ("Refinement theorems C16_history / C16_schedule: every call's result is that of a pure function of its arguments and one boolean. That the Python code has no "
         "other state is tied by static frame conditions regenerated every run (only global store is the legacy switch; no mutable defaults; no caching decorators; no "
         "in-place mutation of shared objects) plus sequence/threaded lanes and an identity monitor. Pre-emption inside a call and CPython identity are not modelled: partial.", "8.C16",
         "induction over the operation list; decide on regenerated purity facts; api.seq lane, 8-thread run, object-identity monitor"),
 'C04': ("Refinement of the operational encoder model to a readable wire-level specification (Spec.Wire): C04_value_refines_spec etc.; the real bytes are compared with the "
         "model (lanes, exact) and with an independently written Python reference encoder (oracle).", "8.C04",
         "refinement proof model = spec encoder; exact-bytes lanes; independent Python reference encoder"),
 'C05': ("Strict reference decoder Spec.parseFV written from the grammar; theorem: whatever it accepts, the model decoder returns with the same value and consumed count "
         "(all 19 tags, any key order); grammar-generated wire forms through the real decoder vs an independent Python reference decoder.", "8.C05",
         "induction on the reference parser; grammar-directed generator incl. forms pamqp never emits; independent Python reference decoder"),
}

PENDING = {}


def main():
    claimed = [a for a in sys.argv[1:]] or sorted(P)
    checks = []
    for pid in sorted(P):
        if pid not in claimed:
            continue
        text, ref, tech = P[pid]
        checks.append({
            'property_id': pid,
            'quick_cmd': './check %s --tier quick' % pid,
            'thorough_cmd': './check %s --tier thorough' % pid,
            'evidence_file': 'evidence/%s.json' % pid,
            'replay_cmd_template': './check %s --replay {path}' % pid,
            'engine': 'lean4-proof+tie',
            'level_claimed': {'category': 'proof', 'text': text, 'design_ref': 'DESIGN.md section ' + ref},
            'level_note': NOTE,
            'technique': 'Lean 4 machine-checked proof: ' + tech,
        })
    na = [{'property_id': 'C%02d' % i, 'reason': 'theorems for this property are still being written in this build phase (DESIGN.md section 8); not claimed until they check'}
          for i in range(1, 21) if 'C%02d' % i not in claimed]
    m = {
        'version': 1,
        'setup_cmd': './setup.sh',
        'hooks': {'guard': 'PAMQP_VERIF', 'enable': 'no instrumentation of /repo is needed (call counts come from sys.setprofile); the guard is reserved and unused',
                  'baseline_off_cmd': 'cd /repo && /venv/bin/python -m pytest -ra -q -p no:cacheprovider --timeout=900',
                  'source_commits': [], 'add_only': True},
        'engines': [{'name': 'lean4-proof+tie', 'path': 'lean/ tools/', 'serves_properties': claimed,
                     'kind_free_text': 'Lean 4 theorems about a model of pamqp; model tied to /repo on every run by a source->Lean translator (data) and a differential correspondence check against a compiled model driver (code)'}],
        'checks': checks,
        'not_applicable': na,
        'notes': 'fix: commits in /repo repair eleven genuine defects (D1-D11, known_findings.json); no hooks. See DESIGN.md.',
    }
    with open(os.path.join(ROOT, 'MANIFEST.json'), 'w') as f:
        json.dump(m, f, indent=1)
    print('MANIFEST.json: %d checks, %d not claimed' % (len(checks), len(na)))


if __name__ == '__main__':
    main()
