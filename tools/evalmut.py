#!/usr/bin/env python3
"""Evaluate one seeded change: evalmut.py <dir with patch.diff + demo.py> [property ids...]
Applies the patch in a scratch worktree of /repo (outside /repo and /verif), confirms that the test
suite still passes and that the demonstration fails with / passes without the change, then runs the
quick checks against the changed tree (PAMQP_REPO) and prints one line per property."""
import json
import os
import shutil
import subprocess
import sys
import tempfile

ROOT = os.path.dirname(os.path.dirname(os.path.abspath(__file__)))


def sh(cmd, **kw):
    p = subprocess.run(cmd, stdout=subprocess.PIPE, stderr=subprocess.STDOUT, **kw)
    return p.returncode, p.stdout.decode('utf-8', 'replace')


def main():
    d = os.path.abspath(sys.argv[1])
    props = sys.argv[2:] or ['C%02d' % i for i in range(1, 21)]
    wt = tempfile.mkdtemp(prefix='evalmut_', dir='/tmp')
    os.rmdir(wt)
    out = {'dir': d}
    try:
        rc, o = sh(['git', '-C', '/repo', 'worktree', 'add', '-q', '--detach', wt, 'HEAD'])
        assert rc == 0, o
        env = dict(os.environ, PYTHONPATH=wt, PYTHONDONTWRITEBYTECODE='1')
        demo = os.path.join(d, 'demo.py')
        if os.path.exists(demo):
            out['demo_clean'] = sh(['/venv/bin/python', '-B', demo], env=env, cwd=wt, timeout=300)[0]
        rc, o = sh(['git', '-C', wt, 'apply', os.path.join(d, 'patch.diff')])
        if rc != 0:
            # the patch was written against an earlier HEAD (before a later fix: commit): 3-way merge it
            rc, o = sh(['git', '-C', wt, 'apply', '--3way', os.path.join(d, 'patch.diff')])
            if rc == 0:
                sh(['git', '-C', wt, 'reset', '-q'])
                rc2, diff = sh(['git', '-C', wt, 'diff'])
                with open(os.path.join(d, 'patch.rebased.diff'), 'w') as f:
                    f.write(diff)
                out['rebased'] = True
        if rc != 0:
            out['apply'] = o
            print(json.dumps(out))
            return
        rc, o = sh(['/venv/bin/python', '-B', '-m', 'pytest', '-q', '-p', 'no:cacheprovider', 'tests'], env=env, cwd=wt, timeout=900)
        out['tests'] = o.strip().splitlines()[-1] if o.strip() else ''
        if os.path.exists(demo):
            out['demo_mutant'] = sh(['/venv/bin/python', '-B', demo], env=env, cwd=wt, timeout=300)[0]
        out['checks'] = {}
        for pid in props:
            env2 = dict(os.environ, PAMQP_REPO=wt, VERIF_OUT=os.environ.get('VERIF_OUT') or (wt + '_out'))
            try:
                rc, o = sh([os.path.join(ROOT, 'check'), pid, '--tier', 'quick'], env=env2, timeout=1200)
            except subprocess.TimeoutExpired:
                rc, o = 124, 'timeout'
            lines = [l for l in o.strip().splitlines() if not l.startswith('WARNING conda')]
            viol = [l for l in lines if l.startswith('VIOLATION')]
            first = next((l for l in lines if l.startswith(pid + ':')), lines[-1] if lines else '')
            out['checks'][pid] = {'rc': rc, 'violation': viol[0] if viol else None, 'first': first[:300]}
            print('%s rc=%d %s | %s' % (pid, rc, (viol[0] if viol else '')[-60:], first[:200]), flush=True)
    finally:
        sh(['git', '-C', '/repo', 'worktree', 'remove', '--force', wt])
        shutil.rmtree(wt, ignore_errors=True)
        shutil.rmtree(wt + '_out', ignore_errors=True)
        # restore the generated data and build state for /repo itself
        sh([sys.executable, "-B", os.path.join(ROOT, "tools", "translate.py")], cwd=ROOT)
    print(json.dumps({k: v for k, v in out.items() if k != 'checks'}))
    with open(os.path.join(d, os.environ.get('EVALMUT_JSON', 'eval.json')), 'w') as f:
        json.dump(out, f, indent=1)


if __name__ == '__main__':
    main()
