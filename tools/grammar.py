"""Grammar-directed generator of well-formed AMQP 0-9-1 wire forms, including everything pamqp's own
encoder never emits (all 19 tags, unsorted keys, non-minimal widths, unused flag bits, second flag
word, non-UTF-8 long strings, names that fail send-side validation).  Each product is
(bytes, expected value) where the expectation is computed here, from the grammar, not by pamqp."""
import datetime
import decimal
import struct

import refenc
from refenc import be, EPOCH

D = decimal.Decimal
TAGS = ['t', 'b', 'B', 's', 'u', 'I', 'i', 'l', 'L', 'f', 'd', 'D', 'S', 'A', 'T', 'F', 'V', '\x00', 'x']
RANGES = {'b': (1, True), 'B': (1, False), 's': (2, True), 'u': (2, False), 'I': (4, True), 'i': (4, False),
          'l': (8, True), 'L': (8, True)}


def edge_int(r, width, signed):
    lo, hi = (-(1 << (8 * width - 1)), (1 << (8 * width - 1)) - 1) if signed else (0, (1 << (8 * width)) - 1)
    return r.choice([lo, hi, 0, 1, lo + 1, hi - 1, hi // 2, hi // 2 + 1, r.randint(lo, hi), -1 if signed else 2])


def wire_name(g):
    """a field name: any UTF-8 string of at most 255 bytes (incl. ones validation would refuse)"""
    r = g.r
    k = r.random()
    if k < 0.1:
        return ''
    if k < 0.2:
        return r.choice(['x-death', 'bad name\n', 'k' * 255, '€' * 85, 'a' * 129, 'ticket!'])
    return g.key()


def field(g, depth, tag=None):
    """-> (bytes incl. tag, expected Python value)"""
    r = g.r
    tag = tag or r.choice(TAGS if depth > 0 else [t for t in TAGS if t not in 'AF'])
    t = tag.encode('latin-1')
    if tag == 't':
        o = r.choice([0, 1, 1, 2, 255])
        return t + bytes([o]), bool(o)
    if tag in RANGES:
        w, s = RANGES[tag]
        if tag == 'L':
            v = r.choice([0, 1, 2 ** 63 - 1, 2 ** 32, r.getrandbits(63)])      # below 2^63 only
        else:
            v = edge_int(r, w, s)
        return t + be(v, w, s), v
    if tag == 'f':
        bits = r.choice([0, 0x80000000, 0x3f800000, 0x7f7fffff, 0x00000001, 0x7f800000, 0xff800000, 0x7fc00000, r.getrandbits(32)])
        raw = be(bits, 4)
        return t + raw, struct.unpack('>f', raw)[0]
    if tag == 'd':
        raw = be(r.choice([0, 1 << 63, 0x3ff0000000000000, 0x7fefffffffffffff, 0x7ff0000000000000, 0x400921fb54442d18, r.getrandbits(64)]), 8)
        return t + raw, struct.unpack('>d', raw)[0]
    if tag == 'D':
        scale = r.choice([0, 1, 2, 28, 255, r.randrange(256)])
        raw = edge_int(r, 4, True)
        return t + bytes([scale]) + be(raw, 4, True), D((1 if raw < 0 else 0, tuple(int(c) for c in str(abs(raw))), -scale))
    if tag == 'S':
        if r.random() < 0.25:
            raw = r.choice([b'\xff', b'\xc3', b'\xed\xa0\x80', b'ab\x80', b'\xf4\x90\x80\x80', b'\xc0\xaf', bytes(r.getrandbits(8) | 0x80 for _ in range(5))])
            try:
                raw.decode('utf-8')
                exp = raw.decode('utf-8')
            except UnicodeDecodeError:
                exp = raw                     # not UTF-8: returned as the raw bytes
        else:
            exp = g.string(30)
            raw = exp.encode('utf-8')
        return t + be(len(raw), 4) + raw, exp
    if tag == 'T':
        k = r.random()
        if k < 0.7:
            n = g.instant_secs()
            return t + be(n, 8), EPOCH + datetime.timedelta(seconds=n)
        n = r.choice([2 ** 32, 2 ** 32 + 1, 1163089810123, 253402300799999, r.randrange(2 ** 32, 253402300799999)])
        return t + be(n, 8), EPOCH + datetime.timedelta(milliseconds=n)      # documented: milliseconds
    if tag in ('V', '\x00'):
        return t, None
    if tag == 'x':
        raw = bytes(r.getrandbits(8) for _ in range(r.choice([0, 1, 5, 300])))
        return t + be(len(raw), 4) + raw, bytearray(raw)
    if tag == 'A':
        items = [field(g, depth - 1) for _ in range(r.randrange(0, 4))]
        bodyb = b''.join(b for b, _ in items)
        return t + be(len(bodyb), 4) + bodyb, [v for _, v in items]
    if tag == 'F':
        tb, tv = table(g, depth - 1)
        return t + tb, tv
    raise ValueError(tag)


def table(g, depth, n=None):
    """-> (bytes without tag, expected dict); keys distinct, in ANY order"""
    r = g.r
    names = []
    for _ in range(r.randrange(0, 5) if n is None else n):
        k = wire_name(g)
        if k not in names:
            names.append(k)
    r.shuffle(names)
    bodyb = b''
    exp = {}
    for k in names:
        fb, fv = field(g, depth)
        raw = k.encode('utf-8')
        bodyb += bytes([len(raw)]) + raw + fb
        exp[k] = fv
    return be(len(bodyb), 4) + bodyb, exp


def every_tag_table(g):
    """one table holding every tag once (both ends of each range over repeated draws)"""
    bodyb = b''
    exp = {}
    for i, tag in enumerate(TAGS):
        fb, fv = field(g, 2, tag)
        k = 'k%02d' % (len(TAGS) - i)          # descending: unsorted on the wire
        bodyb += bytes([len(k)]) + k.encode() + fb
        exp[k] = fv
    return be(len(bodyb), 4) + bodyb, exp


def argument(g, ty):
    r = g.r
    if ty == 'octet':
        v = r.choice([0, 1, 255, r.randrange(256)])
        return bytes([v]), v
    if ty == 'short':
        v = r.choice([0, 1, 32768, 65535, r.randrange(65536)])
        return be(v, 2), v
    if ty == 'long':
        v = r.choice([0, 1, 2 ** 31, 2 ** 32 - 1, r.randrange(2 ** 32)])
        return be(v, 4), v
    if ty == 'longlong':
        v = r.choice([0, -1, 2 ** 63 - 1, -2 ** 63, r.getrandbits(64) - 2 ** 63])
        return be(v, 8, True), v
    if ty == 'shortstr':
        s = r.choice(['', 'bad name\n!', 'x' * 255, 'q' * 200, g.short_string(), '1', 'not-zero'])
        raw = s.encode('utf-8')
        return bytes([len(raw)]) + raw, s
    if ty == 'longstr':
        b, v = field(g, 0, 'S')
        return b[1:], v
    if ty == 'table':
        return table(g, 2) if r.random() < 0.85 else every_tag_table(g)
    if ty == 'timestamp':
        b, v = field(g, 0, 'T')
        return b[1:], v
    raise ValueError(ty)


def method_frame(g, index):
    """any grammar-valid argument values, incl. ones validate() would refuse (ticket != 0 ...)"""
    name, args = refenc.METHODS[index]
    r = g.r
    payload = be(index, 4)
    exp = {}
    i = 0
    while i < len(args):
        if args[i][1] == 'bit':
            j = i
            while j < len(args) and args[j][1] == 'bit':
                j += 1
            octet = r.getrandbits(8)                 # unused high bits set at random
            for k in range(i, j):
                exp[args[k][0]] = bool(octet >> (k - i) & 1)
            payload += bytes([octet])
            i = j
        else:
            b, v = argument(g, args[i][1])
            payload += b
            exp[args[i][0]] = v
            i += 1
    ch = r.choice([0, 1, 32768, 65535])
    return refenc.envelope(1, ch, payload), (ch, index, exp)


def header_frame(g):
    r = g.r
    mask = r.getrandbits(14)
    low = r.choice([0, 0, 2])                        # unused flag bit 1 set
    class_id = r.choice([60, 60, 0, 10, 65535])
    weight = r.choice([0, 0, 1, 65535])
    size = r.choice([0, 1, 2 ** 63, 2 ** 64 - 1, r.getrandbits(64)])
    flags = low
    parts = b''
    exp = {}
    for i, (name, ty) in enumerate(refenc.PROPS):
        if mask >> i & 1:
            flags |= 1 << (15 - i)
            b, v = argument(g, ty)
            parts += b
            exp[name] = v
    words = be(flags, 2)
    if r.random() < 0.2:                              # continuation bit + a second flag word
        words = be(flags | 1, 2) + be(r.choice([0, 0x8000, 0xfffe]), 2)
    ch = r.choice([0, 1, 65535])
    payload = be(class_id, 2) + be(weight, 2) + be(size, 8) + words + parts
    return refenc.envelope(2, ch, payload), (ch, class_id, weight, size, exp)
