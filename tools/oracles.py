"""Property oracles: each checks ONE property on the real pamqp with an expectation written
independently of pamqp (ocommon.norm / refenc / spec_tables).  They double as the failing-input
search: a returned violation carries a replay dict that `replay()` can re-run."""
import contextlib
import datetime
import decimal
import itertools
import struct
import time

import gen as G
import lanes
import real
import refenc
from ocommon import Result, pyrepr, pyeval, norm, same, D, UTC, EPOCH
from real import encode, decode, frame, header, body, heartbeat, commands, constants, exceptions, base

REPLAYS = {}


def replayer(fn):
    REPLAYS[fn.__name__] = fn
    return fn


def catching(fn, *a, **kw):
    real.tick_logging()
    # the ambient decimal context applies to calls INTO the library, not to the harness's own case functions
    amb = real.ambient() if str(getattr(fn, '__module__', '') or '').startswith('pamqp') else contextlib.nullcontext()
    try:
        with real.deadline(8), amb:
            return ('ok', fn(*a, **kw))
    except real.Hang:
        real.note_hang('%s%r' % (getattr(fn, '__name__', fn), a)[:400], fn, a)
        return ('hang', None)
    except real.GiveUp:
        raise
    except Exception as e:  # noqa
        return ('err', e)


# =============================================================== C03

@replayer
def c03_depth_case(depth, kind):
    """a container nested `depth` levels deep (built and compared without recursion): if the encoder produces bytes for
    it, the decoder reads exactly those bytes back, and re-encoding what it read gives the same bytes"""
    v = 7
    for i in range(depth):
        v = [v] if (kind == 'array' or (kind == 'mixed' and i % 2)) else {'k': v}
    k, b = catching(encode.encode_table_value, v)
    if k != 'ok':
        return None            # the encoder may refuse (RecursionError) - then nothing was sent
    k2, r = catching(decode.embedded_value, b)
    if k2 != 'ok' or r[0] != len(b):
        return ('what the encoder produced at depth %d (%d bytes) decodes' % (depth, len(b)), repr(r)[:200])
    k3, b3 = catching(encode.encode_table_value, r[1])
    if k3 == 'ok' and b3 != b:
        return ('re-encoding the decoded value gives the same %d bytes' % len(b), '%d bytes' % len(b3))
    if kind != 'array':
        k4, b4 = catching(frame.marshal, commands.Queue.Declare(queue='q', arguments=v if isinstance(v, dict) else {'a': v}), 1)
        if k4 == 'ok':
            k5, r5 = catching(frame.unmarshal, b4)
            if k5 != 'ok' or r5[0] != len(b4):
                return ('a Queue.Declare frame with arguments nested %d deep decodes' % depth, repr(r5)[:200])
    return None


@replayer
def c03_case(v, legacy, junk):
    """-> None if the property holds on this value, else (expected, actual)"""
    with real.legacy(legacy):
        k, b = catching(encode.encode_table_value, v)
    if k != 'ok':
        return ('encoder accepts the value', '%s %r' % (k, b))
    with real.deadline(5):
        k2, r = catching(decode.embedded_value, b + junk)
    exp = (len(b), norm(v))
    if k2 != 'ok':
        return (exp, '%s %r' % (k2, r))
    if isinstance(r[1], (dict, list)) and r[0] == exp[0] and same(exp[1], r[1]):
        # the decoded containers belong to the caller: changing them must not change what the same bytes decode to next time
        def poison(x, depth=0):
            if isinstance(x, dict):
                for y in list(x.values()):
                    poison(y, depth + 1)
                x['verif-poison'] = depth
            elif isinstance(x, list):
                for y in x:
                    poison(y, depth + 1)
                x.append('verif-poison')
        poison(r[1])
        k3, r3 = catching(decode.embedded_value, b + junk)
        if k3 != 'ok' or r3[0] != exp[0] or not same(exp[1], r3[1]):
            return ('the same bytes decode to the same value after the first result was modified', repr(r3)[:300])
        r = r3
    if r[0] != exp[0] or not same(exp[1], r[1]):
        return (exp, r)
    if isinstance(v, dict):
        with real.legacy(legacy):
            tb = encode.field_table(v)
        r2 = decode.field_table(tb + junk)
        if r2[0] != len(tb) or not same(norm(v), r2[1]):
            return ((len(tb), norm(v)), r2)
    if isinstance(v, list):
        with real.legacy(legacy):
            ab = encode.field_array(v)
        r3 = decode.field_array(ab + junk)
        if r3[0] != len(ab) or not same(norm(v), r3[1]):
            return ((len(ab), norm(v)), r3)
    return None


def small_shapes(g):
    """bounded-exhaustive container shapes up to size 3 over a small scalar alphabet"""
    atoms = [True, -1, 128, 2 ** 31, 1.5, D('-1.5'), 'é', None, bytearray(b'\x00\xce'),
             datetime.datetime(2006, 11, 9, 16, 30, 10)]
    out = list(atoms)
    for a in atoms:
        out += [[a], {'k': a}]
    for a, b in itertools.product(atoms[:6], repeat=2):
        out += [[a, b], {'a': a, 'b': b}, {'b': a, 'a': b}, [[a], b], {'k': [a, b]}, [{'k': a}, b], {'x': {'y': a}, 'z': b}]
    return out


def oracle_c03(ctx):
    res = Result('c03.roundtrip')
    g = ctx.gen
    g.exotic = True      # values may be instances of well-behaved subclasses (Enum mixins, Decimal subclass ...)
    vals = small_shapes(g)
    vals += list(g.int_bounds)
    vals = [v for v in vals if not isinstance(v, int) or isinstance(v, bool) or -2 ** 63 <= v <= 2 ** 63 - 1]
    n = 20000 if ctx.thorough else 2500
    for i in range(n):
        if i % 40 == 0:
            vals.append(g.deep_ok(g.r.choice([4, 16, 32])))
        else:
            vals.append(g.value_ok(depth=g.r.choice([0, 0, 1, 2, 3, 4]), breadth=g.r.choice([1, 2, 3, 5])))
    vals += [g.shared_value_ok(g.r.choice([1, 2, 3]), 3) for _ in range(300 if ctx.thorough else 60)]
    t_ = ['a', 'b']
    vals += [{'x': t_, 'y': t_}, [t_, t_], [{'k': t_}, {'k': t_}]]
    # neighbours that are EQUAL under == but differ in type somewhere inside: each keeps its own types
    for a_, b_ in [(1, True), (0, False), (1, 1.0), (3, D(3)), (D('1.0'), D('1.00')), (0.0, -0.0), (1.0, True), ('a', 'a'), (2, 2)]:
        vals += [[[a_], [b_]], [[b_], [a_]], [{'n': a_}, {'n': b_}], {'x': [a_], 'y': [b_]}, [[a_], [b_], [a_]], [[[a_]], [[b_]]], [a_, b_, a_],
                 [{'n': [a_]}, {'n': [b_]}], [[a_, 'x'], [b_, 'x']]]
    g.exotic = False
    # structural extremes: many entries, long strings, long byte arrays (sizes with every bit of a 16-bit counter and beyond)
    big = [{'k%05d' % i: i for i in range(5000)}, [None] * 5000, [[]] * 3000, {'s': 'x' * (2 ** 20)}, {'b': bytearray(b'\xce' * (2 ** 16 + 1))},
           ['\u20ac' * 21846], {'k%05d' % i: [i, str(i)] for i in range(7000)}, [True, False] * 40000,
           {'t': {'u': {'v': ['x' * 65535, 'y' * 65536, 'z' * 65537]}}}]
    for v in big:
        res.case('big %s %d' % (type(v).__name__, len(v)), tag='structural extremes')
        k_, b_ = catching(encode.encode_table_value, v)
        if k_ != 'ok':
            res.violation('a large but ordinary value is refused', {'fn': 'none', 'args': '()'}, 'encodes', repr(b_)[:200])
            continue
        with real.deadline(30):
            k2_, r_ = catching(decode.embedded_value, b_)
        if k2_ != 'ok' or r_[0] != len(b_) or not same(norm(v), r_[1]):
            res.violation('a large but ordinary value does not round-trip (%s of %d entries, %d bytes)' % (type(v).__name__, len(v), len(b_)),
                          {'fn': 'none', 'args': '()'}, 'round trip', repr(r_)[:200] if k2_ != 'ok' else 'differs')
    for depth in ([8, 32, 64, 100, 150, 200, 250, 300, 330, 360, 400, 430, 460, 480] if ctx.thorough else [8, 64, 150, 250, 330, 400, 460]):
        for kind in ('array', 'table', 'mixed'):
            res.case('depth %d %s' % (depth, kind), tag='nesting depth')
            k, bad = catching(c03_depth_case, depth, kind)
            if k != 'ok' or bad:
                res.violation('nesting depth %d (%s)' % (depth, kind), {'fn': 'c03_depth_case', 'args': pyrepr((depth, kind))},
                              bad[0] if k == 'ok' else 'oracle runs', bad[1] if k == 'ok' else repr(bad))
    # every kind of scalar under every name a broker or client library gives a meaning to, and under keys that
    # mean something to a formatting step
    kinds = [60000.0, 60000, 1.5, True, '60000', D('60000'), D('6E+4'), 0.0, -0.0, 3000000000.0, float(2 ** 63), None,
             bytearray(b'x'), ['q'], {'a': 1.0}, EPOCH + datetime.timedelta(seconds=60000)]
    for kname in G.WELL_KNOWN_KEYS + G.FORMAT_STRINGS + list(G.MINED_STRINGS):
        if 0 < len(kname) <= 128 and len(kname.encode('utf-8')) <= 255:
            for kv in (kinds if ctx.thorough else g.r.sample(kinds, 6) + [60000.0]):
                vals.append({kname: kv})
    for i, v in enumerate(vals):
        legacy = (i % 3 == 0)
        junk = g.r.choice([b'', b'', b'\x00', b'V', b'\xce', bytes(g.r.getrandbits(8) for _ in range(4))])
        key = pyrepr(v)
        res.case(key + str(legacy), trivial=v is None or v == {} or v == [], tag=type(v).__name__,
                 sample={'value': key[:200], 'legacy': legacy})
        bad = c03_case(v, legacy, junk)
        if bad:
            res.violation('decode(encode(v)+junk) != (len, norm(v))',
                          {'fn': 'c03_case', 'args': pyrepr((v, legacy, junk))}, bad[0], bad[1])
    return res


# =============================================================== C01 / C02 / C18 round trips

def expected_arg(ty, v):
    if ty == 'table':
        return norm(v or {})
    if ty == 'timestamp':
        return norm(v)
    return v


@replayer
def c01_case(key, vals, ch, legacy, junk):
    cls = commands.INDEX_MAPPING[key]
    obj = real.make_method(cls, vals)
    with real.legacy(legacy):
        k, b = catching(frame.marshal, obj, ch)
    if k != 'ok':
        return ('encoder accepts the frame', '%s %r' % (k, b))
    with real.deadline(5):
        k2, r = catching(frame.unmarshal, b + junk)
    if k2 != 'ok':
        return ('(%d, %d, %s)' % (len(b), ch, cls.name), '%s %r' % (k2, r))
    n, ch2, f2 = r
    if n != len(b) or ch2 != ch or type(f2) is not cls:
        return ((len(b), ch, cls.name), (n, ch2, type(f2).__name__))
    for a, v in zip(cls.__slots__, vals):
        exp = expected_arg(cls.amqp_type(a), v)
        got = getattr(f2, a)
        if not same(exp, got):
            return ('%s=%r' % (a, exp), '%s=%r' % (a, got))
    return None


def coerced(ty, v):
    """Python's bool/int overlap: the only type changes a round trip may make"""
    if ty == 'bit' and type(v) is int and v in (0, 1):
        return bool(v)
    if ty in ('octet', 'short', 'long', 'longlong') and type(v) is bool:
        return int(v)
    return v


@replayer
def c01_accepted_case(key, vals, i):
    """argument i holds a value of another type: if the library accepts the assignment, decoding
    must give it back with the same value and type (up to bool/int)"""
    cls = commands.INDEX_MAPPING[key]
    k, b = catching(frame.marshal, real.make_method(cls, vals), 1)
    if k != 'ok':
        return None
    with real.deadline(5):
        k2, r = catching(frame.unmarshal, b)
    if k2 != 'ok':
        return ('decodable', '%s %r' % (k2, r))
    a = cls.__slots__[i]
    exp = expected_arg(cls.amqp_type(a), coerced(cls.amqp_type(a), vals[i]))
    got = getattr(r[2], a)
    if documented_exception(vals[i]):
        return None
    try:
        ok = same(exp, got)
    except Exception:  # noqa
        ok = False
    return None if ok else ('%s=%r (%s)' % (a, exp, type(exp).__name__), '%r (%s)' % (got, type(got).__name__))


def eq_nan(a, b):
    """== on copies of a value, except that NaN equals NaN"""
    if type(a) is not type(b):
        return False
    if isinstance(a, float):
        return (a != a and b != b) or a == b
    if isinstance(a, list):
        return len(a) == len(b) and all(eq_nan(x, y) for x, y in zip(a, b))
    if isinstance(a, dict):
        return list(a) == list(b) and all(eq_nan(a[k], b[k]) for k in a)
    if isinstance(a, D):
        return (a.is_nan() and b.is_nan()) or a == b
    return a == b


@replayer
def c01_origin_case(key, vals):
    """however the frame object was made - constructor, attribute assignment, copy, deep copy, pickle (every protocol),
    a decoded frame - it encodes to the same bytes and shows the same attribute values"""
    import pickle
    cls = commands.INDEX_MAPPING[key]
    base_obj = real.make_method(cls, vals)
    k, want = catching(frame.marshal, base_obj, 7)
    if k != 'ok':
        return None
    makers = [('copy.copy', lambda: copy.copy(base_obj)), ('copy.deepcopy', lambda: copy.deepcopy(base_obj)),
              ('decoded', lambda: frame.unmarshal(want)[2])]
    makers += [('pickle protocol %d' % pr, (lambda pr=pr: pickle.loads(pickle.dumps(base_obj, pr)))) for pr in range(2, pickle.HIGHEST_PROTOCOL + 1)]
    k0, o0 = catching(lambda: cls(*vals))
    if k0 == 'ok':
        makers.append(('positional constructor', lambda: cls(*vals)))
        makers.append(('keyword constructor', lambda: cls(**dict(zip(cls.__slots__, vals)))))
    for label, mk in makers:
        km, o = catching(mk)
        if km != 'ok':
            if label.startswith('pickle') or label.startswith('copy'):
                continue            # not every frame need be copyable; one that IS copied must be faithful
            return ('%s works' % label, repr(o))
        kb, b = catching(frame.marshal, o, 7)
        if kb != 'ok' or b != want:
            return ('%s: encodes to %s' % (label, want.hex()[:160]), b.hex()[:160] if kb == 'ok' else repr(b))
        for a, v in zip(cls.__slots__, vals):
            kg, got = catching(getattr, o, a)
            same_ = got is v or got == v or (v is None and got == {})
            if not same_:
                try:
                    same_ = eq_nan(v, got)      # NaN equals NaN here
                except Exception:  # noqa
                    same_ = False
            if label == 'decoded' and not same_:
                same_ = norm_eq({} if v is None and cls.amqp_type(a) == 'table' else v, got)     # the documented normalisation of C03
            if kg != 'ok' or not same_:
                return ('%s: attribute %s = %r' % (label, a, v), repr(got))
    return None


def oracle_c01(ctx):
    res = Result('c01.roundtrip')
    g = ctx.gen
    metas = ctx.generated['catalogue']['methods']
    # close frames as brokers and clients really send them: every reply code of the specification (and 200) with the
    # ids of a failing method - through the constructor, copies, pickles
    for key_ in (0x000A0032, 0x00140028):
        for code_ in [200, 0] + sorted(spec_tables.REPLY):
            for ids_ in ((60, 40), (50, 10), (0, 0), (10, 50)):
                vals = [code_, 'NOT_FOUND - x' if code_ == 404 else 'bye', ids_[0], ids_[1]]
                res.case('origin ' + pyrepr((key_, vals)), tag='object origin')
                k, bad = catching(c01_origin_case, key_, vals)
                if k != 'ok' or bad:
                    res.violation('%s%r: a constructed / copied frame differs from the values given' % (commands.INDEX_MAPPING[key_].name, tuple(vals)),
                                  {'fn': 'c01_origin_case', 'args': pyrepr((key_, vals))}, bad[0] if k == 'ok' else 'oracle runs', bad[1] if k == 'ok' else repr(bad))
    for meta in metas:
        cls = commands.INDEX_MAPPING.get(meta['key'])
        if cls is None:
            continue
        for _ in range(3 if ctx.thorough else 1):
            vals = lanes.method_vals_ok(ctx, cls, meta)
            for i, a in enumerate(meta['args']):     # distinct, non-default values so that a lost attribute shows
                if a['ty'] == 'bit' and not any(ru.get('attr') == a['name'] for ru in meta['rules']):
                    vals[i] = True
                elif a['ty'] in ('octet', 'short', 'long', 'longlong') and not any(ru.get('attr') == a['name'] for ru in meta['rules']):
                    vals[i] = 7 + i
            res.case('origin ' + pyrepr((meta['key'], vals)), tag='object origin', trivial=not vals)
            k, bad = catching(c01_origin_case, meta['key'], vals)
            if k != 'ok' or bad:
                res.violation('%s: a copied / pickled / decoded frame differs from the original' % meta['name'],
                              {'fn': 'c01_origin_case', 'args': pyrepr((meta['key'], vals))}, bad[0] if k == 'ok' else 'oracle runs', bad[1] if k == 'ok' else repr(bad))
    for meta in metas:
        cls = commands.INDEX_MAPPING.get(meta['key'])
        if cls is None:
            continue
        for i, a in enumerate(meta['args']):
            cands = [b'', b'abc', b'\x00guest\x00guest', bytearray(b'ab'), True, False, 0, 1, 1.0, D(1), None, [], {}, 'x', 7]
            for v in cands[:(len(cands) if ctx.thorough else 9)]:
                vals = lanes.method_vals_ok(ctx, cls, meta)
                vals[i] = v
                res.case(pyrepr((meta['key'], i, v)), tag='accepted-if-other-type')
                k, bad = catching(c01_accepted_case, meta['key'], vals, i)
                if k != 'ok' or bad:
                    res.violation('%s.%s accepts %r but does not return it' % (meta['name'], a['name'], v),
                                  {'fn': 'c01_accepted_case', 'args': pyrepr((meta['key'], vals, i))},
                                  bad[0] if k == 'ok' else 'oracle runs', bad[1] if k == 'ok' else repr(bad))
    # names that mean something to a broker, in every name argument, with every combination of the flag arguments
    for meta in metas:
        cls = commands.INDEX_MAPPING.get(meta['key'])
        named = [i for i, a in enumerate(meta['args']) if any(ru.get('attr') == a['name'] and ru['kind'] == 'regex' for ru in meta['rules'])]
        if cls is None or not named:
            continue
        bits = [i for i, a in enumerate(meta['args']) if a['ty'] == 'bit' and not any(ru.get('attr') == a['name'] for ru in meta['rules'])]
        combos = list(itertools.product([False, True], repeat=len(bits)))
        for nm in (G.WELL_KNOWN_NAMES if ctx.thorough else g.r.sample(G.WELL_KNOWN_NAMES, 5) + ['amq.rabbitmq.reply-to', 'amq.gen-JzTY20BRgKO']):
            for combo in combos:
                vals = lanes.method_vals_ok(ctx, cls, meta)
                for i in named:
                    lim = min([ru['n'] for ru in meta['rules'] if ru.get('attr') == meta['args'][i]['name'] and ru['kind'] == 'maxLen'] or [255])
                    vals[i] = nm[:lim]
                for i, bv in zip(bits, combo):
                    vals[i] = bv
                res.case(pyrepr((meta['key'], vals)), tag='meaningful names')
                bad = c01_case(meta['key'], vals, 1, False, b'')
                if bad:
                    res.violation('%s round trip' % meta['name'], {'fn': 'c01_case', 'args': pyrepr((meta['key'], vals, 1, False, b''))}, bad[0], bad[1])
    for depth in (64, 150, 250, 330, 400, 460):      # "arbitrary nested tables": whatever depth the encoder accepts
        for kind in ('table', 'mixed'):
            res.case('depth %d %s' % (depth, kind), tag='nesting depth')
            k, bad = catching(c03_depth_case, depth, kind)
            if k != 'ok' or bad:
                res.violation('table argument nested %d deep (%s)' % (depth, kind), {'fn': 'c03_depth_case', 'args': pyrepr((depth, kind))},
                              bad[0] if k == 'ok' else 'oracle runs', bad[1] if k == 'ok' else repr(bad))
    env_snapshots(res, 'rt')
    reps = 10 if ctx.thorough else 2
    for meta in metas:
        key = meta['key']
        cls = commands.INDEX_MAPPING.get(key)
        if cls is None:
            res.violation('INDEX_MAPPING lacks key %r' % key, {'fn': 'none', 'args': '()'})
            continue
        bits = [i for i, a in enumerate(meta['args']) if a['ty'] == 'bit']
        combos = list(itertools.product([False, True], repeat=len(bits))) if bits else [()]
        for rep in range(reps):
            for combo in combos:
                vals = lanes.method_vals_ok(ctx, cls, meta)
                for i, bv in zip(bits, combo):
                    if not any(ru.get('attr') == meta['args'][i]['name'] for ru in meta['rules']):
                        vals[i] = bv
                ch = g.r.choice([0, 1, 255, 256, 32767, 32768, 65535, g.r.randrange(65536)])
                junk = g.r.choice([b'', b'\xce', b'AMQP', b'\x01\x00\x00\x00\x00\x00\x04'])
                legacy = rep % 2 == 1
                res.case(pyrepr((key, vals)), trivial=not vals, tag=meta['name'],
                         sample={'method': meta['name'], 'values': pyrepr(vals)[:200], 'channel': ch})
                bad = c01_case(key, vals, ch, legacy, junk)
                if bad:
                    res.violation('%s round trip' % meta['name'],
                                  {'fn': 'c01_case', 'args': pyrepr((key, vals, ch, legacy, junk))}, bad[0], bad[1])
    return res


@replayer
def c02_case(size, vals, ch, junk):
    h = real.make_header(size, vals)
    k, b = catching(frame.marshal, h, ch)
    if k != 'ok':
        return ('encoder accepts the header', '%s %r' % (k, b))
    with real.deadline(5):
        k2, r = catching(frame.unmarshal, b + junk)
    if k2 != 'ok':
        return ('decodes', '%s %r' % (k2, r))
    n, ch2, f2 = r
    if n != len(b) or ch2 != ch or not isinstance(f2, header.ContentHeader):
        return ((len(b), ch), (n, ch2, type(f2).__name__))
    if f2.class_id != 60 or f2.body_size != size:
        return ((60, size), (f2.class_id, f2.body_size))
    P = commands.Basic.Properties
    for a, v in zip(P.__slots__, vals):
        got = getattr(f2.properties, a)
        if v is None or v == '':
            exp = '' if a == 'cluster_id' else None
        else:
            exp = expected_arg(P.amqp_type(a), v)
        if not same(exp, got):
            return ('%s=%r' % (a, exp), '%s=%r' % (a, got))
    k3, b2 = catching(frame.marshal, f2, ch)
    if k3 != 'ok' or b2 != b:
        return ('re-encoding reproduces %s' % b.hex(), '%s %s' % (k3, b2.hex() if k3 == 'ok' else b2))
    return None


@replayer
def c02_late_fill_case(vals):
    """the caller builds an EMPTY Basic.Properties, hands it to a ContentHeader (or to two), and sets the properties on its own
    object afterwards: the header carries the caller's object and encodes what it holds at the time of encoding"""
    names = list(commands.Basic.Properties.__slots__)
    p = commands.Basic.Properties()
    h1 = header.ContentHeader(0, 3, p)
    h2 = header.ContentHeader(0, 4, p)
    if h1.properties is not p or h2.properties is not p:
        return ('the header holds the Properties object it was given', 'another object')
    for n_, v_ in zip(names, vals):
        setattr(p, n_, v_)
    want1 = catching(frame.marshal, real.make_header(3, vals), 1)
    got1 = catching(frame.marshal, h1, 1)
    got2 = catching(frame.marshal, h2, 1)
    want2 = catching(frame.marshal, real.make_header(4, vals), 1)
    for (kw, bw), (kg, bg) in ((want1, got1), (want2, got2)):
        if kw != kg or (kw == 'ok' and bw != bg):
            return (bw.hex()[:200] if kw == 'ok' else repr(bw), bg.hex()[:200] if kg == 'ok' else repr(bg))
    return None


@replayer
def c02_edit_case(vals, i):
    """a content header that came from the decoder, with ONE property set back to None (or changed): it encodes exactly
    like a header built from the remaining values, and that decodes again"""
    k, b = catching(frame.marshal, real.make_header(9, vals), 1)
    if k != 'ok':
        return None
    k1, r = catching(frame.unmarshal, b)
    if k1 != 'ok':
        return None
    h = r[2]
    names = list(commands.Basic.Properties.__slots__)
    for how in ('none', 'changed', 'deleted-and-reset'):
        h2 = copy.deepcopy(h) if how != 'none' else h
        new = list(vals)
        if how == 'changed':
            new[i] = {'shortstr': 'zz', 'octet': 2, 'table': {'z': 1}, 'timestamp': datetime.datetime(2001, 2, 3, tzinfo=UTC)}[commands.Basic.Properties.amqp_type(names[i])]
            if names[i] == 'cluster_id':
                new[i] = ''
        else:
            new[i] = '' if names[i] == 'cluster_id' else None
        setattr(h2.properties, names[i], new[i])
        kx, bx = catching(frame.marshal, h2, 1)
        kw, bw = catching(frame.marshal, real.make_header(9, new), 1)
        if kx != kw or (kx == 'ok' and bx != bw):
            return ('%s %s: %s' % (names[i], how, bw.hex()[:200] if kw == 'ok' else kw), bx.hex()[:200] if kx == 'ok' else repr(bx))
        if kx == 'ok':
            kd, rd = catching(frame.unmarshal, bx)
            if kd != 'ok' or rd[0] != len(bx):
                return ('%s %s: the edited header decodes' % (names[i], how), repr(rd))
    return None


def oracle_c02(ctx):
    res = Result('c02.roundtrip')
    g = ctx.gen
    nprops = len(commands.Basic.Properties.__slots__)
    draws = 4 if ctx.thorough else 1
    for _ in range(60 if ctx.thorough else 15):
        vals = lanes.props_vals(ctx, g.r.getrandbits(nprops - 1) | g.r.getrandbits(nprops - 1))
        res.case('late fill ' + pyrepr(vals), tag='properties filled in after the header was built')
        k, bad = catching(c02_late_fill_case, vals)
        if k != 'ok' or bad:
            res.violation('a Properties object filled in after it was handed to a ContentHeader', {'fn': 'c02_late_fill_case', 'args': pyrepr((vals,))},
                          bad[0] if k == 'ok' else 'oracle runs', bad[1] if k == 'ok' else repr(bad))
    for _ in range(120 if ctx.thorough else 30):
        vals = lanes.props_vals(ctx, g.r.getrandbits(nprops - 1) | g.r.getrandbits(nprops - 1))
        set_ = [i for i, v in enumerate(vals) if v is not None and v != '']
        for i in (set_ if ctx.thorough else g.r.sample(set_, min(3, len(set_)))):
            res.case('edit %s %d' % (pyrepr(vals), i), tag='decoded then edited')
            k, bad = catching(c02_edit_case, vals, i)
            if k != 'ok' or bad:
                res.violation('a decoded content header, one property edited, encodes differently from a fresh one',
                              {'fn': 'c02_edit_case', 'args': pyrepr((vals, i))}, bad[0] if k == 'ok' else 'oracle runs', bad[1] if k == 'ok' else repr(bad))
    for mask in range(1 << (nprops - 1)):
        for _ in range(draws):
            vals = lanes.props_vals(ctx, mask)
            size = g.r.choice([0, 1, 2 ** 32, 2 ** 63, 2 ** 64 - 1, g.r.getrandbits(64)])
            ch = g.r.choice([0, 1, 32768, 65535, g.r.randrange(65536)])
            junk = g.r.choice([b'', b'\xce', b'\x02\x00'])
            res.case(pyrepr((mask, vals, size)), trivial=mask == 0 and False, tag='n=%d' % bin(mask).count('1'),
                     sample={'mask': mask, 'values': pyrepr(vals)[:200], 'body_size': size})
            bad = c02_case(size, vals, ch, junk)
            if bad:
                res.violation('content header round trip',
                              {'fn': 'c02_case', 'args': pyrepr((size, vals, ch, junk))}, bad[0], bad[1])
    res.notes.append('all %d presence subsets of the %d settable properties enumerated' % (1 << (nprops - 1), nprops - 1))
    return res


@replayer
def c18_body_case(content, ch, junk):
    b = frame.marshal(body.ContentBody(content), ch)
    if b != refenc.body_frame(content, ch):
        return (refenc.body_frame(content, ch).hex()[:200], b.hex()[:200])
    # one body object, sent twice (on two channels), given as each byte container: same bytes both times, and the
    # object still reports its own content and length afterwards
    if len(content) <= 5000:
        # a body that wraps the caller's bytearray follows what the caller does to it: grown or shrunk in place after it was
        # measured and sent once, it is measured and framed anew
        buf_ = bytearray(content)
        obj = body.ContentBody(buf_)
        len(obj)
        frame.marshal(obj, ch)
        for edit in ('grow', 'shrink'):
            if edit == 'grow':
                buf_.extend(b'zz\xce')
            else:
                del buf_[:min(2, len(buf_))]
            now = bytes(buf_)
            k2_, b2_ = catching(frame.marshal, obj, ch)
            if len(obj) != len(now) or k2_ != 'ok' or b2_ != refenc.body_frame(now, ch):
                return ('after the caller\'s bytearray was %s in place: len %d and the frame of its %d octets' % ('grown' if edit == 'grow' else 'shrunk', len(now), len(now)),
                        'len(body) %d, frame %s' % (len(obj), b2_.hex()[:60] if k2_ == 'ok' else repr(b2_)))
    for mk in (bytes, bytearray, lambda c: type('B', (bytes,), {})(c)):
        given = mk(content)
        obj = body.ContentBody(given)
        first = frame.marshal(obj, ch)
        second = frame.marshal(obj, (ch + 1) % 65536)
        if first != b or second[7:] != b[7:] or len(obj) != len(content) or bytes(obj.value) != content or bytes(given) != content:
            return ('%s body: identical frames on re-sending, len %d, content kept' % (type(given).__name__, len(content)),
                    'second payload %d bytes, len(body) %d, caller\'s object %d bytes' % (len(second) - 8, len(obj), len(given)))
    n, ch2, f = frame.unmarshal(b + junk)
    if n != len(content) + 8 or ch2 != ch or not isinstance(f, body.ContentBody) or f.value != content \
            or len(f) != len(content) or len(body.ContentBody(content)) != len(content):
        return ((len(content) + 8, ch, 'same content'), (n, ch2, type(f).__name__, len(getattr(f, 'value', b''))))
    return None


@replayer
def c18_proto_case(a, b_, c, junk):
    p = header.ProtocolHeader(a, b_, c)
    data = frame.marshal(p, 0)
    if data != b'AMQP\x00' + bytes([a, b_, c]):
        return ((b'AMQP\x00' + bytes([a, b_, c])).hex(), data.hex())
    n, ch, f = frame.unmarshal(data + junk)
    if (n, ch) != (8, 0) or not isinstance(f, header.ProtocolHeader) or \
            (f.major_version, f.minor_version, f.revision) != (a, b_, c):
        return ((8, 0, (a, b_, c)), (n, ch, getattr(f, 'major_version', None), getattr(f, 'minor_version', None), getattr(f, 'revision', None)))
    return None


def oracle_c18(ctx):
    res = Result('c18.roundtrip')
    g = ctx.gen
    sizes = [1, 2, 7, 8, 255, 256, 4095, 4096, 131071, 131072] if ctx.thorough else [1, 2, 7, 8, 256, 4096, 131072]
    sizes = sorted(set(sizes + [x for x in lanes.size_boundaries(ctx) if x <= 131072]))
    for n in sizes:
        for content in [bytes(g.r.getrandbits(8) for _ in range(min(n, 4096))) * (n // min(n, 4096)) + b'\x00' * (n % min(n, 4096)),
                        b'\xce' * n, (b'AMQP\x00\x00\x09\x01' * n)[:n], (b'\x08\x00\x00\x00\x00\x00\x00\xce' * n)[:n],
                        (b'\x01\x00\x01\x00\x00\x00\x04\x00\x0a\x00\x0b\xce' * n)[:n], b'\x00' * n]:
            for ch in [0, 1, 65535, g.r.randrange(65536)]:
                junk = g.r.choice([b'', b'\xce', b'AMQP'])
                res.case('%d %s %d' % (n, content[:16].hex(), ch), tag='body', sample={'len': n, 'head': content[:8].hex(), 'channel': ch})
                k, bad = catching(c18_body_case, content, ch, junk)
                if k != 'ok' or bad:
                    res.violation('body round trip', {'fn': 'c18_body_case', 'args': pyrepr((content, ch, junk))} if n <= 4096 else
                                  {'fn': 'c18_body_case', 'args': '(%r * %d, %d, %r)' % (content[:1], n, ch, junk)},
                                  'round trip', bad if k == 'ok' else repr(bad))
    for notbytes in [5, 1, True, 131072, [1, 2, 3], (1, 2), range(3), {1: 2}, 'abc', 1.5]:
        res.case('body of type %s' % type(notbytes).__name__, tag='body that is not byte content')
        k, bad = catching(c10_frame_case, 'body', notbytes, 1)
        if k != 'ok' or bad:
            res.violation('ContentBody(%r) is sent as something else' % (notbytes,), {'fn': 'c10_frame_case', 'args': pyrepr(('body', notbytes, 1))},
                          bad[0] if k == 'ok' else 'oracle runs', bad[1] if k == 'ok' else repr(bad))
    # byte content handed over as zero-copy code does: a memoryview, whole or a slice of a larger buffer
    for data in [b'a', b'abcdef', b'\xce' * 9, bytes(range(256)) * 20, b'x' * 8192]:
        for start, stop in [(0, None), (1, None), (0, -1), (2, 4), (1, 2), (0, 4096), (4096, None)]:
            for mutable in (False, True):
                if not bytes(data[start:stop]):
                    continue
                res.case('mv %d %r %r %s' % (len(data), start, stop, mutable), tag='memoryview body')
                k, bad = catching(c10_frame_case, 'bodymv', (data, start, stop, mutable), 7)
                if k != 'ok' or bad:
                    res.violation('body given as a memoryview', {'fn': 'c10_frame_case', 'args': pyrepr(('bodymv', (data, start, stop, mutable), 7))},
                                  bad[0] if k == 'ok' else 'oracle runs', bad[1] if k == 'ok' else repr(bad))
    for ch_ in (1, 255, 256, 32768, 65535):
        res.case('heartbeat ch %d' % ch_, tag='heartbeat')
        kh, bh = catching(frame.marshal, heartbeat.Heartbeat(), ch_)
        if kh != 'ok' or bh != b'\x08\x00\x00\x00\x00\x00\x00\xce':
            res.violation('heartbeat encoded on channel %d' % ch_, {'fn': 'none', 'args': '()'}, '08000000000000ce', bh.hex() if kh == 'ok' else repr(bh))
    hb = frame.marshal(heartbeat.Heartbeat(), 0)
    res.case('heartbeat', tag='heartbeat')
    k, r = catching(frame.unmarshal, hb + b'\x01')
    if hb != b'\x08\x00\x00\x00\x00\x00\x00\xce' or k != 'ok' or r[0] != 8 or not isinstance(r[2], heartbeat.Heartbeat):
        res.violation('heartbeat', {'fn': 'none', 'args': '()'}, '08000000000000ce / (8, 0, Heartbeat)', (hb.hex(), r))
    triples = set()
    for x in range(256):
        triples |= {(x, 9, 1), (0, x, 1), (0, 9, x), (x, x, x)}
    count = 256 ** 3 if ctx.thorough and ctx.exhaustive_versions else 3000
    if count == 256 ** 3:
        it = itertools.product(range(256), repeat=3)
    else:
        it = itertools.chain(triples, ((g.r.randrange(256), g.r.randrange(256), g.r.randrange(256)) for _ in range(count)))
    for t in it:
        res.case('P%r' % (t,), tag='protocol_header')
        k, bad = catching(c18_proto_case, t[0], t[1], t[2], b'' if t[0] % 2 else b'\xce')
        if k != 'ok' or bad:
            res.violation('protocol header round trip', {'fn': 'c18_proto_case', 'args': pyrepr((t[0], t[1], t[2], b''))},
                          'round trip', bad if k == 'ok' else repr(bad))
    return res


# =============================================================== C04 independent reference bytes

@replayer
def c04_value_case(v, legacy):
    with real.legacy(legacy):
        k, b = catching(encode.encode_table_value, v)
    try:
        ref = refenc.field(v, legacy)
    except refenc.Unencodable:
        ref = None
    if k == 'ok' and ref is not None and b != ref:
        return (ref.hex()[:400], b.hex()[:400])
    if k == 'ok' and ref is None:
        return ('reference refuses the value', b.hex()[:400])
    return None


@replayer
def c04_method_case(key, vals, ch, legacy):
    cls = commands.INDEX_MAPPING[key]
    with real.legacy(legacy):
        k, b = catching(frame.marshal, real.make_method(cls, vals), ch)
    if k != 'ok':
        return None
    try:
        ref = refenc.method_frame(key, vals, ch, legacy)
    except (refenc.Unencodable, Exception) as e:  # noqa
        return ('reference: %r' % e, b.hex()[:400])
    return None if ref == b else (ref.hex()[:400], b.hex()[:400])


@replayer
def c04_header_case(size, vals, ch, weight=0, class_id=None):
    h = real.make_header(size, vals, weight=weight)
    h.class_id = class_id
    k, b = catching(frame.marshal, h, ch)
    if k != 'ok':
        return None
    ref = refenc.header_frame(size, vals, ch)
    return None if ref == b else (ref.hex()[:400], b.hex()[:400])


def oracle_c04(ctx):
    res = Result('c04.reference')
    g = ctx.gen
    n = 12000 if ctx.thorough else 2000
    for i in range(n):
        v = g.value_ok(depth=g.r.choice([0, 1, 2, 3]), breadth=g.r.choice([1, 2, 4])) if i % 4 else g.value_any(2)
        legacy = i % 3 == 0
        res.case(pyrepr(v) + str(legacy), tag='value.' + type(v).__name__, sample={'value': pyrepr(v)[:200]})
        k, bad = catching(c04_value_case, v, legacy)
        if k != 'ok' or bad:
            res.violation('field value bytes differ from the reference', {'fn': 'c04_value_case', 'args': pyrepr((v, legacy))},
                          bad[0] if k == 'ok' else 'reference runs', bad[1] if k == 'ok' else repr(bad))
    for typecode, items in [('H', [1, 2, 3]), ('I', [0xCE, 2 ** 32 - 1]), ('Q', list(range(12))), ('B', list(range(48)))]:
        for as_view in (True, False, 'matrix', 'ctypes'):
            res.case('bodyarr %s %d %s' % (typecode, len(items), as_view), tag='body given as a buffer of wider items')
            k, bad = catching(c10_frame_case, 'bodyarr', (typecode, items, as_view), 1)
            if k != 'ok' or bad:
                res.violation('body frame of a buffer of %s items is not the envelope around its octets' % typecode,
                              {'fn': 'c10_frame_case', 'args': pyrepr(('bodyarr', (typecode, items, as_view), 1))}, bad[0] if k == 'ok' else 'oracle runs', bad[1] if k == 'ok' else repr(bad))
    # names longer than 128 characters are cut to exactly their first 128 characters, whatever stands at the cut: a combining
    # mark, the second half of a pair, a character outside the BMP, white space, a format character
    for at_cut in ['e\u0301', '\u0301\u0301', 'a\u200d', '\U0001f600', '\U0001f1e9\U0001f1ea', ' x', '\u00adx', 'x\ufe0f', '\u1100\u1161', 'ab']:
        for lead in (126, 127, 128):
            for tail in ('', 'tail', 'x' * 60):
                kname = 'k' * lead + at_cut + tail
                if len(kname) <= 128 or len(kname[:128].encode('utf-8')) > 255:
                    continue
                for v in ({kname: 1}, {'a': {kname: 'v'}}, [{kname: None}], {kname: 1, 'k' * 127: 2}):
                    res.case('cut ' + pyrepr(v)[:300], tag='name cut at 128')
                    k, bad = catching(c04_value_case, v, False)
                    if k != 'ok' or bad:
                        res.violation('a name longer than 128 characters is not cut to its first 128', {'fn': 'c04_value_case', 'args': pyrepr((v, False))},
                                      bad[0] if k == 'ok' else 'reference runs', bad[1] if k == 'ok' else repr(bad))
    metas = ctx.generated['catalogue']['methods']
    for meta in metas:
        cls = commands.INDEX_MAPPING.get(meta['key'])
        if cls is None:
            continue
        bits = [i for i, a in enumerate(meta['args']) if a['ty'] == 'bit']
        combos = list(itertools.product([False, True], repeat=len(bits))) if bits else [()]
        for rep in range(6 if ctx.thorough else 2):
            for combo in combos:
                vals = lanes.method_vals_ok(ctx, cls, meta)
                for i, bv in zip(bits, combo):
                    if not any(ru.get('attr') == meta['args'][i]['name'] for ru in meta['rules']):
                        vals[i] = bv
                ch = g.r.choice([0, 1, 256, 65535])
                res.case(pyrepr((meta['key'], vals, ch)), tag='method', sample={'method': meta['name'], 'values': pyrepr(vals)[:200]})
                k, bad = catching(c04_method_case, meta['key'], vals, ch, rep % 2 == 1)
                if k != 'ok' or bad:
                    res.violation('%s bytes differ from the reference' % meta['name'],
                                  {'fn': 'c04_method_case', 'args': pyrepr((meta['key'], vals, ch, rep % 2 == 1))},
                                  bad[0] if k == 'ok' else 'reference runs', bad[1] if k == 'ok' else repr(bad))
    nprops = len(commands.Basic.Properties.__slots__)
    for mask in (range(1 << (nprops - 1)) if ctx.thorough else [g.r.getrandbits(nprops - 1) for _ in range(1500)] + [0, (1 << (nprops - 1)) - 1]):
        vals = lanes.props_vals(ctx, mask)
        size = g.r.choice([0, 1, 2 ** 63, 2 ** 64 - 1])
        res.case(pyrepr((mask, vals)), tag='header')
        weight, cid = g.r.choice([(0, None), (0, None), (1, None), (65535, 60), (0, 10), (7, 0), (0, 65535)])
        k, bad = catching(c04_header_case, size, vals, 7, weight, cid)
        if k != 'ok' or bad:
            res.violation('content header bytes differ from the reference (weight=%r class_id=%r)' % (weight, cid), {'fn': 'c04_header_case', 'args': pyrepr((size, vals, 7, weight, cid))},
                          bad[0] if k == 'ok' else 'reference runs', bad[1] if k == 'ok' else repr(bad))
    for content, ch in [(b'x', 0), (b'\xce' * 9, 65535), (bytes(range(256)), 258)]:
        res.case('body %r' % content[:4], tag='body')
        if frame.marshal(body.ContentBody(content), ch) != refenc.body_frame(content, ch):
            res.violation('body frame bytes', {'fn': 'c18_body_case', 'args': pyrepr((content, ch, b''))})
    res.case('heartbeat', tag='heartbeat')
    if frame.marshal(heartbeat.Heartbeat(), 0) != refenc.heartbeat_frame():
        res.violation('heartbeat bytes', {'fn': 'none', 'args': '()'}, refenc.heartbeat_frame().hex(), frame.marshal(heartbeat.Heartbeat(), 0).hex())
    res.case('protocol header', tag='protocol_header')
    if frame.marshal(header.ProtocolHeader(), 0) != refenc.protocol_header(0, 9, 1):
        res.violation('protocol header bytes', {'fn': 'none', 'args': '()'})
    return res


# =============================================================== C05 grammar-generated wire forms

import grammar  # noqa: E402


@replayer
def c05_value_case(data, junk):
    """reference decoder vs real decoder on a grammar-valid field value"""
    rd = refenc.Reader(data)
    exp = refenc.parse_field(rd)
    if not rd.done():
        return ('generator bug: reference leaves bytes', rd.p)
    with real.deadline(5):
        k, r = catching(decode.embedded_value, data + junk)
    if k != 'ok' or r[0] != len(data) or not same(exp, r[1]):
        return ((len(data), exp), r if k == 'ok' else '%s %r' % (k, r))
    return None


def against_reference(data, r):
    """compare what pamqp decoded (r = (consumed, channel, frame)) with the independent reference
    decoder's reading of the same bytes; -> None or (expected, actual)"""
    n, ch, kind, content = refenc.parse_frame(data)
    if r[0] != n or r[1] != ch:
        return ((n, ch), r[:2])
    f = r[2]
    if kind == 'M':
        index, name, vals = content
        if type(f) is not commands.INDEX_MAPPING.get(index):
            return (name, type(f).__name__)
        for a, v in vals.items():
            if not same(v, getattr(f, a)):
                return ('%s.%s=%r' % (name, a, v), '%r' % (getattr(f, a),))
    elif kind == 'H':
        class_id, weight, size, props = content
        if (f.class_id, f.weight, f.body_size) != (class_id, weight, size):
            return ((class_id, weight, size), (f.class_id, f.weight, f.body_size))
        for a in commands.Basic.Properties.__slots__:
            exp = props.get(a, '' if a == 'cluster_id' else None)
            if not same(exp, getattr(f.properties, a)):
                return ('%s=%r' % (a, exp), '%r' % (getattr(f.properties, a),))
    elif kind == 'B':
        if not isinstance(f, body.ContentBody) or f.value != content:
            return ('body of %d bytes' % len(content), type(f).__name__)
    elif kind == 'P':
        if not isinstance(f, header.ProtocolHeader) or (f.major_version, f.minor_version, f.revision) != tuple(content):
            return (content, type(f).__name__)
    elif kind == 'HB' and not isinstance(f, heartbeat.Heartbeat):
        return ('Heartbeat', type(f).__name__)
    return None


@replayer
def c05_frame_case(data, junk):
    n, ch, kind, content = refenc.parse_frame(data)
    if n != len(data):
        return ('generator bug', n)
    with real.deadline(5):
        k, r = catching(frame.unmarshal, data + junk)
    if k != 'ok':
        return ('decodes', '%s %r' % (k, r))
    return against_reference(data, r)


def oracle_c05(ctx):
    res = Result('c05.grammar')
    g = ctx.gen
    n = 15000 if ctx.thorough else 2500
    for i in range(n):
        tag = grammar.TAGS[i % len(grammar.TAGS)] if i < 40 * len(grammar.TAGS) else None
        data, exp = grammar.field(g, g.r.choice([0, 1, 2, 3]), tag)
        junk = g.r.choice([b'', b'', b'\x00', b'\xce'])
        res.case(data.hex(), tag='tag ' + repr(data[:1]), sample={'bytes': data.hex()[:120], 'expected': pyrepr(exp)[:120]})
        k, bad = catching(c05_value_case, data, junk)
        if k == 'ok' and not bad:
            # the generator's own expectation must agree with the reference decoder
            rd = refenc.Reader(data)
            if not same(exp, refenc.parse_field(rd)):
                res.notes.append('generator/reference disagreement on %s' % data.hex()[:80])
        if k != 'ok' or bad:
            if isinstance(bad, refenc.Refused):
                continue
            res.violation('decoder disagrees with the reference on a well-formed field value',
                          {'fn': 'c05_value_case', 'args': pyrepr((data, junk))},
                          bad[0] if k == 'ok' else 'decodes', bad[1] if k == 'ok' else repr(bad))
    # structural extremes of the grammar: thousands of entries (unsorted, duplicate keys), thousands of void items, long
    # strings and byte arrays, containers whose length needs every byte of the 32-bit length field
    def tbl(entries):
        body_ = b''.join(bytes([len(k_)]) + k_ + v_ for k_, v_ in entries)
        return b'F' + struct.pack('>I', len(body_)) + body_
    def arr(items):
        body_ = b''.join(items)
        return b'A' + struct.pack('>I', len(body_)) + body_
    bigs = [tbl([(b'k%05d' % (4999 - i), b'b' + bytes([i % 256])) for i in range(5000)]), tbl([(b'dup', b's' + struct.pack('>h', i - 100)) for i in range(3000)]),
            arr([b'V'] * 5000), arr([b'\x00'] * 3000 + [b'V'] * 3000), b'S' + struct.pack('>I', 2 ** 20) + b'\xe2\x82\xac' * 349525 + b'a',
            b'S' + struct.pack('>I', 70000) + b'\xff' * 70000, b'x' + struct.pack('>I', 65537) + b'\xce' * 65537,
            arr([arr([]) for _ in range(4000)]), tbl([(b'', tbl([(b'', b'V')]))] * 2000), arr([b't\x02'] * 66000)]
    for data in bigs:
        res.case('big %d bytes %s' % (len(data), data[:12].hex()), tag='structural extremes')
        with real.deadline(30):
            k, bad = catching(c05_value_case, data, b'')
        if k != 'ok' or bad:
            res.violation('decoder disagrees with the reference on a large well-formed field value (%d bytes, starts %s)' % (len(data), data[:12].hex()),
                          {'fn': 'none', 'args': '()'}, str(bad[0])[:200] if k == 'ok' else 'decodes', str(bad[1])[:200] if k == 'ok' else repr(bad))
    # a receive loop peeks at one buffer and later decodes another: nothing about the first may leak into the second, even when
    # the second bytes object has the same length (and, the first having been released, very likely the same address)
    pairs5 = [(frame.marshal(commands.Basic.Reject(5, True), 7), frame.marshal(commands.Basic.Ack(9, False), 1)),
              (frame.marshal(commands.Tx.Select(), 3), frame.marshal(body.ContentBody(b'abcd'), 2)),
              (frame.marshal(body.ContentBody(b'x' * 20), 9), frame.marshal(commands.Basic.Qos(1, 2, False), 4) + b''),
              (b'\x08\x00\x00\x00\x00\x00\x00\xce', frame.marshal(body.ContentBody(b''), 5))]
    for a5, b5 in pairs5:
        for rep in range(60 if ctx.thorough else 15):
            res.case('peek then other %s %s %d' % (a5.hex()[:30], b5.hex()[:30], rep), tag='peek then decode another')
            k, bad = catching(c05_peek_other_case, a5, b5)
            if k != 'ok' or bad:
                res.violation('a frame decoded after a peek at ANOTHER buffer of the same length', {'fn': 'c05_peek_other_case', 'args': pyrepr((a5, b5))},
                              bad[0] if k == 'ok' else 'oracle runs', bad[1] if k == 'ok' else repr(bad))
                break
    keys = list(refenc.METHODS)
    for i in range(6000 if ctx.thorough else 1200):
        if i % 4 == 3:
            data, exp = grammar.header_frame(g)
        else:
            data, exp = grammar.method_frame(g, keys[i % len(keys)])
        junk = g.r.choice([b'', b'\xce', b'AMQP'])
        res.case(data.hex(), tag='frame kind %d' % data[0], sample={'bytes': data.hex()[:120]})
        k, bad = catching(c05_frame_case, data, junk)
        if k != 'ok' or bad:
            res.violation('decoder disagrees with the reference on a well-formed frame',
                          {'fn': 'c05_frame_case', 'args': pyrepr((data, junk))},
                          bad[0] if k == 'ok' else 'decodes', bad[1] if k == 'ok' else repr(bad))
    for f_, ch_ in tail_byte_family():
        data = frame.marshal(f_, ch_)
        res.case(data.hex(), tag='last payload byte')
        k, bad = catching(c05_frame_case, data, b'')
        if k != 'ok' or bad:
            res.violation('decoder disagrees with the reference on a frame whose payload ends in 0x%02x' % data[-2],
                          {'fn': 'c05_frame_case', 'args': pyrepr((data, b''))},
                          bad[0] if k == 'ok' else 'decodes', bad[1] if k == 'ok' else repr(bad))
            break
    # a timestamp too large for datetime is refused, not returned as another instant
    for nbig in [253402300800000, 253402300800001, 2 ** 63, 2 ** 64 - 1, 10 ** 18]:
        res.case('T%d' % nbig, tag='timestamp refused')
        k, r = catching(decode.timestamp, struct.pack('>Q', nbig))
        if k == 'ok':
            res.violation('unrepresentable timestamp returned as %r' % (r,), {'fn': 'none', 'args': '()'}, 'refused', r)
        # ... wherever a timestamp can stand: the timestamp property (alone, and between other properties), a T field
        # of the headers table, of a method's table argument, of an array
        t8 = struct.pack('>Q', nbig)
        tblT = b'\x01tT' + t8
        hdr = lambda flags, parts: refenc.envelope(2, 1, b'\x00\x3c\x00\x00' + b'\x00' * 8 + struct.pack('>H', flags) + parts)  # noqa: E731
        forms = {'timestamp property': hdr(0x0040, t8),
                 'timestamp property between others': hdr(0x8000 | 0x0040 | 0x0008, b'\x01a' + t8 + b'\x01b'),
                 'T in headers': hdr(0x2000, struct.pack('>I', len(tblT)) + tblT),
                 'T in a method table': refenc.envelope(1, 1, struct.pack('>I', 0x0032000A) + b'\x00\x00\x01q\x00' + struct.pack('>I', len(tblT)) + tblT),
                 'T in an array': refenc.envelope(1, 1, struct.pack('>I', 0x0032000A) + b'\x00\x00\x01q\x00' + struct.pack('>I', 16) + b'\x01aA' + struct.pack('>I', 9) + b'T' + t8)}
        for what, data in forms.items():
            res.case('%s %d' % (what, nbig), tag='timestamp refused')
            bad = c05_refused_case(data)
            if bad:
                res.violation('unrepresentable timestamp (%s) is not refused' % what, {'fn': 'c05_refused_case', 'args': pyrepr((data,))}, bad[0], bad[1])
    return res


@replayer
def c05_peek_other_case(a, b):
    want = frame.unmarshal(b)
    want = (want[0], want[1], lanes.frame_sx(want[2]))
    for _ in range(25):
        for first, second in ((a, b), (b, b)):
            pad = b'' if len(first) >= len(second) else b'\x00' * (len(second) - len(first))
            tmp = bytes(bytearray(first + pad))        # a fresh object of the SAME length as the frame decoded next
            frame.frame_parts(tmp)
            del tmp
            fresh = bytes(bytearray(second))
            k, r = catching(frame.unmarshal, fresh)
            if k != 'ok' or (r[0], r[1], lanes.frame_sx(r[2])) != want:
                return (want, (r[0], r[1], lanes.frame_sx(r[2])) if k == 'ok' else repr(r))
            del fresh
    return None


@replayer
def c05_refused_case(data):
    """a frame holding a timestamp no datetime can represent is refused (UnmarshalingException), never decoded into
    some other instant or into nothing"""
    k, r = catching(frame.unmarshal, data)
    if k == 'ok':
        return ('refused', lanes.frame_sx(r[2])[:300])
    if not isinstance(r, exceptions.UnmarshalingException):
        return ('UnmarshalingException', repr(r))
    return None


# =============================================================== C06 / C07 / C20 framing

def boundary_bodies(ctx):
    """body frames whose payload size sits on a mined size boundary (+-8) or beyond the largest,
    filled with frame-end octets / a rolling pattern"""
    out = []
    sizes = lanes.size_boundaries(ctx)
    big = max(sizes) if sizes else 131072
    for n in sizes + [big + 9000]:
        for content in (b'\xce' * n, bytes(range(256)) * (n // 256) + bytes(range(n % 256))):
            f = body.ContentBody(content)
            try:
                out.append((f, 5, frame.marshal(f, 5)))
            except Exception:  # noqa
                pass
    return out


def tail_byte_family():
    """frames whose LAST payload byte takes every value 0..255 (a frame-end look-alike among them):
    bodies, a method ending in an integer field, a content header ending in an octet property"""
    out = []
    for v in range(256):
        out.append((body.ContentBody(b'ab' + bytes([v])), 1))
        out.append((commands.Connection.TuneOk(1, 2, 0x1200 | v), 0))
        out.append((commands.Queue.DeclareOk('q', 5, 0x01020300 | v), 2))
        out.append((real.make_header(3, [None, None, None, None, v] + [None] * 8 + ['']), 3))
    return out


def foreign_frames(ctx, n):
    """grammar-valid frames as a foreign peer may send them (forms this library never emits: unused bits
    set, further flag words, any class id / weight, all 19 type tags, names validation would refuse)"""
    g = ctx.gen
    keys = list(refenc.METHODS)
    out = []
    for i in range(n):
        data, exp = grammar.header_frame(g) if i % 3 == 2 else grammar.method_frame(g, keys[g.r.randrange(len(keys))])
        out.append((None, exp[0], data))
    return out


def valid_frames(ctx, n, boundaries=False, foreign=0):
    out = boundary_bodies(ctx) if boundaries else []
    if foreign:
        out += foreign_frames(ctx, foreign)
    for f_, ch_ in tail_byte_family():
        out.append((f_, ch_, frame.marshal(f_, ch_)))
    for ch_ in (0, 65535):       # the empty body frame is a frame too (D12)
        out.append((body.ContentBody(b''), ch_, frame.marshal(body.ContentBody(b''), ch_)))
    for meta in ctx.generated['catalogue']['methods']:
        cls_ = commands.INDEX_MAPPING.get(meta['key'])
        if cls_ is not None:
            f_ = real.make_method(cls_, lanes.method_vals_ok(ctx, cls_, meta))
            try:
                out.append((f_, 9, frame.marshal(f_, 9)))
            except Exception:  # noqa
                pass
    for _ in range(n):
        f, ch = lanes.random_frame(ctx)
        try:
            b = frame.marshal(f, ch)
        except Exception:  # noqa
            continue
        out.append((f, ch, b))
    return out


@replayer
def c06_stream_case(datas, tail):
    """decode a concatenation by repeatedly dropping the consumed bytes"""
    buf = b''.join(datas)
    expected = [(len(d),) for d in datas]
    pos = 0
    got = []
    for d in datas:
        with real.deadline(5):
            k, r = catching(frame.unmarshal, buf[pos:] + tail)
        if k != 'ok':
            return ('frame %d decodes' % len(got), '%s %r' % (k, r))
        k1, alone = catching(frame.unmarshal, d)
        if k1 != 'ok' or r[0] != len(d) or r[1] != alone[1] or lanes.frame_sx(r[2]) != lanes.frame_sx(alone[2]):
            return ((len(d), alone[1] if k1 == 'ok' else None), (r[0], r[1]))
        # envelope clause
        if not isinstance(r[2], header.ProtocolHeader):
            t, ch, sz = struct.unpack('>BHI', d[:7])
            kind = {1: base.Frame, 2: header.ContentHeader, 3: body.ContentBody, 8: heartbeat.Heartbeat}.get(t)
            if kind is None or not isinstance(r[2], kind) or r[1] != ch or r[0] != sz + 8 or d[r[0] - 1] != 0xCE:
                return ('envelope (%d,%d,%d)' % (t, ch, sz + 8), (type(r[2]).__name__, r[1], r[0]))
        elif d[:4] != b'AMQP' or r[0] != 8:
            return ('protocol header only for AMQP', d[:8])
        got.append(r)
        pos += r[0]
    if pos != len(buf):
        return (len(buf), pos)
    # exactly those frames: every decoded object (inspected after the WHOLE stream was decoded) must be
    # what an independent reference decoder reads from that frame's own bytes
    for i, (d, r) in enumerate(zip(datas, got)):
        try:
            bad = against_reference(d, r)
        except (refenc.Malformed, refenc.Refused):
            bad = None
        if bad:
            return ('frame %d of the stream: %s' % (i, bad[0],), bad[1])
    return None


@replayer
def c06_buffer_case(datas):
    """a stream of BODY and HEARTBEAT frames (the kinds the decoder reads from any bytes-like buffer; frames with strings
    or tables need `bytes`) held the ways a receive loop holds it: (a) one big buffer walked with memoryview windows
    view[pos:], (b) a bytearray shortened in place with `del buf[:consumed]` after every frame, (c) a bytearray that is
    overwritten once a frame was taken from it. Every frame decodes as it does from its own bytes, and a frame already
    handed out does not change when the buffer does"""
    def show(r):
        f = r[2]
        return (r[0], r[1], type(f).__name__, bytes(f.value) if isinstance(f, body.ContentBody) else None)
    want = []
    for d in datas:
        k, r = catching(frame.unmarshal, d)
        if k != 'ok' or not isinstance(r[2], (body.ContentBody, heartbeat.Heartbeat)):
            return None
        want.append(show(r))
    whole = b''.join(datas)
    for backing in (b'\xee\xee\xee' + whole + b'\xee', bytearray(b'\xee\xee\xee' + whole + b'\xee')):
        view = memoryview(backing)[3:]
        pos = 0
        for i, d in enumerate(datas):
            k, r = catching(frame.unmarshal, view[pos:])
            if k != 'ok' or show(r) != want[i]:
                return ('frame %d from a memoryview window at offset %d: %r' % (i, pos, want[i][:3]), show(r)[:3] if k == 'ok' else repr(r))
            pos += r[0]
    buf = bytearray(whole)
    got = []
    for i, d in enumerate(datas):
        k, r = catching(frame.unmarshal, buf)
        if k != 'ok':
            return ('frame %d decodes from the bytearray' % i, repr(r))
        got.append(r)
        try:
            del buf[:r[0]]
        except BufferError as e:
            return ('the receive buffer can be shortened after frame %d was taken from it' % i, repr(e))
    if len(buf) != 0:
        return ('an empty buffer at the end', len(buf))
    for (r, w) in zip(got, want):
        if show(r) != w:
            return (w[:3], show(r)[:3])
    buf = bytearray(whole)
    k, r = catching(frame.unmarshal, buf)
    if k == 'ok':
        before = show(r)
        try:
            buf[:] = b'\x00' * len(buf)
        except BufferError as e:
            return ('the receive buffer can be refilled in place after a frame was taken from it', repr(e))
        if show(r) != before:
            return ('a decoded frame keeps its content when the receive buffer is refilled', repr(show(r))[:160])
    return None


def oracle_c06(ctx):
    res = Result('c06.stream')
    g = ctx.gen
    frames = valid_frames(ctx, 1500 if ctx.thorough else 300, foreign=600 if ctx.thorough else 150)
    for f_, ch_, b_ in boundary_bodies(ctx):
        res.case('boundary body %d' % len(b_), tag='boundary')
        kk, bad = catching(c06_stream_case, [b_, b_[:8] if False else b'\x08\x00\x00\x00\x00\x00\x00\xce'], b'')
        if kk != 'ok' or bad:
            res.violation('stream with a %d-byte body frame' % len(b_), {'fn': 'c06_stream_case', 'args': '([b"\\x03\\x00\\x05" + (%d).to_bytes(4, "big") + %r * %d + b"\\xce", b"\\x08\\x00\\x00\\x00\\x00\\x00\\x00\\xce"], b"")' % (len(b_) - 8, b_[7:8], len(b_) - 8)},
                          bad[0] if kk == 'ok' else 'decodes', bad[1] if kk == 'ok' else repr(bad))
    for i in range(600 if ctx.thorough else 120):
        k = g.r.choice([1, 2, 3, 5, 10, 50 if ctx.thorough else 12])
        datas = [g.r.choice(frames)[2] for _ in range(k)]
        tail = g.r.choice([b'', b'\xce', b'AMQP', b'\x01\x00\x01\x00\x00\x00\x04', b'\x08\x00\x00\x00\x00\x00\x00',
                           bytes(g.r.getrandbits(8) for _ in range(9))])
        res.case(b''.join(datas).hex()[:4000] + tail.hex(), trivial=False, tag='k=%d' % k,
                 sample={'frames': k, 'first': datas[0].hex()[:80], 'tail': tail.hex()})
        kk, bad = catching(c06_stream_case, datas, tail)
        if kk != 'ok' or bad:
            res.violation('stream of %d frames' % k, {'fn': 'c06_stream_case', 'args': pyrepr((datas, tail))},
                          bad[0] if kk == 'ok' else 'decodes', bad[1] if kk == 'ok' else repr(bad))
    for i in range(300 if ctx.thorough else 60):
        k = g.r.choice([1, 2, 3, 6])
        datas = []
        for _ in range(k):
            if g.r.random() < 0.25:
                datas.append(b'\x08\x00\x00\x00\x00\x00\x00\xce')
            else:
                content = g.r.choice([bytes(g.r.getrandbits(8) for _ in range(g.r.choice([0, 1, 30, 300]))), b'\xce' * 9, b'AMQP\x00\x00\x09\x01', b'\x08\x00\x00\x00\x00\x00\x00\xce'])
                datas.append(frame.marshal(body.ContentBody(content), g.r.choice([0, 1, 65535])))
        res.case('buffers ' + b''.join(datas).hex()[:3000], tag='buffer kinds')
        kk, bad = catching(c06_buffer_case, datas)
        if kk != 'ok' or bad:
            res.violation('stream held in a memoryview / bytearray', {'fn': 'c06_buffer_case', 'args': pyrepr((datas,))},
                          bad[0] if kk == 'ok' else 'oracle runs', bad[1] if kk == 'ok' else repr(bad))
    # every type octet, with small payload sizes and the frame-end octet where it belongs (or not): if decoding succeeds, the kind
    # is the one the type octet names
    for t_ in range(256):
        for sz_ in (0, 1, 4, 5, 12, 14):
            for fill in (b'\x00', b'\xce', b'\x0a'):
                for end_ in (b'\xce', b'\x00', b''):
                    m = bytes([t_]) + b'\x00\x01' + struct.pack('>I', sz_) + fill * sz_ + end_ + b'\xce\x01'
                    res.case(m.hex(), tag='type octet sweep')
                    bad = c06_envelope_case(m)
                    if bad:
                        res.violation('successful decode contradicts the 7-byte header', {'fn': 'c06_envelope_case', 'args': pyrepr((m,))}, bad[0], bad[1])
    # envelope clause on arbitrary inputs on which decoding succeeds
    for i in range(20000 if ctx.thorough else 4000):
        f, ch, b = g.r.choice(frames)
        ms = lanes.mutations(b, g.r, 1)
        if not ms or len(ms[0]) > 70000:
            continue
        m = ms[0]
        with real.deadline(5):
            k, r = catching(frame.unmarshal, m)
        res.case(m.hex()[:2000], tag='mutation ' + k)
        if k != 'ok':
            continue
        if isinstance(r[2], header.ProtocolHeader):
            ok = m[:4] == b'AMQP' and r[0] == 8 and r[1] == 0
        else:
            ok = len(m) >= 7
            if ok:
                t, c, sz = struct.unpack('>BHI', m[:7])
                kind = {1: base.Frame, 2: header.ContentHeader, 3: body.ContentBody, 8: heartbeat.Heartbeat}.get(t)
                ok = kind is not None and isinstance(r[2], kind) and r[1] == c and r[0] == sz + 8 and r[0] <= len(m) and m[r[0] - 1] == 0xCE
        if not ok:
            res.violation('successful decode contradicts the 7-byte header', {'fn': 'c06_envelope_case', 'args': pyrepr((m,))},
                          'kind/channel/size of the header, last byte 0xCE', (type(r[2]).__name__, r[1], r[0]))
    return res


@replayer
def c06_envelope_case(m):
    k, r = catching(frame.unmarshal, m)
    if k != 'ok':
        return None
    if isinstance(r[2], header.ProtocolHeader):
        return None if (m[:4] == b'AMQP' and r[0] == 8 and r[1] == 0) else ('AMQP/8/0', r[:2])
    if len(m) < 7:
        return ('rejected', r[:2])
    t, c, sz = struct.unpack('>BHI', m[:7])
    kind = {1: base.Frame, 2: header.ContentHeader, 3: body.ContentBody, 8: heartbeat.Heartbeat}.get(t)
    ok = kind is not None and isinstance(r[2], kind) and r[1] == c and r[0] == sz + 8 and r[0] <= len(m) and m[r[0] - 1] == 0xCE
    return None if ok else ((t, c, sz + 8), (type(r[2]).__name__, r[1], r[0]))


@replayer
def c07_case(data, k):
    # the prefix as a receive loop may hold it: bytes, a bytearray, a memoryview
    for label, buf in (('bytes', data[:k]), ('bytearray', bytearray(data[:k])), ('memoryview', memoryview(data[:k]))):
        with real.deadline(5):
            kk, r = catching(frame.unmarshal, buf)
        if not (kk == 'err' and isinstance(r, exceptions.UnmarshalingException)):
            return ('UnmarshalingException (%s input)' % label, '%s %r' % (kk, r if kk != 'ok' else (r[0], r[1], type(r[2]).__name__)))
    # an application that turns warnings into errors: an incomplete frame is still just "wait for more data"
    import warnings as _w
    with _w.catch_warnings():
        _w.simplefilter('error')
        kk, r = catching(frame.unmarshal, data[:k])
    if not (kk == 'err' and isinstance(r, exceptions.UnmarshalingException)):
        return ('UnmarshalingException (warnings turned into errors)', '%s %r' % (kk, r if kk != 'ok' else (r[0], r[1], type(r[2]).__name__)))
    return None


def oracle_c07(ctx):
    res = Result('c07.prefix')
    g = ctx.gen
    env_snapshots(res, 'prefix')        # every prefix of a corpus of frames, in interpreters started with -bb, -O, -X dev ...
    frames = valid_frames(ctx, 4000 if ctx.thorough else 400, boundaries=True)
    frames.append((None, 0, b'\x08\x00\x00\x00\x00\x00\x00\xce'))
    frames.append((None, 0, b'AMQP\x00\x00\x09\x01'))
    for f, ch, b in frames:
        near = [x + d for x in lanes.size_boundaries(ctx) for d in (6, 7, 8, 9)] if len(b) > 4000 else []
        cuts = range(len(b)) if len(b) <= 300 else sorted(set(list(range(16)) + list(range(len(b) - 12, len(b))) +
                                                               [g.r.randrange(len(b)) for _ in range(40)] +
                                                               [x for x in near if 0 <= x < len(b)]))
        for k in cuts:
            res.case(b[:k].hex()[:600] + '/%d' % len(b), trivial=k == 0, tag='kind %d' % (b[0] if b else 0))
            bad = c07_case(b, k)
            if bad:
                res.violation('strict prefix of length %d of a %d-byte frame' % (k, len(b)),
                              {'fn': 'c07_case', 'args': pyrepr((b, k)) if len(b) < 5000 else '(bytes.fromhex(%r) + bytes.fromhex(%r) * %d + bytes.fromhex(%r), %d)' % (b[:7].hex(), b[7:8].hex(), len(b) - 8, b[-1:].hex(), k)}, bad[0], bad[1])
                break
        if len(res.samples) < 3:
            res.samples.append({'frame': b.hex()[:80], 'cuts': len(cuts)})
    return res


@replayer
def c20_case(buf):
    exp = (0, 0, None) if len(buf) < 7 else (buf[0], int.from_bytes(buf[1:3], 'big'), int.from_bytes(buf[3:7], 'big'))
    # the buffer as a receive loop may hold it: bytes, a bytearray, a memoryview over either, a window into a larger buffer
    views = [('bytes', buf), ('bytearray', bytearray(buf)), ('memoryview', memoryview(buf)), ('memoryview of a bytearray', memoryview(bytearray(buf))),
             ('window into a larger buffer', memoryview(b'\x00\x00' + buf + b'\xff')[2:2 + len(buf)])]
    import array as _array
    import ctypes as _ct
    views += [('array of signed chars', _array.array('b', [x - 256 if x > 127 else x for x in buf])), ('array of unsigned chars', _array.array('B', buf)),
              ('memoryview cast to signed chars', memoryview(buf).cast('b')), ('memoryview cast to chars', memoryview(buf).cast('c')),
              ('ctypes string buffer', _ct.create_string_buffer(buf, len(buf)) if buf else b''), ('mmap-like bytearray window', memoryview(bytearray(buf))[0:len(buf)])]
    for label, b in views:
        k, r = catching(frame.frame_parts, b)
        if k != 'ok':
            return ('never raises (%s)' % label, repr(r))
        if tuple(r) != exp:
            return ('%r (%s)' % (exp, label), r)
    return None


@replayer
def c20_big_case(n, fill):
    """an encoder-produced frame with a payload of n bytes: the peek says size + 8 == its length, and the decoder accepts
    exactly those bytes"""
    content = bytes([fill]) * n
    k, b = catching(frame.marshal, body.ContentBody(content), 3)
    if k != 'ok':
        return None
    t, c, sz = frame.frame_parts(b)
    if (t, c, sz) != (3, 3, n) or len(b) != n + 8:
        return ((3, 3, n), (t, c, sz))
    k2, r = catching(frame.unmarshal, b)
    if k2 != 'ok':
        return ('the decoder accepts the %d-byte frame the peek announces' % len(b), repr(r))
    if r[0] != len(b) or r[1] != 3 or not isinstance(r[2], body.ContentBody) or r[2].value != content:
        return ((len(b), 3, 'ContentBody of %d bytes' % n), (r[0], r[1], type(r[2]).__name__, len(getattr(r[2], 'value', b''))))
    return None


def oracle_c20(ctx):
    res = Result('c20.peek')
    g = ctx.gen
    bufs = [bytes(g.r.getrandbits(8) for _ in range(k)) for k in range(0, 17) for _ in range(8)]
    base7 = bytearray(b'\x01\x00\x01\x00\x00\x00\x05')
    for pos in range(7):
        for v in range(256):
            b = bytearray(base7)
            b[pos] = v
            bufs.append(bytes(b) + bytes(g.r.getrandbits(8) for _ in range(g.r.choice([0, 1, 9]))))
    bufs += [b'\xff\xff\xff\xff\xff\xff\xff', b'\x80\x80\x00\x80\x00\x00\x00', b'\x00' * 7, b'\xff' * 16]
    # buffers that begin / end with a byte string the source itself mentions (b'AMQP', b'\\xce', ...)
    for lit in getattr(ctx, 'byte_literals', []) + [b'AMQP', b'\xce']:
        for tail in (b'', b'\x00\x00\x09\x01', b'\x00' * 7, bytes(g.r.getrandbits(8) for _ in range(9))):
            bufs += [lit + tail, tail + lit, lit[:2] + tail]
    for b in bufs:
        res.case(b.hex(), trivial=len(b) == 0, tag='len<7' if len(b) < 7 else 'len>=7', sample={'buffer': b.hex()})
        bad = c20_case(b)
        if bad:
            res.violation('frame_parts', {'fn': 'c20_case', 'args': pyrepr((b,))}, bad[0], bad[1])
    # payload sizes with each bit of the size field set (the encoder sets no upper limit: up to 2^25 bytes here)
    for kbit in (range(8, 26) if ctx.thorough else (8, 15, 16, 17, 20, 23, 24)):
        for n in (2 ** kbit, 2 ** kbit + 1, 2 ** kbit - 1):
            res.case('big %d' % n, tag='size bit %d' % kbit)
            k, bad = catching(c20_big_case, n, 0xCE if kbit % 2 else 0x41)
            if k != 'ok' or bad:
                res.violation('peek / decoder disagree on a %d-byte body frame' % n, {'fn': 'c20_big_case', 'args': pyrepr((n, 0xCE if kbit % 2 else 0x41))},
                              bad[0] if k == 'ok' else 'oracle runs', bad[1] if k == 'ok' else repr(bad))
                break
    for f, ch, b in valid_frames(ctx, 1500 if ctx.thorough else 300, boundaries=True):
        if isinstance(f, header.ProtocolHeader):
            continue
        res.case(b.hex()[:2000], tag='own frame')
        t, c, sz = frame.frame_parts(b)
        exp_ch = 0 if isinstance(f, heartbeat.Heartbeat) else ch
        bad = None
        if sz is None or sz + 8 != len(b) or c != exp_ch:
            bad = ((exp_ch, len(b) - 8), (c, sz))
        else:
            k, r = catching(frame.unmarshal, b[:7] + b[7:7 + sz + 1])
            if k != 'ok' or r[0] != len(b) or r[1] != c:
                bad = ('accepted, consumes %d on channel %d' % (len(b), c), r if k != 'ok' else r[:2])
        if bad:
            res.violation('peek disagrees with the encoder/decoder', {'fn': 'c20_case', 'args': pyrepr((b,))}, bad[0], bad[1])
    return res


# =============================================================== C08 / C09 robustness of the decoder

import tracemalloc  # noqa: E402

BUDGET = real.Budget()


def call_bound(n):
    """twice the proved step bound of the model plus a per-frame constant for object construction"""
    return 4 * n + 64


def fault_stream(ctx, frames, per_frame):
    """systematic faults on valid frames + random byte strings"""
    g = ctx.gen
    for f, ch, b in frames:
        if len(b) > 5000:
            continue
        for k in ([0, 1, 6, 7, 8, 11, len(b) - 1] if len(b) > 12 else range(len(b))):
            yield b[:k]
        for m in lanes.mutations(b, g.r, per_frame):
            yield m
        # rewrite every aligned 32-bit field position with boundary values (length fields are among them)
        for pos in range(7, min(len(b) - 4, 60)):
            if g.r.random() < 0.25:
                yield b[:pos] + struct.pack('>I', g.r.choice([0, 1, len(b), len(b) - pos, 2 ** 31, 2 ** 32 - 1, len(b) - pos - 4, 5])) + b[pos + 4:]
    for _ in range(200):
        yield bytes(g.r.getrandbits(8) for _ in range(g.r.randrange(0, 64)))
    # the known amplification families (D2, D3, D11)
    def queue_declare(tbl):       # the table is the LAST argument: a container inside it can reach the end of the payload
        payload = struct.pack('>I', 0x0032000A) + b'\x00\x00' + b'\x00' + b'\x00' + struct.pack('>I', len(tbl)) + tbl
        return b'\x01\x00\x01' + struct.pack('>I', len(payload)) + payload + b'\xce'
    for inflated in (10, 255, 2 ** 16, 2 ** 32 - 1):
        yield queue_declare(b'\x01kA' + struct.pack('>I', inflated) + b'b\x01')
        yield queue_declare(b'\x01kA' + struct.pack('>I', inflated) + b'b\x01b\x02b\x03')
        yield queue_declare(b'\x01kF' + struct.pack('>I', inflated) + b'\x01ab\x01')
        yield queue_declare(b'\x01kA' + struct.pack('>I', inflated))
    # short strings (method arguments, properties, table keys) full of octets that are not UTF-8, at every length limit
    def close_frame(ss):
        payload = struct.pack('>I', 0x000A0032) + b'\x00\xc8' + bytes([len(ss)]) + ss + b'\x00\x00\x00\x00'
        return refenc.envelope(1, 0, payload)

    def ctype_header(ss):
        return refenc.envelope(2, 1, b'\x00\x3c\x00\x00' + b'\x00' * 8 + b'\x80\x00' + bytes([len(ss)]) + ss)
    for n in (1, 2, 3, 4, 127, 128, 254, 255):
        for ss in (b'\x80' * n, b'\xbf' * n, b'\xff' * n, b'\xc3' + b'\xa9' * (n - 1), (b'a' * (n - 1) + b'\xc3'), (b'a' * max(n - 2, 0) + b'\xe2\x82')[:n],
                   (b'\xf0' + b'\x9f' * (n - 1)), (b'\xed\xa0\x80' * n)[:n], (b'\xc0\xaf' * n)[:n], (b'\xe9' * n)):
            yield close_frame(ss)
            yield ctype_header(ss)
            yield queue_declare(bytes([len(ss)]) + ss + b'V')
    # a failing value under a key / next to a string that means something to a formatting or escaping step
    bad_values = [b'Z', b'T' + b'\xff' * 8, b'S\x00\x00\x00\x09ab', b'F\x00\x00\x00\x03\x01\xffV', b'A\x00\x00\x00\x01Z', b'D\x00', b'x\xff\xff\xff\xff', b'']
    for kname in G.FORMAT_STRINGS + G.WELL_KNOWN_KEYS[:6] + list(G.MINED_STRINGS)[:40]:
        kb = kname.encode('utf-8')[:255]
        for bv in bad_values:
            yield queue_declare(bytes([len(kb)]) + kb + bv)
            yield queue_declare(b'\x01aS' + struct.pack('>I', len(kb)) + kb + bytes([len(kb)]) + kb + bv)
    for nwords in (16, 64, 300, 1000, 3000):       # a long chain of continuation flag words (legal, never sent by this library)
        for word in (b'\x00\x01', b'\xff\xff', b'\x80\x01'):
            p_ = b'\x00\x3c\x00\x00' + b'\x00' * 8 + word * nwords + b'\x00\x00'
            yield b'\x02\x00\x01' + struct.pack('>I', len(p_)) + p_ + b'\xce'
    for words in (b'\x00\x01', b'\xff\xff', b'\x00\x01\x00\x01', b'\x80\x01\x00\x00'):
        p_ = b'\x00\x3c\x00\x00' + b'\x00' * 8 + words
        yield b'\x02\x00\x01' + struct.pack('>I', len(p_)) + p_ + b'\xce'
    # deep nestings (accurate lengths on the way down) around a faulty innermost element
    inners = [b'S\xff\xff\xff\xff', b'S\x00\x00\x00\x05ab', b'x\x00\x00\xff\xff', b'A\x00\x00\x00\x09b\x01', b'F\x00\x00\x00\x09\x01kV',
              b'l\x00', b'D\x00', b'T', b'V', b'Z', b'S\x00\x00\x00\x01\xff']
    for depth in (4, 12, 17, 24):
        for inner0 in inners:
            for kinds in ('A' * depth, 'F' * depth, ('AF' * depth)[:depth]):
                inner = inner0
                for kd in kinds:
                    inner = (b'A' + struct.pack('>I', len(inner)) + inner) if kd == 'A' else \
                        (b'F' + struct.pack('>I', len(inner) + 2) + b'\x01k' + inner)
                yield queue_declare(b'\x01k' + inner)
    for n in (8, 14, 20, 40):
        inner = b'V'
        for _ in range(n):
            inner = b'A' + struct.pack('>I', len(inner) + 6) + b'F\x00\x00\x00\x01\x00' + inner
        tbl = b'\x01k' + inner
        payload = struct.pack('>I', 0x000A000B) + struct.pack('>I', len(tbl)) + tbl + b'\x05PLAIN\x00\x00\x00\x00\x05en_US'
        yield b'\x01\x00\x01' + struct.pack('>I', len(payload)) + payload + b'\xce'


@replayer
def c08_case(data):
    tracemalloc.start()
    try:
        with BUDGET.counting(call_bound(len(data))):
            try:
                with real.deadline(10):
                    kk, r = catching(frame.unmarshal, data)
            except real.Hang as h:
                kk, r = 'hang', h
    except real.Hang as h:
        kk, r = 'hang', h
    peak = tracemalloc.get_traced_memory()[1]
    tracemalloc.stop()
    calls = BUDGET.calls
    if kk == 'hang':
        return ('returns or raises within %d calls' % call_bound(len(data)), 'still running after %d calls (%s)' % (calls, r))
    if peak > 400 * len(data) + 200000:
        return ('peak memory <= 400*len + 200000', peak)
    return None


@replayer
def c09_case(data):
    with real.deadline(10):
        kk, r = catching(frame.unmarshal, data)
    if kk == 'ok' or (kk == 'err' and isinstance(r, exceptions.UnmarshalingException)):
        return None
    return ('a frame or UnmarshalingException', '%s %r' % (kk, r))


def oracle_c08(ctx, which='c08'):
    res = Result(which + '.faults')
    frames = valid_frames(ctx, 600 if ctx.thorough else 120)
    ratios = []
    for data in fault_stream(ctx, frames, 40 if ctx.thorough else 8):
        res.case(data.hex()[:3000], trivial=len(data) == 0, tag='len<=64' if len(data) <= 64 else 'len>64',
                 sample={'bytes': data.hex()[:120]})
        if which == 'c08':
            bad = c08_case(data)
            ratios.append(BUDGET.calls / max(len(data), 1))
            if bad:
                res.violation('unbounded work or memory', {'fn': 'c08_case', 'args': pyrepr((data,))}, bad[0], bad[1])
                if len(res.violations) >= 3:
                    break
        else:
            bad = c09_case(data)
            if bad:
                res.violation('foreign exception leaves frame.unmarshal', {'fn': 'c09_case', 'args': pyrepr((data,))}, bad[0], bad[1])
    if ratios:
        res.notes.append('max calls/len = %.2f over %d inputs (bound 4*len+64)' % (max(ratios), len(ratios)))
    if which == 'c08':
        res.case('retained memory over a stream', tag='retained')
        k, bad = catching(c08_retained_case, ctx.gen.r.randrange(1 << 30), 900 if ctx.thorough else 300)
        if k == 'ok' and bad:
            res.violation('memory kept by the decoder grows with everything it has been sent', {'fn': 'c08_retained_case', 'args': pyrepr((0, 300))}, bad[0], bad[1])
    return res


@replayer
def c08_retained_case(seed, n):
    """three batches of `n` DISTINCT frames (foreign forms included: further flag words, any class id, unused bits) are
    decoded and the results dropped; what the process still holds afterwards must not keep growing with the bytes decoded
    (memory proportional to the input - not to everything ever received)"""
    import gc
    import random
    g = G.Gen(seed)
    r = random.Random(seed)

    def batch():
        out = []
        for i in range(n):
            if i % 5 == 4:
                # a foreign peer's millisecond timestamps, every one different: as the property and as a T field
                ms = 2 ** 32 + r.getrandbits(44)
                ms = min(ms, 253402300799999)
                tblT = b'\x01tT' + struct.pack('>Q', 2 ** 32 + r.getrandbits(40))
                payload = b'\x00\x3c\x00\x00' + struct.pack('>Q', i) + struct.pack('>H', 0x2040) + struct.pack('>I', len(tblT)) + tblT + struct.pack('>Q', ms)
                out.append(refenc.envelope(2, 1, payload))
            elif i % 2:
                words = struct.pack('>H', r.getrandbits(15) << 1 | 1 & 0x0001 | 0x0001) + struct.pack('>H', r.getrandbits(15) << 1 | 1) + struct.pack('>H', r.getrandbits(15) << 1)
                payload = b'\x00\x3c\x00\x00' + struct.pack('>Q', r.getrandbits(64)) + struct.pack('>H', 0x0001) + words
                out.append(refenc.envelope(2, r.randrange(65536), payload))
            else:
                data, _ = grammar.header_frame(g) if i % 4 else grammar.method_frame(g, r.choice(list(refenc.METHODS)))
                out.append(data)
        return out
    sizes = []
    held = []
    import warnings as _w
    saved_filters, saved_show = list(_w.filters), _w.showwarning
    _w.resetwarnings()                     # the interpreter's default warning behaviour, as in an application that set nothing
    _w.simplefilter('default')
    _w.showwarning = lambda *a, **k: None
    tracemalloc.start()
    try:
        for b_ in range(4):
            frames_ = batch()
            total = sum(len(x) for x in frames_)
            for d in frames_:
                try:
                    frame.unmarshal(d)
                except Exception:  # noqa
                    pass
            del frames_
            gc.collect()
            held.append(tracemalloc.get_traced_memory()[0])
            sizes.append(total)
    finally:
        tracemalloc.stop()
        _w.filters[:] = saved_filters
        _w.showwarning = saved_show
    growth = [held[i + 1] - held[i] for i in range(1, 3)]
    if all(gr > 0.25 * sizes[i + 1] and gr > 20000 for i, gr in enumerate(growth, 1)):
        return ('retained memory levels off (a bounded cache is fine)', 'after batches of about %d bytes: %r bytes still held' % (sizes[1], held))
    return None


def oracle_c09(ctx):
    res = oracle_c08(ctx, 'c09')
    # targeted faults of the property text: bad UTF-8 in short strings / table keys, unknown tags,
    # out-of-range timestamps, payloads shorter than their fixed fields, unknown types / method ids
    cases = [b'\x01\x00\x01\x00\x00\x00\x02\x00\x0a\xce',
             b'\x01\x00\x01\x00\x00\x00\x04\x00\x0a\x00\x0a\xce',
             b'\x01\x00\x01\x00\x00\x00\x04\xff\xff\xff\xff\xce',
             b'\x05\x00\x01\x00\x00\x00\x01\x00\xce',
             b'\x02\x00\x01\x00\x00\x00\x03\x00\x3c\x00\xce']

    def start_ok(tbl):
        payload = struct.pack('>I', 0x000A000B) + struct.pack('>I', len(tbl)) + tbl + b'\x05PLAIN\x00\x00\x00\x00\x05en_US'
        return b'\x01\x00\x01' + struct.pack('>I', len(payload)) + payload + b'\xce'
    cases += [start_ok(b'\x01\xffV'), start_ok(b'\x01kZ'), start_ok(b'\x01kT' + b'\xff' * 8), start_ok(b'\x01kS\x00\x00\x00\x02\xff\xfe'),
              start_ok(b'\x01kT' + struct.pack('>Q', 253402300800000)), start_ok(b'\x01kD\x00'), start_ok(b'\x02k')]
    hdr = b'\x00\x3c\x00\x00' + b'\x00' * 8
    for flags, tail in [(0x8000, b'\x02\xff\xfe'), (0x0040, b'\xff' * 8), (0x2000, b'\x00\x00\x00\x03\x01kZ'), (0x8000, b''), (0x1000, b'')]:
        p = hdr + struct.pack('>H', flags) + tail
        cases.append(b'\x02\x00\x01' + struct.pack('>I', len(p)) + p + b'\xce')
    for depth in (10, 40, 64):
        inner = b''
        for _ in range(depth):
            inner = b'\x01kF' + struct.pack('>I', len(inner)) + inner
        cases.append(start_ok(inner))
    for data in cases:
        res.case(data.hex()[:3000], tag='targeted')
        bad = c09_case(data)
        if bad:
            res.violation('foreign exception leaves frame.unmarshal', {'fn': 'c09_case', 'args': pyrepr((data,))}, bad[0], bad[1])
    return res


# =============================================================== C10 no silent corruption

def documented_exception(v):
    """single floats and whole seconds are normalisations (handled by norm_eq); this is the list of
    inputs the property exempts outright: timestamps after 2106-02-07, keys longer than 128 chars"""
    if isinstance(v, datetime.datetime):
        aware = v if (v.tzinfo is not None and v.tzinfo.utcoffset(v) is not None) else v.replace(tzinfo=UTC)
        return aware - EPOCH >= datetime.timedelta(seconds=2 ** 32)
    if isinstance(v, time.struct_time):
        import calendar
        return calendar.timegm(v) >= 2 ** 32
    if isinstance(v, dict):
        return any((isinstance(k, str) and len(k) > 128) or documented_exception(x) for k, x in v.items())
    if isinstance(v, list):
        return any(documented_exception(x) for x in v)
    return False


def norm_eq(v, got):
    """Python `==` after the documented normalisation"""
    try:
        if isinstance(v, float):
            return isinstance(got, float) and ((v != v and got != got) or struct.unpack('>f', struct.pack('>f', v))[0] == got)
        if isinstance(v, (datetime.datetime, time.struct_time)):
            n = norm(v)
            # int() truncation toward zero: the instant differs by less than one second
            aware = v if isinstance(v, time.struct_time) or (v.tzinfo is not None and v.tzinfo.utcoffset(v) is not None) else v.replace(tzinfo=UTC)
            if isinstance(v, time.struct_time):
                return got == n
            return isinstance(got, datetime.datetime) and abs(got - aware) < datetime.timedelta(seconds=1)
        if isinstance(v, list):
            return isinstance(got, list) and len(v) == len(got) and all(norm_eq(a, b) for a, b in zip(v, got))
        if isinstance(v, dict):
            return isinstance(got, dict) and set(v) == set(got) and all(norm_eq(v[k], got[k]) for k in v)
        if isinstance(v, bool) or isinstance(got, bool):
            return v == got           # True == 1 under Python equality
        return v == got
    except Exception:  # noqa
        return False


@replayer
def c10_value_case(v, legacy):
    with real.legacy(legacy):
        k, b = catching(encode.encode_table_value, v)
    if k != 'ok' or documented_exception(v):
        return None
    with real.deadline(5):
        k2, r = catching(decode.embedded_value, b)
    if k2 != 'ok' or r[0] != len(b) or not norm_eq(v, r[1]):
        return ('raises, or decodes back to %r' % (v,), r if k2 == 'ok' else '%s %r' % (k2, r))
    return None


@replayer
def c10_method_case(key, vals):
    cls = commands.INDEX_MAPPING[key]
    k, b = catching(frame.marshal, real.make_method(cls, vals), 1)
    if k != 'ok':
        return None
    with real.deadline(5):
        k2, r = catching(frame.unmarshal, b)
    if k2 != 'ok':
        return ('decodable', '%s %r' % (k2, r))
    for a, v in zip(cls.__slots__, vals):
        got = getattr(r[2], a)
        if documented_exception(v):
            continue
        ty = cls.amqp_type(a)
        exp = ({} if v is None else v) if ty == 'table' else v
        if not norm_eq(exp, got):
            return ('%s=%r' % (a, v), '%s=%r' % (a, got))
    return None


@replayer
def c10_ctor_case(key, vals):
    """the same through the class's own constructor: Cls(*vals) raises, marshal raises, or the peer reads what was GIVEN
    (a falsy value given for an `x or default` argument is the constructor's documented normalisation and is not compared)"""
    cls = commands.INDEX_MAPPING[key]
    k0, obj = catching(lambda: cls(*vals))
    if k0 != 'ok':
        return None
    k, b = catching(frame.marshal, obj, 1)
    if k != 'ok':
        return None
    with real.deadline(5):
        k2, r = catching(frame.unmarshal, b)
    if k2 != 'ok':
        return ('decodable', '%s %r' % (k2, r))
    for a, v in zip(cls.__slots__, vals):
        got = getattr(r[2], a)
        if documented_exception(v):
            continue
        try:
            falsy = not v
        except Exception:  # noqa
            falsy = False
        if falsy:
            continue
        if not norm_eq(v, got):
            return ('%s=%r' % (a, v), '%s=%r' % (a, got))
    return None


@replayer
def c10_props_case(vals):
    k, b = catching(frame.marshal, real.make_header(10, vals), 1)
    if k != 'ok':
        return None
    with real.deadline(5):
        k2, r = catching(frame.unmarshal, b)
    if k2 != 'ok':
        return ('decodable', '%s %r' % (k2, r))
    P = commands.Basic.Properties
    for a, v in zip(P.__slots__, vals):
        got = getattr(r[2].properties, a)
        if documented_exception(v):
            continue
        if v is None or v == '':
            ok = got is None or got == ''
        else:
            ok = norm_eq(v, got)
        if not ok:
            return ('%s=%r' % (a, v), '%s=%r' % (a, got))
    return None


@replayer
def c10_frame_case(kind, payload, ch):
    """any frame object: encoding raises, or the bytes decode back to it"""
    if kind == 'proto':
        f = header.ProtocolHeader(*payload)
    elif kind == 'body':
        f = body.ContentBody(payload)
    elif kind == 'bodymv':
        # a bytes-like body as zero-copy code passes it: a memoryview, possibly a slice of a larger buffer
        data, start, stop, mutable = payload
        mv = memoryview(bytearray(data) if mutable else data)[start:stop]
        f = body.ContentBody(mv)
        payload = bytes(data[start:stop])
        kind = 'body'
        kl, n_ = catching(len, f)
        if kl == 'ok' and n_ != len(payload):
            return ('len(body) == %d' % len(payload), n_)
    elif kind == 'bodyarr':
        # a buffer whose items are wider than one octet (an array, a memoryview of one): its octets are the content
        import array as _array
        typecode, items, as_view = payload
        arr_ = _array.array(typecode, items)
        if as_view == 'matrix':
            raw_ = arr_.tobytes()
            rows_ = 2 if len(raw_) % 2 == 0 and len(raw_) >= 2 else 1
            f = body.ContentBody(memoryview(raw_).cast('B', shape=[rows_, len(raw_) // rows_]) if raw_ else memoryview(raw_))
        elif as_view == 'ctypes':
            import ctypes as _ct
            ct_ = {'H': _ct.c_uint16, 'I': _ct.c_uint32, 'Q': _ct.c_uint64, 'B': _ct.c_uint8, 'b': _ct.c_int8, 'd': _ct.c_double}[typecode]
            f = body.ContentBody((ct_ * len(items))(*items))
        else:
            f = body.ContentBody(memoryview(arr_) if as_view else arr_)
        payload = arr_.tobytes()
        kind = 'body'
        kl, n_ = catching(len, f)
        if kl == 'ok' and n_ != len(payload):
            return ('len(body) == %d octets' % len(payload), n_)
    else:
        f = heartbeat.Heartbeat()
    k, b = catching(frame.marshal, f, ch)
    if k != 'ok':
        return None
    k2, r = catching(frame.unmarshal, b)
    if k2 != 'ok':
        return ('decodable', '%s %r' % (k2, r))
    f2 = r[2]
    if kind == 'proto':
        ok = isinstance(f2, header.ProtocolHeader) and (f2.major_version, f2.minor_version, f2.revision) == tuple(payload)
    elif kind == 'body':
        ok = isinstance(f2, body.ContentBody) and f2.value == payload and r[1] == ch
    else:
        ok = isinstance(f2, heartbeat.Heartbeat)
    return None if ok and r[0] == len(b) else ('the same %s frame' % kind, lanes.frame_sx(f2)[:200])


@replayer
def c10_header_size_case(n):
    """a content header announcing a body of n bytes: refused, or decoded with exactly that size (and written as the 8
    big-endian bytes of n)"""
    k, b = catching(frame.marshal, header.ContentHeader(0, n, commands.Basic.Properties(content_type='a')), 1)
    if k != 'ok':
        return None
    if isinstance(n, int) and not isinstance(n, bool) and 0 <= n < 2 ** 64 and b[11:19] != n.to_bytes(8, 'big'):
        return ('body size bytes %s' % n.to_bytes(8, 'big').hex(), b[11:19].hex())
    k2, r = catching(frame.unmarshal, b)
    if k2 != 'ok' or r[2].body_size != n or type(r[2].body_size) is not int and not isinstance(n, bool):
        return ('refused, or body_size %r back' % (n,), repr(r[2].body_size) if k2 == 'ok' else repr(r))
    return None


C10_PRIMS = {'boolean': 'boolean', 'byte_array': 'byte_array', 'decimal': 'decimal', 'double': 'double', 'floating_point': 'floating_point',
             'long_int': 'long_int', 'long_uint': 'long_uint', 'long_long_int': 'long_long_int', 'long_string': 'long_str', 'octet': 'octet',
             'short_int': 'short_int', 'short_uint': 'short_uint', 'short_short_int': 'short_short_int', 'short_short_uint': 'short_short_uint',
             'short_string': 'short_str', 'timestamp': 'timestamp', 'field_array': 'field_array', 'field_table': 'field_table'}


@replayer
def c10_prim_case(name, v):
    if not hasattr(encode, name) or not hasattr(decode, C10_PRIMS[name]):
        return None
    k, b = catching(getattr(encode, name), v)
    if k != 'ok' or documented_exception(v):
        return None
    k2, r = catching(getattr(decode, C10_PRIMS[name]), b)
    if k2 != 'ok' or r[0] != len(b):
        return ('encode.%s(%r) = %s decodes, consuming everything' % (name, v, b.hex()[:60]), '%s %r' % (k2, r))
    if name == 'double' and isinstance(v, float):
        ok = (v != v and r[1] != r[1]) or v == r[1]
    elif name == 'field_table' and v is None:
        ok = r[1] == {}
    else:
        ok = norm_eq(v, r[1])
    return None if ok else ('encode.%s raises, or its bytes decode back to %r' % (name, v), repr(r[1]))


def oracle_c10(ctx):
    res = Result('c10.no_silent_corruption')
    g = ctx.gen
    triples = set()
    for x in range(256):
        triples |= {(x, 9, 1), (0, x, 1), (0, 9, x), (0, x, 0), (x, 0, 0), (1, 1, x), (x, x, x)}
    triples |= {(g.r.randrange(256), g.r.randrange(256), g.r.randrange(256)) for _ in range(500)}
    triples |= {(256, 0, 0), (0, -1, 0), (0, 0, 300)}
    for t_ in sorted(triples):
        res.case('proto %r' % (t_,), tag='protocol header')
        k, bad = catching(c10_frame_case, 'proto', t_, 0)
        if k != 'ok' or bad:
            res.violation('protocol header %r' % (t_,), {'fn': 'c10_frame_case', 'args': pyrepr(('proto', t_, 0))},
                          bad[0] if k == 'ok' else 'oracle runs', bad[1] if k == 'ok' else repr(bad))
    for content in [b'', b'\xce', b'AMQP', bytes(range(256)), b'x' * 4096, bytearray(b'ab')]:
        for ch_ in (0, 1, 65535, 65536, -1):
            res.case('body %r %d' % (bytes(content[:8]), ch_), tag='body')
            k, bad = catching(c10_frame_case, 'body', content, ch_)
            if k != 'ok' or bad:
                res.violation('body frame', {'fn': 'c10_frame_case', 'args': pyrepr(('body', content, ch_))},
                              bad[0] if k == 'ok' else 'oracle runs', bad[1] if k == 'ok' else repr(bad))
    for notbytes in [5, 0, 1, True, False, 131072, [1, 2, 3], (1, 2), range(3), {1: 2}, 'abc', '', None, 1.5, [b'a'], frozenset([1]), D(3), object]:
        res.case('body of type %s' % type(notbytes).__name__, tag='body that is not byte content')
        k, bad = catching(c10_frame_case, 'body', notbytes, 1)
        if k != 'ok' or bad:
            res.violation('ContentBody(%r) is sent as something else' % (notbytes,), {'fn': 'c10_frame_case', 'args': pyrepr(('body', notbytes, 1)) if not isinstance(notbytes, type) else "('body', object, 1)"},
                          bad[0] if k == 'ok' else 'oracle runs', bad[1] if k == 'ok' else repr(bad))
    for data in [b'', b'a', b'abcdef', b'\xce' * 9, bytes(range(256)) * 20]:
        for start, stop in [(0, None), (0, 0), (1, None), (0, -1), (2, 4), (1, 2), (len(data), None)]:
            for mutable in (False, True):
                res.case('bodymv %d %r %r %s' % (len(data), start, stop, mutable), tag='memoryview body')
                k, bad = catching(c10_frame_case, 'bodymv', (data, start, stop, mutable), 1)
                if k != 'ok' or bad:
                    res.violation('memoryview body frame', {'fn': 'c10_frame_case', 'args': pyrepr(('bodymv', (data, start, stop, mutable), 1))},
                                  bad[0] if k == 'ok' else 'oracle runs', bad[1] if k == 'ok' else repr(bad))
    sizes = set()
    for kb in range(0, 66):
        sizes |= {2 ** kb - 1, 2 ** kb, 2 ** kb + 1, -(2 ** kb), (2 ** kb) | 0xFFFFFFFF, ((2 ** kb) | 0xFFFFFFFF) - 1, 2 ** kb + 2 ** 32 - 1}
    sizes |= {0x0020000FFFFFFFFF, 0x1234567FFFFFFFFF, 2 ** 53 + 1, 2 ** 64 - 2 ** 11, 2 ** 63 + 2 ** 10 - 1}
    for n in sorted(sizes) + [1.0, 1.5, True, None, '1', D(1), b'1', float(2 ** 53)]:
        res.case('body_size %r' % (n,), tag='header body size')
        k, bad = catching(c10_header_size_case, n)
        if k != 'ok' or bad:
            res.violation('content header body size %r' % (n,), {'fn': 'c10_header_size_case', 'args': pyrepr((n,))},
                          bad[0] if k == 'ok' else 'oracle runs', bad[1] if k == 'ok' else repr(bad))
    for typecode, items in [('H', [1, 2, 3]), ('H', []), ('I', [0xCE, 2 ** 32 - 1]), ('d', [1.5]), ('b', [-1, 1]), ('Q', list(range(40))), ('B', [1, 2, 3])]:
        for as_view in (True, False, 'matrix', 'ctypes'):
            res.case('bodyarr %s %d %s' % (typecode, len(items), as_view), tag='array body')
            k, bad = catching(c10_frame_case, 'bodyarr', (typecode, items, as_view), 1)
            if k != 'ok' or bad:
                res.violation('body given as a buffer of %s items' % typecode, {'fn': 'c10_frame_case', 'args': pyrepr(('bodyarr', (typecode, items, as_view), 1))},
                              bad[0] if k == 'ok' else 'oracle runs', bad[1] if k == 'ok' else repr(bad))
    # the primitive encoders called directly with a value of ANY type: refused, or decodes back to it
    g.exotic = True
    pvals = [2 ** 53, 2 ** 53 + 1, -2 ** 53 - 1, 2 ** 63 - 1, 10 ** 22 + 1, 2 ** 24 + 1, 16777217.0, 1, 0, -1, 255, 256, True, False, 1.0, 0.5, '1', b'1',
             D(1), D('1.5'), None, [], {}, 'x' * 255, 'x' * 256, '\u20ac' * 86]
    for name in C10_PRIMS:
        for v in pvals + [g.scalar_any() for _ in range(120 if ctx.thorough else 30)]:
            res.case('prim %s %s' % (name, pyrepr(v)), tag='primitive ' + name)
            k, bad = catching(c10_prim_case, name, v)
            if k != 'ok' or bad:
                res.violation('encode.%s accepts a value it does not preserve' % name, {'fn': 'c10_prim_case', 'args': pyrepr((name, v))},
                              bad[0] if k == 'ok' else 'oracle runs', bad[1] if k == 'ok' else repr(bad))
    n = 25000 if ctx.thorough else 4000
    specials = [D('-1.5'), D('1E-7'), D('1.5E-7'), -1, -128, 0, '', [], {}, D('0E-3'), D('-0.0'), D('1E+2'), D('12345678901'),
                D('-2147483648'), D('2147483648'), D('1E-256'), 2 ** 63, -2 ** 63 - 1, 1e39, float('nan'), {'a': 0}, [0, ''],
                {b'x-match': 'all'}, [{b'k': 1}], {'a': {b'b': b'c'}}, {b'': 1}, {b'\xe2\x82\xac': 2}, {5: 1}, {None: 1}, {('a',): 1}, {1.5: 'x'}, {True: 1}]
    for i in range(n):
        v = specials[i] if i < len(specials) else (g.value_any(depth=g.r.choice([0, 0, 1, 2])) if i % 3 else g.scalar_any())
        legacy = i % 4 == 0
        res.case(pyrepr(v) + str(legacy), tag=type(v).__name__, sample={'value': pyrepr(v)[:160]})
        k, bad = catching(c10_value_case, v, legacy)
        if k != 'ok' or bad:
            res.violation('encoder output decodes to a different value', {'fn': 'c10_value_case', 'args': pyrepr((v, legacy))},
                          bad[0] if k == 'ok' else 'oracle runs', bad[1] if k == 'ok' else repr(bad))
    # field_table / field_array entry points with falsy non-tables
    for v in [0, '', [], b'', False, 0.0, D(0), (), bytearray()]:
        res.case('field_table ' + pyrepr(v), tag='falsy')
        k, b = catching(encode.field_table, v)
        if k == 'ok':
            res.violation('field_table(%r) encodes an empty table' % (v,), {'fn': 'none', 'args': '()'}, 'raises', b.hex())
    metas = ctx.generated['catalogue']['methods']
    for meta in metas:
        cls = commands.INDEX_MAPPING.get(meta['key'])
        if cls is None:
            continue
        for i, a in enumerate(meta['args']):
            cands = [g.scalar_any() for _ in range(10 if ctx.thorough else 4)]
            if a['ty'] == 'bit':
                cands += [2, 3, -1, 255, 1.0, 'x', None, 256]
            if a['ty'] in ('octet', 'short', 'long', 'longlong'):
                cands += [-1, 256, 65536, 2 ** 32, 2 ** 63, -2 ** 63 - 1, 1.0, True]
            if a['ty'] == 'table':
                cands += [0, '', [], False]
            if a['ty'] in ('shortstr', 'longstr'):
                cands += ['x' * 255, 'x' * 256, 'y' * 300, '\u20ac' * 85, '\u20ac' * 86, 'z' * 1000, b'raw', 5]
            for v in cands:
                vals = lanes.method_vals_ok(ctx, cls, meta)
                vals[i] = v
                res.case(pyrepr((meta['key'], i, v)), tag='arg.' + a['ty'])
                k, bad = catching(c10_method_case, meta['key'], vals)
                if k != 'ok' or bad:
                    res.violation('%s.%s' % (meta['name'], a['name']), {'fn': 'c10_method_case', 'args': pyrepr((meta['key'], vals))},
                                  bad[0] if k == 'ok' else 'oracle runs', bad[1] if k == 'ok' else repr(bad))
                res.case('ctor ' + pyrepr((meta['key'], i, v)), tag='constructed arg.' + a['ty'])
                k, bad = catching(c10_ctor_case, meta['key'], vals)
                if k != 'ok' or bad:
                    res.violation('%s(%s=...) sends something else than it was given' % (meta['name'], a['name']), {'fn': 'c10_ctor_case', 'args': pyrepr((meta['key'], vals))},
                                  bad[0] if k == 'ok' else 'oracle runs', bad[1] if k == 'ok' else repr(bad))
    g.exotic = False
    nprops = len(commands.Basic.Properties.__slots__)
    for i in range(nprops):
        for v in [g.scalar_any() for _ in range(25 if ctx.thorough else 8)] + [0, -1, 256, '', [], {}, False, 1.5]:
            vals = lanes.props_vals(ctx, g.r.getrandbits(nprops - 1))
            vals[i] = v
            res.case(pyrepr((i, v)), tag='property')
            k, bad = catching(c10_props_case, vals)
            if k != 'ok' or bad:
                res.violation('property %d' % i, {'fn': 'c10_props_case', 'args': pyrepr((vals,))},
                              bad[0] if k == 'ok' else 'oracle runs', bad[1] if k == 'ok' else repr(bad))
    return res


# =============================================================== C11 ladder

LADDER = [(b'b', -2 ** 7, 2 ** 7 - 1, 1, True), (b's', -2 ** 15, 2 ** 15 - 1, 2, True), (b'u', 0, 2 ** 16 - 1, 2, False),
          (b'I', -2 ** 31, 2 ** 31 - 1, 4, True), (b'i', 0, 2 ** 32 - 1, 4, False), (b'l', -2 ** 63, 2 ** 63 - 1, 8, True)]


def first_fit(n, legacy):
    for tag, lo, hi, w, s in LADDER:
        if legacy and tag in (b'u', b'i'):
            continue
        if lo <= n <= hi:
            return tag + n.to_bytes(w, 'big', signed=s)
    return None


@replayer
def c11_case(n, legacy, how):
    exp = first_fit(n, legacy)
    old = encode.DEPRECATED_RABBITMQ_SUPPORT
    try:
        if how == 'default-arg' and legacy:
            encode.support_deprecated_rabbitmq()
        else:
            encode.support_deprecated_rabbitmq(legacy)
        outs = {'top': catching(encode.table_integer, n), 'value': catching(encode.encode_table_value, n),
                'array': catching(encode.field_array, [n]), 'table': catching(encode.field_table, {'k': [{'n': n}]}),
                'longkeys': catching(encode.field_table, {'z' * 130: 1, 'z' * 131: n, 'y' * 128: n, 'y' * 129: 5})}
    finally:
        encode.DEPRECATED_RABBITMQ_SUPPORT = old
    for where, (k, b) in outs.items():
        if exp is None:
            if not (k == 'err' and isinstance(b, TypeError)):
                return ('%s: TypeError' % where, '%s %r' % (k, b))
        else:
            if where == 'longkeys':
                want_lk = refenc.table({'z' * 130: 1, 'z' * 131: n, 'y' * 128: n, 'y' * 129: 5}, legacy)
                if k != 'ok' or b != want_lk:
                    return ('longkeys: %s' % want_lk.hex()[:80], b.hex()[:80] if k == 'ok' else '%s %r' % (k, b))
                continue
            want = {'top': exp, 'value': exp, 'array': struct.pack('>I', len(exp)) + exp,
                    'table': struct.pack('>I', 14 + len(exp)) + b'\x01kA' + struct.pack('>I', 7 + len(exp)) + b'F' + struct.pack('>I', 2 + len(exp)) + b'\x01n' + exp}[where]
            if k != 'ok' or b != want:
                return ('%s: %s' % (where, want.hex()), b.hex() if k == 'ok' else '%s %r' % (k, b))
    return None


@replayer
def c11_reencode_case(n, tag, legacy, how):
    """an integer that came out of pamqp's own decoder (a peer may have used any tag for it) and is sent on: the ladder again"""
    w, sg = {'b': (1, True), 'B': (1, False), 's': (2, True), 'u': (2, False), 'I': (4, True), 'i': (4, False), 'l': (8, True), 'L': (8, True)}[tag]
    enc = tag.encode() + n.to_bytes(w, 'big', signed=sg)
    exp = first_fit(n, legacy)
    if how == 'table':
        k0, d = catching(decode.field_table, struct.pack('>I', 2 + len(enc)) + b'\x01n' + enc)
        if k0 != 'ok':
            return None
        v = d[1]['n']
    elif how == 'array':
        k0, d = catching(decode.field_array, struct.pack('>I', len(enc)) + enc)
        if k0 != 'ok':
            return None
        v = d[1][0]
    else:
        tbl = struct.pack('>I', 2 + len(enc)) + b'\x01n' + enc
        payload = struct.pack('>HHQH', 60, 0, 0, 0x2000) + tbl
        k0, d = catching(frame.unmarshal, b'\x02\x00\x01' + struct.pack('>I', len(payload)) + payload + b'\xce')
        if k0 != 'ok':
            return None
        v = d[2].properties.headers['n']
    if v != n:
        return None         # what the decoder reads is C03/C05's business
    with real.legacy(legacy):
        outs = {'value': catching(encode.encode_table_value, v), 'top': catching(encode.table_integer, v),
                'table': catching(encode.field_table, {'n': v}), 'sum': catching(encode.table_integer, v + 0)}
    for where, (k, b) in outs.items():
        want = {'value': exp, 'top': exp, 'sum': exp, 'table': struct.pack('>I', 2 + len(exp)) + b'\x01n' + exp}[where]
        if k != 'ok' or b != want:
            return ('%s: %s' % (where, want.hex()), b.hex() if k == 'ok' else '%s %r' % (k, b))
    return None


@replayer
def c11_guard_case(fname, n):
    rng = {'short_int': (-2 ** 15, 2 ** 15 - 1), 'short_uint': (0, 2 ** 16 - 1), 'long_int': (-2 ** 31, 2 ** 31 - 1),
           'long_uint': (0, 2 ** 32 - 1), 'long_long_int': (-2 ** 63, 2 ** 63 - 1)}[fname]
    k, b = catching(getattr(encode, fname), n)
    if rng[0] <= n <= rng[1]:
        return None if k == 'ok' else ('accepted', '%s %r' % (k, b))
    return None if (k == 'err' and isinstance(b, TypeError)) else ('TypeError', '%s %r' % (k, b))


C11_CHILD = r"""
import sys, json, os
sys.path.insert(0, os.environ['VERIF_TOOLS'])
import real
from real import encode
BIG = 2 ** 70
out = []
for step in json.load(sys.stdin):
    op, arg = step
    try:
        if op == 'on':
            encode.support_deprecated_rabbitmq(True); r = 'ok'
        elif op == 'default':
            encode.support_deprecated_rabbitmq(); r = 'ok'
        elif op == 'off':
            encode.support_deprecated_rabbitmq(False); r = 'ok'
        elif op == 'refuse':
            v = {'table': {'a': 1, 'k': BIG}, 'array': [1, BIG], 'nested': {'a': [{'b': b'raw'}]}, 'key': {5: 1}, 'top': BIG,
                 'value': object(), 'deep': [[{'x': [BIG]}]]}[arg]
            f = {'table': encode.field_table, 'array': encode.field_array, 'nested': encode.field_table, 'key': encode.field_table,
                 'top': encode.table_integer, 'value': encode.encode_table_value, 'deep': encode.field_array}[arg]
            f(v); r = 'ok'
        elif op == 'probe':
            n = arg
            r = [encode.table_integer(n).hex(), encode.encode_table_value(n).hex(), encode.field_array([n]).hex(),
                 encode.field_table({'k': [{'n': n}]}).hex(), encode.encode_table_value([[n]]).hex()]
    except Exception as e:
        r = 'err ' + type(e).__name__
    out.append(r)
json.dump(out, sys.stdout)
"""


def c11_scenario_expect(steps):
    state = False
    exp = []
    for op, arg in steps:
        if op in ('on', 'default'):
            state = True
            exp.append('ok')
        elif op == 'off':
            state = False
            exp.append('ok')
        elif op == 'refuse':
            exp.append('err TypeError')
        else:
            e = first_fit(arg, state)
            exp.append([e.hex(), e.hex(), (struct.pack('>I', len(e)) + e).hex(),
                        (struct.pack('>I', 14 + len(e)) + b'\x01kA' + struct.pack('>I', 7 + len(e)) + b'F' + struct.pack('>I', 2 + len(e)) + b'\x01n' + e).hex(),
                        (b'A' + struct.pack('>I', 5 + len(e)) + b'A' + struct.pack('>I', len(e)) + e).hex()])
    return exp


def c11_spawn(steps):
    env = dict(os.environ, VERIF_TOOLS=os.path.dirname(os.path.abspath(__file__)), PAMQP_REPO=real.REPO, PYTHONDONTWRITEBYTECODE='1')
    p = subprocess.Popen([sys.executable, '-B', '-c', C11_CHILD], stdin=subprocess.PIPE, stdout=subprocess.PIPE, stderr=subprocess.PIPE, env=env)
    p.stdin.write(json.dumps(steps).encode())
    p.stdin.close()
    return p


def c11_collect(p, steps):
    o = p.stdout.read()
    e = p.stderr.read()
    p.wait()
    if p.returncode != 0:
        return ('scenario runs', 'child failed: ' + e.decode('utf-8', 'replace')[-300:])
    got = json.loads(o)
    exp = c11_scenario_expect(steps)
    for i, (g_, e_) in enumerate(zip(got, exp)):
        if g_ != e_:
            return ('step %d %r: %r' % (i, steps[i], e_), repr(g_))
    return None


@replayer
def c11_scenario_case(steps):
    """a toggle / refusal / encode sequence run in a FRESH interpreter (state that is set by the first event
    of a process would be masked inside a long-lived one): every probe must show the tags of the switch as last set"""
    steps = [list(s_) for s_ in steps]
    return c11_collect(c11_spawn(steps), steps)


@replayer
def c11_parked_thread_case(flag_at_entry):
    """another thread is in the middle of encoding a table (parked inside its items()) when this thread sets the switch:
    what THIS thread encodes follows the switch as it is now"""
    class Parked(dict):
        def __init__(self, *a, **kw):
            super().__init__(*a, **kw)
            self.entered = threading.Event()
            self.release = threading.Event()

        def _park(self):
            if not self.entered.is_set():       # once, at whichever way into the table the encoder takes first
                self.entered.set()
                self.release.wait(10)

        def items(self):
            self._park()
            return super().items()

        def keys(self):
            self._park()
            return super().keys()

        def __iter__(self):
            self._park()
            return super().__iter__()
    old = encode.DEPRECATED_RABBITMQ_SUPPORT
    bad = None
    try:
        encode.support_deprecated_rabbitmq(flag_at_entry)
        parked = Parked({'a': 40000, 'b': {'c': 3000000000}})
        out = {}
        th = threading.Thread(target=lambda: out.setdefault('r', catching(encode.field_table, parked)))
        th.start()
        if not parked.entered.wait(2):
            parked.release.set()        # the encoder reads the table some other way: nothing is parked, nothing to examine
            th.join(10)
            return None
        for now in (not flag_at_entry, flag_at_entry, not flag_at_entry):
            encode.support_deprecated_rabbitmq(now)
            for n in (40000, 3000000000, 200, -40000):
                e = first_fit(n, now)
                got = [catching(encode.table_integer, n), catching(encode.encode_table_value, n), catching(encode.field_array, [n]),
                       catching(encode.field_table, {'k': [{'n': n}]})]
                want = [e, e, struct.pack('>I', len(e)) + e,
                        struct.pack('>I', 14 + len(e)) + b'\x01kA' + struct.pack('>I', 7 + len(e)) + b'F' + struct.pack('>I', 2 + len(e)) + b'\x01n' + e]
                for (k, b), w in zip(got, want):
                    if k != 'ok' or b != w:
                        bad = bad or ('switch now %s (another thread entered a table while it was %s): %d as %s' % (now, flag_at_entry, n, w.hex()),
                                      b.hex() if k == 'ok' else repr(b))
        parked.release.set()
        th.join(10)
    finally:
        encode.DEPRECATED_RABBITMQ_SUPPORT = old
    return bad


def c11_scenarios(ctx, res):
    for flag_ in (False, True):
        res.case('parked thread %s' % flag_, tag='switch set while another thread encodes')
        k, bad = catching(c11_parked_thread_case, flag_)
        if k != 'ok' or bad:
            res.violation('the switch as set now is not what this thread\'s integers follow', {'fn': 'c11_parked_thread_case', 'args': pyrepr((flag_,))},
                          bad[0] if k == 'ok' else 'oracle runs', bad[1] if k == 'ok' else repr(bad))
    g = ctx.gen
    alphabet = [('on', None), ('default', None), ('off', None)] + [('refuse', k) for k in ('table', 'array', 'nested', 'key', 'top', 'value', 'deep')]
    probes = [40000, 3000000000, 200, -5, 65535, 32768, 2 ** 31, 2 ** 32 - 1]
    scen = []
    # systematic: switch state x refusal kind x switch back, then probes; plus random walks
    for first in ('on', 'default', 'off'):
        for kind in ('table', 'array', 'nested', 'key', 'top', 'value', 'deep'):
            for second in ('off', 'on'):
                scen.append([(first, None), ('refuse', kind), (second, None)] + [('probe', n) for n in probes[:4]])
    for _ in range(60 if ctx.thorough else 14):
        steps = []
        for _ in range(g.r.randrange(2, 9)):
            steps.append(g.r.choice(alphabet))
            if g.r.random() < 0.5:
                steps.append(('probe', g.r.choice(probes)))
        steps += [('probe', n) for n in g.r.sample(probes, 3)]
        scen.append(steps)
    if not ctx.thorough:
        scen = scen[::2] if len(scen) > 40 else scen
    pending = []
    for steps in scen:
        steps = [list(s_) for s_ in steps]
        pending.append((steps, c11_spawn(steps)))
        if len(pending) >= 12:
            st, p = pending.pop(0)
            c11_finish(res, st, p)
    for st, p in pending:
        c11_finish(res, st, p)


def c11_finish(res, steps, p):
    res.case('scenario %r' % (steps,), tag='fresh-process scenario', sample={'steps': [s_[0] for s_ in steps]})
    bad = c11_collect(p, steps)
    if bad:
        res.violation('toggle / refusal scenario in a fresh interpreter', {'fn': 'c11_scenario_case', 'args': pyrepr((steps,))}, bad[0], bad[1])


@replayer
def c11_pair_case(a, b, legacy):
    """two integers next to each other: each one takes ITS OWN first fitting type, whatever its neighbour is"""
    ea, eb = first_fit(a, legacy), first_fit(b, legacy)
    with real.legacy(legacy):
        outs = [('array', catching(encode.field_array, [a, b]), ea + eb),
                ('array3', catching(encode.field_array, [a, b, a]), ea + eb + ea),
                ('table', catching(encode.field_table, {'a': a, 'b': b}), b'\x01a' + ea + b'\x01b' + eb),
                ('nested', catching(encode.field_array, [[a, b], b]), b'A' + struct.pack('>I', len(ea + eb)) + ea + eb + eb)]
    for where, (k, got), want in outs:
        want = struct.pack('>I', len(want)) + want
        if k != 'ok' or got != want:
            return ('%s of %d, %d: %s' % (where, a, b, want.hex()), got.hex() if k == 'ok' else '%s %r' % (k, got))
    return None


PAIR_INTS = [-2 ** 63, -2 ** 31 - 1, -2 ** 31, -65536, -65535, -40000, -32769, -32768, -200, -129, -128, -1, 0, 1, 127, 128, 200, 255, 256,
             32767, 32768, 40000, 65535, 65536, 2 ** 31 - 1, 2 ** 31, 3000000000, 2 ** 32 - 1, 2 ** 32, 2 ** 63 - 1]


def oracle_c11(ctx):
    from ocommon import VInt, VIntEnum, VIntFlag, VIntMix
    res = Result('c11.ladder')
    g = ctx.gen
    c11_scenarios(ctx, res)
    for a in PAIR_INTS:
        for b in PAIR_INTS:
            for legacy in (False, True):
                res.case('pair %d %d %s' % (a, b, legacy), tag='adjacent integers')
                bad = c11_pair_case(a, b, legacy)
                if bad:
                    res.violation('adjacent integers %d, %d legacy=%s' % (a, b, legacy), {'fn': 'c11_pair_case', 'args': pyrepr((a, b, legacy))}, bad[0], bad[1])
                    break
    # an IntEnum / IntFlag member or any other int subclass IS an integer: same ladder
    for n in list(VIntEnum) + list(VIntFlag) + list(VIntMix) + [VInt(x) for x in PAIR_INTS + [2 ** 63, -2 ** 63 - 1]]:
        for legacy in (False, True):
            res.case('subclass %s %s' % (pyrepr(n), legacy), tag='int subclass')
            bad = c11_case(n, legacy, 'explicit')
            if bad:
                res.violation('table integer %s legacy=%s' % (pyrepr(n), legacy), {'fn': 'c11_case', 'args': pyrepr((n, legacy, 'explicit'))}, bad[0], bad[1])
    vals = list(g.int_bounds) + (list(range(-70000, 70001)) if ctx.thorough else list(range(-700, 701)) + list(range(32000, 33000, 7)) + list(range(65000, 66000, 7)))
    vals += [g.integer() for _ in range(4000 if ctx.thorough else 600)]
    # "all integers": far beyond 64 bits too, past the length at which the interpreter refuses decimal conversion
    vals += [2 ** 64, -2 ** 64, 2 ** 200, 10 ** 4299, 10 ** 4300, -10 ** 4300, 10 ** 5000, -2 ** 20000]
    for i, n in enumerate(vals):
        for legacy in (False, True):
            res.case('%s %s' % (pyrepr(n), legacy), trivial=False, tag='legacy' if legacy else 'full', sample={'n': pyrepr(n)[:40], 'legacy': legacy})
            bad = c11_case(n, legacy, 'default-arg' if i % 2 else 'explicit')
            if bad:
                res.violation('table integer %s legacy=%s' % (pyrepr(n)[:60], legacy), {'fn': 'c11_case', 'args': pyrepr((n, legacy, 'default-arg' if i % 2 else 'explicit'))}, bad[0], bad[1])
    for tag_, lo_, hi_ in [('b', -128, 127), ('B', 0, 255), ('s', -2 ** 15, 2 ** 15 - 1), ('u', 0, 2 ** 16 - 1), ('I', -2 ** 31, 2 ** 31 - 1), ('i', 0, 2 ** 32 - 1),
                           ('l', -2 ** 63, 2 ** 63 - 1), ('L', -2 ** 63, 2 ** 63 - 1)]:
        for n in sorted({x for x in [lo_, hi_, 0, 1, 5, -1, -5, 127, 128, 255, 256, 40000, 65535, 65536, 3000000000, 2 ** 31 - 1, 2 ** 31, g.r.randrange(lo_, hi_ + 1)] if lo_ <= x <= hi_}):
            for legacy in (False, True):
                for how in ('table', 'array', 'header'):
                    res.case('reencode %s %d %s %s' % (tag_, n, legacy, how), tag='decoded integer sent on')
                    k_, bad = catching(c11_reencode_case, n, tag_, legacy, how)
                    if k_ != 'ok' or bad:
                        res.violation('integer %d decoded from tag %s and encoded again (%s, legacy=%s)' % (n, tag_, how, legacy),
                                      {'fn': 'c11_reencode_case', 'args': pyrepr((n, tag_, legacy, how))}, bad[0] if k_ == 'ok' else 'oracle runs', bad[1] if k_ == 'ok' else repr(bad))
    for fname in ['short_int', 'short_uint', 'long_int', 'long_uint', 'long_long_int']:
        for n in g.int_bounds:
            res.case('%s %d' % (fname, n), tag='guard')
            bad = c11_guard_case(fname, n)
            if bad:
                res.violation('%s(%d)' % (fname, n), {'fn': 'c11_guard_case', 'args': pyrepr((fname, n))}, bad[0], bad[1])
    # toggle sequences: the flag is the last argument given (argument-less = on); off restores the ladder
    old = encode.DEPRECATED_RABBITMQ_SUPPORT
    try:
        encode.DEPRECATED_RABBITMQ_SUPPORT = False
        state = False
        for i in range(400):
            op = g.r.choice(['d', True, False])
            if op == 'd':
                encode.support_deprecated_rabbitmq()
                state = True
            else:
                encode.support_deprecated_rabbitmq(op)
                state = op
            n = g.r.choice([40000, 3000000000, 200, -5])
            res.case('toggle %d %r %d' % (i, op, n), tag='toggle')
            k, b = catching(encode.table_integer, n)
            if k != 'ok' or b != first_fit(n, state):
                res.violation('toggle sequence', {'fn': 'c11_case', 'args': pyrepr((n, state, 'explicit'))}, first_fit(n, state).hex(), b)
    finally:
        encode.DEPRECATED_RABBITMQ_SUPPORT = old
    return res


# =============================================================== C12 determinism / order / no mutation

import copy  # noqa: E402


def snapshot(v):
    """deep structural snapshot incl. types and container identities"""
    if isinstance(v, dict):
        return ('dict', id(v), [(k, snapshot(x)) for k, x in v.items()])
    if isinstance(v, list):
        return ('list', id(v), [snapshot(x) for x in v])
    if isinstance(v, bytearray):
        return ('bytearray', id(v), bytes(v))
    return (type(v).__name__, repr(v))


def shuffled_deep(v, rnd):
    if isinstance(v, dict):
        items = [(k, shuffled_deep(x, rnd)) for k, x in v.items()]
        rnd.shuffle(items)
        return dict(items)
    if isinstance(v, list):
        return [shuffled_deep(x, rnd) for x in v]
    return copy.copy(v) if isinstance(v, bytearray) else v


def wire_keys_sorted(data):
    """walk an encoded field value with the reference decoder; check key order at every level"""
    def walk_field(r):
        tag = r.take(1)
        if tag == b'F':
            n = int.from_bytes(r.take(4), 'big')
            sub = refenc.Reader(r.take(n))
            prev = None
            while not sub.done():
                k = sub.take(sub.take(1)[0]).decode('utf-8')
                if prev is not None and not prev <= k:
                    return False
                prev = k
                if not walk_field(sub):
                    return False
            return True
        if tag == b'A':
            n = int.from_bytes(r.take(4), 'big')
            sub = refenc.Reader(r.take(n))
            while not sub.done():
                if not walk_field(sub):
                    return False
            return True
        r.p -= 1
        refenc.parse_field(r)
        return True
    return walk_field(refenc.Reader(data))


@replayer
def c12_case(v, seed):
    import random
    rnd = random.Random(seed)
    before = snapshot(v)
    k, b1 = catching(encode.encode_table_value, v)
    k2, b2 = catching(encode.encode_table_value, v)
    if snapshot(v) != before:
        return ('input unchanged by encoding', 'input was mutated')
    if k != k2 or (k == 'ok' and b1 != b2) or (k == 'err' and type(b1) is not type(b2)):
        return ('same result twice', (k, k2))
    for _ in range(4):
        w = shuffled_deep(v, rnd)
        k3, b3 = catching(encode.encode_table_value, w)
        if k3 != k or (k == 'ok' and b3 != b1):
            return (b1.hex()[:300] if k == 'ok' else k, b3.hex()[:300] if k3 == 'ok' else k3)
    if k == 'ok' and not documented_exception(v) and not wire_keys_sorted(b1):
        return ('keys ascending at every level', b1.hex()[:300])
    return None


@replayer
def c12_frame_case(key, vals, seed):
    cls = commands.INDEX_MAPPING[key]
    obj = real.make_method(cls, vals)
    before = [snapshot(getattr(obj, a)) for a in cls.__slots__]
    k1, b1 = catching(frame.marshal, obj, 3)
    k2, b2 = catching(frame.marshal, obj, 3)
    if [snapshot(getattr(obj, a)) for a in cls.__slots__] != before:
        return ('frame object unchanged by encoding', 'mutated')
    if k1 != k2 or (k1 == 'ok' and b1 != b2):
        return ('same bytes twice', (k1, k2))
    import random
    rnd = random.Random(seed)
    vals2 = [shuffled_deep(v, rnd) for v in vals]
    k3, b3 = catching(frame.marshal, real.make_method(cls, vals2), 3)
    if k3 != k1 or (k1 == 'ok' and b3 != b1):
        return (b1.hex()[:300] if k1 == 'ok' else k1, b3.hex()[:300] if k3 == 'ok' else k3)
    return None


def twins_of(v):
    """values equal (and hash-equal) to v but with a different wire form / type"""
    import math
    out = []
    try:
        if isinstance(v, D) and v.is_finite():
            e = v.as_tuple().exponent
            if -20 < e < 5:
                out.append(v.quantize(D(1).scaleb(e - 1)))
            if v == v.to_integral_value() and abs(v) < 2 ** 31:
                out.append(D(int(v)))
        elif isinstance(v, bool):
            out += [int(v), float(v), D(int(v))]
        elif isinstance(v, float) and math.isfinite(v):
            if v == 0:
                out.append(-v)
            if v == int(v) and abs(v) < 2 ** 31:
                out.append(int(v))
        elif isinstance(v, int):
            if abs(v) < 2 ** 53:
                out.append(float(v))
            if abs(v) < 2 ** 31:
                out.append(D(v))
            if v in (0, 1):
                out.append(bool(v))
    except Exception:  # noqa
        pass
    return out


def scalars_in(v):
    if isinstance(v, dict):
        for x in v.values():
            yield from scalars_in(x)
    elif isinstance(v, list):
        for x in v:
            yield from scalars_in(x)
    else:
        yield v


@replayer
def c12_history_case(v, seed):
    """encode v, then a history of other encodes (equal-but-different twins of its scalars, then
    thousands of distinct scalars), then v again: the bytes must be the same"""
    import random
    rnd = random.Random(seed)
    k1, b1 = catching(encode.encode_table_value, v)
    for x in scalars_in(v):
        try:
            for t in twins_of(x):
                catching(encode.encode_table_value, {'t': t})
        except Exception:  # noqa
            pass
    for i in range(2600):
        catching(encode.encode_table_value, rnd.choice([i * 7919 + 13, i / 7.0, D(i) / D(8), 's%d' % i]))
    # ... and other use of the library in between: a peer's handshake of any vintage is decoded, frames are built
    for ver in rnd.sample(lanes.VERSIONS, 10) + ['3.5.7', '2.6.1', '3.0.0', '1.7.2']:
        for prod in ('RabbitMQ', rnd.choice(lanes.PRODUCTS)):
            peer = {'product': prod, 'version': ver, 'platform': 'Erlang/OTP 26', 'capabilities': {'basic.nack': True}}
            for f in (commands.Connection.Start(0, 9, peer, 'PLAIN', 'en_US'), commands.Connection.StartOk(peer, 'PLAIN', '', 'en_US')):
                kf, data = catching(frame.marshal, f, 0)
                if kf == 'ok':
                    catching(frame.unmarshal, data)
                    k2, b2 = catching(encode.encode_table_value, v)
                    if k1 != k2 or (k1 == 'ok' and b1 != b2):
                        return ('%s (before a %s from %r %r was decoded)' % (b1.hex()[:300] if k1 == 'ok' else k1, f.name, prod, ver),
                                b2.hex()[:300] if k2 == 'ok' else k2)
    k2, b2 = catching(encode.encode_table_value, v)
    if k1 != k2 or (k1 == 'ok' and b1 != b2):
        return (b1.hex()[:300] if k1 == 'ok' else k1, b2.hex()[:300] if k2 == 'ok' else k2)
    # and the twins themselves encode like a fresh value of their own type: compare with the reference
    for x in scalars_in(v):
        for t in twins_of(x):
            kt, bt = catching(encode.encode_table_value, t)
            try:
                ref = refenc.field(t)
            except refenc.Unencodable:
                continue
            if kt == 'ok' and bt != ref:
                return ('%r encodes as %s' % (t, ref.hex()), bt.hex())
    return None


def attr_snapshot(f):
    """(name, type, id, deep snapshot) of every instance attribute of a frame object"""
    names = list(getattr(f, '__slots__', ())) or sorted(getattr(f, '__dict__', {}))
    out = []
    for n in names:
        v = getattr(f, n, None)
        out.append((n, type(v).__name__, id(v), snapshot(v) if not isinstance(v, (base.BasicProperties,)) else attr_snapshot(v)))
    return out


@replayer
def c12_anyframe_case(kind, payload):
    """marshal leaves the frame object exactly as it was: same attribute objects, types, contents"""
    if kind == 'body':
        f = body.ContentBody(payload)
    elif kind == 'header':
        f = real.make_header(5, payload)
    elif kind == 'proto':
        f = header.ProtocolHeader(*payload)
    else:
        f = heartbeat.Heartbeat()
    before = attr_snapshot(f)
    k1, b1 = catching(frame.marshal, f, 2)
    k2, b2 = catching(frame.marshal, f, 2)
    after = attr_snapshot(f)
    if before != after:
        diff = [(x[0], x[1], y[1]) for x, y in zip(before, after) if x != y]
        return ('attributes unchanged by encoding', 'changed: %r' % (diff,))
    if k1 != k2 or (k1 == 'ok' and b1 != b2):
        return ('same bytes twice', (k1, k2))
    return None


def unshare(v):
    """an equal value in which no container object occurs twice"""
    if isinstance(v, dict):
        return {k: unshare(x) for k, x in v.items()}
    if isinstance(v, list):
        return [unshare(x) for x in v]
    if isinstance(v, bytearray):
        return bytearray(v)
    return v


def reshare(v, pool):
    """an equal value in which equal sub-containers ARE one object (maximal sharing; self-contained for replays)"""
    if isinstance(v, dict):
        out = {k: reshare(x, pool) for k, x in v.items()}
    elif isinstance(v, list):
        out = [reshare(x, pool) for x in v]
    else:
        return v
    return pool.setdefault(pyrepr(out), out)


@replayer
def c12_big_case(nkeys, shape):
    import random
    rnd = random.Random(nkeys * 7 + shape)
    ks = ['key%03d' % j for j in range(nkeys)]
    rnd.shuffle(ks)
    big = {k_: j for j, k_ in enumerate(ks)}
    v = [big, {'inner': big}, [big, 1], {'a': [{'b': big}]}][shape]
    if shape == 3:
        big['zz-unsupported'] = object() if nkeys == 18 else 2
    return c12_case(v, nkeys)


@replayer
def c12_shared_case(v):
    """one sub-container referenced from several places; an equal value built from separate copies must give
    the same bytes (and the same outcome), in both orders of asking"""
    v = reshare(v, {})
    w = unshare(v)
    outs = []
    for x in (v, w, v):
        k, b = catching(encode.encode_table_value, x)
        outs.append((k, b if k == 'ok' else type(b).__name__))
    if outs[0] != outs[1] or outs[0] != outs[2]:
        return ('same outcome with and without sharing: %s' % (outs[1][1].hex()[:120] if outs[1][0] == 'ok' else outs[1],),
                outs[0][1].hex()[:120] if outs[0][0] == 'ok' else outs[0])
    if isinstance(v, dict):
        k, b = catching(frame.marshal, commands.Queue.Declare(queue='q', arguments=v), 1)
        k2, b2 = catching(frame.marshal, commands.Queue.Declare(queue='q', arguments=w), 1)
        if (k, b if k == 'ok' else type(b).__name__) != (k2, b2 if k2 == 'ok' else type(b2).__name__):
            return ('Queue.Declare: same outcome with and without sharing', '%s / %s' % (k, k2))
    return None


def c12_equal_pair_case(a, b):
    """two values with equal contents (built differently): whichever of them the encoder accepts must give the same bytes"""
    ka, ba = catching(encode.encode_table_value, a)
    kb, bb = catching(encode.encode_table_value, b)
    if ka == 'ok' and kb == 'ok' and ba != bb:
        return (ba.hex()[:200], bb.hex()[:200])
    if isinstance(a, dict) or hasattr(a, 'items'):
        ka, ba = catching(encode.field_table, a)
        kb, bb = catching(encode.field_table, b)
        if ka == 'ok' and kb == 'ok' and ba != bb:
            return ('field_table: ' + ba.hex()[:200], bb.hex()[:200])
    return None


@replayer
def c12_set_case(o1, o2, kind):
    kind = {'set': set, 'frozenset': frozenset}[kind]
    def build(order):
        s_ = set()
        for x in order:
            s_.add(x)
        return kind(s_) if kind is not set else s_
    for wrap in (lambda x: x, lambda x: {'k': x}, lambda x: [x], lambda x: {'a': {'b': x}}):
        bad = c12_equal_pair_case(wrap(build(o1)), wrap(build(o2)))
        if bad:
            return bad
    return None


@replayer
def c12_decoded_case(t, order, how):
    """encode `t` with its entries in the wire order `order` (a foreign peer need not sort), decode it, edit the decoded
    table in one of the ways a dict can be edited, encode: the bytes are those of an equal plain dict"""
    body = b''.join(refenc.short_str(k) + refenc.field(t[k], False) for k in order) if hasattr(refenc, 'short_str') else None
    if body is None:
        body = b''
        for k in order:
            kb = k.encode('utf-8')
            body += bytes([len(kb)]) + kb + encode.encode_table_value(t[k])
    wire = struct.pack('>I', len(body)) + body
    k0, r = catching(decode.field_table, wire)
    if k0 != 'ok':
        return None
    d = r[1]
    edits = how % 9
    new = {'0-first': 1, 'zz-last': 'x', 'm-middle': [1]}
    try:
        if edits == 0:
            pass
        elif edits == 1:
            d.update(new)
        elif edits == 2:
            for kk, vv in new.items():
                d.setdefault(kk, vv)
        elif edits == 3:
            d |= new
        elif edits == 4:
            for kk, vv in new.items():
                d[kk] = vv
        elif edits == 5:
            d.update(new)
            d.pop('0-first')
        elif edits == 6:
            d = {**d, **new}
        elif edits == 7:
            d.update(list(new.items()))
        else:
            d.update(**{'zfirst': 1, 'alast': 2})
    except Exception as e:  # noqa
        return ('a decoded table can be edited like a dict', repr(e))
    plain = unshare(dict(sorted(d.items(), reverse=True)))
    k1, b1 = catching(encode.field_table, d)
    k2, b2 = catching(encode.field_table, plain)
    if k1 != k2 or (k1 == 'ok' and b1 != b2):
        return (b2.hex()[:200] if k2 == 'ok' else k2, b1.hex()[:200] if k1 == 'ok' else k1)
    k3, b3 = catching(frame.marshal, header.ContentHeader(0, 1, commands.Basic.Properties(headers=d)), 1)
    k4, b4 = catching(frame.marshal, header.ContentHeader(0, 1, commands.Basic.Properties(headers=plain)), 1)
    if k3 != k4 or (k3 == 'ok' and b3 != b4):
        return ('headers: %s' % (b4.hex()[:200] if k4 == 'ok' else k4), b3.hex()[:200] if k3 == 'ok' else k3)
    return None


def oracle_c12(ctx):
    res = Result('c12.order')
    g = ctx.gen
    nprops = len(commands.Basic.Properties.__slots__)
    anyframes = [('body', b'abc'), ('body', bytearray(b'abc')), ('body', bytearray(b'')), ('body', memoryview(b'abc')), ('proto', (0, 9, 1)), ('hb', None)]
    anyframes += [('header', lanes.props_vals(ctx, g.r.getrandbits(nprops - 1))) for _ in range(40 if ctx.thorough else 10)]
    for kind, payload in anyframes:
        res.case('anyframe %s %s' % (kind, pyrepr(payload)[:200] if not isinstance(payload, memoryview) else 'memoryview'), tag='frame ' + kind)
        k, bad = catching(c12_anyframe_case, kind, payload)
        if k != 'ok' or bad:
            res.violation('encoding a %s frame changes the frame object' % kind,
                          {'fn': 'c12_anyframe_case', 'args': pyrepr((kind, payload)) if not isinstance(payload, memoryview) else "('body', memoryview(b'abc'))"},
                          bad[0] if k == 'ok' else 'oracle runs', bad[1] if k == 'ok' else repr(bad))
    for i in range(60 if ctx.thorough else 12):
        v = g.table_ok(depth=2, breadth=4)
        v.update({'d1': D('2.50'), 'f0': 0.0, 'b': True, 'i': 1, 'd2': D('7')})
        res.case('history ' + pyrepr(v), tag='history', sample={'value': pyrepr(v)[:160]})
        k, bad = catching(c12_history_case, v, i)
        if k != 'ok' or bad:
            res.violation('encoding depends on what was encoded before', {'fn': 'c12_history_case', 'args': pyrepr((v, i))},
                          bad[0] if k == 'ok' else 'oracle runs', bad[1] if k == 'ok' else repr(bad))
    for nkeys in (17, 18, 33, 40, 100, 257):
        for shape in range(4):
            ks = ['key%03d' % j for j in range(nkeys)]
            g.r.shuffle(ks)
            big = {k_: j for j, k_ in enumerate(ks)}
            v = [big, {'inner': big}, [big, 1], {'a': [{'b': big}]}][shape]
            if shape == 3:
                big['zz-unsupported'] = object() if nkeys == 18 else 2
            res.case('big table %d %d' % (nkeys, shape), tag='large tables built out of order')
            k, bad = catching(c12_case, v, nkeys)
            if k != 'ok' or bad:
                res.violation('order dependence / nondeterminism / mutation (a table of %d entries)' % nkeys, {'fn': 'c12_big_case', 'args': pyrepr((nkeys, shape))},
                              bad[0] if k == 'ok' else 'oracle runs', bad[1] if k == 'ok' else repr(bad))
    for i in range(8000 if ctx.thorough else 1500):
        v = g.table_ok(depth=g.r.choice([1, 2, 3]), breadth=g.r.choice([2, 3, 6])) if i % 5 else g.value_ok(3, 4)
        if i % 17 == 0:
            v = {'k' * 130: 1, 'k' * 129 + 'a': 2, 'b': {'z': 1, 'a': [{'y': 1, 'x': 2}]}}
        res.case(pyrepr(v), trivial=not isinstance(v, (dict, list)) or len(v) < 2, tag=type(v).__name__,
                 sample={'value': pyrepr(v)[:160]})
        k, bad = catching(c12_case, v, i)
        if k != 'ok' or bad:
            res.violation('order dependence / nondeterminism / mutation', {'fn': 'c12_case', 'args': pyrepr((v, i))},
                          bad[0] if k == 'ok' else 'oracle runs', bad[1] if k == 'ok' else repr(bad))
    # equal contents, different object graphs: one sub-container referenced several times / separate equal copies
    shapes = []
    sh = {'x': 1, 'b': [1, {'q': 2}]}
    sl = [3, {'z': 1, 'a': 2}]
    shapes += [{'a': sh, 'b': sh}, {'b': sh, 'a': sh, 'c': {'d': sh}}, [sh, sh], [sl, sl, [sl]], {'k': [sh, sh], 'l': sl, 'm': sl}, {'a': {}, 'b': {}}, [[], []]]
    for _ in range(200 if ctx.thorough else 40):
        shapes.append(g.shared_value_ok(g.r.choice([1, 2, 3]), 3))
    for v in shapes:
        res.case('shared ' + pyrepr(v), tag='shared sub-objects', trivial=False)
        k, bad = catching(c12_shared_case, v)
        if k != 'ok' or bad:
            res.violation('a value with a shared sub-object encodes differently from an equal value without sharing',
                          {'fn': 'c12_shared_case', 'args': pyrepr((v,))}, bad[0] if k == 'ok' else 'oracle runs', bad[1] if k == 'ok' else repr(bad))
    # unordered or otherwise unusual containers, if the encoder takes them at all: equal contents, same bytes
    def set_from(order, kind=set):
        s_ = set()
        for x in order:
            s_.add(x)
        return kind(s_) if kind is not set else s_
    pairs_ = [([0, 8], [8, 0]), ([0, 8, 16, 24], [24, 16, 8, 0]), (['a', 'b', 'c', 'd'], ['d', 'c', 'b', 'a']), ([1, 9, 17, 'x'], ['x', 17, 9, 1]),
              (list(range(0, 64, 8)), list(range(56, -8, -8))), ([-1, -2], [-2, -1])]
    for o1, o2 in pairs_:
        for kind in (set, frozenset):
            for wrap in (lambda x: x, lambda x: {'k': x}, lambda x: [x], lambda x: {'a': {'b': x}}):
                res.case('sets %r %s' % (o1, kind.__name__), tag='unordered containers')
                k, bad = catching(c12_equal_pair_case, wrap(set_from(o1, kind)), wrap(set_from(o2, kind)))
                if k != 'ok' or bad:
                    res.violation('equal %ss built in different orders encode differently' % kind.__name__,
                                  {'fn': 'c12_set_case', 'args': pyrepr((o1, o2, kind.__name__))}, bad[0] if k == 'ok' else 'oracle runs', bad[1] if k == 'ok' else repr(bad))
    import collections as _col
    for d1, d2 in [(_col.OrderedDict([('b', 1), ('a', 2)]), _col.OrderedDict([('a', 2), ('b', 1)])),
                   (_col.defaultdict(int, {'b': 1, 'a': 2}), {'a': 2, 'b': 1}), (_col.ChainMap({'b': 1}, {'a': 2}), {'a': 2, 'b': 1}),
                   (_col.Counter('bbaac'), {'a': 2, 'b': 2, 'c': 1}), ((1, 2, 3), [1, 2, 3]), (_col.deque([1, 2]), [1, 2]), (range(3), [0, 1, 2])]:
        res.case('mapping kinds %s' % type(d1).__name__, tag='unordered containers')
        k, bad = catching(c12_equal_pair_case, d1, d2)
        if k != 'ok' or bad:
            res.violation('a %s and an equal plain container encode differently' % type(d1).__name__, {'fn': 'none', 'args': '()'},
                          bad[0] if k == 'ok' else 'oracle runs', bad[1] if k == 'ok' else repr(bad))
    # tables that come out of the DECODER (sorted or unsorted on the wire), edited the ways a dict can be edited
    for i in range(600 if ctx.thorough else 120):
        t = g.table_ok(depth=g.r.choice([1, 2]), breadth=g.r.choice([2, 3, 5]))
        order = list(t)
        g.r.shuffle(order)
        res.case('decoded ' + pyrepr(t) + str(order), tag='decoded then edited', trivial=len(t) < 1)
        k, bad = catching(c12_decoded_case, t, order, i)
        if k != 'ok' or bad:
            res.violation('a decoded table, edited, encodes differently from an equal plain dict',
                          {'fn': 'c12_decoded_case', 'args': pyrepr((t, order, i))}, bad[0] if k == 'ok' else 'oracle runs', bad[1] if k == 'ok' else repr(bad))
    metas = [m for m in ctx.generated['catalogue']['methods'] if any(a['ty'] == 'table' for a in m['args'])]
    for i in range(1500 if ctx.thorough else 300):
        meta = g.r.choice(metas)
        cls = commands.INDEX_MAPPING[meta['key']]
        vals = lanes.method_vals_ok(ctx, cls, meta)
        res.case(pyrepr((meta['key'], vals)), tag='frame')
        k, bad = catching(c12_frame_case, meta['key'], vals, i)
        if k != 'ok' or bad:
            res.violation('frame encoding %s' % meta['name'], {'fn': 'c12_frame_case', 'args': pyrepr((meta['key'], vals, i))},
                          bad[0] if k == 'ok' else 'oracle runs', bad[1] if k == 'ok' else repr(bad))
    return res


# =============================================================== C13 validation

import spec_tables  # noqa: E402


def constraint_broken(c, v):
    """independent predicate: is this constraint of the protocol definition broken by v (typed or None)"""
    kind = c[0]
    if kind in ('eq', 'eq_bare'):
        if v is None:
            return kind == 'eq_bare'
        return v != c[2]
    if kind == 'false':
        return v is not None and v is not False
    if kind == 'maxlen':
        return v is not None and len(v) > c[2]
    if kind == 'chars':
        return v is not None and any(ch not in spec_tables.NAME_CHARS for ch in v)
    if kind == 'oneof':
        return v is not None and v not in c[2]
    raise ValueError(c)


def typed_values_for(c, g):
    kind = c[0]
    if kind in ('eq', 'eq_bare'):
        if isinstance(c[2], int):
            return [c[2], None, 1, 65535, c[2] + 1, g.r.randrange(65536)]
        c_ = c[2]
        lookalikes = [c_ * 2, ' ' + c_, c_ + ' ', '+' + c_, '-' + c_, c_ + '_' + c_, '\t' + c_ + '\n', c_ + '\n', c_ + '.0', c_ + 'e0', '0x' + c_, c_.upper(), c_.swapcase(),
                      c_.translate({48 + d_: 0x660 + d_ for d_ in range(10)}), c_.translate({48 + d_: 0xff10 + d_ for d_ in range(10)}), '\u200b' + c_, c_ + '\x00',
                      'None', 'null', 'False', 'false']
        return [c_, None, '', '0', '1', c_ + 'x', 'x', ' ', g.short_string()] + [x for x in lookalikes if x != c_]
    if kind == 'false':
        return [False, True, None]
    if kind == 'maxlen':
        n = c[2]
        out = ['', None, 'a' * (n - 1), 'a' * n, 'a' * (n + 1), 'a' * 255, 'é' * n, 'é' * (n + 1)]
        # strings some decoding / unescaping / normalising step would SHORTEN: the limit is on the characters as given
        for tok in ('%2F', '%41', '%%', '&amp;', '\\x41', '\\u0041', 'e\u0301', '\ufb01', '\u212b', '++', '  ', '\t', '=?utf-8?q?a?=', '\\\\', '//', './'):
            for total in (n, n + 1):
                for where in ('front', 'back', 'all'):
                    if where == 'all':
                        sx_ = (tok * (total // len(tok) + 1))[:total]
                    elif where == 'front':
                        sx_ = tok + 'v' * (total - len(tok))
                    else:
                        sx_ = 'v' * (total - len(tok)) + tok
                    if len(sx_) == total:
                        out.append(sx_)
        return out
    if kind == 'chars':
        positional = []
        for n in (2, 127, 128, 129, 200, 255, 256):
            for pos in (0, 1, n // 2, 126, 127, 128, n - 2, n - 1):
                if 0 <= pos < n:
                    positional.append('a' * pos + '|' + 'a' * (n - pos - 1))
        meaningful = []
        for nm in G.WELL_KNOWN_NAMES + [m for m in G.MINED_STRINGS if m and len(m) < 60 and all(ch in spec_tables.NAME_CHARS for ch in m)][:30]:
            for badc in ('+', '=', '!', '*', '\n', '%', 'é', '\x00', '$', '?'):
                meaningful += [nm + badc, nm + '.' + badc, nm + '.abc' + badc, nm + badc + 'abc', badc + nm]
        if len(meaningful) > 120:
            meaningful = g.r.sample(meaningful, 120) + ['amq.rabbitmq.reply-to.abc=', 'amq.rabbitmq.reply-to.a+b', 'amq.gen-a+b=']
        return positional + meaningful + ['', None, spec_tables.NAME_CHARS[:60], spec_tables.NAME_CHARS[60:], 'a\n', 'a!', 'é', '\x00', 'a' * 50 + '*'] + \
            [chr(g.codepoint()) for _ in range(12)] + ['ab' + chr(g.codepoint()) + 'c' for _ in range(6)]
    if kind == 'oneof':
        return list(c[2]) + [None, 0, 3, 255, 127]
    return [None]


@replayer
def c13_case(name, attr_vals, mode):
    """mode: ctor = construct with keyword arguments; setattr = construct valid then mutate, then marshal"""
    outer, inner = name.split('.')
    cls = getattr(getattr(commands, outer), inner)
    cons = spec_tables.PROPS_CONSTRAINTS if name == 'Basic.Properties' else spec_tables.CONSTRAINTS.get(name, [])
    full = {}
    if name != 'Basic.Properties':
        proto = cls.__new__(cls)
    broken = False
    if mode == 'ctor':
        k, r = catching(lambda: cls(**attr_vals))
        obj = r if k == 'ok' else None
        look = (lambda a: attr_vals[a] if a in attr_vals else getattr(cls(), a)) if False else None
        defaults = cls() if True else None
        for c in cons:
            v = attr_vals[c[1]] if c[1] in attr_vals else getattr(defaults, c[1])
            broken = broken or constraint_broken(c, v)
    else:
        obj = cls()
        if mode in ('decoded', 'copied', 'pickled') and name != 'Basic.Properties':
            # the object comes from the decoder (or is a copy of one that does): it is checked on send like any other
            k0, r0 = catching(lambda: frame.unmarshal(frame.marshal(cls(), 1))[2])
            if k0 != 'ok':
                return None
            obj = r0
            if mode == 'copied':
                obj = copy.copy(obj)
            elif mode == 'pickled':
                import pickle
                kp, rp = catching(lambda: pickle.loads(pickle.dumps(obj)))
                if kp != 'ok':
                    return None
                obj = rp
        elif mode == 'revalidated':
            catching(obj.validate)          # validation ran before (on valid values); it runs again on send
            if name != 'Basic.Properties':
                catching(frame.marshal, obj, 1)
        for a, v in attr_vals.items():
            setattr(obj, a, v)
        for c in cons:
            broken = broken or constraint_broken(c, getattr(obj, c[1]))
        if name == 'Basic.Properties':
            k, r = catching(obj.validate)
        else:
            k, r = catching(frame.marshal, obj, 1)
            if k == 'err' and not isinstance(r, ValueError) and not broken:
                k, r = catching(obj.validate)      # an unrelated encode error (e.g. string too long for the wire)
    raised = k == 'err' and isinstance(r, ValueError) and not isinstance(r, UnicodeError)
    if k == 'err' and not isinstance(r, ValueError):
        return ('ValueError or accepted', repr(r))
    if raised != broken:
        return ('ValueError' if broken else 'accepted', 'ValueError %s' % r if raised else 'accepted')
    return None


def oracle_c13(ctx):
    res = Result('c13.validation')
    g = ctx.gen
    names = list(spec_tables.CONSTRAINTS) + ['Basic.Properties']
    # interactions: one constrained attribute probed while each OTHER constrained attribute is None
    for name in names:
        cons = spec_tables.PROPS_CONSTRAINTS if name == 'Basic.Properties' else spec_tables.CONSTRAINTS[name]
        attrs = sorted(set(c[1] for c in cons))
        if len(attrs) < 2:
            continue
        for c in cons:
            for other in attrs:
                if other == c[1]:
                    continue
                for v in typed_values_for(c, g)[:14]:
                    for mode in ('ctor', 'setattr'):
                        res.case('%s %s %r with %s=None %s' % (name, c[1], v, other, mode), tag='pair')
                        k, bad = catching(c13_case, name, {c[1]: v, other: None}, mode)
                        if k != 'ok' or bad:
                            res.violation('%s.%s=%r with %s=None (%s)' % (name, c[1], v, other, mode),
                                          {'fn': 'c13_case', 'args': pyrepr((name, {c[1]: v, other: None}, mode))},
                                          bad[0] if k == 'ok' else 'oracle runs', bad[1] if k == 'ok' else repr(bad))
    for name in names:
        cons = spec_tables.PROPS_CONSTRAINTS if name == 'Basic.Properties' else spec_tables.CONSTRAINTS[name]
        for c in cons:
            for v in typed_values_for(c, g):
                for mode in ('ctor', 'setattr'):
                    if c[0] == 'maxlen' and v is not None and len(v.encode('utf-8')) > 255 and mode == 'setattr' and False:
                        continue
                    res.case('%s %s %r %s' % (name, c[1], v, mode), tag=c[0], sample={'class': name, 'attr': c[1], 'value': pyrepr(v)[:80], 'mode': mode})
                    k, bad = catching(c13_case, name, {c[1]: v}, mode)
                    if k != 'ok' or bad:
                        res.violation('%s.%s=%r (%s)' % (name, c[1], v, mode), {'fn': 'c13_case', 'args': pyrepr((name, {c[1]: v}, mode))},
                                      bad[0] if k == 'ok' else 'oracle runs', bad[1] if k == 'ok' else repr(bad))
    # however the object came to be: decoded from the wire, a copy or an unpickled copy of a decoded one, or one
    # whose validation already ran once
    for name in names:
        cons = spec_tables.PROPS_CONSTRAINTS if name == 'Basic.Properties' else spec_tables.CONSTRAINTS[name]
        for c in cons:
            vals_ = typed_values_for(c, g)
            for v in (vals_ if ctx.thorough else vals_[:3] + g.r.sample(vals_, min(5, len(vals_)))):
                for mode in ('decoded', 'copied', 'pickled', 'revalidated'):
                    res.case('%s %s %r %s' % (name, c[1], v, mode), tag='origin ' + mode)
                    k, bad = catching(c13_case, name, {c[1]: v}, mode)
                    if k != 'ok' or bad:
                        res.violation('%s.%s=%r (%s object)' % (name, c[1], v, mode), {'fn': 'c13_case', 'args': pyrepr((name, {c[1]: v}, mode))},
                                      bad[0] if k == 'ok' else 'oracle runs', bad[1] if k == 'ok' else repr(bad))
    # names that mean something to a broker, together with every combination of the class's flag arguments
    for name, cons in spec_tables.CONSTRAINTS.items():
        cid_, mid_, replies_, args_ = c14_spec_of(name)
        bits = [spec_tables.pyname(a[0]) for a in args_ if a[1] == 'bit' and not any(c[1] == a[0] for c in cons)]
        for c in cons:
            if c[0] != 'chars':
                continue
            lim = min([x[2] for x in cons if x[0] == 'maxlen' and x[1] == c[1]] or [255])
            pool = [n for n in G.WELL_KNOWN_NAMES + [m for m in G.MINED_STRINGS if m and all(ch in spec_tables.NAME_CHARS for ch in m)] if len(n) <= lim]
            for nm in (pool if ctx.thorough else g.r.sample(pool, min(12, len(pool))) + ['amq.gen-JzTY20BRgKO', 'amq.direct', 'amq.rabbitmq.reply-to']):
                combos = list(itertools.product([False, True], repeat=len(bits)))
                for combo in (combos if len(combos) <= 8 or ctx.thorough else g.r.sample(combos, 8)):
                    av = dict({spec_tables.pyname(c[1]): nm}, **dict(zip(bits, combo)))
                    for mode in ('ctor', 'setattr'):
                        res.case('%s %r %s' % (name, av, mode), tag='meaningful names')
                        k, bad = catching(c13_case, name, av, mode)
                        if k != 'ok' or bad:
                            res.violation('%s %r (%s)' % (name, av, mode), {'fn': 'c13_case', 'args': pyrepr((name, av, mode))},
                                          bad[0] if k == 'ok' else 'oracle runs', bad[1] if k == 'ok' else repr(bad))
    # classes without constraints accept everything typed; and decoding never validates
    for key, cls in commands.INDEX_MAPPING.items():
        if cls.name in spec_tables.CONSTRAINTS:
            continue
        res.case('unconstrained ' + cls.name, tag='unconstrained')
        k, r = catching(cls)
        if k != 'ok':
            res.violation('%s() raises' % cls.name, {'fn': 'none', 'args': '()'}, 'accepted', repr(r))
    for name, cons in spec_tables.CONSTRAINTS.items():
        index = [k for k, v in refenc.METHODS.items() if v[0] == name][0]
        for _ in range(6 if ctx.thorough else 2):
            data, exp = grammar.method_frame(g, index)
            res.case('decode ' + data.hex(), tag='decode-no-validate')
            k, r = catching(frame.unmarshal, data)
            if k != 'ok':
                res.violation('decoding %s applied validation (or failed)' % name, {'fn': 'c05_frame_case', 'args': pyrepr((data, b''))}, 'decodes', repr(r))
    for i in range(200 if ctx.thorough else 60):
        data, exp = grammar.header_frame(g)
        res.case('decode header ' + data.hex(), tag='decode-no-validate')
        k, r = catching(frame.unmarshal, data)
        if k != 'ok':
            res.violation('decoding a content header applied validation (or failed)', {'fn': 'c05_frame_case', 'args': pyrepr((data, b''))}, 'decodes', repr(r))
    for dm in (0, 3, 255):
        for cid in (b'', b'\x01x'):
            flags = 0x1000 | (0x0004 if cid else 0)
            p_ = b'\x00\x3c\x00\x00' + b'\x00' * 8 + struct.pack('>H', flags) + bytes([dm]) + cid
            data = b'\x02\x00\x01' + struct.pack('>I', len(p_)) + p_ + b'\xce'
            res.case('decode header dm=%d cid=%r' % (dm, cid), tag='decode-no-validate')
            k, r = catching(frame.unmarshal, data)
            if k != 'ok' or r[2].properties.delivery_mode != dm:
                res.violation('decoding a content header with delivery_mode=%d cluster_id=%r' % (dm, cid), {'fn': 'c05_frame_case', 'args': pyrepr((data, b''))},
                              'decodes with delivery_mode=%d' % dm, repr(r))
    # every code point as a name character
    pat_ok = set(spec_tables.NAME_CHARS)
    cps = range(0x110000) if ctx.thorough else list(range(0x400)) + g.r.sample(range(0x400, 0x110000), 3000)
    for cp in cps:
        if 0xD800 <= cp < 0xE000:
            continue
        ch = chr(cp)
        res.case('cp %d' % cp, tag='code point')
        k, r = catching(commands.Queue.Declare, queue=ch)
        k2, r2 = catching(commands.Exchange.Declare, exchange=ch)
        for kk, rr, what in ((k, r, 'queue'), (k2, r2, 'exchange')):
            raised = kk == 'err' and isinstance(rr, ValueError)
            if raised != (ch not in pat_ok):
                res.violation('%s name character U+%04X' % (what, cp), {'fn': 'c13_case', 'args': pyrepr(('Queue.Declare' if what == 'queue' else 'Exchange.Declare', {what: ch}, 'ctor'))},
                              'accepted' if ch in pat_ok else 'ValueError', 'ValueError' if raised else 'accepted')
    return res


# =============================================================== C14 / C17 / C19 catalogue

def oracle_c14(ctx):
    import inspect
    res = Result('c14.catalogue')
    S = spec_tables
    seen = set()
    for (cname, cid), methods in S.SPEC.items():
        for (mname, mid, resp, args) in methods:
            key = cid << 16 | mid
            seen.add(key)
            name = S.camel(cname) + '.' + S.camel(mname)
            res.case(name, trivial=False, tag='method', sample={'method': name, 'index': hex(key)})
            cls = commands.INDEX_MAPPING.get(key)

            def bad(what, exp, got, name=name):
                res.violation('%s: %s' % (name, what), {'fn': 'c14_case', 'args': pyrepr((name,))}, exp, got)
            if cls is None:
                bad('missing from INDEX_MAPPING', hex(key), None)
                continue
            outer = getattr(commands, S.camel(cname), None)
            if cls.name != name or getattr(outer, S.camel(mname), None) is not cls:
                bad('name / class path', name, cls.name)
            if cls.index != key or cls.frame_id != mid or getattr(outer, 'frame_id', None) != cid:
                bad('ids', (cid, mid, key), (getattr(outer, 'frame_id', None), cls.frame_id, cls.index))
            if cls.synchronous is not bool(resp):
                bad('synchronous', bool(resp), cls.synchronous)
            if list(cls.valid_responses) != [S.camel(cname) + '.' + S.camel(r) for r in resp]:
                bad('valid_responses', resp, cls.valid_responses)
            if list(cls.__slots__) != [S.pyname(a[0]) for a in args] or list(cls.attributes()) != list(cls.__slots__):
                bad('argument names', [S.pyname(a[0]) for a in args], cls.__slots__)
                continue
            if [cls.amqp_type(s) for s in cls.__slots__] != [a[1] for a in args]:
                bad('wire types', [a[1] for a in args], [cls.amqp_type(s) for s in cls.__slots__])
            inst = cls()
            for (a, t, d) in args:
                want = {} if t == 'table' else d
                got = getattr(inst, S.pyname(a))
                if got != want or type(got) is not type(want):
                    bad('default of %s' % a, want, got)
    for nm in sorted(c_.name for c_ in commands.INDEX_MAPPING.values()) + ['Basic.Properties']:
        res.case('doc ' + nm, tag='documented defaults / name order')
        k, badd = catching(c14_doc_case, nm)
        if k != 'ok' or badd:
            res.violation('%s: documentation / annotations disagree with the constructor' % nm, {'fn': 'c14_doc_case', 'args': pyrepr((nm,))},
                          badd[0] if k == 'ok' else 'oracle runs', badd[1] if k == 'ok' else repr(badd))
    for k in commands.INDEX_MAPPING:
        res.case('key %x' % k, tag='mapping key')
        if k not in seen:
            res.violation('INDEX_MAPPING has an extra entry %s' % hex(k), {'fn': 'c14_case', 'args': pyrepr((hex(k),))})
    P = commands.Basic.Properties
    res.case('properties', tag='properties')
    if list(P.__slots__) != [S.prop_pyname(n) for n, _ in S.PROPS] or [P.amqp_type(s) for s in P.__slots__] != [t for _, t in S.PROPS] \
            or [P.flags.get(s) for s in P.__slots__] != [1 << (15 - i) for i in range(14)] or set(P.flags) != set(P.__slots__):
        res.violation('Basic.Properties order / types / flag bits', {'fn': 'c14_case', 'args': pyrepr(('Basic.Properties',))},
                      [(S.prop_pyname(n), t, 1 << (15 - i)) for i, (n, t) in enumerate(S.PROPS)],
                      [(s, P.amqp_type(s), P.flags.get(s)) for s in P.__slots__])
    inst = P()
    for s in P.__slots__:
        want = '' if s == 'cluster_id' else None
        if getattr(inst, s) != want:
            res.violation('Basic.Properties default of %s' % s, {'fn': 'c14_case', 'args': pyrepr(('Basic.Properties',))}, want, getattr(inst, s))
    # the catalogue must stay what it is under ordinary use of the library: (a) mutate the containers
    # an instance got by default, then construct again; (b) an application subclasses a method class
    for (cname, cid), methods in S.SPEC.items():
        for (mname, mid, resp, args) in methods:
            cls = commands.INDEX_MAPPING.get(cid << 16 | mid)
            if cls is None:
                continue
            inst = cls()
            for s_ in cls.__slots__:
                v = getattr(inst, s_)
                if isinstance(v, dict):
                    v['x-verif-probe'] = 1
                elif isinstance(v, list):
                    v.append('x-verif-probe')
            again = cls()
            for (a, t, d) in args:
                want = {} if t == 'table' else d
                got = getattr(again, S.pyname(a))
                res.case('history default %s.%s' % (cls.name, a), tag='default after mutation')
                if got != want:
                    res.violation('%s: default of %s after another instance\'s default was mutated' % (cls.name, a),
                                  {'fn': 'c14_case', 'args': pyrepr((cls.name,))}, want, got)
    # one argument supplied at a time (several values per wire type): the OMITTED ones keep their defaults
    probes = {'octet': [0, 1, 9, 255], 'short': sorted(set([0, 1, 200, 65535] + [x for x in getattr(ctx, 'literals', []) if 0 <= x <= 65535][:40])),
              'long': [0, 1, 200, 2 ** 32 - 1], 'longlong': [0, 1, -1, 200], 'shortstr': ['', 'x', '0'], 'longstr': ['', 'x'],
              'bit': [True, False], 'table': [{}, {'a': 1}], 'timestamp': []}
    for (cname, cid), methods in S.SPEC.items():
        for (mname, mid, resp, args) in methods:
            cls = commands.INDEX_MAPPING.get(cid << 16 | mid)
            if cls is None:
                continue
            for (a, t, d) in args:
                for v in probes.get(t, []):
                    kk, inst = catching(cls, **{S.pyname(a): v})
                    res.case('%s(%s=%r)' % (cls.name, a, v), tag='one argument given')
                    if kk != 'ok':
                        continue
                    for (a2, t2, d2) in args:
                        if a2 == a:
                            continue
                        want = {} if t2 == 'table' else d2
                        got = getattr(inst, S.pyname(a2))
                        if got != want or (want is not None and type(got) is not type(want)):
                            res.violation('%s(%s=%r): omitted argument %s' % (cls.name, a, v, a2), {'fn': 'c14_case', 'args': pyrepr((cls.name,))}, want, got)
    # ... and after all that use the class-level facts are still the specification's
    for (cname, cid), methods in S.SPEC.items():
        for (mname, mid, resp, args) in methods:
            cls = commands.INDEX_MAPPING.get(cid << 16 | mid)
            res.case('again %s.%s' % (cname, mname), tag='catalogue after use')
            if cls is not None and (list(cls.valid_responses) != [S.camel(cname) + '.' + S.camel(r) for r in resp]
                                    or cls.synchronous is not bool(resp) or list(cls.__slots__) != [S.pyname(x[0]) for x in args]):
                res.violation('%s.%s: class-level catalogue facts changed after ordinary use' % (cname, mname), {'fn': 'c14_case', 'args': pyrepr((cls.name,))},
                              (resp, [x[0] for x in args]), (cls.valid_responses, cls.__slots__))
    before = dict(commands.INDEX_MAPPING)
    try:
        probe = type('VerifProbe', (commands.Basic.Publish,), {})
        probe2 = type('VerifProbe2', (commands.Queue.Declare,), {'__slots__': []})
    except Exception as e:  # noqa
        res.notes.append('subclassing a method class raised %r' % e)
    res.case('subclassing', tag='mapping after subclassing')
    if dict(commands.INDEX_MAPPING) != before or list(commands.INDEX_MAPPING) != list(before):
        changed = [hex(k) for k in commands.INDEX_MAPPING if commands.INDEX_MAPPING.get(k) is not before.get(k)]
        res.violation('INDEX_MAPPING changes when an application subclasses a method class', {'fn': 'c14_case', 'args': pyrepr(('subclass',))},
                      'the 64 specification classes', 'entries %s replaced' % changed)
    # instances say what their class says: constructed with each flag argument set, and decoded from the wire
    for (cname, cid), methods in S.SPEC.items():
        for (mname, mid, resp, args) in methods:
            name = S.camel(cname) + '.' + S.camel(mname)
            res.case('instances ' + name, tag='instance-level facts')
            k, bad = catching(c14_instance_case, name)
            if k != 'ok' or bad:
                res.violation('%s: an instance disagrees with the specification' % name, {'fn': 'c14_instance_case', 'args': pyrepr((name,))},
                              bad[0] if k == 'ok' else 'oracle runs', bad[1] if k == 'ok' else repr(bad))
    # exactly the 64 methods are REACHABLE through the mapping: by subscript, by get, by the decoder
    spec_ids = sorted(cid for _, cid in S.SPEC)
    keys = [cid << 16 | mid for cid in spec_ids for mid in range(65536 if ctx.thorough else 1024)]
    keys += [cid << 16 | mid for cid in range(256) for mid in range(256 if ctx.thorough else 128)]
    keys += [k ^ (1 << b) for k in seen for b in range(32)] + [k + d for k in seen for d in (-2, -1, 1, 2, 65536, -65536)]
    keys += [ctx.gen.r.getrandbits(32) for _ in range(2000)] + [-1, 2 ** 32, 2 ** 32 + 655370]
    for key in keys:
        if key in seen:
            continue
        res.case('reach %x' % key, tag='unspecified index')
        bad = c14_reach_case(key)
        if bad:
            res.violation('index %s reaches a method class although the specification has no such method' % hex(key),
                          {'fn': 'c14_reach_case', 'args': pyrepr((key,))}, bad[0], bad[1])
            break
    env_snapshots(res, 'c14')
    res.notes.append('exhaustive over %d methods and 14 properties' % len(seen))
    return res


SNAPSHOT_CHILD = r"""
import sys, json
sys.path.insert(0, sys.argv[1])
which = sys.argv[2]
from pamqp import commands, constants, exceptions
out = {}
if which == 'prefix':
    from pamqp import frame, header, body, heartbeat
    C = commands
    frames_ = [frame.marshal(c(), 1) for c in C.INDEX_MAPPING.values() if not c.__slots__]
    frames_ += [b'\x01\x00\x01\x00\x00\x00\x05\x00\x3c\x00\x64\x01\xce', frame.marshal(C.Basic.Publish(0, 'amq.topic', 'rk', False, False), 2),
                frame.marshal(C.Queue.Declare(0, 'q', arguments={'a': 1, 's': 'x'}), 3), frame.marshal(C.Connection.Close(404, 'NOT_FOUND - x', 50, 10), 0),
                frame.marshal(header.ContentHeader(0, 5, C.Basic.Properties(content_type='a', headers={'k': 'v'})), 1), frame.marshal(body.ContentBody(b'abc\xce'), 1),
                frame.marshal(heartbeat.Heartbeat(), 0), frame.marshal(header.ProtocolHeader(0, 9, 1), 0)]
    rows = []
    for fb in frames_:
        for k in range(len(fb)):
            for buf in (fb[:k], bytearray(fb[:k])):
                try:
                    frame.unmarshal(buf)
                    rows.append([fb.hex()[:24], k, type(buf).__name__, 'returned'])
                except exceptions.UnmarshalingException:
                    pass
                except BaseException as e:
                    rows.append([fb.hex()[:24], k, type(buf).__name__, type(e).__name__])
    out['not_unmarshaling_exception'] = rows
elif which == 'rt':
    # a fixed corpus of frames, encoded and decoded
    import datetime, decimal
    from pamqp import frame, header, body, heartbeat, encode
    C = commands
    ts = datetime.datetime(2024, 1, 2, 3, 4, 5, tzinfo=datetime.timezone.utc)
    tbl = {'i8': 5, 'i16': 300, 'u16': 40000, 'i32': 70000, 'u32': 3000000000, 'i64': 2 ** 40, 'neg': -129, 'f': 1.5, 'd': decimal.Decimal('12345.678'),
           's': 'caf\u00e9', 'b': True, 'n': None, 't': ts, 'x': bytearray(b'\x00\xce'), 'l': [1, 'a', {'k': [None]}], 'k' * 128: 1, 'x-death': [{'count': 2}]}
    corpus = []
    for k, c in C.INDEX_MAPPING.items():
        try:
            corpus.append((c.name, c()))
        except Exception as e:
            corpus.append((c.name, None))
    corpus += [('start', C.Connection.Start(0, 9, dict(tbl, product='RabbitMQ', version='3.5.7'), 'PLAIN', 'en_US')),
               ('declare', C.Queue.Declare(0, 'amq.gen-x', False, True, False, True, False, tbl)),
               ('publish', C.Basic.Publish(0, 'amq.topic', 'a.b', True, False)),
               ('consume', C.Basic.Consume(0, 'amq.rabbitmq.reply-to', 'ctag', False, False, False, False, {'x-priority': 10})),
               ('close', C.Channel.Close(404, "NOT_FOUND - no queue 'q'", 50, 10)),
               ('header', header.ContentHeader(0, 2 ** 53 + 1, C.Basic.Properties(content_type='application/json', headers=tbl, delivery_mode=2, priority=9,
                                                                                   timestamp=ts, expiration='60000', message_id='m', user_id='guest', app_id='a'))),
               ('header0', header.ContentHeader()), ('body', body.ContentBody(b'AMQP\x00\xce' * 40)), ('body0', body.ContentBody(b'')),
               ('heartbeat', heartbeat.Heartbeat()), ('proto', header.ProtocolHeader(0, 9, 1))]
    rows = []
    for legacy in (False, True):
        encode.support_deprecated_rabbitmq(legacy)
        for name, f in corpus:
            if f is None:
                rows.append([name, legacy, 'ctor failed', None])
                continue
            try:
                b = frame.marshal(f, 1)
            except Exception as e:
                rows.append([name, legacy, 'err ' + type(e).__name__, None])
                continue
            try:
                n, ch, g = frame.unmarshal(b + b'\x01')
                if hasattr(g, 'properties'):
                    d = [n, ch, type(g).__name__, g.body_size, sorted((k_, type(v_).__name__, repr(v_)) for k_, v_ in dict(g.properties).items())]
                elif hasattr(g, '__slots__') and hasattr(type(g), 'index'):
                    d = [n, ch, g.name, [(k_, type(v_).__name__, repr(v_)) for k_, v_ in g]]
                else:
                    d = [n, ch, type(g).__name__, repr(getattr(g, 'value', None) or getattr(g, 'major_version', None))]
            except Exception as e:
                d = 'err ' + type(e).__name__
            rows.append([name, legacy, b.hex(), d])
    encode.support_deprecated_rabbitmq(False)
    out['frames'] = rows
elif which == 'c17':
    out['mapping'] = [[k, v.__name__, getattr(v, 'name', None), getattr(v, 'value', None), issubclass(v, exceptions.AMQPSoftError),
                       issubclass(v, exceptions.AMQPHardError), issubclass(v, exceptions.PAMQPException)] for k, v in exceptions.CLASS_MAPPING.items()]
    out['classes'] = sorted([n, getattr(c, 'name', None), getattr(c, 'value', None), [b.__name__ for b in c.__mro__]]
                            for n, c in vars(exceptions).items() if isinstance(c, type) and c.__module__ == exceptions.__name__)
    out['constants'] = sorted([n, type(v).__name__, repr(v)] for n, v in vars(constants).items()
                              if not n.startswith('__') and isinstance(v, (int, str, bytes, tuple, list)))
else:
    out['index'] = [[k, getattr(v, 'name', None)] for k, v in commands.INDEX_MAPPING.items()]
    cls_ = []
    for k, c in list(commands.INDEX_MAPPING.items()) + [(0, commands.Basic.Properties)]:
        try:
            o = c()
            d = [[s_, type(getattr(o, s_)).__name__, repr(getattr(o, s_))] for s_ in c.__slots__]
        except Exception as e:
            d = 'err ' + type(e).__name__
        cls_.append([k, c.name, list(c.__slots__), [c.amqp_type(s_) for s_ in c.__slots__], d, getattr(c, 'synchronous', None),
                     list(getattr(c, 'valid_responses', [])), c.index, c.frame_id])
    out['classes'] = cls_
    out['flags'] = sorted(commands.Basic.Properties.flags.items())
json.dump(out, sys.stdout, sort_keys=True)
"""

ENV_POLLUTION = {'RABBITMQ_DEFAULT_USER': 'verif-user', 'RABBITMQ_DEFAULT_PASS': 'verif-pass', 'RABBITMQ_DEFAULT_VHOST': 'verif-vhost',
                 'RABBITMQ_USER': 'u', 'RABBITMQ_PASSWORD': 'p', 'RABBITMQ_VHOST': 'verif', 'RABBITMQ_HOST': 'h', 'RABBITMQ_PORT': '1', 'RABBITMQ_URL': 'amqp://x',
                 'AMQP_URL': 'amqp://u:p@h:1/verif', 'AMQP_HOST': 'h', 'AMQP_VHOST': 'verif', 'AMQP_HEARTBEAT': '7', 'AMQP_FRAME_MAX': '4097',
                 'PAMQP_DEBUG': '1', 'PAMQP_LEGACY': '1', 'PAMQP_STRICT': '1', 'PAMQP_DEPRECATED_RABBITMQ_SUPPORT': '1', 'DEBUG': '1', 'ENV': 'verif',
                 'ENVIRONMENT': 'production', 'LANG': 'tr_TR.UTF-8', 'LC_ALL': 'C', 'PYTHONHASHSEED': '4242', 'PYTHONUTF8': '0', 'TZ': 'Pacific/Apia',
                 'HOME': '/nonexistent', 'USER': 'verif', 'HOSTNAME': 'verif-host'}


def snapshot_child(which, flags, pollute):
    env = dict(os.environ, PYTHONDONTWRITEBYTECODE='1')
    for k in ('PYTHONOPTIMIZE', 'PYTHONDEVMODE', 'PYTHONWARNINGS'):
        env.pop(k, None)
    if pollute:
        env.update(ENV_POLLUTION)
        for m in G.MINED_STRINGS:
            if m.isupper() and m.replace('_', '').isalnum() and len(m) > 3:
                env[m] = 'verif-env-value'
    p = subprocess.run([sys.executable, '-B'] + list(flags) + ['-c', SNAPSHOT_CHILD, real.REPO, which], stdout=subprocess.PIPE, stderr=subprocess.PIPE,
                       env=env, timeout=120)
    if p.returncode != 0:
        return {'error': p.stderr.decode('utf-8', 'replace')[-400:]}
    return json.loads(p.stdout)


@replayer
def env_snapshot_case(which, flags, pollute):
    """the catalogue / the reply-code and constant tables as a fresh interpreter sees them with the given interpreter
    flags and (optionally) an environment full of variables a deployment might set: identical to a plain interpreter's"""
    plain = snapshot_child(which, [], False)
    got = snapshot_child(which, flags, pollute)
    if got == plain:
        return None
    for k in sorted(set(plain) | set(got)):
        if plain.get(k) != got.get(k):
            a, b = plain.get(k), got.get(k)
            if isinstance(a, list) and isinstance(b, list):
                for x, y in zip(a, b):
                    if x != y:
                        return ('%s: %s' % (k, json.dumps(x)[:300]), json.dumps(y)[:300])
                return ('%s: %d entries' % (k, len(a)), '%d entries' % len(b))
            return ('%s: %s' % (k, json.dumps(a)[:300]), json.dumps(b)[:300])
    return None


PREFIX_VARIANTS = [(['-W', 'error'], False), (['-bb', '-W', 'error'], False), (['-bb'], True)]
ENV_VARIANTS = [(['-O'], False), (['-OO'], False), (['-X', 'dev'], False), (['-bb'], False), ([], True), (['-O'], True), (['-X', 'utf8=0'], False),
                (['-X', 'int_max_str_digits=640'], False)]


def env_snapshots(res, which):
    for flags, pollute in ENV_VARIANTS + (PREFIX_VARIANTS if which == 'prefix' else []):
        res.case('snapshot %s %r %s' % (which, flags, pollute), tag='interpreter flags / environment')
        k, bad = catching(env_snapshot_case, which, flags, pollute)
        if k != 'ok' or bad:
            res.violation('the tables differ in an interpreter started with %s%s' % (' '.join(flags) or 'no flags', ' and a populated environment' if pollute else ''),
                          {'fn': 'env_snapshot_case', 'args': pyrepr((which, flags, pollute))}, bad[0] if k == 'ok' else 'oracle runs', bad[1] if k == 'ok' else repr(bad))


def _doc_defaults(doc):
    """':param name:' followed by '- Default: ``v``' -> {name: text} (read from the documentation side)"""
    out, cur = {}, None
    for line in (doc or '').splitlines():
        t = line.strip()
        if t.startswith(':param '):
            cur = t[len(':param '):].split(':', 1)[0].strip()
        elif t.startswith((':raises', ':rtype', ':return')):
            cur = None
        elif t.startswith('- Default:') and cur:
            v = t[len('- Default:'):].strip()
            out[cur] = v[2:-2] if v.startswith('``') and v.endswith('``') and len(v) >= 4 else v
    return out


@replayer
def c14_doc_case(name):
    """the documentation of a class and its constructor state the same defaults, and the class lists its argument
    names in one order everywhere (__slots__, attributes(), __annotations__, the constructor's parameters)"""
    import inspect
    cls = commands.Basic.Properties if name == 'Basic.Properties' else getattr(getattr(commands, name.split('.')[0]), name.split('.')[1])
    slots = list(cls.__slots__)
    ann = [k for k in (getattr(cls, '__annotations__', None) or {}) if k in slots]
    if ann != [s_ for s_ in slots if s_ in ann]:
        return ('__annotations__ lists the arguments in the order of %r' % (slots,), ann)
    own = '__init__' in vars(cls)
    params = [k for k in inspect.signature(cls.__init__).parameters if k != 'self'] if own else []
    if own and params != slots:
        return ('constructor parameters in the order %r' % (slots,), params)
    docs = _doc_defaults(cls.__doc__)
    extra = [k for k in docs if k not in slots]
    if extra:
        return ('documented defaults only for arguments of the class', extra)
    sig = inspect.signature(cls.__init__).parameters if own else {}
    for a in slots:
        if a not in sig:
            continue
        d, stated = sig[a].default, docs.get(a)
        if stated is None:
            continue            # the documentation states no default for it: nothing to disagree with
        if d is None:
            ok = stated is None or (stated == '{}' and cls.amqp_type(a) == 'table')
        elif isinstance(d, str):
            ok = (stated == d) if d else stated in (None, "''")
        else:
            ok = stated == repr(d)
        if not ok:
            return ('%s: documentation and constructor state the same default (%r)' % (a, d), 'documentation says %r' % (stated,))
    return None


@replayer
def c14_case(name):
    return None


def c14_spec_of(name):
    S = spec_tables
    for (cname, cid), methods in S.SPEC.items():
        for (mname, mid, resp, args) in methods:
            if S.camel(cname) + '.' + S.camel(mname) == name:
                return cid, mid, [S.camel(cname) + '.' + S.camel(r) for r in resp], args
    raise KeyError(name)


@replayer
def c14_instance_case(name):
    """class-level catalogue facts read through INSTANCES: default-constructed, with each flag argument set,
    with each other argument given, and decoded from their own encoding"""
    S = spec_tables
    cid, mid, replies, args = c14_spec_of(name)
    key = cid << 16 | mid
    cls = commands.INDEX_MAPPING[key]
    insts = [('default', cls())]
    for (a, t, d) in args:
        vals = {'bit': [True, False], 'short': [0, 1], 'octet': [1], 'long': [1], 'longlong': [1], 'shortstr': ['x'], 'longstr': ['x'],
                'table': [{'a': 1}]}.get(t, [])
        for v in vals:
            k, o = catching(cls, **{S.pyname(a): v})
            if k == 'ok':
                insts.append(('%s=%r' % (a, v), o))
    for label, o in list(insts):
        k, b = catching(frame.marshal, o, 1)
        if k == 'ok':
            k2, r = catching(frame.unmarshal, b)
            if k2 == 'ok':
                insts.append(('decoded ' + label, r[2]))
    # constructed POSITIONALLY with one distinct value per argument: the i-th constructor parameter is the i-th wire argument
    distinct = []
    for i, (a, t, d) in enumerate(args):
        distinct.append({'bit': bool(i % 2), 'octet': 10 + i, 'short': 0 if a == 'ticket' else 100 + i, 'long': 1000 + i, 'longlong': 10000 + i, 'shortstr': 'n%d' % i,
                         'longstr': 'l%d' % i, 'table': {'k%d' % i: i}, 'timestamp': datetime.datetime(2020, 1, 1 + i, tzinfo=UTC)}[t])
    for c_ in spec_tables.CONSTRAINTS.get(name, []):
        for i, (a, t, d) in enumerate(args):
            if a == c_[1] and c_[0] == 'eq':
                distinct[i] = c_[2]
            if a == c_[1] and c_[0] == 'false':
                distinct[i] = False
    kpos, opos = catching(lambda: cls(*distinct))
    if kpos == 'ok':
        got_pos = [getattr(opos, S.pyname(a[0])) for a in args]
        if got_pos != distinct:
            return ('%s(*%r) stores the values under %r in that order' % (name, distinct, [S.pyname(a[0]) for a in args]), repr(got_pos))
        insts.append(('positional', opos))
        k, b = catching(frame.marshal, opos, 1)
        if k == 'ok':
            k2, r = catching(frame.unmarshal, b)
            if k2 == 'ok' and [getattr(r[2], S.pyname(a[0])) for a in args] != distinct:
                return ('%s(*%r) round-trips' % (name, distinct), repr([getattr(r[2], S.pyname(a[0])) for a in args]))
    for label, o in insts:
        got = (type(o) is cls, o.synchronous, list(o.valid_responses), o.index, o.frame_id, o.name, list(o.__slots__), [o.amqp_type(s_) for s_ in o.__slots__])
        want = (True, bool(replies), replies, key, mid, name, [S.pyname(a[0]) for a in args], [a[1] for a in args])
        if got != want or o.synchronous is not bool(replies):
            return ('%s(%s): %r' % (name, label, want), repr(got))
    return None


@replayer
def c14_reach_case(key):
    """an index the specification does not define reaches no method class: not by subscript, not by get,
    not through the decoder"""
    try:
        c = commands.INDEX_MAPPING[key]
        return ('INDEX_MAPPING[%s] raises KeyError' % hex(key), repr(c))
    except KeyError:
        pass
    except Exception as e:  # noqa
        return ('INDEX_MAPPING[%s] raises KeyError' % hex(key), repr(e))
    if commands.INDEX_MAPPING.get(key) is not None or key in commands.INDEX_MAPPING:
        return ('%s is not a key' % hex(key), 'get / in find it')
    if 0 <= key < 2 ** 32:
        for payload in (b'', b'\x00' * 40):
            data = b'\x01\x00\x01' + struct.pack('>I', 4 + len(payload)) + struct.pack('>I', key) + payload + b'\xce'
            k, r = catching(frame.unmarshal, data)
            if k == 'ok':
                return ('a method frame with index %s is refused' % hex(key), 'decoded as %s' % type(r[2]).__name__)
    return None


def oracle_c17(ctx):
    res = Result('c17.reply_codes')
    S = spec_tables
    for code, (nm, kind) in S.REPLY.items():
        res.case('code %d' % code, tag='reply code', sample={'code': code, 'name': nm, 'kind': kind})
        c = exceptions.CLASS_MAPPING.get(code)
        soft, hard = exceptions.AMQPSoftError, exceptions.AMQPHardError
        if c is None or c.value != code or c.name != nm or not issubclass(c, soft if kind == 'soft' else hard) \
                or issubclass(c, hard if kind == 'soft' else soft) or not issubclass(c, exceptions.PAMQPException):
            res.violation('reply code %d' % code, {'fn': 'c14_case', 'args': pyrepr((code,))}, (code, nm, kind),
                          None if c is None else (c.value, c.name, [b.__name__ for b in c.__mro__]))
    classes = [c for c in vars(exceptions).values() if isinstance(c, type) and hasattr(c, 'value') and hasattr(c, 'name')]
    res.case('exactly one class per code', tag='bijection')
    if sorted(c.value for c in classes) != sorted(S.REPLY) or set(exceptions.CLASS_MAPPING) != set(S.REPLY) or \
            len(set(exceptions.CLASS_MAPPING.values())) != len(S.REPLY):
        res.violation('reply-code classes are not in bijection with the 18 codes', {'fn': 'c14_case', 'args': pyrepr(('CLASS_MAPPING',))},
                      sorted(S.REPLY), sorted(c.value for c in classes))
    for k, v in S.CONSTANTS.items():
        res.case('const ' + k, tag='constant', sample={'constant': k, 'value': repr(v)})
        if getattr(constants, k, None) != v or type(getattr(constants, k, None)) is not type(v):
            res.violation('constants.%s' % k, {'fn': 'c14_case', 'args': pyrepr((k,))}, v, getattr(constants, k, None))
    before = dict(exceptions.CLASS_MAPPING)
    try:
        type('VerifQueueNotFound', (exceptions.AMQPNotFound,), {'name': 'QUEUE-NOT-FOUND'})
        type('VerifFatal', (exceptions.AMQPHardError, exceptions.AMQPAccessRefused), {})
    except Exception as e:  # noqa
        res.notes.append('subclassing raised %r' % e)
    res.case('subclassing', tag='mapping after subclassing')
    if dict(exceptions.CLASS_MAPPING) != before:
        res.violation('CLASS_MAPPING changes when an application subclasses a reply-code exception',
                      {'fn': 'c14_case', 'args': pyrepr(('CLASS_MAPPING subclass',))}, 'unchanged',
                      [k for k in exceptions.CLASS_MAPPING if exceptions.CLASS_MAPPING.get(k) is not before.get(k)])
    # the classes as an application uses them: built from a close frame's reply text, raised, caught by their bases
    texts = [(), ('boom',), ("NOT_FOUND - no queue 'q' in vhost '/'",), ('ACCESS_REFUSED - operation not permitted',), ('PRECONDITION_FAILED - x',),
             ('CHANNEL_ERROR - second channel.open seen',), ('INTERNAL_ERROR',), ('x' * 256,), ('\u00e9' * 128,), ('x' * 100000,),
             ('PRECONDITION_FAILED - inequivalent arg \'x-message-ttl\' for queue \'' + 'q' * 200 + '\' in vhost \'/\': received the value \'60000\' of type \'long\' but current is none',), ('NOT-FOUND - x',), (404, 'NOT_FOUND - x'), ('a', 'b', 'c'), ('',), (None,), ({'a': 1},)]
    for code, (nm, kind) in S.REPLY.items():
        texts_ = texts + [('%s - text' % nm.replace('-', '_'),), ('%s - text' % nm,), (nm,)]
        for args_ in texts_:
            res.case('instance %d %r' % (code, args_), tag='instances')
            k, bad = catching(c17_instance_case, code, args_)
            if k != 'ok' or bad:
                res.violation('reply code %d: an instance built with %r' % (code, args_), {'fn': 'c17_instance_case', 'args': pyrepr((code, args_))},
                              bad[0] if k == 'ok' else 'oracle runs', bad[1] if k == 'ok' else repr(bad))
    env_snapshots(res, 'c17')
    res.notes.append('exhaustive over 18 reply codes and %d constants' % len(S.CONSTANTS))
    return res


@replayer
def c17_instance_case(code, args_):
    """an exception INSTANCE (built as a client does, from the reply text of a close frame) carries the specification's
    name and value, is raised and caught by its own class, its soft / hard base and the common base - and by no other"""
    S = spec_tables
    nm, kind = S.REPLY[code]
    cls = exceptions.CLASS_MAPPING[code]
    e = cls(*args_)
    if e.name != nm or e.value != code or type(e).name != nm or type(e).value != code:
        return ((nm, code), (e.name, e.value))
    catching(str, e)
    catching(repr, e)
    want = exceptions.AMQPSoftError if kind == 'soft' else exceptions.AMQPHardError
    other = exceptions.AMQPHardError if kind == 'soft' else exceptions.AMQPSoftError
    for base in (cls, want, exceptions.AMQPError, exceptions.PAMQPException, Exception):
        try:
            raise e
        except base:
            pass
        except Exception as x:  # noqa
            return ('caught as %s' % base.__name__, 'escaped as %s' % type(x).__name__)
    try:
        raise e
    except other:
        return ('not caught as %s' % other.__name__, 'caught')
    except Exception:  # noqa
        pass
    if getattr(exceptions, cls.__name__, None) is not cls:
        return ('exceptions.%s is the mapped class' % cls.__name__, repr(getattr(exceptions, cls.__name__, None)))
    return None


def spec_names(cls):
    """argument names in wire order from the hand-transcribed specification (not from the class)"""
    if cls.name == 'Basic.Properties':
        return [spec_tables.prop_pyname(n) for n, _ in spec_tables.PROPS]
    for (cname, cid), methods in spec_tables.SPEC.items():
        for (mname, mid, resp, args) in methods:
            if spec_tables.camel(cname) + '.' + spec_tables.camel(mname) == cls.name:
                return [spec_tables.pyname(a[0]) for a in args]
    return None


@replayer
def c19_case(key, vals):
    cls = commands.Basic.Properties if key == 'props' else commands.INDEX_MAPPING[key]
    obj = real.make_props(vals) if key == 'props' else real.make_method(cls, vals)
    # ordinary read-only use of the object must not disturb the mapping view
    for use in (repr, str, lambda o: '%r %s' % (o, o), lambda o: dict(o), lambda o: list(o), len, lambda o: o.attributes(), lambda o: sorted(o.attributes()),
                lambda o: o.amqp_type('no_such_argument'), lambda o: type(o).amqp_type('name'), lambda o: o['no_such_argument'], lambda o: 'zzz' in o,
                lambda o: getattr(o, 'encode_property', lambda *a: None)('no_such_property', 1), lambda o: reversed(list(o)), lambda o: max(o.attributes() or ['']),
                lambda o: copy.copy(o), lambda o: [k for k in o if k]):
        try:
            use(obj)
        except Exception:  # noqa
            pass
    names = spec_names(cls) or list(cls.__slots__)
    if list(cls.__slots__) != names:
        return ('argument names in wire order %r' % names, list(cls.__slots__))
    foreign = set(dir(obj)) | {'__slots__', '__annotations__', '__dict__', '__class__', 'name', 'index', 'frame_id', 'marshal', ''}
    # ... and every string that some transformation (a prefix / suffix added or peeled, another case) turns
    # into an existing attribute or into an argument name
    for n in list(foreign) + names:
        foreign |= {n[1:], n[2:], n[:-1], n[:-2], '_' + n, '__' + n, n + '_', n + '__', n.upper(), n.capitalize(), n.strip('_'), ' ' + n, n + ' ',
                    n.replace('_', '-'), n.replace('_', '')}
    foreign -= set(names)
    for n in (None, 0, 1, True, 1.5, b'x', ('x',), frozenset()) + tuple(a.encode() for a in names[:2]):
        try:
            if n in obj:
                return ('%r is not an argument name, so not a member' % (n,), 'reported as member')
        except Exception as e:  # noqa
            return ('membership test of %r answers False like `in` on the name list' % (n,), repr(e))
    for n in sorted(foreign):
        try:
            if n in obj:
                return ('%r is not an argument name, so not a member' % n, 'reported as member')
        except Exception as e:  # noqa
            return ('membership test of %r answers' % n, repr(e))

    def check(o, expect):
        items = list(o)
        if [k for k, _ in items] != names:
            return ('iteration order %r' % names, [k for k, _ in items])
        for (k, v), e in zip(items, expect):
            if not (v is e or v == e):
                return ('%s=%r' % (k, e), '%r' % (v,))
        d = dict(o)
        if list(d) != names or len(o) != len(names) or list(o.attributes()) != names:
            return ('dict/len/attributes agree with slots', (list(d), len(o), o.attributes()))
        for n in names:
            if n not in o or o[n] is not getattr(o, n) or o.amqp_type(n) != getattr(cls, '_' + n):
                return ('membership / item access / amqp_type of %s' % n, (n in o, o.amqp_type(n)))
        if 'no_such_attribute' in o:
            return ('unknown name is not a member', True)
        # iterations of the same object may overlap: each one yields the whole ordered list
        with real.deadline(5):
            z = list(itertools.islice(zip(o, o), len(names) + 2))
            if [a[0] for a, b in z] != names or [b[0] for a, b in z] != names:
                return ('zip(frame, frame) pairs each name with itself, in order', [(a[0], b[0]) for a, b in z][:6])
            nested = list(itertools.islice(((a[0], b[0]) for a in o for b in o), len(names) ** 2 + 2))
            if nested != [(a, b) for a in names for b in names]:
                return ('a nested loop over one frame visits all %d pairs' % len(names) ** 2, nested[:6])
            if len(names) >= 2:
                # "paired with the CURRENT attribute values": an attribute assigned while an iteration is under way
                # shows its new value when the iteration reaches it
                it2 = iter(o)
                next(it2)
                old_last = getattr(o, names[-1])
                marker = ('changed-during-iteration', id(o))
                try:
                    setattr(o, names[-1], marker)
                    tail = list(it2)
                finally:
                    setattr(o, names[-1], old_last)
                if not tail or tail[-1][0] != names[-1] or tail[-1][1] is not marker:
                    return ('the pair for %s carries the value assigned during the iteration' % names[-1], repr(tail[-1:] if tail else tail))
            it = iter(o)
            first = [next(it)[0]] if names else []
            whole = [k for k, _ in o]
            rest = [k for k, _ in itertools.islice(it, len(names) + 2)]
            if whole != names or first + rest != names:
                return ('a half-consumed iterator is independent of a later iteration', (first + rest, whole))
        return None
    bad = check(obj, vals)
    if bad:
        return bad
    # an argument attribute that is absent (deleted, or never set on a bare instance): iteration and item access
    # must tell the same story about it - both report it, or both fail
    bare = cls.__new__(cls)
    partial = real.make_props(vals) if key == 'props' else real.make_method(cls, vals)
    for n in names[:1] + names[-1:]:
        try:
            delattr(partial, n)
        except Exception:  # noqa
            pass
    for label, o in (('a bare instance', bare), ('an instance with deleted attributes', partial)):
        ki, it = catching(lambda: dict(o))
        kg, gi = catching(lambda: {n: o[n] for n in names})
        ka, ga = catching(lambda: {n: getattr(o, n) for n in names})
        if not (ki == kg == ka) or (ki == 'ok' and not (list(it.items()) == list(gi.items()) == list(ga.items()))):
            return ('%s: dict(frame), item access and attribute access agree (all fail alike or all give the same values)' % label,
                    'dict(frame): %s %r; frame[name]: %s; getattr: %s' % (ki, it if ki == 'ok' else type(it).__name__, kg, ka))
    if key == 'props':
        return None
    k, b = catching(frame.marshal, obj, 1)
    if k == 'ok':
        f2 = frame.unmarshal(b)[2]
        return check(f2, [getattr(f2, a) for a in names])
    return None


def oracle_c19(ctx):
    res = Result('c19.mapping')
    for meta in ctx.generated['catalogue']['methods']:
        cls = commands.INDEX_MAPPING.get(meta['key'])
        if cls is None:
            continue
        for _ in range(8 if ctx.thorough else 2):
            vals = lanes.method_vals_ok(ctx, cls, meta)
            res.case(pyrepr((meta['key'], vals)), trivial=not vals, tag='method', sample={'method': meta['name']})
            k, bad = catching(c19_case, meta['key'], vals)
            if k != 'ok' or bad:
                res.violation('mapping protocol of %s' % meta['name'], {'fn': 'c19_case', 'args': pyrepr((meta['key'], vals))},
                              bad[0] if k == 'ok' else 'oracle runs', bad[1] if k == 'ok' else repr(bad))
    n = len(commands.Basic.Properties.__slots__)
    for _ in range(200 if ctx.thorough else 40):
        vals = lanes.props_vals(ctx, ctx.gen.r.getrandbits(n - 1))
        res.case(pyrepr(vals), tag='properties')
        k, bad = catching(c19_case, 'props', vals)
        if k != 'ok' or bad:
            res.violation('mapping protocol of Basic.Properties', {'fn': 'c19_case', 'args': pyrepr(('props', vals))},
                          bad[0] if k == 'ok' else 'oracle runs', bad[1] if k == 'ok' else repr(bad))
    return res


# =============================================================== C15 time zones

import json  # noqa: E402
import os  # noqa: E402
import subprocess  # noqa: E402
import sys  # noqa: E402

TZS = ['UTC', 'Pacific/Pago_Pago', 'America/New_York', 'Europe/Paris', 'Asia/Kolkata', 'Asia/Kathmandu', 'Asia/Tokyo',
       'Pacific/Chatham', 'Pacific/Kiritimati', 'Australia/Lord_Howe', 'EST5EDT,M3.2.0,M11.1.0', 'XXX-5:45YYY,M10.1.0/2,M3.3.0/3',
       # zones whose rules differ from what they look like today, and the leap-second ('right/') flavour of the database
       'right/UTC', 'right/America/New_York', 'Africa/Monrovia', 'America/Danmarkshavn', 'Africa/Sao_Tome']

C15_CHILD = r'''
import sys, json, os, time, datetime, calendar
sys.path.insert(0, os.environ['PAMQP_REPO']); sys.dont_write_bytecode = True
time.tzset()
from pamqp import encode, decode
UTC = datetime.timezone.utc
class SubDT(datetime.datetime):
    """what pandas / pendulum / freezegun hand an application: a datetime subclass"""
cases = json.load(sys.stdin)
out = []
for secs, micro, kind, offmin in cases:
    if kind == 'wire':
        # eight octets as a peer sent them (seconds, or the millisecond form a foreign peer uses), alone and inside a table
        import struct
        raw = struct.pack('>Q', secs)
        try:
            n, d = decode.timestamp(raw)
            n2, t2 = decode.field_table(struct.pack('>I', 11) + b'\x01tT' + raw)
            if t2['t'] != d or t2['t'].isoformat() != d.isoformat():
                raise AssertionError('a table timestamp decodes differently from its 8 bytes')
            out.append([raw.hex(), n, d.isoformat(), str(d.tzinfo), d.utcoffset().total_seconds(), '', secs])
        except Exception as e:
            out.append(['err', type(e).__name__])
        continue
    base = datetime.datetime(1970, 1, 1) + datetime.timedelta(seconds=secs, microseconds=micro)
    via_props = kind.startswith('props_')
    if via_props:
        kind = kind[len('props_'):]
    if kind == 'naive':
        v = base
    elif kind == 'naive_sub':
        v = SubDT(base.year, base.month, base.day, base.hour, base.minute, base.second, base.microsecond, fold=offmin % 2)
    elif kind == 'aware_sub':
        a = base.replace(tzinfo=UTC).astimezone(datetime.timezone(datetime.timedelta(minutes=offmin)))
        v = SubDT(a.year, a.month, a.day, a.hour, a.minute, a.second, a.microsecond, tzinfo=a.tzinfo)
    elif kind == 'aware':
        v = base.replace(tzinfo=UTC).astimezone(datetime.timezone(datetime.timedelta(minutes=offmin)))
    elif kind == 'aware_zone':
        # an aware datetime in a zone with daylight saving: in the repeated hour after a fall-back the instant is
        # told apart by `fold` alone
        try:
            import zoneinfo
            z = zoneinfo.ZoneInfo(['Europe/Berlin', 'America/New_York', 'Australia/Lord_Howe', 'Pacific/Chatham', 'America/St_Johns'][offmin % 5])
        except Exception:
            out.append(['skip'])
            continue
        v = base.replace(tzinfo=UTC).astimezone(z)
    elif kind == 'struct_local':
        lt = time.localtime(secs)          # tm_gmtoff / tm_isdst of the child's zone
        v = lt
        secs = calendar.timegm(lt)         # "a struct_time is encoded as if it were UTC": its FIELDS read as UTC
        if not 0 <= secs < 2 ** 32:
            out.append(['skip'])
            continue
    elif kind == 'struct_z':
        v = time.strptime((datetime.datetime(1970, 1, 1) + datetime.timedelta(seconds=secs)).strftime('%Y-%m-%d %H:%M:%S') + ' +0530', '%Y-%m-%d %H:%M:%S %z')
    else:
        # the UTC fields of the instant, by arithmetic (time.gmtime applies leap seconds under the 'right/' zones)
        v = (datetime.datetime(1970, 1, 1) + datetime.timedelta(seconds=secs)).timetuple()
    try:
        if via_props:
            # the same value as the timestamp PROPERTY of a message: constructor (which validates), content header, wire
            from pamqp import commands, header, frame
            ms_ = secs * 1000 + 123
            hd_ = {'timestamp_in_ms': ms_, 'timestamp': secs, 'x-timestamp': secs, 'x-timestamp-ms': ms_, 'x-opt-enqueued-time': ms_,
                   'time': datetime.datetime(1970, 1, 1, tzinfo=UTC) + datetime.timedelta(seconds=secs), 'x-death': [{'time': datetime.datetime(1970, 1, 1, tzinfo=UTC) + datetime.timedelta(seconds=secs)}]}
            fb0 = frame.marshal(header.ContentHeader(0, 1, commands.Basic.Properties(timestamp=v)), 1)
            fb = frame.marshal(header.ContentHeader(0, 1, commands.Basic.Properties(timestamp=v, headers=hd_)), 1)
            b = fb0[7 + 14:7 + 22]
            if fb[-9:-1] != b:
                raise AssertionError('the timestamp property encodes differently next to a headers table')
            got = frame.unmarshal(fb)[2].properties.timestamp
            if decode.timestamp(b)[1] != got:
                raise AssertionError('property decodes differently from its 8 bytes')
        else:
            b = encode.timestamp(v)
        n, d = decode.timestamp(b)
        t = encode.encode_table_value({'t': v, 'l': [v]})
        out.append([b.hex(), n, d.isoformat(), str(d.tzinfo), d.utcoffset().total_seconds(), t.hex(), secs])
    except Exception as e:
        out.append(['err', repr(e)])
json.dump(out, sys.stdout)
'''


def oracle_c15(ctx):
    res = Result('c15.timezones')
    g = ctx.gen
    cases = []
    transitions = [1711846800, 1729994400, 1710054000, 1730613600, 1712412000 - 1800, 1727539200 - 1800, 954032400, 972781200,
                   68169600, 0, 1, 2 ** 31 - 1, 2 ** 31, 2 ** 32 - 1, 1163089810]
    for s in transitions:
        for d in (-3600, -1, 0, 1, 1800, 3599, 3600):
            if 0 <= s + d < 2 ** 32:
                cases.append([s + d, 0, 'naive', 0])
                cases.append([s + d, 0, 'struct', 0])
                cases.append([s + d, 0, 'struct_local', 0])
                cases.append([s + d, 0, 'struct_z', 0])
                cases.append([s + d, 999999, 'aware', g.r.choice([0, 60, -300, 330, 345, 765, 840, -660])])
    # wall-clock readings that do not exist in some zone (spring-forward gaps, a skipped day, a 15-minute step) and readings in
    # the first hours of 1970: a NAIVE value means that reading in UTC, whatever the local zone thinks of it - as a plain
    # datetime, as a datetime subclass, and as the timestamp property of a message
    import calendar as _cal
    walls = [(2024, 3, 31, 2, 30), (2024, 3, 10, 2, 30), (2024, 10, 6, 2, 15), (2024, 9, 29, 2, 50), (2024, 9, 29, 3, 0), (2011, 12, 30, 12, 0),
             (1986, 1, 1, 0, 7), (2021, 3, 28, 2, 30), (2024, 3, 31, 1, 59), (2024, 3, 31, 3, 0)]
    special = [_cal.timegm(w + (0,)) for w in walls] + [0, 1, 1800, 3599, 3600, 19800, 20700, 32400, 45900, 50399, 50400, 86399,
               63000000, 157000000, 820000000, 1530000000, 1700000000]      # Monrovia 1972, Bissau 1975, Danmarkshavn 1996, Sao Tome 2018
    for s_ in special:
        for kind_ in ('naive', 'naive_sub', 'aware_sub', 'props_naive', 'props_naive_sub', 'props_aware', 'props_struct'):
            cases.append([s_, g.r.choice([0, 0, 999999]), kind_, g.r.choice([0, 1, 60, -300, 345])])
    # fall-back transitions 2024 of five zones (UTC instants), the repeated hour on both sides, both folds
    for zi, s in enumerate([1729990800, 1730613600, 1712417400, 1712411100, 1730608260]):
        for d in (-7200, -3601, -3600, -1800, -1, 0, 1, 1799, 1800, 3599, 3600, 7200):
            cases.append([s + d, g.r.choice([0, 500000]), 'aware_zone', zi])
    for _ in range(3000 if ctx.thorough else 300):
        cases.append([g.instant_secs(), g.r.choice([0, 1, 999999]), g.r.choice(['naive', 'aware', 'struct']),
                      g.r.choice([0, 60, -300, 330, 345, 765, 840, -660])])
    # eight octets from a peer: the second form up to 2^32-1, the millisecond form above it up to the last representable instant
    top_ms = 253402300799999
    wire = [0, 1, 2 ** 31, 2 ** 32 - 1, 2 ** 32, 2 ** 32 + 1, 4294967296789, 8589934592001, 2 ** 43 + 1, 2 ** 44 - 1, 2 ** 45 + 7, 32503680000999,
            2 ** 47 - 1, 2 ** 47 + 123, top_ms, top_ms - 1, top_ms - 998, top_ms + 1, 2 ** 53 + 1, 2 ** 63, 2 ** 64 - 1, 1700000000123, 1700000000999]
    wire += [g.r.randrange(2 ** 32, top_ms) for _ in range(400 if ctx.thorough else 60)] + [g.r.randrange(2 ** 42, top_ms) | 1 for _ in range(60)]
    for w_ in wire:
        cases.append([w_, 0, 'wire', 0])
    outs = {}
    procs = []
    for tz in TZS:
        env = dict(os.environ, TZ=tz, PAMQP_REPO=real.REPO, PYTHONDONTWRITEBYTECODE='1')
        p = subprocess.Popen([sys.executable, '-B', '-c', C15_CHILD], stdin=subprocess.PIPE, stdout=subprocess.PIPE,
                             stderr=subprocess.PIPE, env=env)
        procs.append((tz, p))
    payload = json.dumps(cases).encode()
    for tz, p in procs:
        o, e = p.communicate(payload, timeout=300)
        if p.returncode != 0:
            res.violation('child under TZ=%s failed' % tz, {'fn': 'none', 'args': '()'}, 'runs', e.decode()[-400:])
            continue
        outs[tz] = json.loads(o)
    for i, c in enumerate(cases):
        secs, micro, kind, offmin = c
        res.case(json.dumps(c), trivial=False, tag=kind, sample={'case': c, 'tz_settings': len(outs)})
        for tz, o in outs.items():
            r = o[i]
            if r[0] == 'skip':
                continue
            if kind == 'wire':
                try:
                    want = [struct.pack('>Q', secs).hex(), 8, (EPOCH + (datetime.timedelta(seconds=secs) if secs <= 0xFFFFFFFF else datetime.timedelta(milliseconds=secs))).isoformat(), 0.0]
                except OverflowError:
                    want = ['err', 'ValueError']
                have = ['err', 'ValueError'] if r[0] == 'err' and want[0] == 'err' else (r[:2] if r[0] == 'err' else [r[0], r[1], r[2], r[4]])   # WHICH exception refuses is C05 / C09's business
                if have != want:
                    res.violation('TZ=%s: the eight octets %016x decode to another instant' % (tz, secs), {'fn': 'c15_case', 'args': pyrepr((tz, c))}, want, have)
                    break
                continue
            secs_eff = r[6] if (kind == 'struct_local' and len(r) > 6) else secs      # local fields read as UTC
            exp_bytes = struct.pack('>Q', secs_eff).hex()
            exp_iso = (EPOCH + datetime.timedelta(seconds=secs_eff)).isoformat()
            if r[0] == 'err' or r[0] != exp_bytes or r[1] != 8 or r[2] != exp_iso or r[4] != 0.0:
                res.violation('TZ=%s %s secs=%d' % (tz, kind, secs), {'fn': 'c15_case', 'args': pyrepr((tz, c))},
                              (exp_bytes, 8, exp_iso, 'UTC'), r[:5])
                break
            if kind != 'struct_local' and r != outs['UTC'][i]:
                res.violation('result differs between TZ=UTC and TZ=%s' % tz, {'fn': 'c15_case', 'args': pyrepr((tz, c))}, outs['UTC'][i][:5], r[:5])
                break
    res.notes.append('%d TZ settings x %d instants (child processes)' % (len(outs), len(cases)))
    return res


@replayer
def c15_case(tz, c):
    env = dict(os.environ, TZ=tz, PAMQP_REPO=real.REPO, PYTHONDONTWRITEBYTECODE='1')
    p = subprocess.run([sys.executable, '-B', '-c', C15_CHILD], input=json.dumps([c]).encode(), stdout=subprocess.PIPE, env=env)
    r = json.loads(p.stdout)[0]
    secs = c[0]
    if c[2] == 'wire':
        try:
            want = [struct.pack('>Q', secs).hex(), 8, (EPOCH + (datetime.timedelta(seconds=secs) if secs <= 0xFFFFFFFF else datetime.timedelta(milliseconds=secs))).isoformat(), 0.0]
        except OverflowError:
            want = ['err', 'ValueError']
        have = ['err', 'ValueError'] if r[0] == 'err' and want[0] == 'err' else (r[:2] if r[0] == 'err' else [r[0], r[1], r[2], r[4]])   # WHICH exception refuses is C05 / C09's business
        return None if have == want else (want, have)
    secs = c[0]
    exp = [struct.pack('>Q', secs).hex(), 8, (EPOCH + datetime.timedelta(seconds=secs)).isoformat()]
    return None if r[:3] == exp and r[4] == 0.0 else (exp, r[:5])


# =============================================================== C16 history / sharing

import threading  # noqa: E402


def mutable_members(obj, acc):
    if isinstance(obj, (dict, list, bytearray)):
        acc.append(obj)
        for x in (obj.values() if isinstance(obj, dict) else obj if isinstance(obj, list) else []):
            mutable_members(x, acc)
    elif isinstance(obj, (base.Frame, base.BasicProperties)):
        acc.append(obj)
        for a in obj.__slots__:
            mutable_members(getattr(obj, a, None), acc)
    elif isinstance(obj, header.ContentHeader):
        acc.append(obj)
        mutable_members(obj.properties, acc)


def c16_probe():
    """a fixed set of calls whose results any lasting trace of an earlier call would change"""
    out = [real.outcome(encode.encode_table_value, mk(), show=real.show_bytes) for mk in lanes.RECURRING]
    out.append(real.outcome(encode.table_integer, 40000, show=real.show_bytes))
    out.append(real.outcome(encode.table_integer, 3000000000, show=real.show_bytes))
    out.append(real.outcome(frame.marshal, commands.Queue.Declare(0, 'q', arguments={'x-message-ttl': 60000, 'x-max-length': 3000000000}), 1, show=real.show_bytes))
    out.append(real.outcome(frame.marshal, header.ContentHeader(0, 5, commands.Basic.Properties(headers={'n': 40000}, delivery_mode=2)), 1, show=real.show_bytes))
    out.append(real.outcome(frame.unmarshal, b'\x01\x00\x01\x00\x00\x00\x0d\x00\x3c\x00\x50\x00\x00\x00\x00\x00\x00\x00\x01\x00\xce', show=real.show_frame))
    out.append(real.outcome(lambda: [sorted(c.__slots__) == sorted(dict(c()).keys()) for c in (commands.Basic.Publish, commands.Connection.Start)], show=repr))
    out.append(real.outcome(lambda: [getattr(commands.Connection.StartOk(), a) for a in commands.Connection.StartOk.__slots__], show=repr))
    return out


@replayer
def c16_trace_case(kind, arg, legacy):
    """does ONE call (decoding `arg` / encoding `arg`) leave a trace in later, unrelated calls?"""
    with real.legacy(legacy):
        before = c16_probe()
        if kind == 'unmarshal':
            catching(frame.unmarshal, arg)
        elif kind == 'encvalue':
            catching(encode.encode_table_value, arg)
        elif kind == 'marshal':
            catching(frame.marshal, arg[0], arg[1])
        after = c16_probe()
        now = encode.DEPRECATED_RABBITMQ_SUPPORT
    if before != after:
        i = next(i for i, (a, b) in enumerate(zip(before, after)) if a != b)
        return ('probe %d: %s' % (i, before[i][:200]), after[i][:200])
    if now is not legacy and now != legacy:
        return ('switch still %r' % legacy, repr(now))
    return None


def _tb_len(e):
    n, tb = 0, e.__traceback__
    while tb is not None:
        n += 1
        tb = tb.tb_next
    return n


@replayer
def c16_failures_case(kind, arg):
    """two failing calls hand out two separate exception objects: the second one knows nothing of the first (no shared
    identity, traceback, context, notes), and keeps no reference to the first call's input"""
    import gc
    import weakref
    def call():
        try:
            if kind == 'unmarshal':
                frame.unmarshal(bytes(arg))
            elif kind == 'encvalue':
                encode.encode_table_value(arg)
            elif kind == 'decvalue':
                decode.embedded_value(bytes(arg))
            else:
                frame.marshal(arg, 1)
        except Exception as e:  # noqa
            return e
        return None
    e1 = call()
    if e1 is None:
        return None
    d1 = _tb_len(e1)
    try:
        e1.add_note('verif note')
    except Exception:  # noqa
        pass
    try:
        raise KeyError('an unrelated error being handled')
    except KeyError:
        e_ctx = call()
    e2 = call()
    e3 = call()
    if e2 is None or e3 is None:
        return ('fails every time', 'succeeded later')
    if e2 is e1 or e3 is e2 or e_ctx is e1:
        return ('a new exception object for every failure', 'the same object was raised again')
    if type(e2) is not type(e1) or repr(e2.args) != repr(e1.args):
        return ((type(e1).__name__, e1.args), (type(e2).__name__, e2.args))
    if _tb_len(e2) != d1 or _tb_len(e3) != d1:
        return ('traceback of %d entries each time' % d1, (_tb_len(e2), _tb_len(e3)))
    c_ = e2.__context__
    seen_ = 0
    while c_ is not None and seen_ < 20:
        if isinstance(c_, KeyError) and c_.args == ('an unrelated error being handled',):
            return ('no stale __context__ from an earlier failure', repr(c_))
        c_ = c_.__context__
        seen_ += 1
    if getattr(e2, '__notes__', None):
        return ('no notes from an earlier failure', e2.__notes__)
    return None


@replayer
def c16_decimal_scale_case(pairs):
    """field values decoded one after the other in one process: each Decimal has exactly the scale and digits of its own bytes"""
    for scale, unscaled in pairs:
        data = b'D' + bytes([scale]) + struct.pack('>i', unscaled)
        for wrap in (lambda d: d, lambda d: b'F' + struct.pack('>I', len(d) + 2) + b'\x01k' + d, lambda d: b'A' + struct.pack('>I', len(d)) + d):
            k, r = catching(decode.embedded_value, wrap(data))
            if k != 'ok':
                return ('decodes', repr(r))
            v = r[1]
            while isinstance(v, (dict, list)):
                v = v['k'] if isinstance(v, dict) else v[0]
            want = D((1 if unscaled < 0 else 0, tuple(int(c_) for c_ in str(abs(unscaled))), -scale))
            if not isinstance(v, D) or v.as_tuple() != want.as_tuple():
                return ('D scale %d unscaled %d decodes to %r' % (scale, unscaled, want), repr(v))
            k2, b2 = catching(encode.encode_table_value, v)
            if k2 != 'ok' or b2 != data:
                return ('re-encoding gives the same 6 octets %s' % data.hex(), b2.hex() if k2 == 'ok' else repr(b2))
    return None


def c16_traces(ctx, res):
    C = commands
    for pairs in ([(1, 10), (2, 100), (0, 1), (3, 1000), (1, 10)], [(0, 5), (3, 5000), (1, 50)], [(2, 150), (1, 15), (3, 1500), (2, 150)],
                  [(0, 0), (2, 0), (5, 0), (0, 0)], [(1, -10), (2, -100), (0, -1)]):
        res.case('decimal scales %r' % (pairs,), tag='equal decimals of different scale')
        k, bad = catching(c16_decimal_scale_case, pairs)
        if k != 'ok' or bad:
            res.violation('a Decimal decoded after an equal one of another scale', {'fn': 'c16_decimal_scale_case', 'args': pyrepr((pairs,))},
                          bad[0] if k == 'ok' else 'oracle runs', bad[1] if k == 'ok' else repr(bad))
    fails = [('unmarshal', b'\x01\x00\x01\x00\x00\x00\x10\x00'), ('unmarshal', b'\x01\x00\x01\x00\x00'), ('unmarshal', b'\x08\x00\x00\x00\x00\x00\x00\x00'),
             ('unmarshal', b'\x03\x00\x01\x00\x00\x00\x01ab'), ('unmarshal', b'\x01\x00\x01\x00\x00\x00\x04\xff\xff\xff\xff\xce'),
             ('unmarshal', b'AMQP\x00'), ('unmarshal', b''), ('encvalue', 2 ** 70), ('encvalue', b'raw'), ('encvalue', {'k': object()}), ('decvalue', b'Z'),
             ('decvalue', b'S\x00\x00\x00\x09ab'), ('marshal', object())]
    for kind, arg in fails:
        res.case('failures %s %r' % (kind, arg if not isinstance(arg, dict) else 'dict'), tag='separate failures')
        if isinstance(arg, (dict,)) or type(arg) is object:
            k, bad = catching(c16_failures_case, kind, arg)
            rep = {'fn': 'none', 'args': '()'}
        else:
            k, bad = catching(c16_failures_case, kind, arg)
            rep = {'fn': 'c16_failures_case', 'args': pyrepr((kind, arg))}
        if k != 'ok' or bad:
            res.violation('two failing %s calls share state through their exception' % kind, rep, bad[0] if k == 'ok' else 'oracle runs', bad[1] if k == 'ok' else repr(bad))
    # the interpreter's warning machinery is process state too: library calls leave it as they found it
    import warnings as _w
    filters_before = list(_w.filters)
    rec = frame.marshal(C.Basic.Recover(True), 1)
    rec_async = b'\x01\x00\x01\x00\x00\x00\x05\x00\x3c\x00\x64\x01\xce'
    def worker():
        for _ in range(150):
            catching(frame.unmarshal, rec_async)
            catching(frame.unmarshal, rec)
            catching(C.Basic.RecoverAsync)
    ths = [threading.Thread(target=worker) for _ in range(6)]
    sw = sys.getswitchinterval()
    sys.setswitchinterval(1e-6)
    try:
        for t in ths:
            t.start()
        for t in ths:
            t.join()
    finally:
        sys.setswitchinterval(sw)
    res.case('warning filters after concurrent decodes', tag='warnings state')
    if list(_w.filters) != filters_before:
        res.violation('library calls from several threads changed the process-wide warning filters',
                      {'fn': 'none', 'args': '()'}, repr(filters_before)[:300], repr(list(_w.filters))[:300])
        _w.filters[:] = filters_before
    g = ctx.gen
    C = commands
    n = 0
    # every product x version a peer may announce, in both handshake directions
    for prod in lanes.PRODUCTS:
        for ver in lanes.VERSIONS:
            if not ctx.thorough and g.r.random() < 0.5 and prod != 'RabbitMQ':
                continue
            peer = {'product': prod, 'version': ver, 'platform': 'Erlang/OTP 26', 'capabilities': {'publisher_confirms': True, 'basic.nack': True},
                    'information': 'Licensed under the MPL 2.0.', 'cluster_name': 'rabbit@h'}
            for f in (C.Connection.Start(0, 9, peer, 'PLAIN AMQPLAIN', 'en_US'), C.Connection.StartOk(peer, 'PLAIN', '\x00g\x00g', 'en_US')):
                k, data = catching(frame.marshal, f, 0)
                if k != 'ok':
                    continue
                for legacy in ((False, True) if n % 7 == 0 else (False,)):
                    res.case('trace %s %s %s %d' % (f.name, prod, ver, legacy), tag='trace.handshake', sample={'product': prod, 'version': ver})
                    bad = c16_trace_case('unmarshal', data, legacy)
                    if bad:
                        res.violation('decoding %s from %r %r leaves a trace in later calls' % (f.name, prod, ver),
                                      {'fn': 'c16_trace_case', 'args': pyrepr(('unmarshal', data, legacy))}, bad[0], bad[1])
                n += 1
    # realistic and random frames, decoded and encoded
    for _ in range(1500 if ctx.thorough else 250):
        f, ch = lanes.realistic_frame(ctx) if g.r.random() < 0.6 else lanes.random_frame(ctx)
        k, data = catching(frame.marshal, f, ch)
        if k != 'ok':
            continue
        legacy = g.r.random() < 0.3
        res.case('trace %s' % data.hex()[:400], tag='trace.frames')
        bad = c16_trace_case('unmarshal', data, legacy)
        if bad:
            res.violation('decoding a %s frame leaves a trace in later calls' % lanes.kind_of(f),
                          {'fn': 'c16_trace_case', 'args': pyrepr(('unmarshal', data, legacy))}, bad[0], bad[1])
    for _ in range(600 if ctx.thorough else 120):
        v = g.value_ok(2, 3) if g.r.random() < 0.7 else g.r.choice(lanes.RECURRING)()
        legacy = g.r.random() < 0.3
        res.case('trace enc %s' % pyrepr(v)[:400], tag='trace.values')
        bad = c16_trace_case('encvalue', v, legacy)
        if bad:
            res.violation('encoding a value leaves a trace in later calls', {'fn': 'c16_trace_case', 'args': pyrepr(('encvalue', v, legacy))}, bad[0], bad[1])


def oracle_c16(ctx):
    res = Result('c16.history')
    g = ctx.gen
    # (1) per-call results in a long history == results of the same calls made first thing in a
    #     fresh interpreter state (computed here by re-running each call in isolation afterwards)
    ops = lanes.api_ops(ctx, 3000 if ctx.thorough else 400)
    old = encode.DEPRECATED_RABBITMQ_SUPPORT
    encode.DEPRECATED_RABBITMQ_SUPPORT = False
    try:
        flag = False
        history = []
        for line, thunk, desc in ops:
            out = thunk()
            history.append((line, thunk, out if isinstance(out, str) else 'ok', flag))
            if line.startswith('api.toggle'):
                flag = {'d': True, '1': True, '0': False}[line.split(' ')[1]]
        for i, (line, thunk, out, flag_before) in enumerate(history):
            if line.startswith('api.toggle'):
                continue
            encode.DEPRECATED_RABBITMQ_SUPPORT = flag_before
            again = thunk()
            res.case('%d %s' % (i, line[:300]), tag=line.split(' ')[0], sample={'op': line[:100]})
            if again != out:
                res.violation('call %d gives a different result out of its history' % i,
                              {'fn': 'none', 'args': '()', 'line': line[:500]}, out[:300], again[:300])
    finally:
        encode.DEPRECATED_RABBITMQ_SUPPORT = old
    c16_fresh_processes(ctx, res, g.r.randrange(1 << 30), 1200 if ctx.thorough else 300)
    c16_first_use(ctx, res)
    env_snapshots(res, 'rt')       # the same corpus of frames, encoded and decoded under other interpreter flags / environments
    # (after the history: the probes below encode the recurring values over and over, which would use up any
    # once-per-process behaviour the history comparison is there to see)
    c16_traces(ctx, res)
    # (2) objects returned by separate calls never share mutable state
    made = []
    for key, cls in commands.INDEX_MAPPING.items():
        made += [cls(), cls()]
    made += [header.ContentHeader(), header.ContentHeader(), commands.Basic.Properties(), commands.Basic.Properties()]
    frames = valid_frames(ctx, 200 if ctx.thorough else 60)
    for f, ch, b in frames:
        k, r = catching(frame.unmarshal, b)
        k2, r2 = catching(frame.unmarshal, b)
        if k == 'ok' and k2 == 'ok':
            made += [r[2], r2[2]]
    seen = {}
    for idx, o in enumerate(made):
        acc = []
        mutable_members(o, acc)
        for m in acc:
            res.case('identity %d %d' % (idx, id(m)), tag='identity')
            if id(m) in seen and seen[id(m)] != idx:
                res.violation('objects %d and %d share a mutable %s' % (seen[id(m)], idx, type(m).__name__),
                              {'fn': 'none', 'args': '()'}, 'disjoint', type(made[idx]).__name__)
            seen[id(m)] = idx
    # (3) mutating one decoded/constructed object leaves later defaults and later decodes unchanged
    for key, cls in commands.INDEX_MAPPING.items():
        a = cls()
        before = [copy.deepcopy(getattr(cls(), s)) for s in cls.__slots__]
        for s in cls.__slots__:
            v = getattr(a, s)
            if isinstance(v, dict):
                v['poison'] = 1
            elif isinstance(v, list):
                v.append('poison')
        after = [getattr(cls(), s) for s in cls.__slots__]
        res.case('defaults ' + cls.name, tag='defaults')
        if before != after:
            res.violation('mutating an instance of %s changed a later default' % cls.name, {'fn': 'none', 'args': '()'}, before, after)
    h = header.ContentHeader()
    h.properties.headers = {'x': 1}
    h.properties.content_type = 'poison'
    res.case('header defaults', tag='defaults')
    if header.ContentHeader().properties.content_type is not None or header.ContentHeader().properties.headers is not None:
        res.violation('ContentHeader default properties are shared', {'fn': 'none', 'args': '()'})
    # (4) threads: same calls concurrently give the same results (no toggles inside)
    work = [(line, thunk) for line, thunk, desc in lanes.api_ops(ctx, 600 if ctx.thorough else 150) if not line.startswith('api.toggle')]
    expect = [t() for _, t in work]
    results = {}
    sw = sys.getswitchinterval()
    sys.setswitchinterval(1e-6)
    try:
        def run(tid):
            results[tid] = [t() for _, t in work]
        ths = [threading.Thread(target=run, args=(i,)) for i in range(8)]
        for t in ths:
            t.start()
        for t in ths:
            t.join()
    finally:
        sys.setswitchinterval(sw)
    for tid, outs in results.items():
        for i, (o, e) in enumerate(zip(outs, expect)):
            res.case('thread %d %d' % (tid, i), tag='threaded')
            if o != e:
                res.violation('thread %d call %d differs from the sequential result' % (tid, i),
                              {'fn': 'none', 'args': '()', 'line': work[i][0][:500]}, str(e)[:300], str(o)[:300])
    return res


@replayer
def hang_case(name, args):
    """a call that did not return: module.function of pamqp + positional arguments"""
    mod, _, fn = name.partition('.')
    target = getattr({'frame': frame, 'decode': decode, 'encode': encode, 'header': header}.get(mod), fn, None)
    if target is None:
        return ('replayable call', name)
    try:
        with real.deadline(10):
            try:
                target(*args)
            except real.Hang:
                raise
            except Exception:  # noqa
                pass
    except real.Hang:
        return ('returns or raises within 10 s', 'still running')
    return None


def hang_replay():
    """replay descriptor of the first recorded hanging call whose arguments can be written down"""
    for name, args in real.HANG_CALLS:
        try:
            r = pyrepr(tuple(args))
            pyeval(r)
            return {'fn': 'hang_case', 'args': pyrepr((name, tuple(args)))}
        except Exception:  # noqa
            continue
    return {'fn': 'none', 'args': '()'}


C16_CHILD = r"""
import sys, json, os
sys.path.insert(0, os.environ['VERIF_TOOLS'])
import gen, lanes, real
class Ctx: pass
spec = json.load(sys.stdin)
import spec_tables
ctx = Ctx(); ctx.thorough = False; ctx.generated = dict(json.load(open(spec['generated'])), catalogue=spec_tables.catalogue()); ctx.literals = []
gen.MINED_STRINGS[:] = spec.get('mined', [])
ctx.gen = gen.Gen(spec['seed'])
ops = lanes.api_ops(ctx, spec['n'])
ops += [o[:3] for o in lanes.recurring_ops()]
out = {}
for i in spec['order']:
    line, thunk, desc = ops[i]
    if line.startswith('api.toggle'):
        continue
    real.encode.DEPRECATED_RABBITMQ_SUPPORT = spec['flags'][i]
    o = thunk()
    out[i] = o if isinstance(o, str) else 'ok'
json.dump({'lines': [o[0][:200] for o in ops], 'out': out}, sys.stdout)
"""


C16_FIRST_CHILD = r"""
import sys, json, os
sys.path.insert(0, os.environ['VERIF_TOOLS'])
import real, lanes
from ocommon import pyeval
from real import frame, commands
spec = json.load(sys.stdin)
out = []
for key, vals_s, bad_i, bad_s, mode in spec:
    cls = commands.INDEX_MAPPING[key]
    vals = pyeval(vals_s)
    good = real.make_method(cls, vals)
    first = 'none'
    if mode == 'marshal-fails-first':
        bad = list(vals); bad[bad_i] = pyeval(bad_s)
        try:
            frame.marshal(real.make_method(cls, bad), 1); first = 'accepted'
        except Exception as e:
            first = 'err ' + type(e).__name__
    elif mode == 'unmarshal-fails-first':
        b = frame.marshal(good, 1)
        cut = b[:7][:3] + (len(b) - 8 - bad_i - 1).to_bytes(4, 'big') + b[7:len(b) - 1 - bad_i - 1] + b'\xce'
        try:
            frame.unmarshal(cut); first = 'accepted'
        except Exception as e:
            first = 'err ' + type(e).__name__
    try:
        b = frame.marshal(good, 1); m = b.hex()
    except Exception as e:
        b = None; m = 'err ' + type(e).__name__
    try:
        u = lanes.frame_sx(frame.unmarshal(b)[2]) if b is not None else 'skip'
    except Exception as e:
        u = 'err ' + type(e).__name__
    out.append([first, m, u])
json.dump(out, sys.stdout)
"""


C16_RACE_CHILD = r"""
import sys, json, os, threading
sys.path.insert(0, os.environ['PAMQP_REPO'])
sys.setswitchinterval(1e-6)
from pamqp import frame, commands, header, body
import datetime
C = commands
ts = datetime.datetime(2024, 1, 2, tzinfo=datetime.timezone.utc)
corpus = [header.ContentHeader(0, 5, C.Basic.Properties(content_type='a', content_encoding='b', headers={'k': 1}, delivery_mode=2, priority=1, correlation_id='c',
                                                         reply_to='r', expiration='e', message_id='m', timestamp=ts, message_type='t', user_id='u', app_id='p')),
          C.Queue.Declare(0, 'q', False, True, False, False, False, {'a': 40000}), C.Basic.Publish(0, 'x', 'rk', True, False), C.Connection.Tune(1, 2, 3),
          C.Basic.Deliver('ct', 7, True, 'ex', 'rk'), body.ContentBody(b'abc')]
wire = []
import struct
def enc(f):
    return frame.marshal(f, 1)
n_threads = 8
barrier = threading.Barrier(n_threads)
results = [None] * n_threads
# the wire forms are built by hand-free means only inside the threads: the very first encode AND decode of each kind race
def show(g):
    if hasattr(g, 'properties'):
        return [type(g).__name__, g.body_size, sorted((k, repr(v)) for k, v in dict(g.properties).items())]
    if hasattr(type(g), 'index'):
        return [g.name, [(k, repr(v)) for k, v in g]]
    return [type(g).__name__, repr(getattr(g, 'value', None))]
def work(i):
    barrier.wait()
    out = []
    for f in corpus:
        try:
            b = enc(f)
            out.append([b.hex(), show(frame.unmarshal(b)[2])])
        except Exception as e:
            out.append(['err ' + type(e).__name__, None])
    results[i] = out
ths = [threading.Thread(target=work, args=(i,)) for i in range(n_threads)]
for t in ths: t.start()
for t in ths: t.join()
after = []
for f in corpus:
    try:
        b = enc(f)
        after.append([b.hex(), show(frame.unmarshal(b)[2])])
    except Exception as e:
        after.append(['err ' + type(e).__name__, None])
json.dump({'threads': results, 'after': after}, sys.stdout)
"""


@replayer
def c16_race_case(attempts):
    """in a fresh interpreter the very first encodes and decodes of several frame kinds happen in eight threads at once; every
    thread, and a sequential pass afterwards, must give what a plain sequential interpreter gives"""
    env = dict(os.environ, PAMQP_REPO=real.REPO, PYTHONDONTWRITEBYTECODE='1')
    base = None
    for a in range(attempts):
        p = subprocess.run([sys.executable, '-B', '-c', C16_RACE_CHILD], stdout=subprocess.PIPE, stderr=subprocess.PIPE, env=env, timeout=120)
        if p.returncode != 0:
            return ('child runs', p.stderr.decode('utf-8', 'replace')[-300:])
        r = json.loads(p.stdout)
        base = base or r['after']
        for i, t in enumerate(r['threads']):
            if t != r['after'] or t != base:
                j = next(j for j in range(len(t)) if t[j] != base[j]) if t != base else 0
                return ('attempt %d thread %d frame %d: %s' % (a, i, j, json.dumps(base[j])[:200]), json.dumps(t[j])[:200])
        if r['after'] != base:
            return ('the sequential pass after the threads', 'differs between attempts')
    return None


def c16_first_use(ctx, res):
    res.case('concurrent first use', tag='first uses race')
    k, bad = catching(c16_race_case, 12 if ctx.thorough else 4)
    if k != 'ok' or bad:
        res.violation('the first uses of a fresh interpreter, made concurrently, give different results', {'fn': 'c16_race_case', 'args': pyrepr((8,))},
                      bad[0] if k == 'ok' else 'oracle runs', bad[1] if k == 'ok' else repr(bad))
    """the FIRST use of a class in a process fails (a refused value / a payload cut short inside a complete envelope);
    the next, valid, use must give what it gives in any other process"""
    g = ctx.gen
    metas = [m for m in ctx.generated['catalogue']['methods'] if m['args']]
    if not ctx.thorough:
        metas = g.r.sample(metas, 24)
    env = dict(os.environ, VERIF_TOOLS=os.path.dirname(os.path.abspath(__file__)), PAMQP_REPO=real.REPO, PYTHONDONTWRITEBYTECODE='1')
    for mode in ('marshal-fails-first', 'unmarshal-fails-first', 'nothing-first'):
        spec = []
        for meta in metas:
            cls = commands.INDEX_MAPPING[meta['key']]
            vals = lanes.method_vals_ok(ctx, cls, meta)
            i = g.r.randrange(len(vals))
            spec.append([meta['key'], pyrepr(vals), i, pyrepr(g.r.choice([object(), b'raw-bytes', 2 ** 70, 1.5j, [object()]])), mode])
        # expected: this (warm) process
        expect = []
        for key, vals_s, bad_i, bad_s, _ in spec:
            cls = commands.INDEX_MAPPING[key]
            k, b = catching(frame.marshal, real.make_method(cls, pyeval(vals_s)), 1)
            if k != 'ok':
                expect.append(None)
                continue
            k2, r = catching(frame.unmarshal, b)
            expect.append([b.hex(), lanes.frame_sx(r[2]) if k2 == 'ok' else 'err'])
        p = subprocess.run([sys.executable, '-B', '-c', C16_FIRST_CHILD], input=json.dumps(spec).encode(), stdout=subprocess.PIPE, stderr=subprocess.PIPE, env=env, timeout=120)
        if p.returncode != 0:
            res.notes.append('first-use child failed: ' + p.stderr.decode('utf-8', 'replace')[-300:])
            continue
        got = json.loads(p.stdout)
        for sp, e, o in zip(spec, expect, got):
            res.case('first use %s %d' % (mode, sp[0]), tag='first use ' + mode)
            if e is None:
                continue
            if o[1] != e[0] or o[2] != e[1]:
                res.violation('%s: after a first use of the class that %s, a valid frame is encoded / decoded differently'
                              % (commands.INDEX_MAPPING[sp[0]].name, mode), {'fn': 'c16_first_use_case', 'args': pyrepr((sp,))},
                              '%s / %s' % (e[0][:120], e[1][:120]), '%s / %s (first: %s)' % (o[1][:120], o[2][:120], o[0]))
                break


@replayer
def c16_first_use_case(sp):
    env = dict(os.environ, VERIF_TOOLS=os.path.dirname(os.path.abspath(__file__)), PAMQP_REPO=real.REPO, PYTHONDONTWRITEBYTECODE='1')
    outs = {}
    for mode in (sp[4], 'nothing-first'):
        p = subprocess.run([sys.executable, '-B', '-c', C16_FIRST_CHILD], input=json.dumps([sp[:4] + [mode]]).encode(), stdout=subprocess.PIPE, stderr=subprocess.PIPE, env=env, timeout=60)
        if p.returncode != 0:
            return ('child runs', p.stderr.decode('utf-8', 'replace')[-300:])
        outs[mode] = json.loads(p.stdout)[0]
    a, b = outs[sp[4]], outs['nothing-first']
    return None if a[1:] == b[1:] else ('%s / %s' % (b[1][:120], b[2][:120]), '%s / %s (first: %s)' % (a[1][:120], a[2][:120], a[0]))


def c16_fresh_processes(ctx, res, seed, n, procs=3):
    """the same calls, each with the switch it saw, in FRESH interpreters and in a different order:
    results must equal the ones obtained inside the long history"""
    import random
    gen_path = os.path.join(os.path.dirname(os.path.abspath(__file__)), '..', 'lean', 'Pamqp', 'Generated', 'generated.json')
    sub = type('C', (), {})()
    sub.thorough, sub.generated, sub.literals = False, ctx.generated, []
    sub.gen = G.Gen(seed)
    ops = lanes.api_ops(sub, n)
    old = encode.DEPRECATED_RABBITMQ_SUPPORT
    encode.DEPRECATED_RABBITMQ_SUPPORT = False
    flags, outs = [], []
    try:
        flag = False
        for line, thunk, desc in ops:
            flags.append(flag)
            o = thunk()
            outs.append(o if isinstance(o, str) else 'ok')
            if line.startswith('api.toggle'):
                flag = {'d': True, '1': True, '0': False}[line.split(' ')[1]]
        for line, thunk, desc, fl in lanes.recurring_ops():
            ops.append((line, thunk, desc))
            flags.append(fl)
            encode.DEPRECATED_RABBITMQ_SUPPORT = fl
            o = thunk()
            outs.append(o if isinstance(o, str) else 'ok')
    finally:
        encode.DEPRECATED_RABBITMQ_SUPPORT = old
    rnd = random.Random(seed)
    children = []
    orders = []
    for k in range(procs + 1):
        order = list(range(len(ops)))
        rnd.shuffle(order)
        if k == procs:
            order = list(reversed(orders[0]))      # one child runs exactly the reverse of another
        orders.append(order)
        env = dict(os.environ, VERIF_TOOLS=os.path.dirname(os.path.abspath(__file__)), PAMQP_REPO=real.REPO, PYTHONDONTWRITEBYTECODE='1')
        p = subprocess.Popen([sys.executable, '-B', '-c', C16_CHILD], stdin=subprocess.PIPE, stdout=subprocess.PIPE, stderr=subprocess.PIPE, env=env)
        p.stdin.write(json.dumps({'seed': seed, 'n': n, 'order': order, 'flags': flags, 'generated': gen_path, 'mined': list(G.MINED_STRINGS)}).encode())
        p.stdin.close()
        children.append(p)
    per_child = []
    for k, p in enumerate(children):
        o = p.stdout.read()
        e = p.stderr.read()
        p.wait()
        if p.returncode != 0:
            res.notes.append('fresh-interpreter child %d failed: %s' % (k, e.decode()[-300:]))
            continue
        r = json.loads(o)
        per_child.append(r['out'])
        if r['lines'] != [x[0][:200] for x in ops]:
            res.notes.append('fresh-interpreter child %d generated a different operation list (generator not reproducible)' % k)
            continue
        for i_s, got in r['out'].items():
            i = int(i_s)
            res.case('fresh %d %d' % (k, i), tag='fresh interpreter')
            if got != outs[i]:
                res.violation('call %d gives a different result in a fresh interpreter (switch=%s) than inside the history' % (i, flags[i]),
                              {'fn': 'none', 'args': '()', 'line': ops[i][0][:500], 'switch': flags[i]}, got[:300], outs[i][:300])
                return
    # ... and the fresh interpreters among themselves (this process may be uniformly affected by what it ran before)
    for a in range(len(per_child)):
        for b in range(a + 1, len(per_child)):
            for i_s, got in per_child[a].items():
                if i_s in per_child[b] and per_child[b][i_s] != got:
                    i = int(i_s)
                    res.violation('call %d (switch=%s) gives different results in two fresh interpreters that ran the same calls in different orders' % (i, flags[i]),
                                  {'fn': 'none', 'args': '()', 'line': ops[i][0][:500], 'switch': flags[i]}, got[:300], per_child[b][i_s][:300])
                    return


def replay(rep):
    """re-run one recorded oracle case; -> None (holds) or (expected, actual)"""
    fn = REPLAYS.get(rep.get('fn'))
    if fn is None:
        return ('replayable case', 'no replayer for %r' % rep.get('fn'))
    args = pyeval(rep['args'])
    old = real.LOGMODE, real.DECMODE
    real.LOGMODE = rep.get('logging', 'default')
    real.DECMODE = rep.get('decimal_context', 'default')
    try:
        return fn(*args)
    finally:
        real.LOGMODE, real.DECMODE = old
        real.tick_logging()
