"""Line protocol between the Python harness and the Lean model driver (Tie B).

Values are written in a small S-expression syntax that is NOT AMQP, so the serialisation
cannot mask a codec error:

  N                      None                 O              any object pamqp has no case for
  (b 1)                  bool                 (i -5)         int
  (f 400921f9f01b866e)   float, binary64 bits (d 1 15 -1)    Decimal (sign, coefficient, exponent)
  (ds 1)                 Decimal NaN / (ds 0) Infinity
  (s 104 233 128512)     str, code points     (y 00ff) bytes (a 00ff) bytearray   ('-' = empty)
  (t 1163089810000000 n) datetime: wall-clock microseconds since the epoch read as UTC, utc offset
                         in seconds or n for naive        (st 1163089810) struct_time (its timegm)
  (l v ...)              list                 (m (s ..) v (s ..) v ...) dict in insertion order
"""
import calendar
import datetime
import decimal
import os
import re
import struct
import subprocess
import time

HERE = os.path.dirname(os.path.abspath(__file__))
ROOT = os.path.dirname(HERE)
DRIVER = os.path.join(ROOT, 'lean', '.lake', 'build', 'bin', 'driver')
EPOCH_NAIVE = datetime.datetime(1970, 1, 1)
US = datetime.timedelta(microseconds=1)


class Unrepresentable(Exception):
    """the value has no counterpart in the model's PyVal (e.g. a dict with a non-str key)"""


def hexb(b):
    return bytes(b).hex() or '-'


def sx(v):
    """Python value -> S-expression"""
    if v is None:
        return 'N'
    if v is True:
        return '(b 1)'
    if v is False:
        return '(b 0)'
    t = type(v)
    if t is int:
        return '(i %d)' % v
    if t is float:
        return '(f %x)' % struct.unpack('>Q', struct.pack('>d', v))[0]
    if t is decimal.Decimal:
        sign, digits, exp = v.as_tuple()
        if not isinstance(exp, int):
            if exp == 'F':
                return '(ds 0)'
            if exp == 'n':
                return '(ds 1)'
            raise Unrepresentable('signalling NaN')
        return '(d %d %d %d)' % (sign, int(''.join(map(str, digits)) or '0'), exp)
    if t is str:
        return '(s' + ''.join(' %d' % ord(c) for c in v) + ')'
    if t is bytes:
        return '(y %s)' % hexb(v)
    if t is bytearray:
        return '(a %s)' % hexb(v)
    if t is datetime.datetime:
        micros = (v.replace(tzinfo=None) - EPOCH_NAIVE) // US
        if v.tzinfo is None or v.tzinfo.utcoffset(v) is None:
            return '(t %d n)' % micros
        off = v.tzinfo.utcoffset(v)
        if off.microseconds:
            raise Unrepresentable('sub-second utc offset')
        return '(t %d %d)' % (micros, off.days * 86400 + off.seconds)
    if t is time.struct_time:
        return '(st %d)' % calendar.timegm(v)
    if t is list:
        return '(l' + ''.join(' ' + sx(x) for x in v) + ')'
    if t is dict:
        parts = []
        for k, x in v.items():
            if type(k) is not str:
                raise Unrepresentable('non-str dict key')
            parts.append(' ' + sx(k) + ' ' + sx(x))
        return '(m' + ''.join(parts) + ')'
    return 'O'


_NAN_RE = re.compile(r'\(f (7ff|fff)([0-9a-f]{13})\)')


def canon(s):
    """collapse all NaN patterns: NaN payload transport is CPython/platform behaviour"""
    def rep(m):
        return '(f nan)' if int(m.group(2), 16) != 0 else m.group(0)
    return _NAN_RE.sub(rep, s)


ERR_NAMES = [
    ('UnmarshalingException', 'UnmarshalingException'),
]


def err_name(e):
    """exception instance -> the model's PyErr name"""
    import struct as _s
    from pamqp import exceptions as _x
    if isinstance(e, _x.UnmarshalingException):
        return 'UnmarshalingException'
    if isinstance(e, _s.error):
        return 'struct.error'
    if isinstance(e, UnicodeDecodeError):
        return 'UnicodeDecodeError'
    if isinstance(e, UnicodeEncodeError):
        return 'UnicodeEncodeError'
    if isinstance(e, TypeError):
        return 'TypeError'
    if isinstance(e, OverflowError):
        return 'OverflowError'
    if isinstance(e, KeyError):
        return 'KeyError'
    if isinstance(e, ValueError):
        return 'ValueError'
    return 'OtherError'


def frame_sx(f):
    """pamqp frame object -> S-expression (attribute values read with getattr)"""
    from pamqp import base, body, header, heartbeat
    if isinstance(f, header.ProtocolHeader):
        return '(P %s %s %s)' % (sx(f.major_version), sx(f.minor_version), sx(f.revision))
    if isinstance(f, base.Frame):
        return '(M %d' % f.index + ''.join(' ' + sx(getattr(f, a)) for a in f.__slots__) + ')'
    if isinstance(f, header.ContentHeader):
        p = f.properties
        return '(H %s %s %s' % (sx(f.class_id), sx(f.weight), sx(f.body_size)) + \
            ''.join(' ' + sx(getattr(p, a)) for a in p.__slots__) + ')'
    if isinstance(f, body.ContentBody):
        return '(B %s)' % sx(f.value)
    if isinstance(f, heartbeat.Heartbeat):
        return 'HB'
    return 'X'


class DriverError(Exception):
    pass


def run_driver(lines, timeout=600):
    """Send all lines to a fresh driver process; return the list of answers (same length)."""
    if not lines:
        return []
    data = ('\n'.join(lines) + '\n').encode('ascii')
    if not os.path.exists(DRIVER):
        raise DriverError('driver executable missing: %s (run ./setup.sh)' % DRIVER)
    p = subprocess.run([DRIVER], input=data, stdout=subprocess.PIPE, stderr=subprocess.PIPE, timeout=timeout)
    if p.returncode != 0:
        raise DriverError('driver exited %d: %s' % (p.returncode, p.stderr.decode()[:500]))
    out = p.stdout.decode('ascii').split('\n')
    if out and out[-1] == '':
        out.pop()
    if len(out) != len(lines):
        raise DriverError('driver answered %d lines for %d operations' % (len(out), len(lines)))
    return out
