#!/usr/bin/env python3
"""One-time (re)generator of lean/Pamqp/Spec/Tables.lean from the hand transcription in
spec_tables.py.  The Lean file is committed; `--check` verifies that it still matches."""
import os
import sys

HERE = os.path.dirname(os.path.abspath(__file__))
sys.path.insert(0, HERE)
import spec_tables as S  # noqa: E402
from translate import lstr, lint, llist, lopt, lty  # noqa: E402

OUT = os.path.join(os.path.dirname(HERE), 'lean', 'Pamqp', 'Spec', 'Tables.lean')


def lit(d, ty):
    if ty == 'table':
        return '.emptyDict'
    if d is None:
        return '.none'
    if isinstance(d, bool):
        return '(.bool %s)' % ('true' if d else 'false')
    if isinstance(d, int):
        return '(.int %s)' % lint(d)
    if isinstance(d, str):
        return '(.str %s)' % lstr(d)
    raise ValueError(d)


def doc(d, ty):
    """how the class documentation spells the default"""
    if ty == 'table':
        return '{}'
    if d is None:
        return None
    if isinstance(d, bool):
        return 'True' if d else 'False'
    if isinstance(d, int):
        return str(d)
    return "''" if d == '' else d


def rule(c, domain_of):
    k = c[0]
    if k == 'eq':
        return ('.mustEqInt %s %s' % (lstr(c[1]), lint(c[2]))) if isinstance(c[2], int) else \
            ('.mustEqStr %s %s' % (lstr(c[1]), lstr(c[2])))
    if k == 'eq_bare':
        return '.mustEqStrBare %s %s' % (lstr(c[1]), lstr(c[2]))
    if k == 'false':
        return '.mustBeFalse %s' % lstr(c[1])
    if k == 'maxlen':
        return '.maxLen %s %d' % (lstr(c[1]), c[2])
    if k == 'chars':
        return '.regex %s %s' % (lstr(c[1]), lstr(domain_of[c[1]]))
    if k == 'oneof':
        return '.oneOf %s %s' % (lstr(c[1]), llist(lint(x) for x in c[2]))
    raise ValueError(c)


def main():
    L = ['import Pamqp.Model.Types', 'import Pamqp.Spec.DataTypes',
         '/-! Hand transcription of AMQP 0-9-1 + the RabbitMQ extensions (tools/spec_tables.py, written from the',
         'protocol documents, not from commands.py), rendered by tools/gen_spec_lean.py. Committed, not regenerated at check time. -/',
         'namespace Pamqp.Spec', '',
         'structure SpecArg where', '  name : String', '  ty : WireTy', '  default : Lit', '  doc : Option String',
         '  deriving DecidableEq, Repr', '',
         'structure SpecMethod where', '  classId : Nat', '  methodId : Nat', '  name : String',
         '  args : List SpecArg', '  responses : List String', '  deriving DecidableEq, Repr', '',
         'def methods : List SpecMethod := [']
    rows = []
    for (cname, cid), methods in S.SPEC.items():
        for (mname, mid, resp, args) in methods:
            a = ['{ name := %s, ty := %s, default := %s, doc := %s }'
                 % (lstr(S.pyname(n)), lty(t), lit(d, t), lopt(lstr(doc(d, t)) if doc(d, t) is not None else None))
                 for (n, t, d) in args]
            rows.append('  { classId := %d, methodId := %d, name := %s,\n    args := %s,\n    responses := %s }'
                        % (cid, mid, lstr(S.camel(cname) + '.' + S.camel(mname)), '[' + ',\n      '.join(a) + ']',
                           llist(lstr(S.camel(cname) + '.' + S.camel(r)) for r in resp)))
    L.append(',\n'.join(rows))
    L += [']', '', '/-- (name, wire type, flag bit) of the 14 Basic properties, in specification order -/',
          'def properties : List (String × WireTy × Nat) := [']
    L.append(',\n'.join('  (%s, %s, %d)' % (lstr(S.prop_pyname(n)), lty(t), 1 << (15 - i)) for i, (n, t) in enumerate(S.PROPS)))
    L += [']', '', '/-- constraints of the protocol definition per method (validate on send) -/',
          'def constraints : List (String × List Rule) := [']
    rows = []
    for name, cs in S.CONSTRAINTS.items():
        dom = {}
        for c in cs:
            if c[0] == 'chars':
                dom[c[1]] = 'queue-name' if c[1] == 'queue' else 'exchange-name'
        rows.append('  (%s, %s)' % (lstr(name), llist(rule(c, dom) for c in cs)))
    L.append(',\n'.join(rows))
    L += [']', '', 'def propsConstraints : List Rule := %s' % llist(rule(c, {}) for c in S.PROPS_CONSTRAINTS), '',
          '/-- the one character class of both name domains -/',
          'def domainRegex : List (String × String) := [("exchange-name", %s), ("queue-name", %s)]'
          % (lstr('^[a-zA-Z0-9-_.:@#,/ ]*$'), lstr('^[a-zA-Z0-9-_.:@#,/ ]*$')), '',
          '/-- the 71 allowed name characters, as code points -/',
          'def nameChars : List Nat := %s' % llist(str(ord(c)) for c in S.NAME_CHARS), '',
          '/-- reply codes: (value, NAME, closes only the channel = soft) -/',
          'def replyCodes : List (Int × String × Bool) := [']
    L.append(',\n'.join('  (%d, %s, %s)' % (code, lstr(nm), 'true' if kind == 'soft' else 'false')
                        for code, (nm, kind) in sorted(S.REPLY.items())))
    L += [']', '', 'def constants : List (String × ConstVal) := [']
    rows = []
    for k, v in S.CONSTANTS.items():
        if isinstance(v, bytes):
            cv = '.bytes %s' % llist(str(b) for b in v)
        elif isinstance(v, tuple):
            cv = '.tuple %s' % llist(lint(x) for x in v)
        else:
            cv = '.int %s' % lint(v)
        rows.append('  (%s, %s)' % (lstr(k), cv))
    L.append(',\n'.join(rows))
    L += [']', '', 'end Pamqp.Spec', '']
    text = '\n'.join(L)
    if '--check' in sys.argv:
        cur = open(OUT, encoding='utf-8').read()
        if cur != text:
            print('Spec/Tables.lean differs from tools/spec_tables.py rendering')
            sys.exit(1)
        print('Spec/Tables.lean matches spec_tables.py')
        return
    with open(OUT, 'w', encoding='utf-8') as f:
        f.write(text)
    print('wrote', OUT)


if __name__ == '__main__':
    main()
