"""Independent reference encoder and reference (strict) decoder for AMQP 0-9-1 with the RabbitMQ
field-type errata, written from the grammar - NOT from pamqp. Used by the C04 / C05 oracles.

Style is deliberately different from pamqp: values are first lowered to a wire-level tree
(tag, payload), tables are sorted association lists of (name, tag, value) triples, bits are
grouped into runs and folded LSB-first, the property flag word is a sum over present slots.
"""
import calendar
import datetime
import decimal
import struct
import time

import spec_tables as S

UTC = datetime.timezone.utc
EPOCH = datetime.datetime(1970, 1, 1, tzinfo=UTC)


class Unencodable(Exception):
    pass


def be(n, width, signed=False):
    return int(n).to_bytes(width, 'big', signed=signed)


# ------------------------------------------------------------------ field values (encoder side)

INT_LADDER = [('b', 1, True), ('s', 2, True), ('u', 2, False), ('I', 4, True), ('i', 4, False), ('l', 8, True)]
LEGACY_LADDER = [('b', 1, True), ('s', 2, True), ('I', 4, True), ('l', 8, True)]


def fits(n, width, signed):
    lo, hi = (-(1 << (8 * width - 1)), (1 << (8 * width - 1)) - 1) if signed else (0, (1 << (8 * width)) - 1)
    return lo <= n <= hi


def lower(v, legacy=False):
    """Python value -> (tag, payload bytes) by the errata's type table"""
    if v is None:
        return 'V', b''
    if isinstance(v, bool):
        return 't', b'\x01' if v else b'\x00'
    if isinstance(v, int):
        for tag, width, signed in (LEGACY_LADDER if legacy else INT_LADDER):
            if fits(v, width, signed):
                return tag, be(v, width, signed)
        raise Unencodable('integer out of range')
    if isinstance(v, decimal.Decimal):
        sign, digits, exp = v.as_tuple()
        if not isinstance(exp, int):
            raise Unencodable('special decimal')
        coeff = int(''.join(map(str, digits)) or '0')
        if exp < 0:
            scale, raw = -exp, coeff
        else:
            if coeff and exp > 12:
                raise Unencodable('decimal too large')
            scale, raw = 0, coeff * 10 ** exp
        raw = -raw if sign else raw
        if scale > 255 or not fits(raw, 4, True):
            raise Unencodable('decimal out of range')
        return 'D', bytes([scale]) + be(raw, 4, True)
    if isinstance(v, float):
        try:
            return 'f', struct.pack('>f', v)
        except OverflowError:
            raise Unencodable('float too large for single precision')
    if isinstance(v, str):
        try:
            raw = v.encode('utf-8')
        except UnicodeEncodeError:
            raise Unencodable('surrogate')
        if len(raw) >= 1 << 32:
            raise Unencodable('long string too long')
        return 'S', be(len(raw), 4) + raw
    if isinstance(v, datetime.datetime):
        aware = v if (v.tzinfo is not None and v.tzinfo.utcoffset(v) is not None) else v.replace(tzinfo=UTC)
        delta = aware - EPOCH
        micros = (delta.days * 86400 + delta.seconds) * 10 ** 6 + delta.microseconds
        # whole seconds, truncated toward zero (the documented whole-second normalisation)
        secs = abs(micros) // 10 ** 6 * (1 if micros >= 0 else -1)
        if not fits(secs, 8, False):
            raise Unencodable('timestamp out of range')
        return 'T', be(secs, 8)
    if isinstance(v, time.struct_time):
        secs = calendar.timegm(v)
        if not fits(secs, 8, False):
            raise Unencodable('timestamp out of range')
        return 'T', be(secs, 8)
    if isinstance(v, dict):
        return 'F', table(v, legacy)
    if isinstance(v, list):
        body = b''.join(field(x, legacy) for x in v)
        if len(body) >= 1 << 32:
            raise Unencodable('array too long')
        return 'A', be(len(body), 4) + body
    if isinstance(v, bytearray):
        return 'x', be(len(v), 4) + bytes(v)
    raise Unencodable('no field type for %r' % type(v))


def field(v, legacy=False):
    tag, payload = lower(v, legacy)
    return tag.encode('ascii') + payload


def short_string(s):
    raw = s.encode('utf-8')
    if len(raw) > 255:
        raise Unencodable('short string too long')
    return bytes([len(raw)]) + raw


def table(d, legacy=False):
    """sorted name / type-tag / value triples, length-prefixed"""
    if d is None:
        d = {}
    triples = []
    for name in sorted(d):
        if not isinstance(name, str):
            raise Unencodable('table name must be a string')
        tag, payload = lower(d[name], legacy)
        triples.append((name[:128], tag, payload))
    body = b''.join(short_string(n) + t.encode('ascii') + p for n, t, p in triples)
    if len(body) >= 1 << 32:
        raise Unencodable('table too long')
    return be(len(body), 4) + body


# ------------------------------------------------------------------ method arguments / frames

def argument(ty, v, legacy=False):
    if ty == 'octet':
        return be(v, 1)
    if ty == 'short':
        return be(v, 2)
    if ty == 'long':
        return be(v, 4)
    if ty == 'longlong':
        return be(v, 8, signed=True)
    if ty == 'shortstr':
        return short_string(v)
    if ty == 'longstr':
        raw = v.encode('utf-8')
        return be(len(raw), 4) + raw
    if ty == 'table':
        return table(v, legacy)
    if ty == 'timestamp':
        return lower(v)[1]
    raise Unencodable(ty)


def arguments(types, values, legacy=False):
    """arguments in order; consecutive bits are grouped into runs, each run packed LSB-first into
    ceil(n/8) octets"""
    out = []
    i = 0
    n = len(types)
    while i < n:
        if types[i] == 'bit':
            j = i
            while j < n and types[j] == 'bit':
                j += 1
            run = [1 if values[k] else 0 for k in range(i, j)]
            for off in range(0, len(run), 8):
                out.append(bytes([sum(bit << p for p, bit in enumerate(run[off:off + 8]))]))
            i = j
        else:
            out.append(argument(types[i], values[i], legacy))
            i += 1
    return b''.join(out)


def envelope(kind, channel, payload):
    return bytes([kind]) + be(channel, 2) + be(len(payload), 4) + payload + b'\xce'


METHODS = {}          # index -> (dotted name, [(attr, type)])
for (_cname, _cid), _methods in S.SPEC.items():
    for (_mname, _mid, _resp, _args) in _methods:
        METHODS[_cid << 16 | _mid] = (S.camel(_cname) + '.' + S.camel(_mname),
                                      [(S.pyname(a[0]), a[1]) for a in _args])
PROPS = [(S.prop_pyname(n), t) for n, t in S.PROPS]


def method_frame(index, values, channel, legacy=False):
    name, args = METHODS[index]
    return envelope(1, channel, be(index, 4) + arguments([t for _, t in args], values, legacy))


def header_frame(body_size, prop_values, channel, legacy=False):
    """class id 60, weight 0, body size, flag word = sum over present properties of 1 << (15 - i)"""
    flags = 0
    parts = []
    for i, ((name, ty), v) in enumerate(zip(PROPS, prop_values)):
        if v is not None and v != '':
            flags += 1 << (15 - i)
            parts.append(argument(ty, v, legacy))
    return envelope(2, channel, be(60, 2) + be(0, 2) + be(body_size, 8) + be(flags, 2) + b''.join(parts))


def body_frame(content, channel):
    return envelope(3, channel, bytes(content))


def heartbeat_frame():
    return envelope(8, 0, b'')


def protocol_header(major, minor, revision):
    return b'AMQP\x00' + bytes([major, minor, revision])


# ------------------------------------------------------------------ strict reference decoder

class Malformed(Exception):
    pass


class Reader:
    def __init__(self, data):
        self.d = bytes(data)
        self.p = 0

    def take(self, n):
        if self.p + n > len(self.d):
            raise Malformed('short')
        b = self.d[self.p:self.p + n]
        self.p += n
        return b

    def done(self):
        return self.p == len(self.d)


def parse_field(r):
    tag = r.take(1)
    if tag == b't':
        return bool(r.take(1)[0])
    if tag == b'b':
        return int.from_bytes(r.take(1), 'big', signed=True)
    if tag == b'B':
        return r.take(1)[0]
    if tag == b's':
        return int.from_bytes(r.take(2), 'big', signed=True)
    if tag == b'u':
        return int.from_bytes(r.take(2), 'big')
    if tag == b'I':
        return int.from_bytes(r.take(4), 'big', signed=True)
    if tag == b'i':
        return int.from_bytes(r.take(4), 'big')
    if tag in (b'l', b'L'):
        return int.from_bytes(r.take(8), 'big', signed=True)
    if tag == b'f':
        return struct.unpack('>f', r.take(4))[0]
    if tag == b'd':
        return struct.unpack('>d', r.take(8))[0]
    if tag == b'D':
        scale = r.take(1)[0]
        raw = int.from_bytes(r.take(4), 'big', signed=True)
        return decimal.Decimal((1 if raw < 0 else 0, tuple(int(c) for c in str(abs(raw))), -scale))
    if tag == b'S':
        n = int.from_bytes(r.take(4), 'big')
        raw = r.take(n)
        try:
            return raw.decode('utf-8')
        except UnicodeDecodeError:
            return raw
    if tag == b'A':
        n = int.from_bytes(r.take(4), 'big')
        sub = Reader(r.take(n))
        out = []
        while not sub.done():
            out.append(parse_field(sub))
        return out
    if tag == b'T':
        return parse_timestamp(r)
    if tag == b'F':
        return parse_table(r)
    if tag in (b'V', b'\x00'):
        return None
    if tag == b'x':
        n = int.from_bytes(r.take(4), 'big')
        return bytearray(r.take(n))
    raise Malformed('unknown tag %r' % tag)


class Refused(Exception):
    """well-formed but not representable (timestamp beyond datetime's range)"""


def parse_timestamp(r):
    n = int.from_bytes(r.take(8), 'big')
    if n > 0xFFFFFFFF:       # documented: read as milliseconds
        try:
            return EPOCH + datetime.timedelta(milliseconds=n)
        except OverflowError:
            raise Refused('timestamp')
    return EPOCH + datetime.timedelta(seconds=n)


def parse_table(r):
    n = int.from_bytes(r.take(4), 'big')
    sub = Reader(r.take(n))
    out = {}
    while not sub.done():
        klen = sub.take(1)[0]
        name = sub.take(klen).decode('utf-8')
        out[name] = parse_field(sub)
    return out


def parse_argument(ty, r):
    if ty == 'octet':
        return r.take(1)[0]
    if ty == 'short':
        return int.from_bytes(r.take(2), 'big')
    if ty == 'long':
        return int.from_bytes(r.take(4), 'big')
    if ty == 'longlong':
        return int.from_bytes(r.take(8), 'big', signed=True)
    if ty == 'shortstr':
        return r.take(r.take(1)[0]).decode('utf-8')
    if ty == 'longstr':
        raw = r.take(int.from_bytes(r.take(4), 'big'))
        try:
            return raw.decode('utf-8')
        except UnicodeDecodeError:
            return raw
    if ty == 'table':
        return parse_table(r)
    if ty == 'timestamp':
        return parse_timestamp(r)
    raise Malformed(ty)


def parse_arguments(types, r):
    out = []
    i = 0
    while i < len(types):
        if types[i] == 'bit':
            j = i
            while j < len(types) and types[j] == 'bit':
                j += 1
            nbits = j - i
            octets = r.take((nbits + 7) // 8)
            for k in range(nbits):
                out.append(bool(octets[k // 8] >> (k % 8) & 1))
            i = j
        else:
            out.append(parse_argument(types[i], r))
            i += 1
    return out


def parse_frame(data):
    """-> (consumed, channel, kind, content) for exactly one frame at the start of `data`"""
    if data[:4] == b'AMQP':
        if len(data) < 8:
            raise Malformed('short protocol header')
        return 8, 0, 'P', tuple(data[5:8])
    r = Reader(data)
    kind = r.take(1)[0]
    channel = int.from_bytes(r.take(2), 'big')
    size = int.from_bytes(r.take(4), 'big')
    payload = r.take(size)
    if r.take(1) != b'\xce':
        raise Malformed('frame end')
    consumed = r.p
    p = Reader(payload)
    if kind == 8:
        if size:
            raise Malformed('heartbeat with payload')
        return consumed, channel, 'HB', None
    if kind == 3:
        return consumed, channel, 'B', payload
    if kind == 1:
        index = int.from_bytes(p.take(4), 'big')
        if index not in METHODS:
            raise Malformed('unknown method')
        name, args = METHODS[index]
        vals = parse_arguments([t for _, t in args], p)
        return consumed, channel, 'M', (index, name, dict(zip([a for a, _ in args], vals)))
    if kind == 2:
        class_id = int.from_bytes(p.take(2), 'big')
        weight = int.from_bytes(p.take(2), 'big')
        body_size = int.from_bytes(p.take(8), 'big')
        words = []
        while True:
            w = int.from_bytes(p.take(2), 'big')
            words.append(w)
            if not w & 1:
                break
        props = {}
        for i, (name, ty) in enumerate(PROPS):
            if words[0] >> (15 - i) & 1:
                props[name] = parse_argument(ty, p)
        return consumed, channel, 'H', (class_id, weight, body_size, props)
    raise Malformed('unknown frame type')
