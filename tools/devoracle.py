import sys, json, os, time
sys.path.insert(0, os.path.dirname(os.path.abspath(__file__)))
import gen, oracles
class Ctx: pass
ctx = Ctx(); ctx.thorough = '--thorough' in sys.argv; ctx.exhaustive_versions = False
ctx.generated = json.load(open(os.path.join(os.path.dirname(__file__), '..', 'lean', 'Pamqp', 'Generated', 'generated.json')))
ctx.gen = gen.Gen(int(os.environ.get('VERIF_SEED', '0')))
for name in [a for a in sys.argv[1:] if not a.startswith('--')]:
    t = time.time(); r = getattr(oracles, 'oracle_' + name)(ctx); s = r.summary()
    print(name, 'evals', s['evaluations'], 'distinct', s['distinct_nontrivial'], 'viol', s['violations'], 'wall', round(time.time()-t, 2), s['notes'])
    for v in r.violations[:5]: print('   V', json.dumps(v)[:600])
