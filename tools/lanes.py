"""Tie B: correspondence lanes.  Each lane runs the real pamqp and the Lean model driver on the same
inputs and reports where their behaviour differs.  A lane never decides a property by itself: a
disagreement is a broken tie, and check.py then searches for a failing input of the property."""
import collections
import datetime
import decimal
import hashlib
import itertools
import json
import os
import struct
import time

import gen as G
import proto
import real
from proto import sx, hexb, canon, frame_sx, Unrepresentable
from real import (outcome, show_bytes, show_dec, show_frame, encode, decode, frame, header, body,
                  heartbeat, commands, constants, base)

D = decimal.Decimal


class Lane:
    def __init__(self, name, mode='exact'):
        self.name = name
        self.mode = mode
        self.cases = []        # (driver line, real outcome, python repr)
        self.tags = []
        self.dist = collections.Counter()
        self.skipped = 0

    def add(self, line, real_out, desc, tag=None):
        self.cases.append((line, real_out, desc))
        self.tags.append(tag)
        if tag:
            self.dist[tag] += 1

    def try_add(self, mk_line, mk_real, desc, tag=None):
        """build the line first: an Unrepresentable input is skipped for this lane"""
        try:
            line = mk_line()
        except Unrepresentable:
            self.skipped += 1
            return
        self.add(line, mk_real(), desc, tag)

    @staticmethod
    def klass(s):
        """outcome class: ok (+ consumed count when present) / err <class> / hang"""
        p = s.split(' ')
        if p[0] == 'ok':
            return 'ok ' + p[1] if len(p) > 1 and p[1].lstrip('-').isdigit() else 'ok'
        return ' '.join(p[:2])

    def run(self, split=False):
        """split=True: one result per tag (lane name `<name>.<tag>`), so that a property can depend on
        exactly the sub-lanes it needs"""
        if split:
            groups = collections.OrderedDict()
            for c, t in zip(self.cases, self.tags):
                groups.setdefault(t or 'other', []).append(c)
            out = []
            for t, cases in groups.items():
                sub = Lane('%s.%s' % (self.name, t), self.mode)
                sub.cases = cases
                sub.tags = [t] * len(cases)
                sub.dist = collections.Counter({t: len(cases)})
                out.append(sub.run())
            return out
        t0 = time.time()
        lines = [c[0] for c in self.cases]
        outs = proto.run_driver(lines)
        dis = []
        outcomes = collections.Counter()
        distinct = set()
        for (line, real_out, desc), model_out in zip(self.cases, outs):
            a, b = canon(real_out), canon(model_out)
            if self.mode == 'class':
                a, b = self.klass(a), self.klass(b)
            elif self.mode == 'envelope':
                a, b = envelope_of(a), envelope_of(b)
            outcomes['real:' + ' '.join(real_out.split(' ')[:2] if real_out.startswith('err') else ['ok'])] += 1
            distinct.add(hashlib.sha1(line.encode()).digest()[:8])
            if model_out.startswith('bad-op'):
                dis.append({'lane': self.name, 'line': line[:2000], 'real': real_out[:2000], 'model': model_out,
                            'input': desc[:2000], 'kind': 'protocol'})
            elif a != b:
                dis.append({'lane': self.name, 'line': line[:2000], 'real': real_out[:2000],
                            'model': model_out[:2000], 'input': desc[:2000], 'kind': 'mismatch'})
        return {'lane': self.name, 'mode': self.mode, 'evaluations': len(lines), 'distinct': len(distinct),
                'disagreements': dis, 'outcomes': dict(outcomes), 'distribution': dict(self.dist),
                'skipped_unrepresentable': self.skipped, 'wall_s': round(time.time() - t0, 3),
                'samples': [{'line': c[0][:300], 'real': c[1][:300]} for c in self.cases[:2] + self.cases[-1:]]}


# =============================================================== trusted CPython primitives

def cp_step(ctx, quick_step):
    """stride of a code-point sweep: 1 in the thorough tier, 11 when a quick run was intensified because the
    code was edited (check.py sets ctx.sweep = False then), the lane's own stride in the quick tier"""
    if ctx.thorough:
        return 1 if getattr(ctx, 'sweep', True) else 11
    return quick_step


def lane_cpython_utf8(ctx):
    ln = Lane('cpython.utf8')
    step = cp_step(ctx, 97)
    cps = set(range(0, 0x110000, step)) | set(G.CODEPOINTS) | set(range(0xd7f0, 0xe010)) | set(range(0, 0x900))
    for c in sorted(cps):
        s = chr(c)
        ln.add('utf8.enc (s %d)' % c, outcome(lambda: s.encode('utf-8'), show=show_bytes), repr(s), 'enc')
    alpha = [0x00, 0x41, 0x7f, 0x80, 0xbf, 0xc0, 0xc1, 0xc2, 0xdf, 0xe0, 0xed, 0xef, 0xf0, 0xf4, 0xf5, 0xff, 0x9f, 0xa0, 0x8f, 0x90]
    for n in (1, 2, 3):
        for t in itertools.product(alpha, repeat=n):
            b = bytes(t)
            ln.add('utf8.dec %s' % hexb(b), outcome(lambda: b.decode('utf-8'), show=sx), repr(b), 'dec%d' % n)
    r = ctx.gen.r
    for _ in range(4000 if ctx.thorough else 600):
        b = bytes(r.choice(alpha) for _ in range(4)) if r.random() < 0.6 else \
            ''.join(chr(ctx.gen.codepoint()) for _ in range(3)).encode('utf-8')[:r.randrange(1, 12)]
        ln.add('utf8.dec %s' % hexb(b), outcome(lambda: b.decode('utf-8'), show=sx), repr(b), 'dec4')
    return ln.run()


def lane_cpython_f32(ctx):
    ln = Lane('cpython.f32')
    r = ctx.gen.r
    bits = list(G.F32_EDGE_BITS)
    for _ in range(60000 if ctx.thorough else 4000):
        k = r.randrange(5)
        if k == 0:
            b = r.getrandbits(64)
        elif k == 1:
            b = (r.getrandbits(1) << 63) | (r.randrange(896 - 30, 896 + 260) << 52) | r.getrandbits(52)
        elif k == 2:
            b = (r.getrandbits(1) << 63) | (r.randrange(896 - 30, 896 + 260) << 52) | (r.getrandbits(23) << 29) | \
                r.choice([0, 1 << 28, (1 << 28) + 1, (1 << 28) - 1, (1 << 29) - 1])
        elif k == 3:
            b = struct.unpack('>Q', struct.pack('>d', struct.unpack('>f', struct.pack('>I', r.getrandbits(32)))[0]))[0]
        else:
            b = (r.getrandbits(1) << 63) | (r.randrange(896 - 30, 897) << 52) | (r.getrandbits(52) & ~((1 << r.randrange(0, 52)) - 1))
        bits.append(b)
    for b in bits:
        x = G.f64(b)
        if x != x:
            continue      # NaN payload transport is platform behaviour; compared collapsed elsewhere
        ln.add('f32.narrow %x' % b,
               outcome(lambda: struct.pack('>f', x), show=lambda p: '%x' % struct.unpack('>I', p)[0]), repr(x), 'narrow')
    for _ in range(20000 if ctx.thorough else 2000):
        w = r.getrandbits(32) if r.random() < 0.7 else r.choice([0, 1, 0x7fffff, 0x800000, 0x7f7fffff, 0x7f800000, 0x80000000, 0x80000001, 0x3f800000])
        y = struct.unpack('>f', struct.pack('>I', w))[0]
        if y != y:
            continue
        ln.add('f32.widen %x' % w, 'ok %x' % struct.unpack('>Q', struct.pack('>d', y))[0], hex(w), 'widen')
    return ln.run()


def lane_cpython_regex(ctx):
    ln = Lane('cpython.regex')
    rx = constants.DOMAIN_REGEX
    cps = range(0, 0x110000, cp_step(ctx, 1)) if ctx.thorough else list(range(0, 0x3000)) + ctx.gen.r.sample(range(0x3000, 0x110000), 2000)
    for name in ('exchange-name', 'queue-name'):
        pat = rx[name]
        for c in cps:
            if 0xd800 <= c < 0xe000 and False:
                continue
            s = chr(c)
            ln.add('regex (s %d)' % c, 'ok %d' % (1 if pat.fullmatch(s) else 0), name + ' ' + repr(s), name)
        for s in ['', 'a\n', '\n', 'ab\n', 'a b', 'a\nb', 'amq.direct', 'x' * 300, 'q-1_2.3:4@5#6,7/8 9', 'a\r', 'é']:
            ln.add('regex ' + sx(s), 'ok %d' % (1 if pat.fullmatch(s) else 0), name + ' ' + repr(s), name + '.multi')
        for _ in range(500):
            s = ''.join(ctx.gen.r.choice(G.NAME_OK + G.NAME_BAD) for _ in range(ctx.gen.r.randrange(1, 8)))
            ln.add('regex ' + sx(s), 'ok %d' % (1 if pat.fullmatch(s) else 0), name + ' ' + repr(s), name + '.multi')
    return ln.run()


def lane_cpython_sort(ctx):
    ln = Lane('cpython.sort')
    g = ctx.gen
    for _ in range(6000 if ctx.thorough else 1500):
        a = g.key()
        b = g.key() if g.r.random() < 0.6 else a[:g.r.randrange(0, len(a) + 1)] + g.r.choice(['', 'a', '\x00', '\U0001f600'])
        ln.add('strle %s %s' % (sx(a), sx(b)), 'ok %d' % (1 if a <= b else 0), repr((a, b)))
    return ln.run()


# =============================================================== encoders

ENC_PRIMS = [('boolean', encode.boolean), ('byte_array', encode.byte_array), ('decimal', encode.decimal),
             ('double', encode.double), ('floating_point', encode.floating_point), ('long_int', encode.long_int),
             ('long_uint', encode.long_uint), ('long_long_int', encode.long_long_int), ('octet', encode.octet),
             ('short_int', encode.short_int), ('short_uint', encode.short_uint), ('short_string', encode.short_string),
             ('long_string', encode.long_string), ('timestamp', encode.timestamp)]


def typed_for(name, g):
    """a value of the right Python type for the primitive (in or out of range)"""
    if name == 'boolean':
        return g.r.choice([True, False])
    if name == 'byte_array':
        return bytearray(g.r.getrandbits(8) for _ in range(g.r.choice([0, 1, 7, 300])))
    if name == 'decimal':
        return g.decimal_any()
    if name in ('double', 'floating_point'):
        return g.float_any()
    if name in ('short_string', 'long_string'):
        return g.string(300, allow_surrogate=g.r.random() < 0.1)
    if name == 'timestamp':
        return g.datetime_any()
    return g.integer()


def lane_enc_prim(ctx):
    ln = Lane('enc.prim')
    g = ctx.gen
    n = 600 if ctx.thorough else 120
    for name, fn in ENC_PRIMS:
        fn = getattr(encode, fn.__name__)
        for i in range(n):
            v = typed_for(name, g) if i % 4 else g.scalar_any()
            ln.try_add(lambda: 'enc.prim %s %s' % (name, sx(v)), lambda: outcome(fn, v, show=show_bytes),
                       '%s(%r)' % (name, v), name)
        if name not in ('decimal', 'double', 'floating_point', 'short_string', 'long_string', 'timestamp',
                        'boolean', 'byte_array'):
            for v in g.int_bounds:
                ln.add('enc.prim %s %s' % (name, sx(v)), outcome(fn, v, show=show_bytes), '%s(%r)' % (name, v), name + '.bound')
    # bit
    for v in [True, False, 0, 1, 2, -1, 3, 255, None, 1.0, 0.0, 'x', '', D(1), D(0), [], b'', 2 ** 70]:
        for byte, pos in [(0, 0), (0, 7), (5, 1), (127, 7), (0, 8), (255, 0)]:
            ln.try_add(lambda: 'enc.bit %s %d %d' % (sx(v), byte, pos),
                       lambda: outcome(encode.bit, v, byte, pos, show=lambda x: '%d' % x), 'bit(%r,%d,%d)' % (v, byte, pos), 'bit')
    # by_type
    for ty in ['octet', 'short', 'long', 'longlong', 'shortstr', 'longstr', 'table', 'timestamp', 'bit', 'nosuch']:
        for _ in range(60 if ctx.thorough else 15):
            v = g.scalar_any() if g.r.random() < 0.5 else (g.arg_ok(ty) if ty not in ('bit', 'nosuch') else True)
            for lg in (0, 1):
                def mk_real():
                    with real.legacy(lg):
                        return outcome(encode.by_type, v, ty, show=show_bytes)
                ln.try_add(lambda: 'enc.bytype %d %s %s' % (lg, ty, sx(v)), mk_real, 'by_type(%r,%r) legacy=%d' % (v, ty, lg), 'by_type.' + ty)
    return ln.run(split=True)


def lane_enc_tint(ctx):
    """table_integer over every boundary (+-2), mined literals, a dense range, wide random"""
    ln = Lane('enc.tint')
    g = ctx.gen
    vals = list(g.int_bounds)
    vals += list(range(-70000, 70001)) if ctx.thorough else list(range(-300, 301)) + list(range(32700, 32800)) + \
        list(range(65500, 65600)) + list(range(-32800, -32700))
    vals += [g.integer() for _ in range(3000 if ctx.thorough else 500)]
    for lg in (0, 1):
        with real.legacy(lg):
            for v in vals:
                ln.add('enc.tint %d %d' % (lg, v), outcome(encode.table_integer, v, show=show_bytes),
                       'table_integer(%d) legacy=%d' % (v, lg), 'legacy%d' % lg)
    return ln.run()


def lane_enc_value(ctx, domain='ok'):
    ln = Lane('enc.value.' + domain)
    g = ctx.gen
    n = (6000 if ctx.thorough else 900)
    for i in range(n):
        if domain == 'ok':
            v = g.value_ok(depth=g.r.choice([0, 1, 2, 3, 4]), breadth=g.r.choice([1, 2, 3, 5]))
            if i % 50 == 0:
                v = g.deep_ok(g.r.choice([8, 16, 32]))
        else:
            v = g.value_any(depth=g.r.choice([0, 1, 2, 3]))
        lg = 1 if i % 3 == 0 else 0
        which = i % 5

        def mk_real():
            with real.legacy(lg):
                if which == 3 and isinstance(v, (dict, type(None))) or which == 3 and domain == 'any':
                    return outcome(encode.field_table, v, show=show_bytes)
                if which == 4 and (isinstance(v, list) or domain == 'any'):
                    return outcome(encode.field_array, v, show=show_bytes)
                return outcome(encode.encode_table_value, v, show=show_bytes)

        def mk_line():
            if which == 3 and isinstance(v, (dict, type(None))) or which == 3 and domain == 'any':
                return 'enc.table %d %s' % (lg, sx(v))
            if which == 4 and (isinstance(v, list) or domain == 'any'):
                return 'enc.array %d %s' % (lg, sx(v))
            return 'enc.value %d %s' % (lg, sx(v))
        ln.try_add(mk_line, mk_real, repr(v)[:500], type(v).__name__)
    # two failing entries of different exception classes: the raised class is the first in sorted order
    for a, b in [({'a': 2 ** 70, 'b': '\ud800'}, 0), ({'b': 2 ** 70, 'a': '\ud800'}, 0), ({'a': 1e300, 'b': object}, 0),
                 ({'b' * 300: 1, 'a': b'x'}, 0), ({'a': 1, 'a' * 300: 2}, 0), ({'\ud800': 1, 'a': 2 ** 70}, 0)]:
        ln.try_add(lambda: 'enc.table 0 %s' % sx(a), lambda: outcome(encode.field_table, a, show=show_bytes), repr(a)[:200], 'two-errors')
    return ln.run()


# =============================================================== decoders

DEC_PRIMS = ['boolean', 'byte_array', 'decimal', 'double', 'floating_point', 'long_int', 'long_uint',
             'long_long_int', 'long_str', 'octet', 'short_int', 'short_uint', 'short_short_int',
             'short_short_uint', 'short_str', 'timestamp', 'void']


def lane_dec_prim(ctx):
    ln = Lane('dec.prim')
    r = ctx.gen.r
    n = 400 if ctx.thorough else 80
    for name in DEC_PRIMS:
        fn = getattr(decode, name)
        datas = [b'', b'\x00', b'\xff', b'\x00' * 8, b'\xff' * 8, b'\x80' + b'\x00' * 7, b'\x7f' + b'\xff' * 7,
                 b'\x00\x00\x00\x03abc', b'\x00\x00\x00\x05ab', b'\x03abc', b'\x05ab', b'\x02\xff\xfe', b'\x00\x00\x00\x02\xff\xfe',
                 struct.pack('>Q', 2 ** 32 - 1), struct.pack('>Q', 2 ** 32), struct.pack('>Q', 253402300799999),
                 struct.pack('>Q', 253402300800000), struct.pack('>Q', 2 ** 64 - 1), struct.pack('>Q', 2 ** 63),
                 b'\x02' + struct.pack('>i', -15), b'\xff' + struct.pack('>I', 2 ** 32 - 1), b'\x00\x00\x00\x00']
        for _ in range(n):
            datas.append(bytes(r.getrandbits(8) for _ in range(r.choice([0, 1, 2, 3, 4, 5, 7, 8, 9, 12]))))
        for d in datas:
            ln.add('dec.prim %s %s' % (name, hexb(d)), outcome(fn, d, show=show_dec), '%s(%r)' % (name, d), name)
    # every code point (thorough) / the special ones + a stride (quick) at the start, middle and end of a string
    cps = sorted(set(G.CODEPOINTS) | set(range(0, 0x110000, cp_step(ctx, 257))))
    for c in cps:
        if 0xD800 <= c < 0xE000:
            continue
        for text in (chr(c) + 'ab', 'a' + chr(c) + 'b', 'ab' + chr(c)):
            raw = text.encode('utf-8')
            d = struct.pack('>I', len(raw)) + raw
            ln.add('dec.prim long_str %s' % hexb(d), outcome(decode.long_str, d, show=show_dec), 'long_str(%r)' % d, 'long_str')
            d = bytes([len(raw)]) + raw
            ln.add('dec.prim short_str %s' % hexb(d), outcome(decode.short_str, d, show=show_dec), 'short_str(%r)' % d, 'short_str')
    for ty in ['bit', 'octet', 'short', 'long', 'longlong', 'shortstr', 'longstr', 'table', 'timestamp', 'nosuch']:
        for _ in range(n // 2):
            d = bytes(r.getrandbits(8) for _ in range(r.choice([0, 1, 2, 4, 5, 8, 9, 13])))
            off = r.randrange(0, 9)
            ln.add('dec.bytype %s %d %s' % (ty, off, hexb(d)), outcome(decode.by_type, d, ty, off, show=show_dec),
                   'by_type(%r,%r,%d)' % (d, ty, off), 'by_type.' + ty)
    return ln.run(split=True)


def encoded_values(ctx, n):
    """(value, bytes) pairs produced by the real encoder on C03's domain"""
    g = ctx.gen
    out = []
    for i in range(n):
        v = g.value_ok(depth=g.r.choice([0, 1, 2, 3]), breadth=g.r.choice([1, 2, 4]))
        try:
            with real.legacy(i % 4 == 0):
                out.append((v, encode.encode_table_value(v)))
        except Exception:
            pass
    return out


def mutations(b, r, k):
    """k single-site corruptions of the byte string b"""
    out = []
    if not b:
        return out
    for _ in range(k):
        i = r.randrange(len(b))
        kind = r.randrange(5)
        if kind == 0:
            out.append(b[:i])
        elif kind == 1:
            out.append(b[:i] + bytes([r.choice([0, 1, 0x7f, 0x80, 0xff, b[i] ^ 1, b[i] ^ 0x80, r.getrandbits(8)])]) + b[i + 1:])
        elif kind == 2:
            out.append(b[:i] + b[i + 1:])
        elif kind == 3:
            out.append(b[:i] + bytes([r.getrandbits(8)]) + b[i:])
        else:
            out.append(b[:i] + struct.pack('>I', r.choice([0, 1, len(b), len(b) + 1, 2 ** 31, 2 ** 32 - 1, max(len(b) - i - 4, 0)])) + b[i + 4:])
    return out


def lane_dec_value(ctx, stream='wellformed'):
    """embedded_value / field_table / field_array on encoder outputs (+junk), exact; on the
    malformed stream, outcome class only"""
    ln = Lane('dec.value.' + stream, mode='exact' if stream == 'wellformed' else 'class')
    r = ctx.gen.r
    pairs = encoded_values(ctx, 2500 if ctx.thorough else 500)
    for v, b in pairs:
        if stream == 'wellformed':
            junk = bytes(r.getrandbits(8) for _ in range(r.choice([0, 0, 1, 5])))
            ln.add('dec.value %s' % hexb(b + junk), outcome(decode.embedded_value, b + junk, show=show_dec), repr(b)[:300], 'value')
            if b[:1] == b'F':
                ln.add('dec.table %s' % hexb(b[1:] + junk), outcome(decode.field_table, b[1:] + junk, show=show_dec), repr(b)[:300], 'table')
            if b[:1] == b'A':
                ln.add('dec.array %s' % hexb(b[1:] + junk), outcome(decode.field_array, b[1:] + junk, show=show_dec), repr(b)[:300], 'array')
        else:
            for m in mutations(b, r, 6):
                ln.add('dec.value %s' % hexb(m), outcome(decode.embedded_value, m, show=show_dec), repr(m)[:300], 'value')
                if m[:1] in (b'F', b'A') and r.random() < 0.5:
                    fn, op = (decode.field_table, 'dec.table') if m[:1] == b'F' else (decode.field_array, 'dec.array')
                    ln.add('%s %s' % (op, hexb(m[1:])), outcome(fn, m[1:], show=show_dec), repr(m)[:300], op)
    if stream != 'wellformed':
        for _ in range(3000 if ctx.thorough else 600):
            tag = r.choice(b'tbBsuIilLfdDSATFV\x00xZ')
            d = bytes([tag]) + bytes(r.getrandbits(8) for _ in range(r.choice([0, 1, 3, 4, 5, 8, 9, 12, 20])))
            ln.add('dec.value %s' % hexb(d), outcome(decode.embedded_value, d, show=show_dec), repr(d), 'random')
        for d in [b'A\x00\x00\x00\x0ab\x01', b'\x00\x00\x00\x0ab\x01', b'F\x00\x00\x00\x05\x01a', b'F\x00\x00\x00\x02\x01\xff', b'']:
            ln.add('dec.value %s' % hexb(d), outcome(decode.embedded_value, d, show=show_dec), repr(d), 'corpus')
    return ln.run()


# =============================================================== method arguments / frames

def method_vals_ok(ctx, cls, meta):
    """an accepted argument assignment for the class (typed, in range, passes validate())"""
    g = ctx.gen
    vals = []
    for a in meta['args']:
        name, ty = a['name'], a['ty']
        lim = None
        fixed = None
        for ru in meta['rules']:
            if ru.get('attr') != name:
                continue
            if ru['kind'] == 'mustEqInt':
                fixed = ru['c']
            elif ru['kind'] in ('mustEqStr', 'mustEqStrBare'):
                fixed = ru['c']
            elif ru['kind'] == 'mustBeFalse':
                fixed = False
            elif ru['kind'] == 'maxLen':
                lim = ru['n'] if lim is None else min(lim, ru['n'])
            elif ru['kind'] == 'regex':
                lim = lim if lim is not None else 255
        if fixed is not None:
            vals.append(fixed)
        elif lim is not None and any(ru['kind'] == 'regex' and ru.get('attr') == name for ru in meta['rules']):
            vals.append(g.name_ok(lim))
        elif lim is not None:
            s = g.short_string()
            vals.append(s[:lim])
        else:
            vals.append(g.arg_ok(ty, name))
    return vals


def lane_args(ctx):
    """Frame.marshal / Frame.unmarshal for each of the 64 classes: accepted assignments, all 2^k bit
    combinations, then each argument replaced by an arbitrary value"""
    lm = Lane('args.marshal')
    lu = Lane('args.unmarshal')
    g = ctx.gen
    metas = {m['key']: m for m in ctx.generated['catalogue']['methods']}
    reps = 12 if ctx.thorough else 3
    for key, cls in real.method_classes():
        meta = metas.get(key)
        if meta is None:
            continue
        bits = [i for i, a in enumerate(meta['args']) if a['ty'] == 'bit']
        combos = list(itertools.product([False, True], repeat=len(bits))) if bits else [()]
        for rep in range(reps):
            for combo in combos:
                vals = method_vals_ok(ctx, cls, meta)
                for i, bv in zip(bits, combo):
                    fixed = [ru for ru in meta['rules'] if ru.get('attr') == meta['args'][i]['name']]
                    if not fixed:
                        vals[i] = bv
                lg = rep % 2
                obj = real.make_method(cls, vals)

                def mk_real():
                    with real.legacy(lg):
                        return outcome(obj.marshal, show=show_bytes)
                try:
                    line = 'args.marshal %d %d' % (lg, key) + ''.join(' ' + sx(v) for v in vals)
                except Unrepresentable:
                    continue
                ro = mk_real()
                lm.add(line, ro, '%s%r' % (meta['name'], vals), meta['name'])
                if ro.startswith('ok '):
                    data = bytes.fromhex(ro[3:]) if ro[3:] != '-' else b''
                    junk = bytes(g.r.getrandbits(8) for _ in range(g.r.choice([0, 0, 3])))
                    o2 = cls.__new__(cls)

                    def un():
                        o2.unmarshal(data + junk)
                        return [getattr(o2, a) for a in cls.__slots__]
                    lu.add('args.unmarshal %d %s' % (key, hexb(data + junk)),
                           outcome(un, show=lambda vs: ' '.join(sx(v) for v in vs)).replace('ok ', 'ok ', 1) if cls.__slots__ else outcome(un),
                           '%s %r' % (meta['name'], data), meta['name'])
        # each argument replaced by an arbitrary value
        for i, a in enumerate(meta['args']):
            for _ in range(6 if ctx.thorough else 2):
                vals = method_vals_ok(ctx, cls, meta)
                vals[i] = g.scalar_any() if g.r.random() < 0.8 else g.value_any(1)
                obj = real.make_method(cls, vals)
                try:
                    line = 'args.marshal 0 %d' % key + ''.join(' ' + sx(v) for v in vals)
                except Unrepresentable:
                    continue
                with real.legacy(0):
                    lm.add(line, outcome(obj.marshal, show=show_bytes), '%s%r' % (meta['name'], vals), meta['name'] + '.wrong')
        # truncated / corrupted argument bytes
        vals = method_vals_ok(ctx, cls, meta)
        try:
            data = real.make_method(cls, vals).marshal()
        except Exception:
            data = b''
        for m in [data[:k] for k in range(0, len(data), max(1, len(data) // 6))] + mutations(data, g.r, 4):
            o2 = cls.__new__(cls)

            def un():
                o2.unmarshal(m)
                return [getattr(o2, a) for a in cls.__slots__]
            lu.add('args.unmarshal %d %s' % (key, hexb(m)), outcome(un, show=lambda vs: ' '.join(sx(v) for v in vs)),
                   '%s %r' % (meta['name'], m), meta['name'] + '.malformed')
    a, b = lm.run(), lu.run()
    return [a, b]


PROP_TYPES = None


def props_vals(ctx, mask, valid=True):
    """14 property values; bit i of mask (i = 0 is content_type) says 'set'"""
    g = ctx.gen
    vals = []
    for i, p in enumerate(ctx.generated['catalogue']['properties']['props']):
        if not (mask >> i) & 1:
            vals.append('' if p['name'] == 'cluster_id' else g.r.choice([None, None, '']) if p['ty'] == 'shortstr' else None)
            continue
        if p['name'] == 'cluster_id':
            vals.append('' if valid else g.short_string() or 'x')
        elif p['name'] == 'delivery_mode':
            vals.append(g.r.choice([1, 2]) if valid else g.r.choice([0, 3, 255]))
        elif p['ty'] == 'shortstr':
            s = g.short_string()
            vals.append(s or 'v')
        elif p['ty'] == 'table':
            t = g.table_ok(2, 3)
            vals.append(t)            # may be {} : set, encoded as empty table
        else:
            vals.append(g.arg_ok(p['ty']))
    return vals


def lane_props(ctx):
    lm = Lane('props.marshal')
    lu = Lane('props.unmarshal')
    lf = Lane('flags')
    g = ctx.gen
    nprops = len(ctx.generated['catalogue']['properties']['props'])
    masks = list(range(1 << (nprops - 1))) if nprops <= 14 else [g.r.getrandbits(nprops) for _ in range(8192)]
    draws = 4 if ctx.thorough else 1
    for mask in masks:
        for _ in range(draws):
            vals = props_vals(ctx, mask)
            obj = real.make_props(vals)
            try:
                line = 'props.marshal 0' + ''.join(' ' + sx(v) for v in vals)
            except Unrepresentable:
                continue
            ro = outcome(obj.marshal, show=show_bytes)
            lm.add(line, ro, repr(vals)[:400], 'n=%d' % bin(mask).count('1'))
            if ro.startswith('ok '):
                data = bytes.fromhex(ro[3:])
                def gf():
                    return header.ContentHeader._get_flags(data)
                fo = outcome(gf, show=lambda t: '%d %d' % t)
                lf.add('flags %s' % hexb(data), fo, repr(data)[:200], 'own')
                if fo.startswith('ok '):
                    off, fl = int(fo.split()[1]), int(fo.split()[2])
                    p2 = commands.Basic.Properties()

                    def un():
                        p2.unmarshal(fl, data[off:])
                        return [getattr(p2, a) for a in p2.__slots__]
                    lu.add('props.unmarshal %d %s' % (fl, hexb(data[off:])), outcome(un, show=lambda vs: ' '.join(sx(v) for v in vs)),
                           repr(data)[:300], 'own')
    # wrong-typed property values
    for i in range(nprops):
        for _ in range(20 if ctx.thorough else 5):
            vals = props_vals(ctx, g.r.getrandbits(nprops - 1))
            vals[i] = g.scalar_any()
            obj = real.make_props(vals)
            try:
                line = 'props.marshal 0' + ''.join(' ' + sx(v) for v in vals)
            except Unrepresentable:
                continue
            lm.add(line, outcome(obj.marshal, show=show_bytes), repr(vals)[:400], 'wrong')
    # flag words: arbitrary, incl. continuation bits, signed first word, truncated
    for _ in range(4000 if ctx.thorough else 800):
        k = g.r.choice([0, 1, 2, 3, 4, 6])
        d = bytes(g.r.getrandbits(8) | (1 if g.r.random() < 0.3 and j % 2 else 0) for j in range(k))
        fo = outcome(lambda: header.ContentHeader._get_flags(d), show=lambda t: '%d %d' % t)
        lf.add('flags %s' % hexb(d), fo, repr(d), 'random')
        if fo.startswith('ok '):
            off, fl = int(fo.split()[1]), int(fo.split()[2])
            tail = bytes(g.r.getrandbits(8) for _ in range(g.r.choice([0, 1, 5, 30])))
            p2 = commands.Basic.Properties()

            def un():
                p2.unmarshal(fl, tail)
                return [getattr(p2, a) for a in p2.__slots__]
            lu2 = outcome(un, show=lambda vs: ' '.join(sx(v) for v in vs))
            lu.add('props.unmarshal %d %s' % (fl, hexb(tail)), lu2, repr((fl, tail)), 'random')
    lu.mode = 'exact'
    return [lm.run(), lu.run(), lf.run()]


PRODUCTS = ['RabbitMQ', 'rabbitmq', 'RabbitMQ ', 'Qpid', 'qpid-cpp', 'ActiveMQ', 'Apache ActiveMQ Artemis', 'LavinMQ', 'OpenAMQ', 'pamqp',
            'pika', 'aiorabbit', 'rabbitpy', 'unknown', '']
VERSIONS = ['%d.%d.%d' % (a, b, c) for a in (0, 1, 2, 3, 4, 5, 10) for b in (0, 1, 5, 6, 7, 8, 9, 12, 13) for c in (0, 1, 7, 9, 15)] + \
    ['3.5', '3.6', '3', '4', '0-9-1', '0.9.1', '3.6.0-rc1', '3.5.7+1', 'v3.5.7', '3.5.7.1', 'x.y.z', '', ' 3.5.7', '3.05.7', '2.6.1', '3.8.9', '3.12.1']


def realistic_frame(ctx):
    """frames as real peers send them: the handshake with broker / client products and versions of every
    vintage, close frames with the reply codes of the specification, dead-lettered messages. Code that keys
    behaviour on WHAT a peer says (product, version, capabilities, reply code, header names) is only reached
    by such contents."""
    g = ctx.gen
    r = g.r
    caps = {'publisher_confirms': r.choice([True, False]), 'exchange_exchange_bindings': True, 'basic.nack': True,
            'consumer_cancel_notify': r.choice([True, False]), 'connection.blocked': True, 'consumer_priorities': True,
            'authentication_failure_close': True, 'per_consumer_qos': True, 'direct_reply_to': True}
    peer = {'product': r.choice(PRODUCTS), 'version': r.choice(VERSIONS), 'platform': r.choice(['Erlang/OTP 26.2.1', 'Erlang/R16B03', 'Python 3.12.1', 'Java']),
            'copyright': 'Copyright (c) 2007-2024 Broadcom Inc and/or its subsidiaries', 'information': 'Licensed under the MPL 2.0.',
            'capabilities': caps, 'cluster_name': 'rabbit@host-%d' % r.randrange(100)}
    if r.random() < 0.3:
        peer.pop(r.choice(list(peer)))
    k = r.randrange(10)
    C = commands
    if k < 3:
        f = C.Connection.Start(0, 9, peer, r.choice(['PLAIN AMQPLAIN', 'PLAIN', 'EXTERNAL PLAIN']), r.choice(['en_US', 'en_US en_GB']))
    elif k == 3:
        f = C.Connection.StartOk(peer, r.choice(['PLAIN', 'AMQPLAIN', 'EXTERNAL']), '\x00guest\x00guest', 'en_US')
    elif k == 4:
        f = C.Connection.Tune(r.choice([0, 1, 2047, 65535]), r.choice([0, 4096, 131072, 2 ** 32 - 1]), r.choice([0, 1, 60, 580, 65535]))
    elif k == 5:
        code = r.choice([200, 311, 312, 313, 320, 402, 403, 404, 405, 406, 501, 502, 503, 504, 505, 506, 530, 540, 541])
        cls = r.choice([C.Connection.Close, C.Channel.Close])
        f = cls(code, r.choice(['NOT_FOUND - no queue \'q\' in vhost \'/\'', 'CONNECTION_FORCED - broker forced connection closure', 'OK', '']),
                r.choice([0, 10, 20, 40, 50, 60, 85, 90]), r.choice([0, 10, 11, 20, 40, 50, 51]))
    elif k == 6:
        f = C.Connection.Open(r.choice(['/', 'prod', '%2F', 'a' * 127]))
    elif k == 7:
        death = {'count': r.choice([1, 2, 40000, 3000000000]), 'reason': r.choice(['expired', 'rejected', 'maxlen']), 'queue': 'q',
                 'time': datetime.datetime(2024, 1, 1, tzinfo=datetime.timezone.utc), 'exchange': '', 'routing-keys': ['q', 'r'],
                 'original-expiration': '60000'}
        f = header.ContentHeader(body_size=r.choice([0, 1, 131072]), properties=C.Basic.Properties(
            content_type=r.choice(['application/json', 'text/plain', 'image/png', 'a']), delivery_mode=r.choice([1, 2]),
            headers={'x-death': [death, dict(death)], 'x-first-death-reason': 'expired', 'x-delivery-count': r.choice([1, 40000])},
            timestamp=datetime.datetime(2024, 1, 1, tzinfo=datetime.timezone.utc), expiration='60000', user_id='guest', app_id='app'))
    elif k == 8:
        f = C.Queue.Declare(0, 'q', False, True, False, False, False, {'x-message-ttl': r.choice([60000, 40000, 3000000000]), 'x-max-length': r.choice([1000, 65535, 65536]),
                                                                        'x-queue-type': r.choice(['classic', 'quorum', 'stream']), 'x-dead-letter-exchange': 'dlx'})
    else:
        f = C.Basic.Deliver('ctag-%d' % r.randrange(10), r.choice([1, 2 ** 32, 2 ** 64 - 1]), r.choice([True, False]), r.choice(['', 'amq.topic']), 'rk')
    return f, (0 if isinstance(f, base.Frame) and f.name.startswith('Connection.') else r.choice([1, 2, 65535]))


def random_frame(ctx, kinds='MHBPX', realistic=0.15):
    """(python frame object, channel, sx of frame) - valid frames of all five kinds"""
    g = ctx.gen
    if realistic and g.r.random() < realistic:
        return realistic_frame(ctx)
    k = g.r.choice(kinds)
    ch = g.r.choice([0, 1, 255, 256, 32767, 32768, 65535, g.r.randrange(65536)])
    if k == 'M':
        metas = ctx.generated['catalogue']['methods']
        meta = g.r.choice(metas)
        cls = commands.INDEX_MAPPING[meta['key']]
        return real.make_method(cls, method_vals_ok(ctx, cls, meta)), ch
    if k == 'H':
        nprops = len(ctx.generated['catalogue']['properties']['props'])
        size = g.r.choice([0, 1, 2 ** 32, 2 ** 63, 2 ** 64 - 1, g.r.getrandbits(64)])
        return real.make_header(size, props_vals(ctx, g.r.getrandbits(nprops - 1))), ch
    if k == 'B':
        n = g.r.choice([0, 1, 2, 7, 8, 100, 4096])
        content = g.r.choice([bytes(g.r.getrandbits(8) for _ in range(n)), b'\xce' * n, (b'AMQP\x00\x00\x09\x01' * n)[:n],
                              (b'\x01\x00\x01\x00\x00\x00\x04\x00\x0a\x00\x0b\xce' * n)[:n], (b'\x08\x00\x00\x00\x00\x00\x00\xce' * n)[:n]])
        return body.ContentBody(content), ch
    if k == 'P':
        return header.ProtocolHeader(g.r.randrange(256), g.r.randrange(256), g.r.randrange(256)), ch
    return heartbeat.Heartbeat(), ch


def kind_of(f):
    if isinstance(f, base.Frame):
        return 'M'
    if isinstance(f, header.ContentHeader):
        return 'H'
    if isinstance(f, body.ContentBody):
        return 'B'
    if isinstance(f, header.ProtocolHeader):
        return 'P'
    if isinstance(f, heartbeat.Heartbeat):
        return 'HB'
    return 'X'


def envelope_of(out):
    """'ok <hex>' -> what the framing theorems need of an encoder output: type octet, channel, whether
    the size field equals len - 8, last byte (the payload itself is compared by the exact lanes)"""
    if not out.startswith('ok '):
        return out.split(' ')[0] if out.startswith('err') else out
    h = out[3:]
    if h == '-':
        return 'ok empty'
    if h.startswith('414d5150'):
        return 'ok AMQP %d' % (len(h) // 2)
    n = len(h) // 2
    size_ok = n >= 8 and int(h[6:14], 16) == n - 8
    return 'ok %s %s %s' % (h[:6], size_ok, h[-2:])


def size_boundaries(ctx):
    """payload sizes around every mined literal / constant that could be a size limit"""
    out = set()
    for lit in getattr(ctx, 'literals', []) + [4096, 131072]:
        if 16 <= lit <= 300000:
            for d in (-8, -1, 0, 1, 8):
                out.add(lit + d)
    return sorted(x for x in out if x > 0)


def lane_frame(ctx):
    lm = Lane('frame.marshal')
    lu = Lane('frame.unmarshal')
    lp = Lane('frame.parts')
    lx = Lane('frame.unmarshal.malformed', mode='class')
    le = Lane('frame.envelope', mode='envelope')
    g = ctx.gen
    n = 3000 if ctx.thorough else 500
    for i in range(n):
        f, ch = random_frame(ctx)
        lg = i % 2
        try:
            line = 'frame.marshal %d %s %s' % (lg, sx(ch), frame_sx(f))
        except Unrepresentable:
            continue
        with real.legacy(lg):
            ro = outcome(frame.marshal, f, ch, show=show_bytes)
        k = kind_of(f)
        lm.add(line, ro, '%s ch=%d' % (frame_sx(f)[:300], ch), k)
        le.add(line, ro, '%s ch=%d' % (frame_sx(f)[:300], ch), k)
        if not ro.startswith('ok '):
            continue
        data = bytes.fromhex(ro[3:])
        junk = g.r.choice([b'', b'', b'\xce', b'AMQP', b'\x01\x00\x00', bytes(g.r.getrandbits(8) for _ in range(9))])
        lu.add('frame.unmarshal %s' % hexb(data + junk), outcome(frame.unmarshal, data + junk, show=show_frame), repr(data)[:300], k)
        lp.add('frame.parts %s' % hexb(data + junk), outcome(frame.frame_parts, data + junk, show=lambda t: '%s %s %s' % t), repr(data)[:100], 'own')
        if i % 5 == 0:
            cuts = range(len(data)) if len(data) < 64 else sorted(set(list(range(12)) + [len(data) - k for k in range(1, 6)] + [g.r.randrange(len(data)) for _ in range(8)]))
            for k in cuts:
                lx.add('frame.unmarshal %s' % hexb(data[:k]), outcome(frame.unmarshal, data[:k], show=show_frame), repr(data[:k])[:200], 'prefix')
            for m in mutations(data, g.r, 12):
                if len(m) < 70000:
                    lx.add('frame.unmarshal %s' % hexb(m), outcome(frame.unmarshal, m, show=show_frame), repr(m)[:200], 'mutation')
    # bodies whose size sits on a mined size boundary, filled with frame-end octets
    for n_ in size_boundaries(ctx):
        for fill in (b'\xce', b'\x00'):
            content = fill * n_
            f = body.ContentBody(content)
            line = 'frame.marshal 0 (i 3) %s' % frame_sx(f)
            ro = outcome(frame.marshal, f, 3, show=show_bytes)
            lm.add(line, ro, 'body %r*%d' % (fill, n_), 'B')
            le.add(line, ro, 'body %r*%d' % (fill, n_), 'B')
            if ro.startswith('ok '):
                data = bytes.fromhex(ro[3:])
                lu.add('frame.unmarshal %s' % hexb(data), outcome(frame.unmarshal, data, show=show_frame), 'body %r*%d' % (fill, n_), 'B')
                for k_ in (len(data) - 1, len(data) - 8, n_ + 7, n_):
                    if 0 <= k_ < len(data):
                        lx.add('frame.unmarshal %s' % hexb(data[:k_]), outcome(frame.unmarshal, data[:k_], show=show_frame), 'body %r*%d cut %d' % (fill, n_, k_), 'prefix')
    # wrong-typed frames / channels
    for f, ch in [(body.ContentBody('text'), 1), (body.ContentBody(None), 1), (body.ContentBody(bytearray(b'ab')), 1),
                  (heartbeat.Heartbeat(), 70000), (body.ContentBody(b'x'), 65536), (body.ContentBody(b'x'), -1),
                  (body.ContentBody(b'x'), None), (body.ContentBody(b'x'), 1.0), (header.ProtocolHeader(256, 0, 0), 0),
                  (header.ProtocolHeader(0, -1, 0), 0), (header.ProtocolHeader(0, 0, '1'), 0), (object(), 0), (None, 0),
                  (real.make_header(-1, props_vals(ctx, 0)), 0), (real.make_header(2 ** 64, props_vals(ctx, 0)), 0),
                  (real.make_header('1', props_vals(ctx, 0)), 0), (body.ContentBody(b''), 1)]:
        try:
            line = 'frame.marshal 0 %s %s' % (sx(ch), frame_sx(f))
        except Unrepresentable:
            continue
        lm.add(line, outcome(frame.marshal, f, ch, show=show_bytes), '%s ch=%r' % (frame_sx(f)[:200], ch), 'wrong.' + kind_of(f))
    # header bytes: every value of each of the 7 header bytes, short buffers, big fields
    base7 = bytearray(b'\x01\x00\x01\x00\x00\x00\x05')
    bufs = [bytes(base7[:k]) for k in range(8)]
    for pos in range(7):
        for v in (range(256) if ctx.thorough or pos in (0, 1, 3) else [0, 1, 127, 128, 255]):
            b = bytearray(base7)
            b[pos] = v
            bufs.append(bytes(b) + b'\x00\x0a\x00\x0b\x00\xce')
    for _ in range(500):
        bufs.append(bytes(g.r.getrandbits(8) for _ in range(g.r.randrange(0, 20))))
    for b in bufs:
        lp.add('frame.parts %s' % hexb(b), outcome(frame.frame_parts, b, show=lambda t: '%s %s %s' % t), repr(b), 'grid')
        lx.add('frame.unmarshal %s' % hexb(b), outcome(frame.unmarshal, b, show=show_frame), repr(b), 'grid')
    for d in [b'\x08\x00\x00\x00\x00\x00\x00', b'\x08\x00\x00\x00\x00\x00\x00\x00', b'\x08\x00\x00\x00\x00\x00\x00\xce',
              b'AMQP', b'AMQP\x00\x00\x09', b'AMQP\x01\x01\x00\x09', b'AMQPxxxxyyy', b'',
              b'\x01\x00\x01\x00\x00\x00\x02\x00\x0a\xce', b'\x02\x00\x01\x00\x00\x00\x0e' + b'\x00\x3c\x00\x00' + b'\x00' * 8 + b'\x00\x01' + b'\xce',
              b'\x02\x00\x01\x00\x00\x00\x10' + b'\x00\x3c\x00\x00' + b'\x00' * 8 + b'\x00\x01\x00\x00' + b'\xce',
              b'\x04\x00\x01\x00\x00\x00\x01\x00\xce', b'\x03\x00\x01\x00\x00\x00\x01\x00\xcf']:
        lx.add('frame.unmarshal %s' % hexb(d), outcome(frame.unmarshal, d, show=show_frame), repr(d), 'corpus')
    return lm.run(split=True) + lu.run(split=True) + [lp.run(), lx.run(), le.run()]


# =============================================================== validation / construction

def constraint_values(ctx, rule):
    g = ctx.gen
    k = rule['kind']
    if k == 'mustEqInt':
        return [rule['c'], rule['c'] + 1, -1, None, True, False, 0, 1, '0', 0.0, 1.0, D(0), D('0.0'), D(1), 65535, '']
    if k in ('mustEqStr', 'mustEqStrBare'):
        return [rule['c'], rule['c'] + 'x', '', '0', '1', None, 0, b'', b'0', ' ', False]
    if k == 'mustBeFalse':
        return [False, True, None, 0, 1, '', 'False']
    if k == 'maxLen':
        n = rule['n']
        return ['', 'a', 'a' * (n - 1), 'a' * n, 'a' * (n + 1), 'é' * n, 'é' * (n + 1), None, 5, b'a' * (n + 1), ['a'] * (n + 1), 'a' * 255, 'a' * 256]
    if k == 'regex':
        return ['', 'ok-name_1.2:3@4#5,6/7 8', 'bad\n', 'bad!', 'é', 'a\x00', 'tab\t', None, 5, b'abc', ['a'], 'A' * 10 + '$'] + \
            [chr(g.codepoint()) for _ in range(6)]
    if k == 'oneOf':
        return list(rule['cs']) + [0, 3, None, True, False, 1.0, 2.0, '1', D(1), D(2), D('1.0'), 255, -1]
    return [None]


def lane_validate(ctx):
    """validate() of every validating class, constructor vs setattr-then-validate"""
    lv = Lane('validate')
    g = ctx.gen
    metas = ctx.generated['catalogue']['methods']
    for meta in metas:
        if not meta['rules']:
            continue
        cls = commands.INDEX_MAPPING[meta['key']]
        names = [a['name'] for a in meta['args']]
        for rule in meta['rules']:
            if 'attr' not in rule:
                continue
            i = names.index(rule['attr'])
            for v in constraint_values(ctx, rule):
                vals = method_vals_ok(ctx, cls, meta)
                vals[i] = v
                obj = real.make_method(cls, vals)
                lv.try_add(lambda: 'validate %d' % meta['key'] + ''.join(' ' + sx(x) for x in vals),
                           lambda: outcome(obj.validate), '%s %s=%r' % (meta['name'], rule['attr'], v), meta['name'] + '.' + rule['kind'])
    pm = ctx.generated['catalogue']['properties']
    pnames = [p['name'] for p in pm['props']]
    for rule in pm['rules']:
        if 'attr' not in rule:
            continue
        i = pnames.index(rule['attr'])
        for v in constraint_values(ctx, rule):
            vals = props_vals(ctx, g.r.getrandbits(len(pnames) - 1))
            vals[i] = v
            obj = real.make_props(vals)
            lv.try_add(lambda: 'validate.props' + ''.join(' ' + sx(x) for x in vals), lambda: outcome(obj.validate),
                       'Properties %s=%r' % (rule['attr'], v), 'Properties.' + rule['kind'])
    return lv.run()


def lane_ctor(ctx):
    """Cls() attribute values after __init__ (defaults and `x or {}` normalisations)"""
    lc = Lane('ctor')
    for key, cls in real.method_classes():
        def mk():
            o = cls()
            return [getattr(o, a) for a in cls.__slots__]
        lc.add('api.construct %d' % key, outcome(mk, show=lambda vs: ' '.join(sx(v) for v in vs)) if cls.__slots__ else outcome(mk), cls.name)
    return lc.run()


def lane_mapping(ctx, rounds=2):
    """list(obj), len(obj), `name in obj`, obj[name], cls.amqp_type(name) for every class (C19)"""
    lm = Lane('mapping')
    g = ctx.gen
    targets = [(meta['key'], commands.INDEX_MAPPING[meta['key']], meta) for meta in ctx.generated['catalogue']['methods']]
    pm = ctx.generated['catalogue']['properties']
    for key, cls, meta in targets + [(0, commands.Basic.Properties, None)]:
        slots = list(cls.__slots__)
        for rnd in range(rounds):
            if meta is not None:
                vals = method_vals_ok(ctx, cls, meta)
            else:
                vals = props_vals(ctx, g.r.getrandbits(len(slots)))
            for i in range(len(vals)):
                if g.r.random() < 0.3:
                    vals[i] = g.value_ok(1, 2) if g.r.random() < 0.7 else g.r.choice(FALSY)
            obj = real.make_method(cls, vals) if meta is not None else real.make_props(vals)

            def it(obj=obj):
                pairs = list(obj)
                return 'ok %d' % len(obj) + ''.join(' %s %s' % (k, sx(v)) for k, v in pairs)
            lm.try_add(lambda: 'map.iter %d' % key + ''.join(' ' + sx(x) for x in vals), lambda: outcome(it, show=lambda x: x[3:]),
                       '%s iter %r' % (cls.name, vals), 'iter')
            others = [n for n in dir(obj) if n not in slots and not n.startswith('__')]
            probes = slots + g.r.sample(others, min(3, len(others))) + ['_' + slots[0] if slots else 'x', 'no_such_name']
            for name in probes:
                def item(obj=obj, name=name, cls=cls):
                    if name in slots:
                        return 'ok %d %s %s' % (1 if name in obj else 0, sx(obj[name]), cls.amqp_type(name))
                    return 'ok %d - -' % (1 if name in obj else 0)
                lm.try_add(lambda: 'map.item %d %s' % (key, name) + ''.join(' ' + sx(x) for x in vals), lambda: outcome(item, show=lambda x: x[3:]),
                           '%s item %s %r' % (cls.name, name, vals), 'item')
    return lm.run()


FALSY = [None, 0, False, '', {}, [], b'', 0.0, -0.0, D(0), D('-0.00'), bytearray()]


def lane_ctor_args(ctx, rounds=6):
    """Cls(v1, ..., vn): attribute values after __init__ for GIVEN arguments - the `x or {}` normalisations
    on falsy and truthy values of every kind, and the trailing validate() of the validating classes"""
    lc = Lane('ctor_args')
    g = ctx.gen
    for meta in ctx.generated['catalogue']['methods']:
        if not meta['args']:
            continue
        cls = commands.INDEX_MAPPING[meta['key']]
        n = len(meta['args'])
        for rnd in range(rounds):
            vals = method_vals_ok(ctx, cls, meta)
            for i in range(n):
                k = g.r.random()
                if k < 0.25:
                    vals[i] = g.r.choice(FALSY)
                elif k < 0.35:
                    vals[i] = g.value_ok(1, 2)
                elif k < 0.45:
                    rules = [ru for ru in meta['rules'] if ru.get('attr') == meta['args'][i]['name']]
                    if rules:
                        vals[i] = g.r.choice(constraint_values(ctx, g.r.choice(rules)))

            def mk(cls=cls, vals=vals):
                o = cls(*vals)
                return [getattr(o, a) for a in cls.__slots__]
            lc.try_add(lambda: 'api.constructwith %d' % meta['key'] + ''.join(' ' + sx(x) for x in vals),
                       lambda: outcome(mk, show=lambda vs: ' '.join(sx(v) for v in vs)), '%s%r' % (meta['name'], vals), meta['name'])
    pm = ctx.generated['catalogue']['properties']
    pnames = [p['name'] for p in pm['props']]
    for rnd in range(rounds * 6):
        vals = props_vals(ctx, g.r.getrandbits(len(pnames)))
        for i in range(len(pnames)):
            k = g.r.random()
            if k < 0.08:
                vals[i] = g.r.choice(FALSY)
            elif k < 0.2:
                rules = [ru for ru in pm['rules'] if ru.get('attr') == pnames[i]]
                if rules:
                    vals[i] = g.r.choice(constraint_values(ctx, g.r.choice(rules)))

        def mkp(vals=vals):
            o = commands.Basic.Properties(*vals)
            return [getattr(o, a) for a in commands.Basic.Properties.__slots__]
        lc.try_add(lambda: 'api.constructprops' + ''.join(' ' + sx(x) for x in vals),
                   lambda: outcome(mkp, show=lambda vs: ' '.join(sx(v) for v in vs)), 'Properties%r' % (vals,), 'Basic.Properties')
    return lc.run()


# =============================================================== API sequences (C11 toggle, C16)

RECURRING = [lambda: {'k' * 130: 1}, lambda: {'\u20ac' * 100: 'x', 'a': 1}, lambda: {'x-message-ttl': 60000, 'x-max-length-bytes': 3000000000},
             lambda: [D('2.50'), D('2.5'), 0.0, -0.0, True, 1, 1.0], lambda: {'d': D('1E+2'), 'e': D('100')}, lambda: 'caf\u00e9',
             lambda: {'q' * 200: {'q' * 200: None}}, lambda: 40000, lambda: 3000000000]


def recurring_ops():
    """every recurring value encoded under BOTH settings of the switch (appended to the operation list of the
    fresh-interpreter comparison: (line, thunk, desc, switch))"""
    out = []
    for i, mk in enumerate(RECURRING):
        for flag in (True, False, True):
            v = mk()
            out.append(('api.encvalue ' + sx(v), (lambda v=v: outcome(encode.encode_table_value, v, show=show_bytes)), 'recurring %d' % i, flag))
    return out


def api_ops(ctx, n):
    """a random operation sequence: (driver line, thunk computing the real outcome)"""
    g = ctx.gen
    ops = []
    for _ in range(n):
        k = g.r.random()
        if k < 0.12:
            arg = g.r.choice(['d', '1', '0'])
            ops.append(('api.toggle ' + arg, (lambda a=arg: (encode.support_deprecated_rabbitmq() if a == 'd' else encode.support_deprecated_rabbitmq(a == '1')) or 'ok') , 'toggle ' + arg))
        elif k < 0.4:
            v = g.value_ok(2, 3) if g.r.random() < 0.8 else g.integer()
            if g.r.random() < 0.3:      # values that recur in the history (memoisation, once-only logic)
                v = g.r.choice(RECURRING)()
            try:
                line = 'api.encvalue ' + sx(v)
            except Unrepresentable:
                continue
            ops.append((line, (lambda v=v: outcome(encode.encode_table_value, v, show=show_bytes)), repr(v)[:200]))
        elif k < 0.6:
            f, ch = random_frame(ctx)
            try:
                line = 'api.marshal %s %s' % (sx(ch), frame_sx(f))
            except Unrepresentable:
                continue
            ops.append((line, (lambda f=f, ch=ch: outcome(frame.marshal, f, ch, show=show_bytes)), frame_sx(f)[:200]))
        elif k < 0.85:
            f, ch = random_frame(ctx)
            try:
                data = frame.marshal(f, ch)
            except Exception:
                continue
            if g.r.random() < 0.3:      # decode invalid: a strict prefix (always rejected)
                data = data[:g.r.randrange(0, len(data))]
            ops.append(('api.unmarshal ' + hexb(data), (lambda d=data: outcome(frame.unmarshal, d, show=show_frame)), repr(data)[:200]))
        else:
            key = g.r.choice(list(commands.INDEX_MAPPING))
            cls = commands.INDEX_MAPPING[key]

            def mk(cls=cls):
                o = cls()
                return [getattr(o, a) for a in cls.__slots__]
            ops.append(('api.construct %d' % key, (lambda mk=mk, cls=cls: outcome(mk, show=lambda vs: ' '.join(sx(v) for v in vs)) if cls.__slots__ else outcome(mk)), cls.name))
    return ops


def lane_api_toggle(ctx):
    """toggle sequences interleaved with integer encodes only (C11)"""
    ln = Lane('api.toggle')
    g = ctx.gen
    old = encode.DEPRECATED_RABBITMQ_SUPPORT
    encode.DEPRECATED_RABBITMQ_SUPPORT = False
    try:
        for i in range(3000 if ctx.thorough else 600):
            if g.r.random() < 0.3:
                arg = g.r.choice(['d', '1', '0'])
                if arg == 'd':
                    encode.support_deprecated_rabbitmq()
                else:
                    encode.support_deprecated_rabbitmq(arg == '1')
                ln.add('api.toggle ' + arg, 'ok', 'toggle ' + arg, 'toggle')
            else:
                n = g.r.choice([40000, 65535, 32768, 3000000000, 2 ** 31, 2 ** 32 - 1, 200, -5, g.integer()])
                v = n if g.r.random() < 0.6 else g.r.choice([[n], {'k': n}, {'a': [{'n': n}]}])
                ln.add('api.encvalue ' + sx(v), outcome(encode.encode_table_value, v, show=show_bytes), repr(v), 'encode')
    finally:
        encode.DEPRECATED_RABBITMQ_SUPPORT = old
    return ln.run()


def lane_api_seq(ctx):
    """sequences through ONE interpreter vs the model's state machine (one driver process per
    sequence, so the model starts from the fresh-interpreter state)"""
    results = []
    nseq, length = (12, 1500) if ctx.thorough else (4, 200)
    for s in range(nseq):
        ln = Lane('api.seq')
        mode = 'class'
        old = encode.DEPRECATED_RABBITMQ_SUPPORT
        encode.DEPRECATED_RABBITMQ_SUPPORT = False
        try:
            for line, thunk, desc in api_ops(ctx, length):
                out = thunk()
                ln.add(line, out if isinstance(out, str) else 'ok', desc, line.split(' ')[0])
        finally:
            encode.DEPRECATED_RABBITMQ_SUPPORT = old
        # malformed unmarshal inputs are compared by outcome class, everything else exactly
        exact = Lane('api.seq')
        res = ln.run()
        results.append(res)
    # merge
    merged = results[0]
    for r in results[1:]:
        merged['evaluations'] += r['evaluations']
        merged['distinct'] += r['distinct']
        merged['disagreements'] += r['disagreements']
        merged['wall_s'] += r['wall_s']
        for k, v in r['distribution'].items():
            merged['distribution'][k] = merged['distribution'].get(k, 0) + v
    merged['sequences'] = nseq
    merged['sequence_length'] = length
    return merged


# =============================================================== Spec layer (reference encoder / parser in Lean)

def lane_spec(ctx):
    """the Lean reference encoder `Spec.encValue` / `Spec.argsWire` and the strict reference parser
    `Spec.parseValue` + `FV.value` against the real code: on C03's domain the real bytes must equal
    the reference bytes; on grammar-generated wire forms the real decoder must return the value the
    reference assigns (refused timestamps: the real decoder must raise)."""
    import grammar
    le = Lane('spec.enc')
    lp = Lane('spec.parse')
    la = Lane('spec.args')
    g = ctx.gen
    for i in range(5000 if ctx.thorough else 900):
        v = g.value_ok(depth=g.r.choice([0, 1, 2, 3]), breadth=g.r.choice([1, 2, 4]))
        lg = i % 3 == 0

        def mk_real():
            with real.legacy(lg):
                o = outcome(encode.encode_table_value, v, show=show_bytes)
            return o if o.startswith('ok') else 'none'
        le.try_add(lambda: 'spec.encvalue %d %s' % (lg, sx(v)), mk_real, repr(v)[:300], type(v).__name__)
    for i in range(5000 if ctx.thorough else 900):
        tag = grammar.TAGS[i % len(grammar.TAGS)] if i < 20 * len(grammar.TAGS) else None
        data, exp = grammar.field(g, g.r.choice([0, 1, 2, 3]), tag)
        junk = g.r.choice([b'', b'\x00', b'\xce\x01'])
        o = outcome(decode.embedded_value, data + junk, show=show_dec)
        if not o.startswith('ok'):
            o = 'refused' if o == 'err ValueError' and data[:1] == b'T' else o
        lp.add('spec.parsevalue %s' % hexb(data + junk), o, repr(data)[:200], 'tag %r' % data[:1])
    metas = ctx.generated['catalogue']['methods']
    for meta in metas:
        cls = commands.INDEX_MAPPING.get(meta['key'])
        if cls is None:
            continue
        bits = [i for i, a in enumerate(meta['args']) if a['ty'] == 'bit']
        for combo in (itertools.product([False, True], repeat=len(bits)) if bits else [()]):
            vals = method_vals_ok(ctx, cls, meta)
            for i, bv in zip(bits, combo):
                if not any(ru.get('attr') == meta['args'][i]['name'] for ru in meta['rules']):
                    vals[i] = bv
            obj = real.make_method(cls, vals)
            o = outcome(obj.marshal, show=show_bytes)
            la.try_add(lambda: 'spec.args 0 %d' % meta['key'] + ''.join(' ' + sx(x) for x in vals),
                       lambda: o if o.startswith('ok') else 'none', '%s%r' % (meta['name'], vals), meta['name'])
    return [le.run(), lp.run(), la.run()]
