/-!
# Types of the regenerated (Tie A) data other than the catalogue.  Import-free.
-/
namespace Pamqp

inductive ConstVal where
  | int (i : Int) | str (s : String) | bytes (b : List Nat) | tuple (l : List Int) | other (src : String)
  deriving DecidableEq, Repr, Inhabited

/-- one exception class of `exceptions.py` that carries `name`/`value` -/
structure ReplyCode where
  value : Int
  name : String
  className : String
  bases : List String        -- base-class chain, nearest first, up to and excluding `Exception`
  deriving DecidableEq, Repr, Inhabited

/-- one arm of the comparison chain of `table_integer` -/
structure Rung where
  lo : Int
  hi : Int
  tag : Nat                  -- the tag byte prepended (`b'b'` = 98)
  encoder : String           -- what packs the value: `short_int`, `Struct.short_short_int`, ...
  deriving DecidableEq, Repr, Inhabited

/-- `if not isinstance(value, T): raise E` / `elif not (lo <= value <= hi): raise E` of a fixed-width encoder -/
structure Guard where
  fn : String
  isinstanceOf : String
  lo : Option Int
  hi : Option Int
  exc : String               -- exception class raised by the range guard (or by the type guard if no range)
  packer : String            -- `Struct.<member>` used to pack
  deriving DecidableEq, Repr, Inhabited

/-- a `struct` use inside a function: `Struct.<member>` or an inline format string -/
structure StructUse where
  fn : String                -- `module.function` (or `module.Class.method`)
  what : String              -- `Struct.integer` or `'>BHI'`
  op : String                -- pack / unpack / unpack_from
  deriving DecidableEq, Repr, Inhabited

/-- a `try` / `except` site -/
structure ExceptSite where
  fn : String
  covers : List String       -- source text of the statements inside the `try`
  catches : List String      -- exception classes named by the clause
  action : String            -- `raise <Class>` / `return <expr>` / other
  deriving DecidableEq, Repr, Inhabited

/-- frame conditions (C12, C15, C16) -/
structure ParamDefault where
  fn : String
  param : String
  kind : String              -- immutable / none / mutable
  src : String
  deriving DecidableEq, Repr, Inhabited

structure MutationSite where
  fn : String
  target : String
  targetKind : String        -- fresh-local / parameter / self-attribute / module-level / class-level / unknown
  how : String               -- .append / .update / subscript-store / del / augassign / attribute-store / global-store
  deriving DecidableEq, Repr, Inhabited

structure TimeCall where
  fn : String
  shape : String             -- normalised source shape, e.g. `X.replace(tzinfo=datetime.timezone.utc)`
  deriving DecidableEq, Repr, Inhabited

end Pamqp
