import Pamqp.Model.Frame
/-!
# Pamqp.Spec.Defs — the domains and normalisations the properties speak about, as decidable
predicates / total functions written independently of the encoder and decoder.
-/
namespace Pamqp
namespace Spec

/-! ## documented normalisation of field values (C03) -/

/-- the instant of a datetime value in microseconds since the epoch -/
def instantMicros (micros : Int) (tz : Option Int) : Int :=
  match tz with
  | none => micros                      -- naive: read as UTC
  | some off => micros - off * 1000000

def normDecimal (neg : Bool) (coeff : Nat) (exp : Int) : PyVal :=
  if exp < 0 then .decimal (neg && coeff != 0) coeff exp
  else .decimal (neg && coeff != 0) (coeff * 10 ^ exp.toNat) 0

mutual
/-- floats rounded to single precision, datetimes truncated to whole seconds and UTC-aware,
struct_time read as UTC, decimals rebuilt from (unscaled, scale), dict entries in ascending key
order (dict equality ignores the order; this is the canonical representative) -/
def norm : PyVal → PyVal
  | .float bits => .float (f32Widen ((f32Narrow bits).getD 0))
  | .datetime m tz => .datetime (Int.tdiv (instantMicros m tz) 1000000 * 1000000) (some 0)
  | .structTime s => .datetime (s * 1000000) (some 0)
  | .decimal n c e => normDecimal n c e
  | .list vs => .list (normList vs)
  | .dict kvs => .dict (List.mergeSort (normEntries kvs) (fun a b => strLe a.1 b.1))
  | v => v
def normList : List PyVal → List PyVal
  | [] => []
  | v :: vs => norm v :: normList vs
def normEntries : List (Str × PyVal) → List (Str × PyVal)
  | [] => []
  | (k, v) :: es => (k, norm v) :: normEntries es
end

/-! ## wire size, computed without encoding -/

def utf8Len1 (c : Nat) : Nat := if c < 0x80 then 1 else if c < 0x800 then 2 else if c < 0x10000 then 3 else 4
def utf8Len (s : Str) : Nat := (s.map utf8Len1).sum

def intSize (i : Int) : Nat :=
  if -128 ≤ i ∧ i ≤ 127 then 1 else if -32768 ≤ i ∧ i ≤ 65535 then 2
  else if -2147483648 ≤ i ∧ i ≤ 4294967295 then 4 else 8

def intSizeLegacy (i : Int) : Nat :=
  if -128 ≤ i ∧ i ≤ 127 then 1 else if -32768 ≤ i ∧ i ≤ 32767 then 2
  else if -2147483648 ≤ i ∧ i ≤ 2147483647 then 4 else 8

mutual
/-- size in bytes of the encoding of a field value, tag included -/
def wireSize (legacy : Bool) : PyVal → Nat
  | .none => 1
  | .bool _ => 2
  | .int i => 1 + (if legacy then intSizeLegacy i else intSize i)
  | .float _ => 5
  | .decimal _ _ _ => 6
  | .str s => 5 + utf8Len s
  | .bytearray b => 5 + b.length
  | .datetime _ _ => 9
  | .structTime _ => 9
  | .list vs => 5 + wireSizeList legacy vs
  | .dict kvs => 5 + wireSizeEntries legacy kvs
  | _ => 0
def wireSizeList (legacy : Bool) : List PyVal → Nat
  | [] => 0
  | v :: vs => wireSize legacy v + wireSizeList legacy vs
def wireSizeEntries (legacy : Bool) : List (Str × PyVal) → Nat
  | [] => 0
  | (k, v) :: es => 1 + utf8Len k + wireSize legacy v + wireSizeEntries legacy es
end

/-! ## C03's domain -/

def decimalOK (neg : Bool) (coeff : Nat) (exp : Int) : Prop :=
  if exp < 0 then -exp ≤ 255 ∧ (if neg then coeff ≤ 2147483648 else coeff ≤ 2147483647)
  else (if neg then coeff * 10 ^ exp.toNat ≤ 2147483648 else coeff * 10 ^ exp.toNat ≤ 2147483647)

def keyOK (k : Str) : Prop := k.length ≤ 128 ∧ (utf8Encode k).isSome ∧ utf8Len k ≤ 255

mutual
/-- every encodable field value, as the property lists them -/
def Encodable (legacy : Bool) : PyVal → Prop
  | .none => True
  | .bool _ => True
  | .int i => -9223372036854775808 ≤ i ∧ i ≤ 9223372036854775807
  | .float bits => (f32Narrow bits).isSome
  | .decimal n c e => decimalOK n c e
  | .str s => (utf8Encode s).isSome ∧ utf8Len s < 2 ^ 32
  | .bytearray b => b.length < 2 ^ 32
  | .datetime m tz => -1000000 < instantMicros m tz ∧ instantMicros m tz / 1000000 ≤ 4294967295
  | .structTime s => 0 ≤ s ∧ s ≤ 4294967295
  | .list vs => EncodableList legacy vs ∧ wireSizeList legacy vs < 2 ^ 32
  | .dict kvs => EncodableEntries legacy kvs ∧ (kvs.map (·.1)).Nodup ∧ wireSizeEntries legacy kvs < 2 ^ 32
  | .decimalSpecial _ => False
  | .bytes _ => False
  | .other => False
def EncodableList (legacy : Bool) : List PyVal → Prop
  | [] => True
  | v :: vs => Encodable legacy v ∧ EncodableList legacy vs
def EncodableEntries (legacy : Bool) : List (Str × PyVal) → Prop
  | [] => True
  | (k, v) :: es => keyOK k ∧ Encodable legacy v ∧ EncodableEntries legacy es
end

/-! ## C01 / C02: accepted argument values -/

/-- a value of the annotated Python type within the wire range of its AMQP type -/
def argOK (legacy : Bool) : WireTy → PyVal → Prop
  | .bit, .bool _ => True
  | .octet, .int i => 0 ≤ i ∧ i ≤ 255
  | .short, .int i => 0 ≤ i ∧ i ≤ 65535
  | .long, .int i => 0 ≤ i ∧ i ≤ 4294967295
  | .longlong, .int i => -9223372036854775808 ≤ i ∧ i ≤ 9223372036854775807
  | .shortstr, .str s => (utf8Encode s).isSome ∧ utf8Len s ≤ 255
  | .longstr, .str s => (utf8Encode s).isSome ∧ utf8Len s < 2 ^ 32
  | .table, .none => True
  | .table, .dict kvs => Encodable legacy (.dict kvs)
  | .timestamp, .datetime m tz => Encodable legacy (.datetime m tz)
  | .timestamp, .structTime s => Encodable legacy (.structTime s)
  | _, _ => False

/-- what the decoder returns for an accepted argument value -/
def normArg : WireTy → PyVal → PyVal
  | .table, .none => .dict []
  | .table, v => norm v
  | .timestamp, v => norm v
  | _, v => v

def argSize (legacy : Bool) : WireTy → PyVal → Nat
  | .octet, _ => 1
  | .short, _ => 2
  | .long, _ => 4
  | .longlong, _ => 8
  | .shortstr, .str s => 1 + utf8Len s
  | .longstr, .str s => 4 + utf8Len s
  | .table, .dict kvs => 4 + wireSizeEntries legacy kvs
  | .table, _ => 4
  | .timestamp, _ => 8
  | _, _ => 0

/-- bits share octets; every non-bit argument and every bit run is at most this large -/
def argsSizeBound (legacy : Bool) : List (WireTy × PyVal) → Nat
  | [] => 0
  | (ty, v) :: rest => (if ty = .bit then 1 else argSize legacy ty v) + argsSizeBound legacy rest

def argsOK (legacy : Bool) : List (WireTy × PyVal) → Prop
  | [] => True
  | (ty, v) :: rest => argOK legacy ty v ∧ argsOK legacy rest

/-- no run of 7 or more consecutive `bit` arguments (the decoder's `offset == 7` shortcut is
wrong for longer runs; no AMQP method has more than 5) -/
def bitRunOK : Nat → List WireTy → Bool
  | _, [] => true
  | k, .bit :: rest => k + 1 ≤ 6 && bitRunOK (k + 1) rest
  | _, _ :: rest => bitRunOK 0 rest

/-- the decidable facts about a catalogue that the round trip needs -/
def methodWF (m : MethodSpec) : Bool :=
  m.key == m.index && decide (0 ≤ m.index) && decide (m.index < 2147483648) &&
  bitRunOK 0 m.types && m.types.all (· != .unknown)

def catWF (cat : Cat) : Bool :=
  cat.methods.all methodWF && (cat.methods.map (·.key)).Nodup

/-- an argument assignment the library accepts: typed, in range, passes `validate()` -/
structure Accepted (legacy : Bool) (spec : MethodSpec) (vals : List PyVal) : Prop where
  len : vals.length = spec.args.length
  typed : argsOK legacy (spec.types.zip vals)
  valid : Base.validate spec.slots vals spec.rules = .ok ()
  size : argsSizeBound legacy (spec.types.zip vals) + 4 < 2 ^ 32

def normArgs (spec : MethodSpec) (vals : List PyVal) : List PyVal :=
  (spec.types.zip vals).map (fun p => normArg p.1 p.2)

/-! ## C02: message properties -/

/-- each property is unset (`None` / `''`) or an accepted value of its type -/
def propsOK (legacy : Bool) : List (PropSpec × PyVal) → Prop
  | [] => True
  | (p, v) :: rest => (Base.isSet v = false ∨ argOK legacy p.ty v) ∧ propsOK legacy rest

def propsSizeBound (legacy : Bool) : List (PropSpec × PyVal) → Nat
  | [] => 0
  | (p, v) :: rest => (if Base.isSet v then argSize legacy p.ty v else 0) + propsSizeBound legacy rest

/-- what decoding yields for the property list: set slots carry the (normalised) value, all others
the constructor default -/
def expectedProps : List (PropSpec × PyVal) → List PyVal
  | [] => []
  | (p, v) :: rest => (if Base.isSet v then normArg p.ty v else Base.litVal p.default) :: expectedProps rest

def isPow2In (f lo hi : Nat) : Bool := (List.range (hi + 1 - lo)).any (fun i => f == 2 ^ (lo + i))

/-- flags are distinct single bits within 15..2, no wire type is `bit`/unknown -/
def flagsWF (props : List PropSpec) : Bool :=
  props.all (fun p => isPow2In p.flag 2 15 && p.ty != .bit && p.ty != .unknown) &&
  (props.map (·.flag)).Nodup

/-! ## C06: decoding a stream by repeatedly dropping the consumed bytes -/

def decodeAll (cat : Cat) : Nat → Bytes → Option (List (Nat × AnyFrame))
  | _, [] => some []
  | 0, _ :: _ => none
  | f+1, bs =>
    match Frame.unmarshal cat bs with
    | .ok (n, ch, fr) =>
      if n = 0 then none
      else match decodeAll cat f (bs.drop n) with
        | some rest => some ((ch, fr) :: rest)
        | none => none
    | .error _ => none

def isProtocolHeader : AnyFrame → Bool
  | .protocolHeader _ _ _ => true
  | _ => false

/-- the frame-type octet of a frame kind -/
def kindOctet : AnyFrame → Nat
  | .method _ _ => 1
  | .header _ _ _ _ => 2
  | .body _ => 3
  | .heartbeat => 8
  | _ => 0

end Spec
end Pamqp
