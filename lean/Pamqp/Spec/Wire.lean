import Pamqp.Model.Frame
/-!
# Pamqp.Spec.Wire — the AMQP 0-9-1 field-value grammar (with the RabbitMQ errata) as a wire-level
syntax tree, its serialisation, a strict reference parser, the value a decoder must assign to it,
and an independent reference encoder (Python value -> tree).  Written from the grammar, in a
deliberately different style from the model of pamqp (no offsets, no permissive slices, insertion
sort instead of merge sort, bits grouped into runs).

  field-value = 't' boolean / 'b' short-short-int / 'B' short-short-uint / 's' short-int /
                'u' short-uint / 'I' long-int / 'i' long-uint / 'l' long-long-int / 'L' (same) /
                'f' float / 'd' double / 'D' decimal-value / 'S' long-string / 'A' field-array /
                'T' timestamp / 'F' field-table / 'V' / %x00 (no field) / 'x' byte-array
-/
namespace Pamqp
namespace Spec

inductive FV where
  | bool (b : Bool)
  | int (tag : UInt8) (n : Int)
  | f32 (bits : Nat)
  | f64 (bits : Nat)
  | dec (scale : Nat) (raw : Int)
  | lstr (bs : Bytes)
  | arr (l : List FV)
  | ts (n : Nat)
  | tbl (l : List (Bytes × FV))
  | void (tag : UInt8)
  | bin (bs : Bytes)
  deriving Repr, Inhabited

/-- width in octets and signedness of the eight integer tags -/
def intShape (tag : UInt8) : Option (Nat × Bool) :=
  if tag = 98 then some (1, true)          -- b
  else if tag = 66 then some (1, false)    -- B
  else if tag = 115 then some (2, true)    -- s
  else if tag = 117 then some (2, false)   -- u
  else if tag = 73 then some (4, true)     -- I
  else if tag = 105 then some (4, false)   -- i
  else if tag = 108 then some (8, true)    -- l
  else if tag = 76 then some (8, true)     -- L (read signed, as the library documents)
  else none

def intInRange (k : Nat) (signed : Bool) (n : Int) : Prop :=
  if signed then -((256 ^ k / 2 : Nat) : Int) ≤ n ∧ n < ((256 ^ k / 2 : Nat) : Int)
  else 0 ≤ n ∧ n < ((256 ^ k : Nat) : Int)

mutual
/-- serialisation by the grammar -/
def FV.wire : FV → Bytes
  | .bool b => [116, if b then 1 else 0]
  | .int tag n =>
    match intShape tag with
    | some (k, _) => tag :: beN k (n % (256 ^ k : Nat)).toNat
    | none => [tag]
  | .f32 b => 102 :: beN 4 b
  | .f64 b => 100 :: beN 8 b
  | .dec s r => 68 :: (beN 1 s ++ beN 4 (r % (256 ^ 4 : Nat)).toNat)
  | .lstr bs => 83 :: (beN 4 bs.length ++ bs)
  | .arr l => 65 :: (beN 4 (wireL l).length ++ wireL l)
  | .ts n => 84 :: beN 8 n
  | .tbl l => 70 :: (beN 4 (wireE l).length ++ wireE l)
  | .void tag => [tag]
  | .bin bs => 120 :: (beN 4 bs.length ++ bs)
def wireL : List FV → Bytes
  | [] => []
  | v :: vs => v.wire ++ wireL vs
def wireE : List (Bytes × FV) → Bytes
  | [] => []
  | (k, v) :: es => (UInt8.ofNat k.length :: k) ++ (v.wire ++ wireE es)
end

mutual
/-- well-formedness: every number fits its field, every length its prefix, names are UTF-8 -/
def FV.WF : FV → Prop
  | .bool _ => True
  | .int tag n => ∃ k s, intShape tag = some (k, s) ∧ intInRange k s n ∧ (tag = 76 → 0 ≤ n)
  | .f32 b => b < 2 ^ 32
  | .f64 b => b < 2 ^ 64
  | .dec s r => s < 256 ∧ -2147483648 ≤ r ∧ r ≤ 2147483647
  | .lstr bs => bs.length < 2 ^ 32
  | .arr l => WFL l ∧ (wireL l).length < 2 ^ 32
  | .ts n => n < 2 ^ 64
  | .tbl l => WFE l ∧ (wireE l).length < 2 ^ 32
  | .void tag => tag = 86 ∨ tag = 0
  | .bin bs => bs.length < 2 ^ 32
def WFL : List FV → Prop
  | [] => True
  | v :: vs => v.WF ∧ WFL vs
def WFE : List (Bytes × FV) → Prop
  | [] => True
  | (k, v) :: es => k.length < 256 ∧ (utf8Decode k).isSome ∧ v.WF ∧ WFE es
end

/-- what a timestamp denotes: seconds up to 2^32-1, above that milliseconds (the library's
documented reading); `none` = not representable as a datetime, must be refused -/
def tsValue (n : Nat) : Option PyVal :=
  if n ≤ 0xFFFFFFFF then some (.datetime ((n : Int) * 1000000) (some 0))
  else if (n : Int) * 1000 ≤ 253402300799999999 then some (.datetime ((n : Int) * 1000) (some 0))
  else none

mutual
/-- the value an independent reference decoder assigns -/
def FV.value : FV → Option PyVal
  | .bool b => some (.bool b)
  | .int _ n => some (.int n)
  | .f32 b => some (.float (f32Widen b))
  | .f64 b => some (.float b)
  | .dec s r => some (.decimal (r < 0) r.natAbs (-(s : Int)))
  | .lstr bs => match utf8Decode bs with
    | some s => some (.str s)
    | none => some (.bytes bs)             -- not UTF-8: the raw bytes
  | .arr l => (valueL l).map .list
  | .ts n => tsValue n
  | .tbl l => (valueE l []).map .dict
  | .void _ => some .none
  | .bin bs => some (.bytearray bs)
def valueL : List FV → Option (List PyVal)
  | [] => some []
  | v :: vs => match v.value, valueL vs with
    | some a, some b => some (a :: b)
    | _, _ => none
/-- entries in wire order; a repeated name overwrites in place like a Python dict -/
def valueE : List (Bytes × FV) → List (Str × PyVal) → Option (List (Str × PyVal))
  | [], acc => some acc
  | (k, v) :: es, acc => match utf8Decode k, v.value with
    | some name, some a => valueE es (Decode.dictSet acc name a)
    | _, _ => none
end

/-! ## strict reference parser (recursive descent in the shape of the grammar) -/

def take? (n : Nat) (bs : Bytes) : Option (Bytes × Bytes) :=
  if bs.length < n then none else some (bs.take n, bs.drop n)

def signedOf (k : Nat) (u : Nat) : Int :=
  if 2 * u ≥ 256 ^ k then (u : Int) - (256 ^ k : Nat) else (u : Int)

mutual
def parseFV : Nat → Bytes → Option (FV × Bytes)
  | 0, _ => none
  | _+1, [] => none
  | f+1, t :: r =>
    if t = 116 then match r with
      | o :: r => some (.bool (o != 0), r)
      | [] => none
    else if t = 102 then (take? 4 r).map (fun (a, r) => (.f32 (unbe a), r))
    else if t = 100 then (take? 8 r).map (fun (a, r) => (.f64 (unbe a), r))
    else if t = 68 then match take? 1 r with
      | some (s, r) => (take? 4 r).map (fun (a, r) => (.dec (unbe s) (signedOf 4 (unbe a)), r))
      | none => none
    else if t = 83 then match take? 4 r with
      | some (l, r) => (take? (unbe l) r).map (fun (a, r) => (.lstr a, r))
      | none => none
    else if t = 120 then match take? 4 r with
      | some (l, r) => (take? (unbe l) r).map (fun (a, r) => (.bin a, r))
      | none => none
    else if t = 84 then (take? 8 r).map (fun (a, r) => (.ts (unbe a), r))
    else if t = 86 ∨ t = 0 then some (.void t, r)
    else if t = 65 then match take? 4 r with
      | some (l, r) => match take? (unbe l) r with
        | some (body, r) => (parseL f body).map (fun l => (.arr l, r))
        | none => none
      | none => none
    else if t = 70 then match take? 4 r with
      | some (l, r) => match take? (unbe l) r with
        | some (body, r) => (parseE f body).map (fun l => (.tbl l, r))
        | none => none
      | none => none
    else match intShape t with
      | some (k, s) => (take? k r).map (fun (a, r) => (.int t (if s then signedOf k (unbe a) else (unbe a : Int)), r))
      | none => none
/-- exactly the given bytes as a sequence of field values -/
def parseL : Nat → Bytes → Option (List FV)
  | _, [] => some []
  | 0, _ :: _ => none
  | f+1, bs => match parseFV f bs with
    | some (v, r) => (parseL f r).map (v :: ·)
    | none => none
/-- exactly the given bytes as a sequence of (short-string name, field value) pairs -/
def parseE : Nat → Bytes → Option (List (Bytes × FV))
  | _, [] => some []
  | 0, _ :: _ => none
  | f+1, kl :: bs => match take? kl.toNat bs with
    | some (k, r) => if (utf8Decode k).isSome then
        match parseFV f r with
        | some (v, r) => (parseE f r).map ((k, v) :: ·)
        | none => none
      else none
    | none => none
end

/-- top level: one field value followed by anything -/
def parseValue (bs : Bytes) : Option (FV × Bytes) := parseFV (2 * bs.length + 2) bs

/-! ## independent reference encoder: Python value -> tree -/

def ladderTags (legacy : Bool) : List UInt8 :=
  if legacy then [98, 115, 73, 108] else [98, 115, 117, 73, 105, 108]

/-- smallest fitting integer type in the documented order -/
def pickInt : List UInt8 → Int → Option FV
  | [], _ => none
  | tag :: rest, n =>
    match intShape tag with
    | some (k, s) =>
      if (if s then decide (-((256 ^ k / 2 : Nat) : Int) ≤ n ∧ n < ((256 ^ k / 2 : Nat) : Int))
          else decide (0 ≤ n ∧ n < ((256 ^ k : Nat) : Int))) then some (.int tag n)
      else pickInt rest n
    | none => none

/-- insertion into a list sorted by name (code-point order of the decoded names = byte order of
their UTF-8 is NOT assumed: names are compared as the Python strings they came from) -/
def insertByKey (e : Str × FV) : List (Str × FV) → List (Str × FV)
  | [] => [e]
  | x :: xs => if strLe e.1 x.1 then e :: x :: xs else x :: insertByKey e xs

def sortByKey : List (Str × FV) → List (Str × FV)
  | [] => []
  | e :: es => insertByKey e (sortByKey es)

def lowerDecimal (neg : Bool) (coeff : Nat) (exp : Int) : Option FV :=
  let signed (m : Nat) : Int := if neg then -(m : Int) else (m : Int)
  if exp < 0 then
    if -exp ≤ 255 ∧ -2147483648 ≤ signed coeff ∧ signed coeff ≤ 2147483647 ∧ -2000054 ≤ exp
    then some (.dec (-exp).toNat (signed coeff)) else none
  else if coeff = 0 then some (.dec 0 0)
  else if exp ≤ 10 ∧ -2147483648 ≤ signed (coeff * 10 ^ exp.toNat) ∧ signed (coeff * 10 ^ exp.toNat) ≤ 2147483647
    then some (.dec 0 (signed (coeff * 10 ^ exp.toNat))) else none

def lowerInstant (inst : Int) : Option FV :=
  let secs := Int.tdiv inst 1000000
  if 0 ≤ secs ∧ secs < 2 ^ 64 then some (.ts secs.toNat) else none

/-- names truncated to 128 characters (documented), encoded as short strings -/
def namesOf : List (Str × FV) → Option (List (Bytes × FV))
  | [] => some []
  | (k, v) :: es => match utf8Encode (k.take 128), namesOf es with
    | some kb, some rest => if kb.length < 256 then some ((kb, v) :: rest) else none
    | _, _ => none

def tblOf (sorted : List (Str × FV)) : Option FV :=
  match namesOf sorted with
  | some l => if (wireE l).length < 2 ^ 32 then some (.tbl l) else none
  | none => none

mutual
/-- which tree the specification's type table assigns to a Python value; `none` = no field type -/
def lower (legacy : Bool) : PyVal → Option FV
  | .none => some (.void 86)
  | .bool b => some (.bool b)
  | .int i => pickInt (ladderTags legacy) i
  | .float bits => (f32Narrow bits).map .f32
  | .decimal n c e => lowerDecimal n c e
  | .str s => match utf8Encode s with
    | some bs => if bs.length < 2 ^ 32 then some (.lstr bs) else none
    | none => none
  | .bytearray b => if b.length < 2 ^ 32 then some (.bin b) else none
  | .datetime m tz => lowerInstant (match tz with | none => m | some off => m - off * 1000000)
  | .structTime s => if 0 ≤ s ∧ s < 2 ^ 64 then some (.ts s.toNat) else none
  | .list vs => match lowerL legacy vs with
    | some l => if (wireL l).length < 2 ^ 32 then some (.arr l) else none
    | none => none
  | .dict kvs => match lowerE legacy kvs with
    | some l => tblOf (sortByKey l)
    | none => none
  | .decimalSpecial _ => none
  | .bytes _ => none
  | .other => none
def lowerL (legacy : Bool) : List PyVal → Option (List FV)
  | [] => some []
  | v :: vs => match lower legacy v, lowerL legacy vs with
    | some a, some b => some (a :: b)
    | _, _ => none
def lowerE (legacy : Bool) : List (Str × PyVal) → Option (List (Str × FV))
  | [] => some []
  | (k, v) :: es => match lower legacy v, lowerE legacy es with
    | some a, some b => some ((k, a) :: b)
    | _, _ => none
end

/-- the reference encoder on bytes -/
def encValue (legacy : Bool) (v : PyVal) : Option Bytes := (lower legacy v).map FV.wire

/-! ## structural facts the properties mention -/

mutual
/-- names ascending (by the strings they denote) at every nesting level -/
def FV.Sorted : FV → Prop
  | .arr l => SortedL l
  | .tbl l => (l.map (fun e => utf8Decode e.1)).Pairwise (fun a b => match a, b with
      | some x, some y => strLe x y = true | _, _ => False) ∧ SortedE l
  | _ => True
def SortedL : List FV → Prop
  | [] => True
  | v :: vs => v.Sorted ∧ SortedL vs
def SortedE : List (Bytes × FV) → Prop
  | [] => True
  | (_, v) :: es => v.Sorted ∧ SortedE es
end

mutual
/-- every integer tag anywhere in the tree is one of `allowed` -/
def FV.IntTagsIn (allowed : List UInt8) : FV → Prop
  | .int tag _ => tag ∈ allowed
  | .arr l => IntTagsInL allowed l
  | .tbl l => IntTagsInE allowed l
  | _ => True
def IntTagsInL (allowed : List UInt8) : List FV → Prop
  | [] => True
  | v :: vs => v.IntTagsIn allowed ∧ IntTagsInL allowed vs
def IntTagsInE (allowed : List UInt8) : List (Bytes × FV) → Prop
  | [] => True
  | (_, v) :: es => v.IntTagsIn allowed ∧ IntTagsInE allowed es
end

/-! ## method arguments and frames by the grammar -/

/-- one argument of the AMQP type (the value already in wire terms) -/
def argWire (legacy : Bool) : WireTy → PyVal → Option Bytes
  | .octet, .int i => if 0 ≤ i ∧ i < 256 then some (beN 1 i.toNat) else none
  | .short, .int i => if 0 ≤ i ∧ i < 65536 then some (beN 2 i.toNat) else none
  | .long, .int i => if 0 ≤ i ∧ i < 4294967296 then some (beN 4 i.toNat) else none
  | .longlong, .int i =>
    if -9223372036854775808 ≤ i ∧ i ≤ 9223372036854775807 then some (beN 8 (i % (256 ^ 8 : Nat)).toNat) else none
  | .shortstr, .str s => match utf8Encode s with
    | some bs => if bs.length < 256 then some (beN 1 bs.length ++ bs) else none
    | none => none
  | .longstr, .str s => match utf8Encode s with
    | some bs => if bs.length < 2 ^ 32 then some (beN 4 bs.length ++ bs) else none
    | none => none
  | .table, .none => some [0, 0, 0, 0]
  | .table, .dict kvs => match lower legacy (.dict kvs) with
    | some fv => some (fv.wire.drop 1)       -- a table argument is a field table without its tag
    | none => none
  | .timestamp, v => match lower legacy v with
    | some (.ts n) => some (beN 8 n)
    | _ => none
  | _, _ => none

/-- a run of bits, LSB first, as one octet -/
def packBits : List Bool → Nat
  | [] => 0
  | b :: bs => (if b then 1 else 0) + 2 * packBits bs

/-- split off the leading run of `bit` arguments -/
def takeBits : List (WireTy × PyVal) → Option (List Bool × List (WireTy × PyVal))
  | (.bit, .bool b) :: rest => (takeBits rest).map (fun (bs, r) => (b :: bs, r))
  | (.bit, _) :: _ => none
  | rest => some ([], rest)

/-- arguments in specification order; consecutive bits are grouped into runs and each run of at
most 8 is one octet (the catalogue has no longer run) -/
def argsWire (legacy : Bool) : Nat → List (WireTy × PyVal) → Option Bytes
  | _, [] => some []
  | 0, _ :: _ => none
  | f+1, (ty, v) :: rest =>
    if ty = .bit then
      match takeBits ((ty, v) :: rest) with
      | some (bits, rest') =>
        if bits.length ≤ 8 ∧ rest'.length < ((ty, v) :: rest).length then
          (argsWire legacy f rest').map (fun t => UInt8.ofNat (packBits bits) :: t)
        else none
      | none => none
    else match argWire legacy ty v, argsWire legacy f rest with
      | some a, some t => some (a ++ t)
      | _, _ => none

/-- the frame envelope as a record -/
structure Envelope where
  kind : Nat
  channel : Nat
  payload : Bytes

def Envelope.wire (e : Envelope) : Bytes :=
  beN 1 e.kind ++ beN 2 e.channel ++ beN 4 e.payload.length ++ e.payload ++ [0xCE]

/-- property flag word: sum over present slots; property list in slot order -/
def propsWire (legacy : Bool) : List (PropSpec × PyVal) → Option (Nat × Bytes)
  | [] => some (0, [])
  | (p, v) :: rest =>
    if Base.isSet v then
      match argWire legacy p.ty v, propsWire legacy rest with
      | some a, some (fl, t) => some (p.flag + fl, a ++ t)
      | _, _ => none
    else propsWire legacy rest

end Spec
end Pamqp

namespace Pamqp
namespace Spec

/-! ## received method arguments and content headers by the grammar (C05 at frame level) -/

/-- one wire item of a method's argument list: a maximal run of 1..8 bits sharing an octet (whose
unused high bits may hold anything), or one non-bit argument -/
inductive AV where
  | bits (bs : List Bool) (pad : Nat)
  | octet (n : Nat)
  | short (n : Nat)
  | long (n : Nat)
  | longlong (i : Int)
  | sstr (bs : Bytes)
  | lstr (bs : Bytes)
  | table (l : List (Bytes × FV))
  | ts (n : Nat)
  deriving Repr, Inhabited

def AV.wire : AV → Bytes
  | .bits bs pad => [UInt8.ofNat (packBits bs + 2 ^ bs.length * pad)]
  | .octet n => beN 1 n
  | .short n => beN 2 n
  | .long n => beN 4 n
  | .longlong i => beN 8 (i % (256 ^ 8 : Nat)).toNat
  | .sstr bs => beN 1 bs.length ++ bs
  | .lstr bs => beN 4 bs.length ++ bs
  | .table l => beN 4 (wireE l).length ++ wireE l
  | .ts n => beN 8 n

def AV.types : AV → List WireTy
  | .bits bs _ => bs.map (fun _ => .bit)
  | .octet _ => [.octet]
  | .short _ => [.short]
  | .long _ => [.long]
  | .longlong _ => [.longlong]
  | .sstr _ => [.shortstr]
  | .lstr _ => [.longstr]
  | .table _ => [.table]
  | .ts _ => [.timestamp]

def AV.isBits : AV → Bool
  | .bits _ _ => true
  | _ => false

def AV.WF : AV → Prop
  | .bits bs pad => 1 ≤ bs.length ∧ bs.length ≤ 6 ∧ packBits bs + 2 ^ bs.length * pad < 256
  | .octet n => n < 256
  | .short n => n < 65536
  | .long n => n < 2 ^ 32
  | .longlong i => -9223372036854775808 ≤ i ∧ i ≤ 9223372036854775807
  | .sstr bs => bs.length < 256 ∧ (utf8Decode bs).isSome
  | .lstr bs => bs.length < 2 ^ 32
  | .table l => (FV.tbl l).WF
  | .ts n => n < 2 ^ 64

/-- the attribute values a decoder must assign (one per argument) -/
def AV.values : AV → Option (List PyVal)
  | .bits bs _ => some (bs.map .bool)
  | .octet n => some [.int n]
  | .short n => some [.int n]
  | .long n => some [.int n]
  | .longlong i => some [.int i]
  | .sstr bs => (utf8Decode bs).map (fun s => [.str s])
  | .lstr bs => match utf8Decode bs with
    | some s => some [.str s]
    | none => some [.bytes bs]
  | .table l => ((FV.tbl l).value).map (fun v => [v])
  | .ts n => (tsValue n).map (fun v => [v])

def avsValues : List AV → Option (List PyVal)
  | [] => some []
  | a :: as => match a.values, avsValues as with
    | some x, some y => some (x ++ y)
    | _, _ => none

/-- bit runs are maximal: no two adjacent runs (they would share an octet) -/
def runsMaximal : List AV → Bool
  | a :: b :: rest => !(a.isBits && b.isBits) && runsMaximal (b :: rest)
  | _ => true

end Spec
end Pamqp
