import Pamqp.Props.C05
import Pamqp.Props.C05Frame
import Pamqp.Generated.Catalogue
import Pamqp.Proofs.HeaderRefuse
/-!
# C05, refusal clause at frame level — a content header whose timestamp PROPERTY cannot be represented as a
datetime is refused with the library's exception (never decoded into another instant, never into nothing)
-/
namespace Pamqp.Props
open Pamqp

/-- the content header frame a peer sends with only the timestamp property set (flag bit 6 = 0x0040), any class id,
weight, body size and channel: for a timestamp value no datetime can hold, decoding raises UnmarshalingException -/
theorem C05_header_timestamp_refused (cls weight size ch n : Nat) (hc : cls < 65536) (hw : weight < 65536)
    (hs : size < 2 ^ 64) (hch : ch < 65536) (h : 253402300800000 ≤ n) (hn : n < 2 ^ 64) (rest : Bytes) :
    Frame.unmarshal Generated.cat
      (Spec.Envelope.wire ⟨2, ch, beN 2 cls ++ beN 2 weight ++ beN 8 size ++ beN 2 0x0040 ++ beN 8 n⟩ ++ rest)
      = .error .unmarshaling := by
  exact Proofs.HeaderRefuse.header_timestamp_refused cls weight size ch n hc hw hs hch h hn rest

/-- ... and a representable one (seconds form) is decoded as exactly that instant, UTC -/
theorem C05_header_timestamp_seconds (cls weight size ch n : Nat) (hc : cls < 65536) (hw : weight < 65536)
    (hs : size < 2 ^ 64) (hch : ch < 65536) (hn : n < 2 ^ 32) (rest : Bytes) :
    ∃ props, Frame.unmarshal Generated.cat
      (Spec.Envelope.wire ⟨2, ch, beN 2 cls ++ beN 2 weight ++ beN 8 size ++ beN 2 0x0040 ++ beN 8 n⟩ ++ rest)
      = .ok (30, ch, .header (.int cls) (.int weight) (.int size) props) ∧
      props[9]? = some (.datetime ((n : Int) * 1000000) (some 0)) := by
  exact Proofs.HeaderRefuse.header_timestamp_seconds cls weight size ch n hc hw hs hch hn rest

end Pamqp.Props
