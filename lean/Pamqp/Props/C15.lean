import Pamqp.Spec.Defs

import Pamqp.Proofs.Time
/-!
# C15 — timestamp handling does not depend on the host time zone or DST
The model of `encode.timestamp` / `decode.timestamp` has no time-zone input at all; that this is a
faithful model is the Tie-A obligation `tieA_time_calls` (every call into time / datetime /
calendar in the current source has an environment-independent shape) plus the multi-TZ lanes.
The theorems below state the MEANING the property demands.
-/
namespace Pamqp.Props
open Pamqp

/-- a naive datetime is encoded as if it were UTC -/
theorem C15_naive_as_utc (m : Int) :
    Encode.timestamp (.datetime m none) = Encode.timestamp (.datetime m (some 0)) := by
  exact Proofs.Time.naive_as_utc m

/-- an aware datetime is encoded as its absolute instant: equal instants, equal bytes -/
theorem C15_aware_instant (m₁ m₂ off₁ off₂ : Int) (h : m₁ - off₁ * 1000000 = m₂ - off₂ * 1000000) :
    Encode.timestamp (.datetime m₁ (some off₁)) = Encode.timestamp (.datetime m₂ (some off₂)) := by
  exact Proofs.Time.aware_instant m₁ m₂ off₁ off₂ h

/-- whole seconds of the instant, big-endian unsigned 64 bit -/
theorem C15_encoding (m : Int) (tz : Option Int) (h0 : 0 ≤ Spec.instantMicros m tz) :
    Encode.timestamp (.datetime m tz) = packU64 (Spec.instantMicros m tz / 1000000) := by
  exact Proofs.Time.encoding m tz h0

/-- a struct_time is read as UTC (`calendar.timegm`) -/
theorem C15_struct_time (s : Int) : Encode.timestamp (.structTime s) = packU64 s := rfl

/-- every decoded timestamp is UTC-aware -/
theorem C15_decode_utc (bs : Bytes) (n : Nat) (v : PyVal) (h : Decode.timestamp bs = .ok (n, v)) :
    ∃ m, v = .datetime m (some 0) := by
  exact Proofs.Time.decode_utc bs n v h

/-- and denotes the encoded instant (1970..2106) -/
theorem C15_roundtrip_instant (m : Int) (tz : Option Int) (h0 : 0 ≤ Spec.instantMicros m tz)
    (h1 : Spec.instantMicros m tz / 1000000 ≤ 4294967295) (rest : Bytes) :
    ∃ bs, Encode.timestamp (.datetime m tz) = .ok bs ∧
      Decode.timestamp (bs ++ rest) =
        .ok (8, .datetime (Spec.instantMicros m tz / 1000000 * 1000000) (some 0)) := by
  exact Proofs.Time.roundtrip_instant m tz h0 h1 rest

end Pamqp.Props
