import Pamqp.Props.C15
import Pamqp.Proofs.Bytes
/-!
# C15, the decoding direction stated on the wire: eight octets from a peer denote ONE instant, whatever the host
-/
namespace Pamqp.Props
open Pamqp

/-- the eight octets of `n`, followed by anything: the second form up to 2^32-1, the millisecond form above it (exact, no
rounding), ValueError once no datetime can hold the instant; always UTC; the model has no time-zone input at all -/
theorem C15_decode_wire (n : Nat) (hn : n < 2 ^ 64) (rest : Bytes) :
    Decode.timestamp (beN 8 n ++ rest) =
      if n ≤ 0xFFFFFFFF then .ok (8, .datetime ((n : Int) * 1000000) (some 0))
      else if 253402300799999 < n then .error .valueError
      else .ok (8, .datetime ((n : Int) * 1000) (some 0)) := by
  have h256 : n < 256 ^ 8 := by simpa using hn
  unfold Decode.timestamp
  rw [unpackU_beN 8 n h256 rest]
  simp only [bind, Except.bind, Decode.maxMicros]
  by_cases h1 : n ≤ 0xFFFFFFFF
  · have : ¬ n > 0xFFFFFFFF := by omega
    simp [h1, this]; rfl
  · have h2 : n > 0xFFFFFFFF := by omega
    by_cases h3 : 253402300799999 < n
    · have : (n : Int) * 1000 > 253402300799999999 := by omega
      simp [h1, h2, h3, this]
    · have : ¬ ((n : Int) * 1000 > 253402300799999999) := by omega
      simp [h1, h2, h3, this]; rfl

/-- both branches are inhabited, and so is the refusal -/
example : Decode.timestamp (beN 8 1700000000 ++ [1, 2]) = .ok (8, .datetime 1700000000000000 (some 0)) := by
  have := C15_decode_wire 1700000000 (by decide) [1, 2]; simpa using this
example : Decode.timestamp (beN 8 8589934592001) = .ok (8, .datetime 8589934592001000 (some 0)) := by
  have := C15_decode_wire 8589934592001 (by decide) []; simpa using this

end Pamqp.Props
