import Pamqp.Spec.Defs
import Pamqp.Generated.Catalogue
import Pamqp.Proofs.PropsLoop
/-!
# C02 — content header and Basic.Properties survive encode-then-decode
-/
namespace Pamqp.Props
open Pamqp

/-- Tie-A obligation on the regenerated flag table: distinct single bits within 15..2 -/
theorem C02_flags_wf : Spec.flagsWF Generated.cat.props = true := by decide

/-- flag bits are 15 down to 2 in slot order, 14 properties -/
theorem C02_flags_msb_first :
    Generated.cat.props.map (·.flag) = (List.range 14).map (fun i => 2 ^ (15 - i)) := by decide

theorem C02_class_id : Generated.cat.basicClassId = 60 := by decide

/-- For ANY property table with well-formed flags (so all 2^n presence patterns at once, by
induction over the slot list), any values that are unset or accepted, any body size below 2^64,
any channel and ANY trailing bytes: decoding the encoded content-header frame yields the class id,
weight 0, the same body size and exactly the set properties (normalised), all others at their
constructor defaults. -/
theorem C02_roundtrip_generic (cat : Cat) (hwf : Spec.flagsWF cat.props = true)
    (hcls : cat.basicClassId < 65536) (legacy : Bool)
    (vals : List PyVal) (hlen : vals.length = cat.props.length)
    (hok : Spec.propsOK legacy (cat.props.zip vals))
    (hsz : Spec.propsSizeBound legacy (cat.props.zip vals) + 14 < 2 ^ 32)
    (size : Nat) (hsize : size < 2 ^ 64) (cls weight : PyVal)
    (ch : Nat) (hc : ch < 65536) (rest : Bytes) :
    ∃ bs, Frame.marshal legacy cat (.header cls weight (.int size) vals) (.int ch) = .ok bs ∧
      Frame.unmarshal cat (bs ++ rest) =
        .ok (bs.length, ch, .header (.int cat.basicClassId) (.int 0) (.int size)
              (Spec.expectedProps (cat.props.zip vals))) :=
  Proofs.header_frame_roundtrip cat hwf hcls legacy vals hlen hok hsz size hsize cls weight ch hc rest

/-- the property, for the regenerated property table (class id 60) -/
theorem C02_header_roundtrip (legacy : Bool)
    (vals : List PyVal) (hlen : vals.length = Generated.cat.props.length)
    (hok : Spec.propsOK legacy (Generated.cat.props.zip vals))
    (hsz : Spec.propsSizeBound legacy (Generated.cat.props.zip vals) + 14 < 2 ^ 32)
    (size : Nat) (hsize : size < 2 ^ 64) (cls weight : PyVal)
    (ch : Nat) (hc : ch < 65536) (rest : Bytes) :
    ∃ bs, Frame.marshal legacy Generated.cat (.header cls weight (.int size) vals) (.int ch) = .ok bs ∧
      Frame.unmarshal Generated.cat (bs ++ rest) =
        .ok (bs.length, ch, .header (.int 60) (.int 0) (.int size)
              (Spec.expectedProps (Generated.cat.props.zip vals))) :=
  C02_roundtrip_generic Generated.cat C02_flags_wf (by decide) legacy vals hlen hok hsz size hsize cls weight
    ch hc rest

/-- the "sign problem": reading the flag word signed does not change which flags are seen -/
theorem C02_signed_flag_word (u m : Nat) (hu : u < 65536) (hm : m < 65536) :
    pyAndMask (unbeS (beN 2 u)) m = u &&& m :=
  Proofs.signed_flag_word u m hu hm

/-- the deprecated cluster id stays the empty string when unset -/
theorem C02_cluster_id_default :
    (Generated.cat.props.map (fun p => (p.name, p.default))).getLast? =
      some ("cluster_id", Lit.str "") ∧
    (Generated.cat.props.dropLast.all (fun p => p.default == Lit.none)) = true := by decide

end Pamqp.Props
