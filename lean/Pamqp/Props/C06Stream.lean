import Pamqp.Props.C06
import Pamqp.Props.C01
import Pamqp.Props.C18
import Pamqp.Proofs.Stream
/-!
# C06, stream clause instantiated — a concatenation of encoded method / body / heartbeat frames decodes,
by repeatedly dropping the consumed bytes, to exactly those frames in order with their channels
-/
namespace Pamqp.Props
open Pamqp

/-- what one may put on the stream: an accepted method, a non-empty-or-empty body, a heartbeat -/
inductive Item where
  | method (spec : MethodSpec) (vals : List PyVal) (ch : Nat)
  | body (b : Bytes) (ch : Nat)
  | heartbeat

def Item.ok (legacy : Bool) (cat : Cat) : Item → Prop
  | .method spec vals ch => spec ∈ cat.methods ∧ Spec.Accepted legacy spec vals ∧ ch < 65536
  | .body b ch => b.length < 2 ^ 32 ∧ ch < 65536
  | .heartbeat => True

def Item.frame : Item → AnyFrame × PyVal
  | .method spec vals ch => (.method spec vals, .int ch)
  | .body b ch => (.body (.bytes b), .int ch)
  | .heartbeat => (.heartbeat, .int 0)

def Item.decoded : Item → Nat × AnyFrame
  | .method spec vals ch => (ch, .method spec (Spec.normArgs spec vals))
  | .body b ch => (ch, .body (.bytes b))
  | .heartbeat => (0, .heartbeat)

theorem C06_stream_of_items (legacy : Bool) (cat : Cat) (hwf : Spec.catWF cat = true) (items : List Item)
    (hok : ∀ i ∈ items, i.ok legacy cat) :
    ∃ bss : List Bytes, bss.length = items.length ∧
      (∀ p ∈ items.zip bss, Frame.marshal legacy cat p.1.frame.1 p.1.frame.2 = .ok p.2) ∧
      Spec.decodeAll cat (items.length + 1) (bss.flatMap id) = some (items.map Item.decoded) := by
  have h : ∀ i ∈ items, ∃ bs,
      Proofs.StreamFrame legacy cat (Item.frame i).1 (Item.frame i).2 (Item.decoded i) bs := by
    intro i hi
    have ho := hok i hi
    cases i with
    | method spec vals ch =>
      exact Proofs.streamFrame_method legacy cat hwf spec ho.1 vals ho.2.1 ch ho.2.2
    | body b ch => exact Proofs.streamFrame_body legacy cat b ho.1 ch ho.2
    | heartbeat => exact Proofs.streamFrame_heartbeat legacy cat (.int 0)
  obtain ⟨bss, hlen, hzip, hdec⟩ :=
    Proofs.stream_of_items legacy cat Item.frame Item.decoded items h
  exact ⟨bss, hlen, hzip, hdec _ (Nat.lt_succ_self _)⟩

end Pamqp.Props
