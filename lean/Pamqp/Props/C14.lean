import Pamqp.Spec.Tables
import Pamqp.Model.Api
import Pamqp.Generated.Catalogue
/-!
# C14 — the method catalogue matches the AMQP 0-9-1 + RabbitMQ specification
All obligations are kernel evaluations (`decide`) on the catalogue REGENERATED from the current
source, against the hand-transcribed `Spec.methods` / `Spec.properties`. Finite and exhaustive.
-/
namespace Pamqp.Props
open Pamqp

/-- the default an instance carries after `__init__` (`x or {}` applied) -/
def instanceDefault (a : ArgSpec) : Lit :=
  match a.norm, a.default with
  | .orEmptyDict, .none => .emptyDict
  | .orEmptyStr, .none => .str ""
  | .orFalse, .none => .bool false
  | _, d => d

/-- what the specification says about one method, read off the generated class -/
def project (m : MethodSpec) : Spec.SpecMethod :=
  { classId := m.classId, methodId := m.methodId, name := m.name,
    args := m.args.map (fun a => { name := a.name, ty := a.ty, default := instanceDefault a, doc := a.docDefault }),
    responses := m.validResponses }

/-- exactly the specified methods, each with its class id, method id, dotted name, argument names
in wire order, wire types, constructor defaults, documented defaults and reply list -/
theorem C14_catalogue_eq_spec : Generated.methods.map project = Spec.methods := by decide

theorem C14_count : Generated.methods.length = 64 ∧ Generated.frameClassCount = 64 := by decide

/-- combined index = class id << 16 | method id, used both as mapping key and as the class's own index -/
theorem C14_index :
    (Generated.methods.all (fun m => m.key == (m.classId * 65536 + m.methodId : Nat) && m.index == m.key)) = true := by
  decide

theorem C14_keys_distinct : (Generated.methods.map (·.key)).Nodup := by decide

/-- a method expects a reply exactly when its reply list is non-empty -/
theorem C14_sync_iff_replies :
    (Generated.methods.all (fun m => m.synchronous == !m.validResponses.isEmpty)) = true ∧
    Generated.syncRecognised = true := by decide

/-- every listed reply is a method of the same AMQP class -/
theorem C14_replies_same_class :
    (Generated.methods.all (fun m => m.validResponses.all (fun r =>
      Generated.methods.any (fun m' => m'.name == r && m'.classId == m.classId)))) = true := by decide

/-- the dotted name is the Python class path -/
theorem C14_python_names :
    (Generated.methods.map (fun m => (m.className, m.pyName, m.name))).Nodup := by decide

/-- the 14 Basic properties in specification order with the specified wire types and flag bits 15..2 -/
theorem C14_properties_eq_spec :
    Generated.props.map (fun p => (p.name, p.ty, p.flag)) = Spec.properties ∧
    Generated.propsFlagsRecognised = true ∧ Generated.propsName = "Basic.Properties" ∧
    Generated.propsFrameId = 60 := by decide

/-- the construct operation of the API model yields those defaults -/
theorem C14_construct_defaults (a : ArgSpec) : Base.litVal (instanceDefault a) = Api.normDefault a := by
  cases a with
  | mk name ty ann d n doc =>
    cases n <;> cases d <;> simp [instanceDefault, Api.normDefault, Base.litVal, Base.strOf]

end Pamqp.Props
