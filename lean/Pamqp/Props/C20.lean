import Pamqp.Spec.Defs
import Pamqp.Proofs.Envelope
/-!
# C20 — header peek reports the type, channel and size the decoder will use
-/
namespace Pamqp.Props
open Pamqp

/-- shorter than 7 bytes: the 'no frame yet' triple, never an exception -/
theorem C20_short (bs : Bytes) (h : bs.length < 7) : Frame.frameParts bs = (0, 0, none) := by
  exact Proofs.frameParts_short bs h

/-- at least 7 bytes: type, channel, size are the big-endian unsigned readings of bytes 0, 1-2, 3-6,
whatever follows them -/
theorem C20_parts (hd tail : Bytes) (h : hd.length = 7) :
    Frame.frameParts (hd ++ tail) =
      (unbe (hd.take 1), unbe ((hd.drop 1).take 2), some (unbe (hd.drop 3))) := by
  exact Proofs.frameParts_append hd tail h

/-- unsigned ranges -/
theorem C20_ranges (bs : Bytes) (t ch sz : Nat) (h : Frame.frameParts bs = (t, ch, some sz)) :
    t < 256 ∧ ch < 65536 ∧ sz < 2 ^ 32 := by
  exact Proofs.frameParts_ranges bs t ch sz h

/-- for every frame the encoder produces except the protocol header, the peek returns the frame's
kind, its channel, and size + 8 = the frame's exact length -/
theorem C20_peek_agrees (legacy : Bool) (cat : Cat) (f : AnyFrame) (ch : PyVal) (bs : Bytes)
    (hf : Spec.isProtocolHeader f = false) (h : Frame.marshal legacy cat f ch = .ok bs) :
    ∃ c : Nat, (f = .heartbeat ∨ ch.asInt? = some (c : Int)) ∧ (f = .heartbeat → c = 0) ∧
      Frame.frameParts bs = (Spec.kindOctet f, c, some (bs.length - 8)) ∧ 8 ≤ bs.length := by
  exact Proofs.frameParts_peek_agrees legacy cat f ch bs hf h

/-- every body frame the encoder produces, EMPTY ONES INCLUDED, is accepted by the decoder and
consumed completely on the peeked channel -/
theorem C20_body_accepted (legacy : Bool) (cat : Cat) (b : Bytes) (hl : b.length < 2 ^ 32)
    (ch : Nat) (hc : ch < 65536) (rest : Bytes) :
    ∃ bs, Frame.marshal legacy cat (.body (.bytes b)) (.int ch) = .ok bs ∧
      Frame.frameParts bs = (3, ch, some (bs.length - 8)) ∧
      Frame.unmarshal cat (bs ++ rest) = .ok (bs.length, ch, .body (.bytes b)) := by
  obtain ⟨bs, hm, _, hp, hu⟩ := Proofs.body_roundtrip_any legacy cat b hl ch hc rest
  exact ⟨bs, hm, hp, hu⟩

end Pamqp.Props
