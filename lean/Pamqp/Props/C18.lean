import Pamqp.Spec.Defs
import Pamqp.Proofs.Envelope
/-!
# C18 — body, heartbeat and protocol-header frames round-trip on every channel
-/
namespace Pamqp.Props
open Pamqp

/-- any non-empty content, any length below 2^32, whatever bytes it contains (0xCE, "AMQP",
frame-header look-alikes), any channel, any trailing bytes -/
theorem C18_body (legacy : Bool) (cat : Cat) (b : Bytes) (hne : b ≠ []) (hl : b.length < 2 ^ 32)
    (ch : Nat) (hc : ch < 65536) (rest : Bytes) :
    ∃ bs, Frame.marshal legacy cat (.body (.bytes b)) (.int ch) = .ok bs ∧ bs.length = b.length + 8 ∧
      Frame.unmarshal cat (bs ++ rest) = .ok (b.length + 8, ch, .body (.bytes b)) := by
  exact Proofs.body_roundtrip legacy cat b hne hl ch hc rest

theorem C18_heartbeat (legacy : Bool) (cat : Cat) (ch : PyVal) (rest : Bytes) :
    Frame.marshal legacy cat .heartbeat ch = .ok [8, 0, 0, 0, 0, 0, 0, 0xCE] ∧
    Frame.unmarshal cat ([8, 0, 0, 0, 0, 0, 0, 0xCE] ++ rest) = .ok (8, 0, .heartbeat) := by
  exact Proofs.heartbeat_roundtrip legacy cat ch rest

theorem C18_protocol_header (legacy : Bool) (cat : Cat) (a b c : Nat) (ha : a < 256) (hb : b < 256)
    (hc : c < 256) (ch : PyVal) (rest : Bytes) :
    Frame.marshal legacy cat (.protocolHeader (.int a) (.int b) (.int c)) ch =
      .ok (Frame.amqp ++ [0, UInt8.ofNat a, UInt8.ofNat b, UInt8.ofNat c]) ∧
    Frame.unmarshal cat (Frame.amqp ++ [0, UInt8.ofNat a, UInt8.ofNat b, UInt8.ofNat c] ++ rest) =
      .ok (8, 0, .protocolHeader (.int a) (.int b) (.int c)) := by
  exact Proofs.protocol_header_roundtrip legacy cat a b c ha hb hc ch rest

/-- D12: the empty content body `ContentBody(b'')` is encoded as the 8-byte frame
`03 <channel> 00000000 CE`, and that frame decodes to the empty body, consuming exactly 8 bytes, on
every channel and whatever follows it -/
theorem C18_empty_body (legacy : Bool) (cat : Cat) (ch : Nat) (hc : ch < 65536) (rest : Bytes) :
    ∃ bs, Frame.marshal legacy cat (.body (.bytes [])) (.int ch) = .ok bs ∧ bs.length = 8 ∧
      Frame.unmarshal cat (bs ++ rest) = .ok (8, ch, .body (.bytes [])) := by
  exact Proofs.empty_body_roundtrip legacy cat ch hc rest

end Pamqp.Props
