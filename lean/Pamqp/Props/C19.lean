import Pamqp.Spec.Defs
import Pamqp.Generated.Catalogue
import Pamqp.Proofs.Mapping
/-!
# C19 — frames expose their arguments consistently as a mapping
-/
namespace Pamqp.Props
open Pamqp

/-- Tie-A obligation: for every class of the regenerated catalogue (and Basic.Properties) the
argument names are pairwise distinct, so name lookup is unambiguous. (That `__slots__`, the
`_attr` types, `__annotations__` and the constructor parameters name the same attributes in the
same order is checked by the translator, which emits a `<mismatch ...>` entry of unknown type
otherwise - excluded here.) -/
theorem C19_slots_distinct :
    (Generated.cat.methods.all (fun m => decide (m.slots.Nodup) && m.types.all (· != .unknown))) = true ∧
    (Generated.cat.props.map (·.name)).Nodup ∧
    (Generated.cat.props.all (fun p => p.ty != .unknown)) = true := by decide

/-- iteration yields the names in wire order paired with the current values; length, membership,
item access and the attribute list agree with that same ordered name list -/
theorem C19_mapping (names : List String) (vals : List PyVal) (hl : vals.length = names.length)
    (hn : names.Nodup) :
    (Base.iter names vals).map (·.1) = names ∧ (Base.iter names vals).map (·.2) = vals ∧
    Base.len names = names.length ∧
    (∀ a, Base.contains names a = true ↔ a ∈ names) ∧
    (∀ a v, (a, v) ∈ Base.iter names vals ↔ Base.getItem names vals a = some v) := by
  exact Mapping.mapping names vals hl hn

/-- the per-argument wire type is the one paired with the name -/
theorem C19_amqp_type (args : List (String × WireTy)) (hn : (args.map (·.1)).Nodup) (a : String) (t : WireTy) :
    (a, t) ∈ args ↔ Base.amqpType args a = some t := by
  exact Mapping.amqpType_iff args hn a t

end Pamqp.Props
