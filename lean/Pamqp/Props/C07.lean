import Pamqp.Spec.Defs
import Pamqp.Proofs.Envelope
/-!
# C07 — incomplete frames are reported as UnmarshalingException, never as a frame
-/
namespace Pamqp.Props
open Pamqp

/-- every strict prefix (incl. the empty one) of every frame the encoder produces - of any kind,
for any catalogue, any channel - is rejected with the library's own exception: no frame, no
consumed count, no other exception class -/
theorem C07_prefix_rejected (legacy : Bool) (cat : Cat) (f : AnyFrame) (ch : PyVal) (bs : Bytes)
    (h : Frame.marshal legacy cat f ch = .ok bs) (k : Nat) (hk : k < bs.length) :
    Frame.unmarshal cat (bs.take k) = .error .unmarshaling := by
  exact Proofs.unmarshal_prefix_rejected legacy cat f ch bs h k hk

/-- the hypothesis is satisfiable: a heartbeat is 8 bytes (its 7-byte prefix was accepted before D1) -/
example : Frame.marshal false ⟨[], [], 60⟩ .heartbeat (.int 0) = .ok [8, 0, 0, 0, 0, 0, 0, 206] := rfl

end Pamqp.Props
