import Pamqp.Spec.Defs
import Pamqp.Generated.Catalogue
import Pamqp.Proofs.FloatLemmas
import Pamqp.Proofs.Reencode
/-!
# C02, last clause — re-encoding the decoded header reproduces the original bytes
-/
namespace Pamqp.Props
open Pamqp

/-- single-precision floats survive widen-then-narrow: narrowing is idempotent on its own range -/
theorem C02_float_idempotent (bits b : Nat) (h : f32Narrow bits = some b) : f32Narrow (f32Widen b) = some b := by
  exact Proofs.FloatLemmas.f32Narrow_widen bits b h

/-- encoding a normalised field value gives the bytes of the original: normalisation is invisible
on the wire -/
theorem C02_norm_invisible (legacy : Bool) (v : PyVal) (h : Spec.Encodable legacy v) :
    Encode.tableValue legacy (Spec.norm v) = Encode.tableValue legacy v := by
  exact Proofs.Reencode.tableValue_norm legacy v h

/-- constructor defaults of the regenerated property table are all "unset" -/
theorem C02_defaults_unset :
    (Generated.cat.props.all (fun p => !Base.isSet (Base.litVal p.default))) = true := by decide

/-- re-encoding what was decoded (set slots normalised, defaults elsewhere) yields the very bytes -/
theorem C02_reencode_generic (cat : Cat) (hdef : (cat.props.all (fun p => !Base.isSet (Base.litVal p.default))) = true)
    (legacy : Bool) (vals : List PyVal) (hlen : vals.length = cat.props.length)
    (hok : Spec.propsOK legacy (cat.props.zip vals))
    (size ch cls weight cls' weight' : PyVal) :
    Frame.marshal legacy cat (.header cls' weight' size (Spec.expectedProps (cat.props.zip vals))) ch =
    Frame.marshal legacy cat (.header cls weight size vals) ch := by
  have _ := hlen
  exact Proofs.Reencode.marshal_expected cat hdef legacy vals hok size ch cls weight cls' weight'

end Pamqp.Props
