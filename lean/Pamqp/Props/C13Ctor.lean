import Pamqp.Props.C13
import Pamqp.Model.Api
import Pamqp.Proofs.Ctor
/-!
# C13, construction clause — constructing a method object raises ValueError iff a constraint of the
protocol definition is broken by the values the constructor stores
-/
namespace Pamqp.Props
open Pamqp

/-- for every class whose constructor ends with `self.validate()` (all validating classes:
`C13_ctor_validates`), and typed-or-None values for the constrained attributes -/
theorem C13_constructor_iff (spec : MethodSpec) (hv : spec.ctorValidates = true) (given : List PyVal)
    (ht : ∀ r ∈ spec.rules, typedFor (Base.lookupAttr spec.slots ((spec.args.zip given).map (fun p => Api.normGiven p.1 p.2))) r) :
    (Api.constructWith spec given = .error .valueError ↔
      ∃ r ∈ spec.rules, broken (Base.lookupAttr spec.slots ((spec.args.zip given).map (fun p => Api.normGiven p.1 p.2))) r) ∧
    (Api.constructWith spec given = .error .valueError ∨
      Api.constructWith spec given = .ok ((spec.args.zip given).map (fun p => Api.normGiven p.1 p.2))) := by
  exact Proofs.Ctor.constructWith_iff spec hv given _ (C13_validate_iff spec.slots _ spec.rules ht)

/-- a class without rules accepts everything -/
theorem C13_unconstrained_accepts (spec : MethodSpec) (h : spec.rules = []) (given : List PyVal) :
    ∃ vals, Api.constructWith spec given = .ok vals := by
  exact ⟨_, Proofs.Ctor.constructWith_no_rules spec h given⟩

end Pamqp.Props
