import Pamqp.Props.C13
import Pamqp.Props.C19
import Pamqp.Model.Api
import Pamqp.Proofs.CtorProps
/-!
# C13 / C19 on constructed objects — `Basic.Properties(v1, ..., v14)` and what a constructed object shows
-/
namespace Pamqp.Props
open Pamqp

/-- constructing Basic.Properties raises ValueError exactly when one of its constraints (delivery mode, cluster id) is
broken by the values given, and otherwise stores them unchanged -/
theorem C13_props_constructor_iff (cat : Cat) (rules : List Rule) (given : List PyVal)
    (ht : ∀ r ∈ rules, typedFor (Base.lookupAttr (cat.props.map (·.name)) given) r) :
    (Api.constructProps cat rules given = .error .valueError ↔
      ∃ r ∈ rules, broken (Base.lookupAttr (cat.props.map (·.name)) given) r) ∧
    (Api.constructProps cat rules given = .error .valueError ∨ Api.constructProps cat rules given = .ok given) := by
  exact Proofs.CtorProps.constructProps_iff cat rules given _ (C13_validate_iff _ given rules ht)

/-- a method object that was constructed shows, by iteration, exactly its argument names in wire order paired with the
values the constructor stored -/
theorem C19_constructed_iter (spec : MethodSpec) (given vals : List PyVal) (hl : given.length = spec.args.length)
    (hs : spec.slots = spec.args.map (·.name)) (h : Api.constructWith spec given = .ok vals) :
    (Base.iter spec.slots vals).map (·.1) = spec.slots ∧ (Base.iter spec.slots vals).map (·.2) = vals ∧
    vals = (spec.args.zip given).map (fun p => Api.normGiven p.1 p.2) := by
  exact Proofs.CtorProps.constructed_iter spec given vals hl hs h

end Pamqp.Props
