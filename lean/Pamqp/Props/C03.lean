import Pamqp.Spec.Defs
import Pamqp.Proofs.RoundTrip
/-!
# C03 — field tables and arrays round-trip with value and type preserved
Property theorems only; helper lemmas live in `Pamqp/Proofs/`.
-/
namespace Pamqp.Props
open Pamqp

/-- Every encodable field value is accepted by the encoder, its encoding has the size the grammar
predicts, and decoding the encoding followed by ANY bytes consumes exactly the encoding and returns
the normalised value. No bound on nesting depth; both integer ladders. -/
theorem C03_value_roundtrip (legacy : Bool) (v : PyVal) (h : Spec.Encodable legacy v) (rest : Bytes) :
    ∃ bs, Encode.tableValue legacy v = .ok bs ∧ bs.length = Spec.wireSize legacy v ∧
      Decode.embeddedValue (bs ++ rest) = .ok (bs.length, Spec.norm v) := by
  exact Proofs.RoundTrip.value_roundtrip legacy v h rest

/-- the same through `encode.field_table` / `decode.field_table` -/
theorem C03_table_roundtrip (legacy : Bool) (kvs : List (Str × PyVal))
    (h : Spec.Encodable legacy (.dict kvs)) (rest : Bytes) :
    ∃ bs, Encode.fieldTable legacy (.dict kvs) = .ok bs ∧
      Decode.fieldTableTop (bs ++ rest) = .ok (bs.length, Spec.norm (.dict kvs)) := by
  obtain ⟨bs, h1, _, h2⟩ := Proofs.RoundTrip.table_roundtrip legacy kvs h rest
  exact ⟨bs, h1, h2⟩

/-- the same through `encode.field_array` / `decode.field_array` -/
theorem C03_array_roundtrip (legacy : Bool) (vs : List PyVal)
    (h : Spec.Encodable legacy (.list vs)) (rest : Bytes) :
    ∃ bs, Encode.fieldArray legacy (.list vs) = .ok bs ∧
      Decode.fieldArrayTop (bs ++ rest) = .ok (bs.length, Spec.norm (.list vs)) := by
  exact Proofs.RoundTrip.array_roundtrip legacy vs h rest

/-- the Python type is preserved: bool never becomes int, etc. -/
def sameType : PyVal → PyVal → Prop
  | .none, .none | .bool _, .bool _ | .int _, .int _ | .float _, .float _
  | .decimal _ _ _, .decimal _ _ _ | .str _, .str _ | .bytearray _, .bytearray _
  | .datetime _ _, .datetime _ _ | .structTime _, .datetime _ _   -- struct_time is returned as datetime
  | .list _, .list _ | .dict _, .dict _ => True
  | _, _ => False

theorem C03_type_preserved (legacy : Bool) (v : PyVal) (h : Spec.Encodable legacy v) :
    sameType v (Spec.norm v) := by
  cases v <;> first | exact h.elim | (simp only [Spec.norm, Spec.normDecimal]; try split) <;> trivial

/-- integers (incl. negative ones) and booleans come back exactly -/
theorem C03_int_bool_exact (i : Int) (b : Bool) :
    Spec.norm (.int i) = .int i ∧ Spec.norm (.bool b) = .bool b := ⟨rfl, rfl⟩

/-- dict key sets are preserved -/
theorem C03_keys_preserved (kvs : List (Str × PyVal)) :
    ∃ kvs', Spec.norm (.dict kvs) = .dict kvs' ∧ (kvs'.map (·.1)).Perm (kvs.map (·.1)) := by
  exact Proofs.RoundTrip.keys_preserved kvs

/-- decimals keep their numeric value: the rebuilt decimal has the same unscaled value and scale -/
theorem C03_decimal_value (n : Bool) (c : Nat) (e : Int) :
    ∃ n' c' e', Spec.norm (.decimal n c e) = .decimal n' c' e' ∧
      (if e < 0 then c' = c ∧ e' = e else c' = c * 10 ^ e.toNat ∧ e' = 0) ∧ (n' = (n && c != 0)) := by
  exact Proofs.RoundTrip.decimal_value n c e

/-- the hypotheses are satisfiable by a non-trivial nested value -/
example : Spec.Encodable false
    (.dict [([98], .list [.int (-1), .bool true, .str [233], .none]),
            ([97], .dict [([120], .decimal true 15 (-1))])]) := by
  simp [Spec.Encodable, Spec.EncodableList, Spec.EncodableEntries, Spec.keyOK, Spec.decimalOK,
    Spec.wireSizeList, Spec.wireSizeEntries, Spec.wireSize, Spec.utf8Len, Spec.utf8Len1, Spec.intSize,
    utf8Encode, utf8EncNat, utf8Enc1]

end Pamqp.Props
