import Pamqp.Model.DecodeCost
import Pamqp.Spec.Defs
import Pamqp.Proofs.Cost
/-!
# C08, main clause — the NUMBER OF DECODING STEPS is linear in the input length
`DecodeCost.*` is the recursive decoder with a step counter (one step per decoder call and per
loop iteration). It returns the same result as the model, and never takes more than `4 * len + 4`
steps, for EVERY byte string and every fuel. (False before the D11 repair: the steps of the family
`(A len F 00000001 00)^n V` double with n.)
-/
namespace Pamqp.Props
open Pamqp

/-- the instrumented decoder computes what the model computes -/
theorem C08_cost_same_result (f : Nat) (bs : Bytes) : (DecodeCost.embedded f bs).1 = Decode.embedded f bs := by
  exact (Proofs.cost_same_result f).1 bs

/-- linear step bound, for every byte string and every fuel -/
theorem C08_steps_linear (f : Nat) (bs : Bytes) : (DecodeCost.embedded f bs).2 ≤ 4 * bs.length + 4 := by
  have := Proofs.embedded_steps f bs; omega

theorem C08_table_steps_linear (f : Nat) (bs : Bytes) :
    (DecodeCost.fieldTable f bs).2 ≤ 4 * bs.length + 4 ∧ (DecodeCost.fieldArray f bs).2 ≤ 4 * bs.length + 4 := by
  have := Proofs.fieldTable_steps f bs; have := Proofs.fieldArray_steps f bs; omega

end Pamqp.Props
