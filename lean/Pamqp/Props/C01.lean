import Pamqp.Spec.Defs
import Pamqp.Generated.Catalogue
import Pamqp.Proofs.ArgLoop
/-!
# C01 — every method frame survives encode-then-decode unchanged
-/
namespace Pamqp.Props
open Pamqp

/-- Tie-A obligation on the regenerated catalogue: for each of the classes reachable through
`INDEX_MAPPING`, the mapping key is the class's own index, it fits the signed 32-bit read of the
decoder, no bit run is longer than 6, every `_attr` type is a known wire type; keys are distinct. -/
theorem C01_catalogue_wf : Spec.catWF Generated.cat = true := by decide

/-- 64 classes are reachable -/
theorem C01_catalogue_count : Generated.cat.methods.length = 64 := by decide

/-- For ANY catalogue with the decidable well-formedness facts, every method of it, every accepted
argument assignment, every channel 0..65535, and ANY bytes following the frame: encoding succeeds
and decoding yields bytes-consumed = encoded length, the same channel, the same class and the
(normalised) argument values. -/
theorem C01_roundtrip_generic (cat : Cat) (hwf : Spec.catWF cat = true)
    (spec : MethodSpec) (hs : spec ∈ cat.methods) (legacy : Bool)
    (vals : List PyVal) (ha : Spec.Accepted legacy spec vals)
    (ch : Nat) (hc : ch < 65536) (rest : Bytes) :
    ∃ bs, Frame.marshal legacy cat (.method spec vals) (.int ch) = .ok bs ∧
      Frame.unmarshal cat (bs ++ rest) = .ok (bs.length, ch, .method spec (Spec.normArgs spec vals)) :=
  Proofs.C01_generic cat hwf spec hs legacy vals ha ch hc rest

/-- the property, for the catalogue regenerated from the current source -/
theorem C01_method_roundtrip (spec : MethodSpec) (hs : spec ∈ Generated.cat.methods) (legacy : Bool)
    (vals : List PyVal) (ha : Spec.Accepted legacy spec vals)
    (ch : Nat) (hc : ch < 65536) (rest : Bytes) :
    ∃ bs, Frame.marshal legacy Generated.cat (.method spec vals) (.int ch) = .ok bs ∧
      Frame.unmarshal Generated.cat (bs ++ rest) =
        .ok (bs.length, ch, .method spec (Spec.normArgs spec vals)) :=
  C01_roundtrip_generic Generated.cat C01_catalogue_wf spec hs legacy vals ha ch hc rest

/-- non-bit, non-table argument values come back exactly (value and constructor, i.e. Python type) -/
theorem C01_scalar_args_exact (ty : WireTy) (v : PyVal) (h : ty ≠ .table) (h' : ty ≠ .timestamp) :
    Spec.normArg ty v = v := by
  cases ty <;> simp_all [Spec.normArg]

/-- `None` table == empty table -/
theorem C01_none_table : Spec.normArg .table .none = .dict [] := rfl

end Pamqp.Props
