import Pamqp.Props.TieA.ReplyCodes
import Pamqp.Props.TieA.ClassMapping
import Pamqp.Props.TieA.ConstantValues
/-!
# C17 — reply-code exceptions and protocol constants match the specification
Finite; all obligations are kernel evaluations on the regenerated tables (see TieA.lean).
-/
namespace Pamqp.Props
open Pamqp

theorem C17_reply_codes :
    (Spec.replyCodes.all (fun s =>
      (Generated.replyCodes.filter (·.value == s.1)).map
        (fun r => (r.name, softOf r, hardOf r, r.bases.contains "PAMQPException", r.bases.contains "AMQPError"))
        == [(s.2.1, s.2.2, !s.2.2, true, true)])) = true ∧
    Generated.replyCodes.length = 18 ∧ Spec.replyCodes.length = 18 ∧
    (Generated.replyCodes.map (·.className)).Nodup := tieA_reply_codes

theorem C17_class_mapping :
    (Generated.classMapping.all (fun e =>
      Generated.replyCodes.any (fun r => r.value == e.1 && r.className == e.2))) = true ∧
    sameSet (Generated.classMapping.map (·.1)) (Spec.replyCodes.map (·.1)) = true ∧
    (Generated.classMapping.map (·.2)).Nodup := tieA_class_mapping

/-- the specified codes are exactly 311-313, 320, 402-406, 501-506, 530, 540, 541 -/
theorem C17_code_list :
    Spec.replyCodes.map (·.1) = [311, 312, 313, 320, 402, 403, 404, 405, 406, 501, 502, 503, 504, 505, 506, 530, 540, 541] := by
  decide

/-- frame types 1/2/3/8, frame end 206 and b'\xce', min frame size 4096, header size 7,
version (0, 9, 1), prefix b'AMQP' -/
theorem C17_constants : (Spec.constants.all (fun c => Generated.constants.contains c)) = true :=
  tieA_constant_values

end Pamqp.Props
