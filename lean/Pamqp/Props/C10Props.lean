import Pamqp.Spec.Defs
import Pamqp.Props.C10
import Pamqp.Proofs.NoCorruptionProps
/-!
# C10 for message properties — whenever a content header with ANY property values encodes, it
decodes back to those values (normalised; unset = None / '' ; Python == between bool and int)
-/
namespace Pamqp.Props
open Pamqp

/-- what comes back for one property slot -/
def expectedProp (p : PropSpec) (v : PyVal) : PyVal :=
  if Base.isSet v then Spec.normArg p.ty (coerceArg p.ty v) else Base.litVal p.default

theorem C10_props (cat : Cat) (hwf : Spec.flagsWF cat.props = true) (hcls : cat.basicClassId < 65536)
    (legacy : Bool) (vals : List PyVal) (hl : vals.length = cat.props.length)
    (cls weight size ch : PyVal) (bs : Bytes)
    (h : Frame.marshal legacy cat (.header cls weight size vals) ch = .ok bs)
    (hd : ∀ p ∈ cat.props.zip vals, ¬ DocumentedArg p.1.ty p.2 ∧ KeysDistinct p.2) :
    ∃ (c n : Nat), ch.asInt? = some (c : Int) ∧ size.asInt? = some (n : Int) ∧
      Frame.unmarshal cat bs = .ok (bs.length, c, .header (.int cat.basicClassId) (.int 0) (.int n)
        ((cat.props.zip vals).map (fun p => expectedProp p.1 p.2))) := by
  exact Proofs.NoCorruption.props_of_ok (Proofs.NoCorruption.DocClauses.mk (D := Documented) (DL := DocumentedL) (DE := DocumentedE)
    (fun _ _ h => by simpa [Documented] using h) (fun _ h => by simpa [Documented] using h)
    (fun _ h => by simpa [Documented] using h) (fun _ h => by simpa [Documented] using h)
    (fun _ _ h => by simpa [DocumentedL] using h) (fun _ _ _ h => by simpa [DocumentedE] using h))
    cat hwf hcls legacy vals hl cls weight size ch bs h hd

end Pamqp.Props
