import Pamqp.Spec.Defs
import Pamqp.Model.Api
import Pamqp.Proofs.Ladder
/-!
# C11 — table integers use the smallest fitting type; legacy mode restricts types
-/
namespace Pamqp.Props
open Pamqp

/-- (lo, hi, tag, width): the documented order b s u I i l -/
def ladder : List (Int × Int × UInt8 × Nat) :=
  [(-128, 127, 98, 1), (-32768, 32767, 115, 2), (0, 65535, 117, 2),
   (-2147483648, 2147483647, 73, 4), (0, 4294967295, 105, 4),
   (-9223372036854775808, 9223372036854775807, 108, 8)]

/-- legacy RabbitMQ: only the signed tags b s I l -/
def legacyLadder : List (Int × Int × UInt8 × Nat) :=
  [(-128, 127, 98, 1), (-32768, 32767, 115, 2), (-2147483648, 2147483647, 73, 4),
   (-9223372036854775808, 9223372036854775807, 108, 8)]

/-- independent first-fit: the first rung whose range contains `n`, packed two's complement -/
def firstFit : List (Int × Int × UInt8 × Nat) → Int → R Bytes
  | [], _ => .error .typeError
  | (lo, hi, tag, k) :: rest, n =>
    if lo ≤ n ∧ n ≤ hi then .ok (tag :: beN k (n % (256 ^ k : Nat)).toNat) else firstFit rest n

theorem C11_first_fit (n : Int) : Encode.tableInteger false n = firstFit ladder n := by
  rw [Ladder.tableInteger_full]; rfl

theorem C11_legacy (n : Int) : Encode.tableInteger true n = firstFit legacyLadder n := by
  rw [Ladder.tableInteger_legacy]; rfl

/-- same set of accepted integers in both modes: exactly [-2^63, 2^63-1]; outside it TypeError -/
theorem C11_domain (legacy : Bool) (n : Int) :
    (-9223372036854775808 ≤ n ∧ n ≤ 9223372036854775807 → ∃ bs, Encode.tableInteger legacy n = .ok bs) ∧
    (¬ (-9223372036854775808 ≤ n ∧ n ≤ 9223372036854775807) →
      Encode.tableInteger legacy n = .error .typeError) := by
  exact Ladder.tableInteger_domain legacy n

/-- the fixed-width integer encoders refuse out-of-range arguments with TypeError -/
theorem C11_fixed_width_guards (n : Int) :
    (¬ (-32768 ≤ n ∧ n ≤ 32767) → Encode.shortInt (.int n) = .error .typeError) ∧
    (¬ (0 ≤ n ∧ n ≤ 65535) → Encode.shortUint (.int n) = .error .typeError) ∧
    (¬ (-2147483648 ≤ n ∧ n ≤ 2147483647) → Encode.longInt (.int n) = .error .typeError) ∧
    (¬ (0 ≤ n ∧ n ≤ 4294967295) → Encode.longUint (.int n) = .error .typeError) ∧
    (¬ (-9223372036854775808 ≤ n ∧ n ≤ 9223372036854775807) →
      Encode.longLongInt (.int n) = .error .typeError) := by
  exact Ladder.fixed_width_guards n

/-- in-range arguments are packed, never refused -/
theorem C11_fixed_width_accept (n : Int) :
    (-32768 ≤ n ∧ n ≤ 32767 → ∃ bs, Encode.shortInt (.int n) = .ok bs ∧ bs.length = 2) ∧
    (0 ≤ n ∧ n ≤ 65535 → ∃ bs, Encode.shortUint (.int n) = .ok bs ∧ bs.length = 2) ∧
    (-2147483648 ≤ n ∧ n ≤ 2147483647 → ∃ bs, Encode.longInt (.int n) = .ok bs ∧ bs.length = 4) ∧
    (0 ≤ n ∧ n ≤ 4294967295 → ∃ bs, Encode.longUint (.int n) = .ok bs ∧ bs.length = 4) ∧
    (-9223372036854775808 ≤ n ∧ n ≤ 9223372036854775807 →
      ∃ bs, Encode.longLongInt (.int n) = .ok bs ∧ bs.length = 8) := by
  exact Ladder.fixed_width_accept n

/-- integers at every nesting position go through the same chain: the value encoder applied to an
int IS the ladder of the current mode, and containers recurse with the same mode -/
theorem C11_nested_same_chain (legacy : Bool) (n : Int) :
    Encode.tableValue legacy (.int n) = Encode.tableInteger legacy n := by
  simp [Encode.tableValue]

/-- any toggle sequence: the switch is the last argument given (argument-less call = on), off
initially; so switching it off restores the full ladder -/
def flagAfter : Bool → List Api.Op → Bool
  | b, [] => b
  | _, .toggle arg :: ops => flagAfter (arg.getD true) ops
  | b, _ :: ops => flagAfter b ops

theorem C11_toggle (cat : Cat) (s : Api.State) (ops : List Api.Op) (n : Int) :
    (Api.run cat s (ops ++ [.encodeValue (.int n)])).getLast? =
      some (.bytes (Encode.tableInteger (flagAfter s.legacy ops) n)) := by
  exact Ladder.run_toggle cat flagAfter (fun _ => rfl) (fun b op ops => by cases op <;> rfl) s ops n

end Pamqp.Props
