import Pamqp.Spec.Defs
import Pamqp.Proofs.Envelope
/-!
# C06 — decoding consumes exactly one frame and ignores what follows it
-/
namespace Pamqp.Props
open Pamqp

/-- the result depends only on the consumed prefix: any tail can be substituted -/
theorem C06_prefix_determines (cat : Cat) (bs : Bytes) (n ch : Nat) (f : AnyFrame)
    (h : Frame.unmarshal cat bs = .ok (n, ch, f)) :
    n ≤ bs.length ∧ ∀ rest, Frame.unmarshal cat (bs.take n ++ rest) = .ok (n, ch, f) := by
  exact Proofs.unmarshal_prefix_determines cat bs n ch f h

/-- whenever decoding succeeds on ANY input: a protocol header only for input starting with
`AMQP`, consuming 8 bytes on channel 0; otherwise kind, channel and consumed count are the ones
written in the 7-byte header and the last consumed byte is the frame-end octet -/
theorem C06_envelope (cat : Cat) (bs : Bytes) (n ch : Nat) (f : AnyFrame)
    (h : Frame.unmarshal cat bs = .ok (n, ch, f)) :
    (Spec.isProtocolHeader f = true ∧ bs.take 4 = Frame.amqp ∧ n = 8 ∧ ch = 0 ∧ 8 ≤ bs.length) ∨
    (Spec.isProtocolHeader f = false ∧ 7 ≤ bs.length ∧
      Spec.kindOctet f = unbe (slice bs 0 1) ∧ ch = unbe (slice bs 1 3) ∧
      n = unbe (slice bs 3 7) + 8 ∧ n ≤ bs.length ∧ (bs.drop (n - 1)).head? = some Frame.frameEnd) := by
  exact Proofs.unmarshal_ok_envelope cat bs n ch f h

/-- a concatenation of frames, each of which decodes to itself whatever follows it, decodes by
repeatedly dropping the consumed bytes to exactly those frames in order, leaving an empty buffer -/
theorem C06_stream (cat : Cat) (frames : List (Bytes × Nat × AnyFrame))
    (h : ∀ e ∈ frames, e.1 ≠ [] ∧ ∀ rest, Frame.unmarshal cat (e.1 ++ rest) = .ok (e.1.length, e.2.1, e.2.2))
    (fuel : Nat) (hf : frames.length < fuel) :
    Spec.decodeAll cat fuel (frames.flatMap (·.1)) = some (frames.map (·.2)) := by
  exact Proofs.decodeAll_stream cat frames h fuel hf

end Pamqp.Props
