import Pamqp.Spec.Defs
import Pamqp.Proofs.Taxonomy
/-!
# C09 — every decode failure is an UnmarshalingException
-/
namespace Pamqp.Props
open Pamqp

/-- the content decoders raise only the classes the `except` clauses of frame.py name -/
theorem C09_inner_errors (ty : WireTy) (data : Bytes) (off : Nat) (e : PyErr)
    (h : Decode.byType data ty off = .error e) : Frame.caught e = true := by
  exact (Proofs.byType_err h).caught

/-- for every catalogue and every byte string, decoding returns a frame or raises the library's
own exception: a case analysis over the model's complete exception type -/
theorem C09_only_unmarshaling (cat : Cat) (bs : Bytes) :
    (∃ r, Frame.unmarshal cat bs = .ok r) ∨ Frame.unmarshal cat bs = .error .unmarshaling := by
  cases h : Frame.unmarshal cat bs with
  | ok r => exact .inl ⟨r, rfl⟩
  | error e => exact .inr (by rw [Proofs.unmarshal_err h])

end Pamqp.Props
