import Pamqp.Spec.Defs
/-!
# C09 — every decode failure is an UnmarshalingException
-/
namespace Pamqp.Props
open Pamqp

/-- the content decoders raise only the classes the `except` clauses of frame.py name -/
theorem C09_inner_errors (ty : WireTy) (data : Bytes) (off : Nat) (e : PyErr)
    (h : Decode.byType data ty off = .error e) : Frame.caught e = true := by
  sorry

/-- for every catalogue and every byte string, decoding returns a frame or raises the library's
own exception: a case analysis over the model's complete exception type -/
theorem C09_only_unmarshaling (cat : Cat) (bs : Bytes) :
    (∃ r, Frame.unmarshal cat bs = .ok r) ∨ Frame.unmarshal cat bs = .error .unmarshaling := by
  sorry

end Pamqp.Props
