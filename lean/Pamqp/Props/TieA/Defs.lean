import Pamqp.Spec.Tables
import Pamqp.Generated.Constants
import Pamqp.Generated.ReplyCodes
import Pamqp.Generated.Tables
import Pamqp.Generated.Ladder
import Pamqp.Generated.Purity
/-!
# Tie A obligations on the data REGENERATED from the current source (other than the catalogue)

Every theorem under `Pamqp/Props/TieA/` is a kernel evaluation (`decide`) comparing what the
translator read from /repo with what the hand-written model assumes. The left-hand sides change
when the source changes; the right-hand sides are written by hand. Comparisons are order-insensitive
where Python does not care about the order (dict literals). One theorem per module, so that a
property depends on (and is broken by) exactly the obligations it lists.
This file holds the shared definitions and the hand-written expectations.
-/
namespace Pamqp.Props
open Pamqp

def sameSet {α} [DecidableEq α] (a b : List α) : Bool :=
  a.length == b.length && a.all (b.contains ·) && b.all (a.contains ·)

def expectedTableMapping : List (Nat × String) := [
  (116, "decode.boolean"), (98, "decode.short_short_int"), (66, "decode.short_short_uint"),
  (115, "decode.short_int"), (117, "decode.short_uint"), (73, "decode.long_int"),
  (105, "decode.long_uint"), (108, "decode.long_long_int"), (76, "decode.long_long_int"),
  (102, "decode.floating_point"), (100, "decode.double"), (68, "decode.decimal"),
  (83, "decode.long_str"), (65, "decode.field_array"), (84, "decode.timestamp"),
  (70, "decode.field_table"), (86, "decode.void"), (0, "decode.void"), (120, "decode.byte_array")]

def expectedDecodeMethods : List (String × String) := [
  ("bit", "decode.bit"), ("octet", "decode.octet"), ("short", "decode.short_uint"),
  ("long", "decode.long_uint"), ("longlong", "decode.long_long_int"), ("shortstr", "decode.short_str"),
  ("longstr", "decode.long_str"), ("table", "decode.field_table"), ("timestamp", "decode.timestamp")]

def expectedEncodeMethods : List (String × String) := [
  ("octet", "encode.octet"), ("short", "encode.short_uint"), ("long", "encode.long_uint"),
  ("longlong", "encode.long_long_int"), ("shortstr", "encode.short_string"),
  ("longstr", "encode.long_string"), ("table", "encode.field_table"), ("timestamp", "encode.timestamp")]

def lookupS (l : List (String × String)) (k : String) : List String := (l.filter (·.1 == k)).map (·.2)

def expectedStructFormats : List (String × String) := [
  ("byte", "B"), ("double", ">d"), ("float", ">f"), ("integer", ">I"), ("long_long_int", ">q"),
  ("short_short_int", ">b"), ("short_short_uint", ">B"), ("timestamp", ">Q"), ("long", ">l"),
  ("ulong", ">L"), ("short", ">h"), ("ushort", ">H")]

def usesOf (fn : String) : List (String × String) :=
  (Generated.structUses.filter (·.fn == fn)).map (fun u => (u.what, u.op))

def expectedStructUses : List (String × List (String × String)) := [
  ("decode.bit", [("Struct.byte", "unpack_from")]),
  ("decode.boolean", [("Struct.byte", "unpack_from")]),
  ("decode.byte_array", [("Struct.integer", "unpack")]),
  ("decode.decimal", [("Struct.byte", "unpack"), ("Struct.long", "unpack")]),
  ("decode.double", [("Struct.double", "unpack_from")]),
  ("decode.floating_point", [("Struct.float", "unpack_from")]),
  ("decode.long_int", [("Struct.long", "unpack")]),
  ("decode.long_uint", [("Struct.ulong", "unpack")]),
  ("decode.long_long_int", [("Struct.long_long_int", "unpack")]),
  ("decode.long_str", [("Struct.integer", "unpack")]),
  ("decode.octet", [("Struct.byte", "unpack")]),
  ("decode.short_int", [("Struct.short", "unpack_from")]),
  ("decode.short_uint", [("Struct.ushort", "unpack_from")]),
  ("decode.short_short_int", [("Struct.short_short_int", "unpack_from")]),
  ("decode.short_short_uint", [("Struct.short_short_uint", "unpack_from")]),
  ("decode.short_str", [("Struct.byte", "unpack")]),
  ("decode.timestamp", [("Struct.timestamp", "unpack")]),
  ("decode.field_array", [("Struct.integer", "unpack")]),
  ("decode.field_table", [("Struct.integer", "unpack"), ("Struct.byte", "unpack_from")]),
  ("encode.boolean", [("Struct.short_short_uint", "pack")]),
  ("encode.byte_array", [("Struct.integer", "pack")]),
  ("encode.decimal", [(">Bi", "pack"), (">Bi", "pack")]),
  ("encode.double", [("Struct.double", "pack")]),
  ("encode.floating_point", [("Struct.float", "pack")]),
  ("encode.long_int", [("Struct.long", "pack")]),
  ("encode.long_uint", [("Struct.ulong", "pack")]),
  ("encode.long_long_int", [("Struct.long_long_int", "pack")]),
  ("encode.long_string", [("Struct.integer", "ref")]),
  ("encode.octet", [("Struct.byte", "pack")]),
  ("encode.short_int", [("Struct.short", "pack")]),
  ("encode.short_uint", [("Struct.ushort", "pack")]),
  ("encode.short_string", [("Struct.byte", "ref")]),
  ("encode.timestamp", [("Struct.timestamp", "pack"), ("Struct.timestamp", "pack")]),
  ("encode.field_array", [("Struct.integer", "pack")]),
  ("encode.field_table", [("Struct.integer", "pack"), ("Struct.integer", "pack")]),
  ("encode.table_integer", [("Struct.short_short_int", "pack")]),
  ("encode._deprecated_table_integer", [("Struct.short_short_int", "pack")]),
  ("encode._string", [("param:encoder", "pack")]),
  ("base.BasicProperties.marshal", [(">H", "pack")])]

/-- the 7-byte frame header: written and peeked with the same format -/
def expectedEnvelopeStructUses : List (String × List (String × String)) := [
  ("frame.frame_parts", [(">BHI", "unpack")]),
  ("frame._marshal", [(">BHI", "pack")]),
  ("frame._marshal_method_frame", [("Struct.integer", "pack")]),
  ("frame.unmarshal", []),
  ("frame._unmarshal_method_frame", []),
  ("heartbeat.Heartbeat", [(">BHI", "pack")])]

def expectedProtocolHeaderStructUses : List (String × List (String × String)) := [
  ("header.ProtocolHeader.marshal", [("BBBB", "pack")]),
  ("header.ProtocolHeader.unmarshal", [("BBB", "unpack")]),
  ("frame._unmarshal_protocol_header_frame", [])]

def expectedContentHeaderStructUses : List (String × List (String × String)) := [
  ("header.ContentHeader.marshal", [(">HxxQ", "pack")]),
  ("header.ContentHeader.unmarshal", [(">HHQ", "unpack")]),
  ("header.ContentHeader._get_flags", []),
  ("frame._unmarshal_header_frame", [])]

/-- the constants each function of frame.py reads: exactly these (a new constant in a framing
decision is a change of the framing logic) -/
def expectedFrameConstUses : List (String × String) := [
  ("frame.unmarshal", "FRAME_HEARTBEAT"), ("frame.unmarshal", "FRAME_END"),
  ("frame.unmarshal", "FRAME_HEADER_SIZE"), ("frame.unmarshal", "FRAME_METHOD"),
  ("frame.unmarshal", "FRAME_HEADER"), ("frame.unmarshal", "FRAME_BODY"),
  ("frame.frame_parts", "FRAME_HEADER_SIZE"), ("frame._marshal", "FRAME_END_CHAR"),
  ("frame._marshal_content_body_frame", "FRAME_BODY"),
  ("frame._marshal_content_header_frame", "FRAME_HEADER"),
  ("frame._marshal_method_frame", "FRAME_METHOD"),
  ("frame._unmarshal_protocol_header_frame", "AMQP")]

/-- every text codec call: strict UTF-8, default error handling -/
def expectedCodecCalls : List (String × String × String) := [
  ("decode.long_str", "decode", "'utf-8'"), ("decode.short_str", "decode", "'utf-8'"),
  ("decode.field_table", "decode", "'utf-8'"), ("encode._string", "encode", "'utf-8'")]

def sitesOf (fn : String) : List (List String × List String × String) :=
  (Generated.exceptSites.filter (·.fn == fn)).map (fun s => (s.covers, s.catches, s.action))

def nonDecodeSites : List String := ["encode.by_type", "encode.field_table", "frame.unmarshal", "frame.frame_parts",
  "frame._unmarshal_method_frame", "frame._unmarshal_header_frame", "header.ProtocolHeader.unmarshal"]

/-- the guard proper: accepted Python type, range, exception raised otherwise -/
def guardOf (fn : String) : List (String × Option Int × Option Int × String) :=
  (Generated.guards.filter (·.fn == fn)).map (fun g => (g.isinstanceOf, g.lo, g.hi, g.exc))

/-- which `struct` member (or format) the function's return statement packs with: a fact about the shape of the source -/
def packerOf (fn : String) : List String :=
  (Generated.guards.filter (·.fn == fn)).map (·.packer)

def timeWhitelist : List String := [
  "datetime.datetime(1970, 1, 1, tzinfo=datetime.timezone.utc)",
  "datetime.timedelta(milliseconds=X)",
  "datetime.timedelta(seconds=X)",
  "X.tzinfo.utcoffset(X)",
  "X.replace(tzinfo=datetime.timezone.utc)",
  "X.timestamp()",
  "calendar.timegm(X)"]

def softOf (r : ReplyCode) : Bool := r.bases.contains "AMQPSoftError"

def hardOf (r : ReplyCode) : Bool := r.bases.contains "AMQPHardError"

end Pamqp.Props
