import Pamqp.Props.TieA.Defs
namespace Pamqp.Props
open Pamqp

theorem tieA_decode_except_sites :
    ((Generated.exceptSites.filter (fun s => !(nonDecodeSites.contains s.fn))).all (fun s =>
        s.action == "raise ValueError" ||
        (s.fn == "decode.long_str" && s.catches == ["UnicodeDecodeError"] &&
          s.action == "return (length + 4, value[4:length + 4])"))) = true ∧
    sitesOf "decode.embedded_value" =
      [(["bytes_consumed, temp = TABLE_MAPPING[value[0:1]](value[1:])"], ["KeyError"], "raise ValueError")] := by
  decide

end Pamqp.Props
