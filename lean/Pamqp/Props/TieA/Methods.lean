import Pamqp.Props.TieA.Defs
namespace Pamqp.Props
open Pamqp

theorem tieA_methods :
    (expectedDecodeMethods.all (fun e => lookupS Generated.decodeMethods e.1 == [e.2])) = true ∧
    (expectedEncodeMethods.all (fun e => lookupS Generated.encodeMethods e.1 == [e.2])) = true ∧
    lookupS Generated.encodeMethods "bit" = [] := by decide

end Pamqp.Props
