import Pamqp.Props.TieA.Defs
namespace Pamqp.Props
open Pamqp

theorem tieA_ladder :
    Generated.ladder =
      [⟨-128, 127, 98, "Struct.short_short_int"⟩, ⟨-32768, 32767, 115, "short_int"⟩,
       ⟨0, 65535, 117, "short_uint"⟩, ⟨-2147483648, 2147483647, 73, "long_int"⟩,
       ⟨0, 4294967295, 105, "long_uint"⟩,
       ⟨-9223372036854775808, 9223372036854775807, 108, "long_long_int"⟩] ∧
    Generated.legacyLadder =
      [⟨-128, 127, 98, "Struct.short_short_int"⟩, ⟨-32768, 32767, 115, "short_int"⟩,
       ⟨-2147483648, 2147483647, 73, "long_int"⟩,
       ⟨-9223372036854775808, 9223372036854775807, 108, "long_long_int"⟩] ∧
    Generated.ladderPrelude = "DEPRECATED_RABBITMQ_SUPPORT -> _deprecated_table_integer" ∧
    Generated.ladderFallthrough = ["TypeError", "TypeError"] := by decide

end Pamqp.Props
