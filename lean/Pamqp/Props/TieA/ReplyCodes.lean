import Pamqp.Props.TieA.Defs
namespace Pamqp.Props
open Pamqp

theorem tieA_reply_codes :
    (Spec.replyCodes.all (fun s =>
      (Generated.replyCodes.filter (·.value == s.1)).map
        (fun r => (r.name, softOf r, hardOf r, r.bases.contains "PAMQPException", r.bases.contains "AMQPError"))
        == [(s.2.1, s.2.2, !s.2.2, true, true)])) = true ∧
    Generated.replyCodes.length = 18 ∧ Spec.replyCodes.length = 18 ∧
    (Generated.replyCodes.map (·.className)).Nodup := by decide

end Pamqp.Props
