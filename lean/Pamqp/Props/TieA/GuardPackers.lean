import Pamqp.Props.TieA.Defs
namespace Pamqp.Props
open Pamqp

/-- shape obligation (advisory, see tools/check.py SHAPE_TIES): each guarded encoder packs with the struct member
of its own width -/
theorem tieA_guard_packers :
    ([ "encode.short_int", "encode.short_uint", "encode.long_int", "encode.long_uint", "encode.long_long_int", "encode.octet",
       "encode.boolean", "encode.byte_array", "encode.decimal", "encode.double", "encode.floating_point", "encode.bit" ].map packerOf
      == [["Struct.short"], ["Struct.ushort"], ["Struct.long"], ["Struct.ulong"], ["Struct.long_long_int"], ["Struct.byte"],
          ["Struct.short_short_uint"], ["Struct.integer"], [">Bi"], ["Struct.double"], ["Struct.float"], [""]]) = true := by decide

end Pamqp.Props
