import Pamqp.Props.TieA.Defs
namespace Pamqp.Props
open Pamqp

theorem tieA_guards :
    (guardOf "encode.short_int" == [("int", some (-32768), some 32767, "TypeError")]) = true ∧
    (guardOf "encode.short_uint" == [("int", some 0, some 65535, "TypeError")]) = true ∧
    (guardOf "encode.long_int" == [("int", some (-2147483648), some 2147483647, "TypeError")]) = true ∧
    (guardOf "encode.long_uint" == [("int", some 0, some 4294967295, "TypeError")]) = true ∧
    (guardOf "encode.long_long_int" == [("int", some (-9223372036854775808), some 9223372036854775807, "TypeError")]) = true ∧
    (guardOf "encode.octet" == [("int", none, none, "TypeError")]) = true ∧
    (guardOf "encode.boolean" == [("bool", none, none, "TypeError")]) = true ∧
    (guardOf "encode.byte_array" == [("bytearray", none, none, "TypeError")]) = true ∧
    (guardOf "encode.decimal" == [("_decimal.Decimal", none, none, "TypeError")]) = true ∧
    (guardOf "encode.double" == [("float", none, none, "TypeError")]) = true ∧
    (guardOf "encode.floating_point" == [("float", none, none, "TypeError")]) = true ∧
    (guardOf "encode.bit" == [("value not in (0, 1)", none, none, "TypeError")]) = true := by decide

end Pamqp.Props
