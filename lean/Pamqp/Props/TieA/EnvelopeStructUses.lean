import Pamqp.Props.TieA.Defs
namespace Pamqp.Props
open Pamqp

theorem tieA_envelope_struct_uses :
    (expectedEnvelopeStructUses.all (fun e => usesOf e.1 == e.2)) = true := by decide

end Pamqp.Props
