import Pamqp.Props.TieA.Defs
namespace Pamqp.Props
open Pamqp

theorem tieA_no_shared_mutation :
    (Generated.mutationSites.all (fun s =>
      s.targetKind == "fresh-local" ||
      (s.targetKind == "self-attribute" && s.how == "setattr" &&
        (s.fn == "base.Frame.unmarshal" || s.fn == "base.BasicProperties.unmarshal")) ||
      (s.how == "global-store" && s.fn == "encode.support_deprecated_rabbitmq" &&
        s.target == "DEPRECATED_RABBITMQ_SUPPORT"))) = true ∧
    Generated.globalStores = [("encode.support_deprecated_rabbitmq", "DEPRECATED_RABBITMQ_SUPPORT")] := by
  decide

end Pamqp.Props
