import Pamqp.Props.TieA.Defs
namespace Pamqp.Props
open Pamqp

theorem tieA_table_mapping : sameSet Generated.tableMapping expectedTableMapping = true := by decide

end Pamqp.Props
