import Pamqp.Props.TieA.Defs
namespace Pamqp.Props
open Pamqp

/-- every protocol constant has the protocol's value -/
theorem tieA_constant_values :
    (Spec.constants.all (fun c => Generated.constants.contains c)) = true := by decide

end Pamqp.Props
