import Pamqp.Props.TieA.Defs
namespace Pamqp.Props
open Pamqp

theorem tieA_content_header_struct_uses :
    (expectedContentHeaderStructUses.all (fun e => usesOf e.1 == e.2)) = true := by decide

end Pamqp.Props
