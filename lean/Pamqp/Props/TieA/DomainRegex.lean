import Pamqp.Props.TieA.Defs
namespace Pamqp.Props
open Pamqp

theorem tieA_domain_regex : sameSet Generated.domainRegex Spec.domainRegex = true := by decide

end Pamqp.Props
