import Pamqp.Props.TieA.Defs
namespace Pamqp.Props
open Pamqp

theorem tieA_struct_formats :
    (expectedStructFormats.all (fun e => lookupS Generated.structFormats e.1 == [e.2])) = true := by decide

end Pamqp.Props
