import Pamqp.Props.TieA.Defs
namespace Pamqp.Props
open Pamqp

theorem tieA_no_hidden_state :
    (Generated.paramDefaults.all (fun p => p.kind != "mutable")) = true ∧
    (Generated.paramDefaults.all (fun p => p.fn == "header.ProtocolHeader.__init__")) = true ∧
    (Generated.decorators.all (fun d => d.2 == "classmethod" || d.2 == "staticmethod")) = true ∧
    Generated.envReads = [] := by decide

end Pamqp.Props
