import Pamqp.Props.TieA.Defs
namespace Pamqp.Props
open Pamqp

theorem tieA_time_calls :
    (Generated.timeCalls.all (fun c => timeWhitelist.contains c.shape)) = true ∧
    -- `.timestamp()` is only environment independent after the value was made aware
    ((Generated.timeCalls.filter (·.fn == "encode.timestamp")).map (·.shape)) =
      ["X.tzinfo.utcoffset(X)", "X.replace(tzinfo=datetime.timezone.utc)", "X.timestamp()", "calendar.timegm(X)"] := by
  decide

end Pamqp.Props
