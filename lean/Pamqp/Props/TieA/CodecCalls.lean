import Pamqp.Props.TieA.Defs
namespace Pamqp.Props
open Pamqp

theorem tieA_codec_calls : sameSet Generated.codecCalls expectedCodecCalls = true := by decide

end Pamqp.Props
