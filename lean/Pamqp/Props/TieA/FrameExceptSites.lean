import Pamqp.Props.TieA.Defs
namespace Pamqp.Props
open Pamqp

theorem tieA_frame_except_sites :
    sitesOf "frame._unmarshal_method_frame" =
      [(["bytes_used, method_index = decode.long_int(frame_data[0:4])"], ["struct.error"],
          "raise exceptions.UnmarshalingException"),
       (["method = commands.INDEX_MAPPING[method_index]()"], ["KeyError"],
          "raise exceptions.UnmarshalingException"),
       (["method.unmarshal(frame_data[bytes_used:])"], ["struct.error", "ValueError", "OverflowError"],
          "raise exceptions.UnmarshalingException")] ∧
    sitesOf "frame._unmarshal_header_frame" =
      [(["content_header.unmarshal(frame_data)"], ["struct.error", "ValueError", "OverflowError"],
          "raise exceptions.UnmarshalingException")] ∧
    sitesOf "frame.unmarshal" =
      [(["value = _unmarshal_protocol_header_frame(data_in)"], ["ValueError"],
          "raise exceptions.UnmarshalingException")] ∧
    sitesOf "frame.frame_parts" =
      [(["return struct.unpack('>BHI', data[0:constants.FRAME_HEADER_SIZE])"], ["struct.error"],
          "return UNMARSHAL_FAILURE")] ∧
    sitesOf "header.ProtocolHeader.unmarshal" =
      [(["self.major_version, self.minor_version, self.revision = struct.unpack('BBB', data[5:8])"],
          ["struct.error"], "raise ValueError")] := by decide

end Pamqp.Props
