import Pamqp.Props.TieA.Defs
namespace Pamqp.Props
open Pamqp

theorem tieA_class_mapping :
    (Generated.classMapping.all (fun e =>
      Generated.replyCodes.any (fun r => r.value == e.1 && r.className == e.2))) = true ∧
    sameSet (Generated.classMapping.map (·.1)) (Spec.replyCodes.map (·.1)) = true ∧
    (Generated.classMapping.map (·.2)).Nodup := by decide

end Pamqp.Props
