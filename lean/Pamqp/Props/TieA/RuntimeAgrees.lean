import Pamqp.Generated.Runtime
namespace Pamqp.Props
open Pamqp

/-- Tie-A obligation: wherever the translator could read a data table both from the source text and from the
imported module (INDEX_MAPPING, CLASS_MAPPING, DOMAIN_REGEX, the constants, each class's `index`, `frame_id`,
`name`, `synchronous`, `valid_responses`, `__slots__`, wire types, property flags), the two readings agree:
what the literal says is what the running library has (nothing is added, removed or replaced after the
literal). -/
theorem tieA_runtime_agrees : Generated.runtimeMismatches = [] := by decide

end Pamqp.Props
