import Pamqp.Props.TieA.Defs
namespace Pamqp.Props
open Pamqp

/-- every protocol constant has the protocol's value, and frame.py reads exactly the expected ones -/
theorem tieA_frame_constants :
    (Spec.constants.all (fun c => Generated.constants.contains c)) = true ∧
    sameSet Generated.frameConstUses expectedFrameConstUses = true := by decide

end Pamqp.Props
