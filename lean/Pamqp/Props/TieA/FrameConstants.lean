import Pamqp.Props.TieA.Defs
namespace Pamqp.Props
open Pamqp

/-- frame.py reads exactly the expected protocol constants (a new constant in a framing decision is a
change of the framing logic) -/
theorem tieA_frame_constants :
    sameSet Generated.frameConstUses expectedFrameConstUses = true := by decide

end Pamqp.Props
