import Pamqp.Props.TieA.Defs
namespace Pamqp.Props
open Pamqp

theorem tieA_frame_constants :
    (Spec.constants.all (fun c => Generated.constants.contains c)) = true ∧
    (["FRAME_HEARTBEAT", "FRAME_END", "FRAME_HEADER_SIZE", "FRAME_METHOD", "FRAME_HEADER", "FRAME_BODY"].all
      (fun n => Generated.frameConstUses.contains ("frame.unmarshal", n))) = true ∧
    Generated.frameConstUses.contains ("frame.frame_parts", "FRAME_HEADER_SIZE") = true ∧
    Generated.frameConstUses.contains ("frame._marshal", "FRAME_END_CHAR") = true ∧
    Generated.frameConstUses.contains ("frame._marshal_method_frame", "FRAME_METHOD") = true ∧
    Generated.frameConstUses.contains ("frame._marshal_content_header_frame", "FRAME_HEADER") = true ∧
    Generated.frameConstUses.contains ("frame._marshal_content_body_frame", "FRAME_BODY") = true ∧
    Generated.frameConstUses.contains ("frame._unmarshal_protocol_header_frame", "AMQP") = true := by decide

end Pamqp.Props
