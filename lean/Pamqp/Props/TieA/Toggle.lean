import Pamqp.Props.TieA.Defs
namespace Pamqp.Props
open Pamqp

theorem tieA_toggle :
    Generated.toggleDefault = "True" ∧ Generated.toggleGlobal = "DEPRECATED_RABBITMQ_SUPPORT" ∧
    Generated.legacyInitial = "False" := by decide

end Pamqp.Props
