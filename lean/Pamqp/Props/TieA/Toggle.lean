import Pamqp.Props.TieA.Defs
namespace Pamqp.Props
open Pamqp

theorem tieA_toggle :
    Generated.toggleDefault = "True" ∧ Generated.toggleGlobal = "DEPRECATED_RABBITMQ_SUPPORT" ∧
    Generated.legacyInitial = "False" ∧
    -- the library never flips the switch itself: only the application's call does (Api.step: only `toggle` writes `legacy`)
    Generated.toggleSites = [] := by decide

end Pamqp.Props
