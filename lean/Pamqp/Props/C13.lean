import Pamqp.Spec.Tables
import Pamqp.Spec.Defs
import Pamqp.Generated.Catalogue
import Pamqp.Proofs.Validate
/-!
# C13 — argument validation accepts exactly the specified values, on send only
-/
namespace Pamqp.Props
open Pamqp

def specRules (name : String) : List Rule :=
  match Spec.constraints.find? (·.1 == name) with
  | some (_, rs) => rs
  | none => []

/-- Tie-A obligation: the `validate()` body of every class, read from the current source, is the
constraint list of the protocol definition (in order), and no other class validates -/
theorem C13_rules_eq_spec :
    (Generated.methods.all (fun m => m.rules == specRules m.name)) = true ∧
    Generated.propsRules = Spec.propsConstraints := by decide

/-- every constrained class exists in the catalogue -/
theorem C13_constrained_classes_exist :
    (Spec.constraints.all (fun c => Generated.methods.any (fun m => m.name == c.1))) = true := by decide

/-- every validating class runs `validate()` at the end of its constructor -/
theorem C13_ctor_validates :
    (Generated.methods.all (fun m => m.rules.isEmpty || m.ctorValidates)) = true ∧
    Generated.propsCtorValidates = true := by decide

/-- the character class: exactly letters, digits and `- _ . : @ # , /` and space (71 characters) -/
theorem C13_char_class (c : Nat) : Base.allowedChar c = true ↔ c ∈ Spec.nameChars := by
  constructor
  · intro h
    have hc : c < 123 := by
      simp only [Base.allowedChar, Bool.or_eq_true, Bool.and_eq_true, decide_eq_true_eq, beq_iff_eq] at h
      omega
    have key : ∀ c : Fin 123, Base.allowedChar c.val = true → c.val ∈ Spec.nameChars := by decide
    exact key ⟨c, hc⟩ h
  · intro h
    have key : ∀ x ∈ Spec.nameChars, Base.allowedChar x = true := by decide
    exact key c h

theorem C13_char_count : Spec.nameChars.length = 71 ∧ Spec.nameChars.Nodup := by decide

/-- what it means for a constraint to be broken by a typed-or-None value -/
def broken (lookup : String → Option PyVal) : Rule → Prop
  | .mustEqInt a c => ∃ v, lookup a = some v ∧ v ≠ .none ∧ Base.eqInt v c = false
  | .mustEqStr a c => ∃ v, lookup a = some v ∧ v ≠ .none ∧ Base.eqStr v c = false
  | .mustEqStrBare a c => ∃ v, lookup a = some v ∧ Base.eqStr v c = false
  | .mustBeFalse a => ∃ v, lookup a = some v ∧ v ≠ .none ∧ v ≠ .bool false
  | .maxLen a n => ∃ s, lookup a = some (.str s) ∧ s.length > n
  | .regex a _ => ∃ s, lookup a = some (.str s) ∧ ∃ ch ∈ s, ch ∉ Spec.nameChars
  | .oneOf a cs => ∃ v, lookup a = some v ∧ v ≠ .none ∧ ∀ c ∈ cs, Base.eqInt v c = false
  | .unrecognised _ => False

/-- values of the annotated type (or None) for the constrained attributes: then `len` and the regex
never raise TypeError -/
def typedFor (lookup : String → Option PyVal) : Rule → Prop
  | .maxLen a _ => ∃ v, lookup a = some v ∧ (v = .none ∨ ∃ s, v = .str s)
  | .regex a _ => ∃ v, lookup a = some v ∧ (v = .none ∨ ∃ s, v = .str s)
  | .unrecognised _ => False
  | .mustEqInt a _ | .mustEqStr a _ | .mustEqStrBare a _ | .mustBeFalse a | .oneOf a _ =>
    ∃ v, lookup a = some v

/-- ValueError if and only if a constraint is broken; otherwise accepted -/
theorem C13_validate_iff (names : List String) (vals : List PyVal) (rules : List Rule)
    (ht : ∀ r ∈ rules, typedFor (Base.lookupAttr names vals) r) :
    (Base.validate names vals rules = .error .valueError ↔
      ∃ r ∈ rules, broken (Base.lookupAttr names vals) r) ∧
    (Base.validate names vals rules = .ok () ∨ Base.validate names vals rules = .error .valueError) := by
  refine Proofs.Validate.validate_iff names vals (typedFor (Base.lookupAttr names vals))
    (broken (Base.lookupAttr names vals)) (fun r hr => ?_) rules ht
  cases r with
  | mustEqInt a c => exact Proofs.Validate.check_mustEqInt _ a c hr
  | mustEqStr a c => exact Proofs.Validate.check_mustEqStr _ a c hr
  | mustBeFalse a => exact Proofs.Validate.check_mustBeFalse _ a hr
  | maxLen a n => exact Proofs.Validate.check_maxLen _ a n hr
  | regex a d => exact Proofs.Validate.check_regex _ a d Spec.nameChars C13_char_class hr
  | mustEqStrBare a c => exact Proofs.Validate.check_mustEqStrBare _ a c hr
  | oneOf a cs => exact Proofs.Validate.check_oneOf _ a cs hr
  | unrecognised src => exact absurd hr (by simp [typedFor])

/-- encoding a method object re-validates: a broken constraint after construction makes
`marshal` raise ValueError (validate runs before anything is encoded) -/
theorem C13_marshal_revalidates (legacy : Bool) (spec : MethodSpec) (vals : List PyVal) (e : PyErr)
    (h : Base.validate spec.slots vals spec.rules = .error e) :
    Base.frameMarshal legacy spec vals = .error e := by
  simp [Base.frameMarshal, h, bind, Except.bind]

/-- decoding never validates: the decoder model contains no call of `validate` - `frameUnmarshal`
is the bare argument loop (definitional), and C05/C01 need no validity hypothesis on decode -/
theorem C13_decode_never_validates (spec : MethodSpec) (data : Bytes) :
    Base.frameUnmarshal spec data = Base.unmarshalLoop 0 false data spec.types := rfl

end Pamqp.Props
