import Pamqp.Props.C04
import Pamqp.Proofs.FrameRefine
/-!
# C04 at frame level — the whole encoded frame is the grammar's envelope around the reference payload
-/
namespace Pamqp.Props
open Pamqp

/-- method frame = type 1, channel, size, big-endian class<<16|method index, arguments in
specification order with bits packed per run, 0xCE -/
theorem C04_method_frame (legacy : Bool) (cat : Cat) (spec : MethodSpec) (vals : List PyVal)
    (ha : Spec.Accepted legacy spec vals) (hrun : Spec.bitRunOK 0 spec.types = true)
    (hidx : 0 ≤ spec.index ∧ spec.index < 4294967296) (ch : Nat) (hc : ch < 65536) :
    ∃ args, Spec.argsWire legacy (spec.types.length + 1) (spec.types.zip vals) = some args ∧
      Frame.marshal legacy cat (.method spec vals) (.int ch) =
        .ok (Spec.Envelope.wire ⟨1, ch, beN 4 spec.index.toNat ++ args⟩) := by
  exact Proofs.FrameRefine.method_frame legacy cat spec vals ha hrun hidx ch hc

/-- content header frame = type 2, channel, size, class id, weight 0, body size, flag word, properties, 0xCE -/
theorem C04_header_frame (legacy : Bool) (cat : Cat) (hwf : Spec.flagsWF cat.props = true)
    (hcls : cat.basicClassId < 65536) (size : Nat) (hs : size < 2 ^ 64) (vals : List PyVal)
    (hlen : vals.length = cat.props.length) (hok : Spec.propsOK legacy (cat.props.zip vals))
    (hsz : Spec.propsSizeBound legacy (cat.props.zip vals) + 14 < 2 ^ 32)
    (cls weight : PyVal) (ch : Nat) (hc : ch < 65536) :
    ∃ fl parts, Spec.propsWire legacy (cat.props.zip vals) = some (fl, parts) ∧ fl < 65536 ∧
      Frame.marshal legacy cat (.header cls weight (.int size) vals) (.int ch) =
        .ok (Spec.Envelope.wire ⟨2, ch, beN 2 cat.basicClassId ++ [0, 0] ++ beN 8 size ++ beN 2 fl ++ parts⟩) := by
  exact Proofs.FrameRefine.header_frame legacy cat hwf hcls size hs vals hlen hok hsz cls weight ch hc

/-- content body frame = type 3, channel, size, the bytes, 0xCE -/
theorem C04_body_frame (legacy : Bool) (cat : Cat) (b : Bytes) (hl : b.length < 2 ^ 32) (ch : Nat) (hc : ch < 65536) :
    Frame.marshal legacy cat (.body (.bytes b)) (.int ch) = .ok (Spec.Envelope.wire ⟨3, ch, b⟩) := by
  exact Proofs.FrameRefine.body_frame legacy cat b hl ch hc

end Pamqp.Props
