import Pamqp.Spec.Defs
import Pamqp.Proofs.Order
/-!
# C12 — encoding is deterministic, order-independent and does not mutate its input
Determinism and non-mutation are true of the pure model by construction (it is a function on
immutable values); for the Python source they are tied by the `Purity` frame conditions (Tie A)
and the snapshot monitor of the harness. The kernel-checked content here is order-independence.
-/
namespace Pamqp.Props
open Pamqp

mutual
/-- deep permutation: dict entries reordered at every nesting level; arrays keep their order -/
inductive DPerm : PyVal → PyVal → Prop
  | refl (v) : DPerm v v
  | list {l₁ l₂} : DPermL l₁ l₂ → DPerm (.list l₁) (.list l₂)
  | dict {l₁ l₂ l₂'} : DPermE l₁ l₂ → l₂.Perm l₂' → DPerm (.dict l₁) (.dict l₂')
inductive DPermL : List PyVal → List PyVal → Prop
  | nil : DPermL [] []
  | cons {v w vs ws} : DPerm v w → DPermL vs ws → DPermL (v :: vs) (w :: ws)
inductive DPermE : List (Str × PyVal) → List (Str × PyVal) → Prop
  | nil : DPermE [] []
  | cons {k v w es fs} : DPerm v w → DPermE es fs → DPermE ((k, v) :: es) ((k, w) :: fs)
end

mutual
/-- keys distinct at every level (a Python dict cannot hold a key twice) -/
def KeysDistinct : PyVal → Prop
  | .list l => KeysDistinctL l
  | .dict l => (l.map (·.1)).Nodup ∧ KeysDistinctE l
  | _ => True
def KeysDistinctL : List PyVal → Prop
  | [] => True
  | v :: vs => KeysDistinct v ∧ KeysDistinctL vs
def KeysDistinctE : List (Str × PyVal) → Prop
  | [] => True
  | (_, v) :: es => KeysDistinct v ∧ KeysDistinctE es
end

/-- two tables with equal contents encode identically whatever their insertion order, at every
nesting level: same bytes or the same exception -/
theorem C12_perm_invariant (legacy : Bool) (v w : PyVal) (h : DPerm v w) (hk : KeysDistinct v) :
    Encode.tableValue legacy v = Encode.tableValue legacy w := by
  exact DPerm.rec
    (motive_1 := fun v w _ => KeysDistinct v → Encode.tableValue legacy v = Encode.tableValue legacy w)
    (motive_2 := fun l₁ l₂ _ => KeysDistinctL l₁ → Encode.items legacy l₁ = Encode.items legacy l₂)
    (motive_3 := fun l₁ l₂ _ => KeysDistinctE l₁ → Encode.entries legacy l₁ = Encode.entries legacy l₂)
    (fun _ _ => rfl)
    (fun _ ih hk => tableValue_list_congr legacy (ih hk))
    (fun _ hp ih hk => tableValue_dict_congr legacy (ih hk.2) hp hk.1)
    (fun _ => rfl)
    (fun _ _ ih1 ih2 hk => items_cons_congr legacy (ih1 hk.1) (ih2 hk.2))
    (fun _ => rfl)
    (fun _ _ ih1 ih2 hk => entries_cons_congr legacy _ (ih1 hk.1) (ih2 hk.2))
    h hk

theorem C12_table_perm_invariant (legacy : Bool) (l₁ l₂ : List (Str × PyVal)) (h : l₁.Perm l₂)
    (hk : KeysDistinct (.dict l₁)) :
    Encode.fieldTable legacy (.dict l₁) = Encode.fieldTable legacy (.dict l₂) := by
  exact fieldTable_perm legacy h hk.1

/-- entries are emitted in ascending key order: the list the encoder concatenates is sorted -/
theorem C12_sorted (legacy : Bool) (kvs : List (Str × PyVal)) :
    (List.mergeSort (Encode.entries legacy kvs) Encode.entryLe).Pairwise
      (fun a b => strLe a.1 b.1 = true) := by
  exact sorted_entries_pairwise legacy kvs

/-- and it is a permutation of the input entries (nothing lost, nothing invented) -/
theorem C12_sorted_perm (legacy : Bool) (kvs : List (Str × PyVal)) :
    ((List.mergeSort (Encode.entries legacy kvs) Encode.entryLe).map (·.1)).Perm (kvs.map (·.1)) := by
  exact sorted_entries_keys_perm legacy kvs

/-- `strLe` is Python's `<=` on str: a total order on code-point lists -/
theorem C12_order_total (a b : Str) : (strLe a b || strLe b a) = true := by
  exact strLe_total a b

theorem C12_order_antisymm (a b : Str) (h1 : strLe a b = true) (h2 : strLe b a = true) : a = b := by
  exact strLe_antisymm a b h1 h2

end Pamqp.Props
