import Pamqp.Spec.Wire
import Pamqp.Spec.Defs
import Pamqp.Proofs.Grammar
/-!
# C05 — the decoder accepts every well-formed wire frame a peer may send
"Well-formed" is the grammar: a wire-level tree `Spec.FV` with `FV.WF` (any of the 19 tags, table
entries in ANY order, any integer width, long strings that are not UTF-8), serialised by
`FV.wire`. The value a decoder must assign is `FV.value`, written independently of pamqp.
-/
namespace Pamqp.Props
open Pamqp

/-- every well-formed field value, followed by ANY bytes, is decoded by the model of pamqp to
exactly the value the reference assigns, consuming exactly its own bytes -/
theorem C05_decode_agrees_value (fv : Spec.FV) (hwf : fv.WF) (v : PyVal) (hv : fv.value = some v)
    (rest : Bytes) :
    Decode.embeddedValue (fv.wire ++ rest) = .ok (fv.wire.length, v) := by
  exact Proofs.Grammar.decode_agrees_value fv hwf v hv rest

/-- the same for a field table given as a method argument / property (no tag) -/
theorem C05_decode_agrees_table (l : List (Bytes × Spec.FV)) (hwf : (Spec.FV.tbl l).WF) (v : PyVal)
    (hv : (Spec.FV.tbl l).value = some v) (rest : Bytes) :
    Decode.fieldTableTop ((Spec.FV.tbl l).wire.drop 1 ++ rest) = .ok ((Spec.FV.tbl l).wire.length - 1, v) := by
  exact Proofs.Grammar.decode_agrees_table l hwf v hv rest

/-- the strict reference parser reads back exactly the tree: the serialisation is unambiguous
(so the domain of the theorem above is exactly what the grammar derives) -/
theorem C05_parse_wire (fv : Spec.FV) (hwf : fv.WF) (rest : Bytes) (f : Nat)
    (hf : 2 * fv.wire.length + 1 ≤ f) :
    Spec.parseFV f (fv.wire ++ rest) = some (fv, rest) := by
  exact Proofs.Grammar.parse_wire fv hwf rest f hf

/-- a timestamp too large to be represented as a datetime is refused, not returned as another instant -/
theorem C05_timestamp_refused (n : Nat) (h : 253402300800000 ≤ n) (hn : n < 2 ^ 64) (rest : Bytes) :
    Decode.timestamp (beN 8 n ++ rest) = .error .valueError ∧ Spec.tsValue n = none := by
  exact Proofs.Grammar.timestamp_refused n h hn rest

/-- above 2^32-1 the value is read as milliseconds, exactly (no floating point) -/
theorem C05_timestamp_ms (n : Nat) (h : 4294967296 ≤ n) (h' : n ≤ 253402300799999) (rest : Bytes) :
    Decode.timestamp (beN 8 n ++ rest) = .ok (8, .datetime ((n : Int) * 1000) (some 0)) := by
  exact Proofs.Grammar.timestamp_ms n h h' rest

/-- no argument validation is applied to received frames: the method decoder is the bare argument
loop, whatever the class's rules are -/
theorem C05_no_validation (cat : Cat) (spec spec' : MethodSpec) (data : Bytes)
    (h : spec.args = spec'.args) : Base.frameUnmarshal spec data = Base.frameUnmarshal spec' data := by
  simp [Base.frameUnmarshal, MethodSpec.types, h]

/-- the domain is not vacuous: a table with unsorted names, an unsigned 8-bit value, a double, a
non-UTF-8 long string and the 0x00 void -/
example : (Spec.FV.tbl [([122], .int 66 200), ([97], .f64 0x3ff0000000000000),
    ([109], .lstr [0xff, 0xfe]), ([98], .void 0)]).WF := by
  simp [Spec.FV.WF, Spec.WFE, Spec.intShape, Spec.intInRange, Spec.wireE, Spec.FV.wire, utf8Decode, utf8DecNat,
    utf8Dec1, beN]

end Pamqp.Props
