import Pamqp.Props.C04
/-!
# C11, nested clause — with legacy-RabbitMQ support switched on, only the signed tags b, s, I, l are
emitted ANYWHERE in a nested table or array (via the refinement to the grammar tree of C04)
-/
namespace Pamqp.Props
open Pamqp

theorem C11_legacy_tags_nested (v : PyVal) (bs : Bytes) (h : Encode.tableValue true v = .ok bs)
    (hk : KeysDistinct v) :
    ∃ fv : Spec.FV, fv.wire = bs ∧ fv.WF ∧ fv.IntTagsIn [98, 115, 73, 108] := by
  obtain ⟨fv, _, hw, hwf, ht⟩ := C04_value_refines_spec true v bs h hk
  exact ⟨fv, hw, hwf, by simpa [Spec.ladderTags] using ht⟩

/-- with the switch off the full ladder b s u I i l is used, and nothing else -/
theorem C11_full_tags_nested (v : PyVal) (bs : Bytes) (h : Encode.tableValue false v = .ok bs)
    (hk : KeysDistinct v) :
    ∃ fv : Spec.FV, fv.wire = bs ∧ fv.WF ∧ fv.IntTagsIn [98, 115, 117, 73, 105, 108] := by
  obtain ⟨fv, _, hw, hwf, ht⟩ := C04_value_refines_spec false v bs h hk
  exact ⟨fv, hw, hwf, by simpa [Spec.ladderTags] using ht⟩

/-- integers next to each other do not influence one another: the body of an array of integers is the
concatenation of what the ladder gives for each of them -/
theorem C11_adjacent_independent (legacy : Bool) (ns : List Int) (bss : List Bytes)
    (h : ns.map (Encode.tableInteger legacy) = bss.map Except.ok) :
    Encode.items legacy (ns.map PyVal.int) = .ok bss.flatten := by
  induction ns generalizing bss with
  | nil =>
    cases bss with
    | nil => simp [Encode.items]
    | cons b bs => simp at h
  | cons n ns ih =>
    cases bss with
    | nil => simp at h
    | cons b bs =>
      simp only [List.map_cons, List.cons.injEq] at h
      have := ih bs h.2
      simp [Encode.items, Encode.tableValue, h.1, this, bind, Except.bind, pure, Except.pure]

end Pamqp.Props
