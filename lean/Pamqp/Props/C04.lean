import Pamqp.Spec.Wire
import Pamqp.Spec.Defs
import Pamqp.Props.C12
import Pamqp.Proofs.Refine
import Pamqp.Proofs.RefineArgs
/-!
# C04 — encoded bytes equal the AMQP 0-9-1 wire format (independent reference)
Refinement: the operational model of pamqp's encoder (tied to the code by the exact-bytes lanes)
produces exactly the bytes of the reference encoder `Spec.lower` (Python value -> grammar tree,
written from the type table: smallest fitting integer, sorted names, ...) serialised by `FV.wire`.
-/
namespace Pamqp.Props
open Pamqp

/-- field values: whenever the model encoder returns bytes, the reference encoder returns the same
bytes, via a well-formed tree whose names ascend at every level and whose integer tags are those
of the active ladder -/
theorem C04_value_refines_spec (legacy : Bool) (v : PyVal) (bs : Bytes)
    (h : Encode.tableValue legacy v = .ok bs) (hk : KeysDistinct v) :
    ∃ fv, Spec.lower legacy v = some fv ∧ fv.wire = bs ∧ fv.WF ∧ fv.IntTagsIn (Spec.ladderTags legacy) := by
  obtain ⟨fv, h1, h2, h3, h4, _⟩ := Proofs.Refine.value_ref legacy v bs h hk
  exact ⟨fv, h1, h2, h3, h4⟩

/-- entries are emitted in ascending key order at every nesting level (keys short enough not to be truncated) -/
theorem C04_value_sorted (legacy : Bool) (v : PyVal) (h : Spec.Encodable legacy v) :
    ∃ fv, Spec.lower legacy v = some fv ∧ fv.Sorted := by
  exact Proofs.Refine.value_sorted legacy v h

/-- method arguments: specification order, consecutive bits packed LSB-first into shared octets -/
theorem C04_args_refine_spec (legacy : Bool) (tvs : List (WireTy × PyVal)) (bs : Bytes)
    (hrun : Spec.bitRunOK 0 (tvs.map (·.1)) = true)
    (hty : ∀ p ∈ tvs, Spec.argOK legacy p.1 p.2)
    (h : Base.marshalLoop legacy 0 0 false tvs = .ok bs) :
    Spec.argsWire legacy (tvs.length + 1) tvs = some bs := by
  exact Proofs.Refine.args_refine legacy tvs bs hrun hty h

/-- the envelope: type octet, big-endian channel and payload size, payload, 0xCE -/
theorem C04_envelope_layout (kind ch : Nat) (hk : kind < 256) (hc : ch < 65536) (payload : Bytes)
    (hl : payload.length < 2 ^ 32) :
    Frame.envelope kind (.int ch) payload = .ok (Spec.Envelope.wire ⟨kind, ch, payload⟩) := by
  exact Proofs.Refine.envelope_layout kind ch hk hc payload hl

/-- method frame payload = big-endian class/method index + arguments; header payload = class id,
weight 0, body size, flag word (sum of the present properties' flags), property list -/
theorem C04_header_payload_layout (legacy : Bool) (cat : Cat) (hwf : Spec.flagsWF cat.props = true)
    (hcls : cat.basicClassId < 65536) (size : Nat) (hs : size < 2 ^ 64) (vals : List PyVal)
    (hlen : vals.length = cat.props.length) (hok : Spec.propsOK legacy (cat.props.zip vals)) (bs : Bytes)
    (h : Frame.headerPayload legacy cat (.int size) vals = .ok bs) :
    ∃ fl parts, Spec.propsWire legacy (cat.props.zip vals) = some (fl, parts) ∧ fl < 65536 ∧
      bs = beN 2 cat.basicClassId ++ [0, 0] ++ beN 8 size ++ beN 2 fl ++ parts := by
  exact Proofs.Refine.header_payload_layout legacy cat hwf hcls size hs vals hlen hok bs h

/-- fixed frames -/
theorem C04_fixed_frames (legacy : Bool) (cat : Cat) (ch : PyVal) :
    Frame.marshal legacy cat .heartbeat ch = .ok (Spec.Envelope.wire ⟨8, 0, []⟩) ∧
    Frame.marshal legacy cat (.protocolHeader (.int 0) (.int 9) (.int 1)) ch = .ok [65, 77, 81, 80, 0, 0, 9, 1] := by
  exact Proofs.Refine.fixed_frames legacy cat ch

end Pamqp.Props
