import Pamqp.Spec.Defs
import Pamqp.Props.C12
import Pamqp.Generated.Catalogue
import Pamqp.Proofs.NoCorruption
/-!
# C10 — encoders never emit bytes that decode to a different value
Quantified over ALL Python values the model can tell apart (right or wrong type, any magnitude):
if the encoder returns bytes at all, they decode back to the normalised input.
-/
namespace Pamqp.Props
open Pamqp

mutual
/-- the property's own list of documented exceptions: a timestamp after 2106-02-07 06:28:15 UTC
(read back as milliseconds by design), a table key longer than 128 characters (truncated) -/
def Documented : PyVal → Prop
  | .datetime m tz => Spec.instantMicros m tz / 1000000 > 4294967295
  | .structTime s => s > 4294967295
  | .list vs => DocumentedL vs
  | .dict kvs => DocumentedE kvs
  | _ => False
def DocumentedL : List PyVal → Prop
  | [] => False
  | v :: vs => Documented v ∨ DocumentedL vs
def DocumentedE : List (Str × PyVal) → Prop
  | [] => False
  | (k, v) :: es => k.length > 128 ∨ Documented v ∨ DocumentedE es
end

/-- Field values. No silent wrap-around, sign loss, truncation or zeroing: whenever
`encode_table_value` returns bytes for ANY value (outside the documented exceptions), decoding
them consumes all of them and yields the documented normalisation of the input. -/
theorem C10_value (legacy : Bool) (v : PyVal) (bs : Bytes)
    (h : Encode.tableValue legacy v = .ok bs) (hd : ¬ Documented v) (hk : KeysDistinct v) :
    Decode.embeddedValue bs = .ok (bs.length, Spec.norm v) := by
  exact Proofs.NoCorruption.value_of_ok (Proofs.NoCorruption.DocClauses.mk (D := Documented) (DL := DocumentedL) (DE := DocumentedE)
    (fun _ _ h => by simpa [Documented] using h) (fun _ h => by simpa [Documented] using h)
    (fun _ h => by simpa [Documented] using h) (fun _ h => by simpa [Documented] using h)
    (fun _ _ h => by simpa [DocumentedL] using h) (fun _ _ _ h => by simpa [DocumentedE] using h)) legacy v bs h hd hk

/-- the encoder accepts nothing outside C03's domain (apart from the documented exceptions) -/
theorem C10_accepts_only_encodable (legacy : Bool) (v : PyVal) (bs : Bytes)
    (h : Encode.tableValue legacy v = .ok bs) (hd : ¬ Documented v) (hk : KeysDistinct v) :
    Spec.Encodable legacy v := by
  exact Proofs.NoCorruption.encodable_of_ok (Proofs.NoCorruption.DocClauses.mk (D := Documented) (DL := DocumentedL) (DE := DocumentedE)
    (fun _ _ h => by simpa [Documented] using h) (fun _ h => by simpa [Documented] using h)
    (fun _ h => by simpa [Documented] using h) (fun _ h => by simpa [Documented] using h)
    (fun _ _ h => by simpa [DocumentedL] using h) (fun _ _ _ h => by simpa [DocumentedE] using h)) legacy v bs h hd hk

/-- `encode.field_table` only treats `None` as the empty table (D9) -/
theorem C10_field_table_domain (legacy : Bool) (v : PyVal) (bs : Bytes)
    (h : Encode.fieldTable legacy v = .ok bs) : v = .none ∨ ∃ kvs, v = .dict kvs := by
  exact Proofs.NoCorruption.fieldTable_domain legacy v bs h

/-- Python `==` between what was passed for an argument and what comes back: `True == 1`, so a
bool given for an integer argument comes back as that int, and 0/1 given for a bit as a bool -/
def coerceArg : WireTy → PyVal → PyVal
  | .bit, .int 0 => .bool false
  | .bit, .int 1 => .bool true
  | .octet, .bool b | .short, .bool b | .long, .bool b | .longlong, .bool b => .int (if b then 1 else 0)
  | _, v => v

def DocumentedArg : WireTy → PyVal → Prop
  | .table, v => Documented v
  | .timestamp, v => Documented v
  | _, _ => False

/-- Method arguments: whenever `frame.marshal` returns bytes for a method object with ANY attribute
values, decoding yields the same class, channel and (coerced, normalised) argument values -/
theorem C10_args (cat : Cat) (hwf : Spec.catWF cat = true) (spec : MethodSpec) (hs : spec ∈ cat.methods)
    (legacy : Bool) (vals : List PyVal) (hl : vals.length = spec.args.length)
    (ch : PyVal) (bs : Bytes) (h : Frame.marshal legacy cat (.method spec vals) ch = .ok bs)
    (hd : ∀ p ∈ spec.types.zip vals, ¬ DocumentedArg p.1 p.2 ∧ KeysDistinct p.2) :
    ∃ c : Nat, ch.asInt? = some (c : Int) ∧
      Frame.unmarshal cat bs = .ok (bs.length, c, .method spec
        ((spec.types.zip vals).map (fun p => Spec.normArg p.1 (coerceArg p.1 p.2)))) := by
  exact Proofs.NoCorruption.args_of_ok (Proofs.NoCorruption.DocClauses.mk (D := Documented) (DL := DocumentedL) (DE := DocumentedE)
    (fun _ _ h => by simpa [Documented] using h) (fun _ h => by simpa [Documented] using h)
    (fun _ h => by simpa [Documented] using h) (fun _ h => by simpa [Documented] using h)
    (fun _ _ h => by simpa [DocumentedL] using h) (fun _ _ _ h => by simpa [DocumentedE] using h)) cat hwf spec hs legacy vals hl ch bs h hd

/-- the two D-class witnesses of the pinned tree are now refused or exact -/
example : Encode.bit (.int 2) 0 1 = .error .typeError := rfl

end Pamqp.Props
