import Pamqp.Spec.Tables
import Pamqp.Generated.Constants
import Pamqp.Generated.ReplyCodes
import Pamqp.Generated.Tables
import Pamqp.Generated.Ladder
import Pamqp.Generated.Purity
/-!
# Tie A obligations on the data REGENERATED from the current source (other than the catalogue)

Every theorem here is a kernel evaluation (`decide`) comparing what the translator read from
/repo with what the hand-written model assumes. The left-hand sides change when the source
changes; the right-hand sides are written here by hand. Comparisons are order-insensitive where
Python does not care about the order (dict literals).
-/
namespace Pamqp.Props
open Pamqp

/-- same elements, ignoring order (for dict literals) -/
def sameSet {α} [DecidableEq α] (a b : List α) : Bool :=
  a.length == b.length && a.all (b.contains ·) && b.all (a.contains ·)

/-! ## dispatch tables and struct formats (C01 C02 C03 C05 C10) -/

/-- the RabbitMQ errata type table: tag -> decoder (so also signedness and width) -/
def expectedTableMapping : List (Nat × String) := [
  (116, "decode.boolean"), (98, "decode.short_short_int"), (66, "decode.short_short_uint"),
  (115, "decode.short_int"), (117, "decode.short_uint"), (73, "decode.long_int"),
  (105, "decode.long_uint"), (108, "decode.long_long_int"), (76, "decode.long_long_int"),
  (102, "decode.floating_point"), (100, "decode.double"), (68, "decode.decimal"),
  (83, "decode.long_str"), (65, "decode.field_array"), (84, "decode.timestamp"),
  (70, "decode.field_table"), (86, "decode.void"), (0, "decode.void"), (120, "decode.byte_array")]

theorem tieA_table_mapping : sameSet Generated.tableMapping expectedTableMapping = true := by decide

/-- type names used by the catalogue -> decoder / encoder (`Decode.byType`, `Encode.byType`) -/
def expectedDecodeMethods : List (String × String) := [
  ("bit", "decode.bit"), ("octet", "decode.octet"), ("short", "decode.short_uint"),
  ("long", "decode.long_uint"), ("longlong", "decode.long_long_int"), ("shortstr", "decode.short_str"),
  ("longstr", "decode.long_str"), ("table", "decode.field_table"), ("timestamp", "decode.timestamp")]

def expectedEncodeMethods : List (String × String) := [
  ("octet", "encode.octet"), ("short", "encode.short_uint"), ("long", "encode.long_uint"),
  ("longlong", "encode.long_long_int"), ("shortstr", "encode.short_string"),
  ("longstr", "encode.long_string"), ("table", "encode.field_table"), ("timestamp", "encode.timestamp")]

def lookupS (l : List (String × String)) (k : String) : List String := (l.filter (·.1 == k)).map (·.2)

theorem tieA_methods :
    (expectedDecodeMethods.all (fun e => lookupS Generated.decodeMethods e.1 == [e.2])) = true ∧
    (expectedEncodeMethods.all (fun e => lookupS Generated.encodeMethods e.1 == [e.2])) = true ∧
    lookupS Generated.encodeMethods "bit" = [] := by decide

/-- `common.Struct`: format string (byte order, width, signedness) of every member the codecs use -/
def expectedStructFormats : List (String × String) := [
  ("byte", "B"), ("double", ">d"), ("float", ">f"), ("integer", ">I"), ("long_long_int", ">q"),
  ("short_short_int", ">b"), ("short_short_uint", ">B"), ("timestamp", ">Q"), ("long", ">l"),
  ("ulong", ">L"), ("short", ">h"), ("ushort", ">H")]

theorem tieA_struct_formats :
    (expectedStructFormats.all (fun e => lookupS Generated.structFormats e.1 == [e.2])) = true := by decide

def usesOf (fn : String) : List (String × String) :=
  (Generated.structUses.filter (·.fn == fn)).map (fun u => (u.what, u.op))

/-- which struct each codec function packs / unpacks with (the model's `packXX` / `unpackX k`) -/
def expectedStructUses : List (String × List (String × String)) := [
  ("decode.bit", [("Struct.byte", "unpack_from")]),
  ("decode.boolean", [("Struct.byte", "unpack_from")]),
  ("decode.byte_array", [("Struct.integer", "unpack")]),
  ("decode.decimal", [("Struct.byte", "unpack"), ("Struct.long", "unpack")]),
  ("decode.double", [("Struct.double", "unpack_from")]),
  ("decode.floating_point", [("Struct.float", "unpack_from")]),
  ("decode.long_int", [("Struct.long", "unpack")]),
  ("decode.long_uint", [("Struct.ulong", "unpack")]),
  ("decode.long_long_int", [("Struct.long_long_int", "unpack")]),
  ("decode.long_str", [("Struct.integer", "unpack")]),
  ("decode.octet", [("Struct.byte", "unpack")]),
  ("decode.short_int", [("Struct.short", "unpack_from")]),
  ("decode.short_uint", [("Struct.ushort", "unpack_from")]),
  ("decode.short_short_int", [("Struct.short_short_int", "unpack_from")]),
  ("decode.short_short_uint", [("Struct.short_short_uint", "unpack_from")]),
  ("decode.short_str", [("Struct.byte", "unpack")]),
  ("decode.timestamp", [("Struct.timestamp", "unpack")]),
  ("decode.field_array", [("Struct.integer", "unpack")]),
  ("decode.field_table", [("Struct.integer", "unpack"), ("Struct.byte", "unpack_from")]),
  ("encode.boolean", [("Struct.short_short_uint", "pack")]),
  ("encode.byte_array", [("Struct.integer", "pack")]),
  ("encode.decimal", [(">Bi", "pack"), (">Bi", "pack")]),
  ("encode.double", [("Struct.double", "pack")]),
  ("encode.floating_point", [("Struct.float", "pack")]),
  ("encode.long_int", [("Struct.long", "pack")]),
  ("encode.long_uint", [("Struct.ulong", "pack")]),
  ("encode.long_long_int", [("Struct.long_long_int", "pack")]),
  ("encode.long_string", [("Struct.integer", "ref")]),
  ("encode.octet", [("Struct.byte", "pack")]),
  ("encode.short_int", [("Struct.short", "pack")]),
  ("encode.short_uint", [("Struct.ushort", "pack")]),
  ("encode.short_string", [("Struct.byte", "ref")]),
  ("encode.timestamp", [("Struct.timestamp", "pack"), ("Struct.timestamp", "pack")]),
  ("encode.field_array", [("Struct.integer", "pack")]),
  ("encode.field_table", [("Struct.integer", "pack"), ("Struct.integer", "pack")]),
  ("encode.table_integer", [("Struct.short_short_int", "pack")]),
  ("encode._deprecated_table_integer", [("Struct.short_short_int", "pack")]),
  ("encode._string", [("param:encoder", "pack")]),
  ("base.BasicProperties.marshal", [(">H", "pack")])]

theorem tieA_struct_uses :
    (expectedStructUses.all (fun e => usesOf e.1 == e.2)) = true := by decide

/-! ## the frame envelope (C06 C07 C18 C20) -/

def expectedFrameStructUses : List (String × List (String × String)) := [
  ("frame.frame_parts", [(">BHI", "unpack")]),
  ("frame._marshal", [(">BHI", "pack")]),
  ("frame._marshal_method_frame", [("Struct.integer", "pack")]),
  ("header.ProtocolHeader.marshal", [("BBBB", "pack")]),
  ("header.ProtocolHeader.unmarshal", [("BBB", "unpack")]),
  ("header.ContentHeader.marshal", [(">HxxQ", "pack")]),
  ("header.ContentHeader.unmarshal", [(">HHQ", "unpack")]),
  ("heartbeat.Heartbeat", [(">BHI", "pack")])]

theorem tieA_frame_struct_uses :
    (expectedFrameStructUses.all (fun e => usesOf e.1 == e.2)) = true := by decide

/-- every protocol constant `frame.py` branches on, with the protocol's value -/
theorem tieA_frame_constants :
    (Spec.constants.all (fun c => Generated.constants.contains c)) = true ∧
    (["FRAME_HEARTBEAT", "FRAME_END", "FRAME_HEADER_SIZE", "FRAME_METHOD", "FRAME_HEADER", "FRAME_BODY"].all
      (fun n => Generated.frameConstUses.contains ("frame.unmarshal", n))) = true ∧
    Generated.frameConstUses.contains ("frame.frame_parts", "FRAME_HEADER_SIZE") = true ∧
    Generated.frameConstUses.contains ("frame._marshal", "FRAME_END_CHAR") = true ∧
    Generated.frameConstUses.contains ("frame._marshal_method_frame", "FRAME_METHOD") = true ∧
    Generated.frameConstUses.contains ("frame._marshal_content_header_frame", "FRAME_HEADER") = true ∧
    Generated.frameConstUses.contains ("frame._marshal_content_body_frame", "FRAME_BODY") = true ∧
    Generated.frameConstUses.contains ("frame._unmarshal_protocol_header_frame", "AMQP") = true := by decide

/-! ## exception handling sites (C09, C20) -/

def sitesOf (fn : String) : List (List String × List String × String) :=
  (Generated.exceptSites.filter (·.fn == fn)).map (fun s => (s.covers, s.catches, s.action))

/-- the `try` blocks of frame.py: what they cover, what they catch, what they raise -/
theorem tieA_frame_except_sites :
    sitesOf "frame._unmarshal_method_frame" =
      [(["bytes_used, method_index = decode.long_int(frame_data[0:4])"], ["struct.error"],
          "raise exceptions.UnmarshalingException"),
       (["method = commands.INDEX_MAPPING[method_index]()"], ["KeyError"],
          "raise exceptions.UnmarshalingException"),
       (["method.unmarshal(frame_data[bytes_used:])"], ["struct.error", "ValueError", "OverflowError"],
          "raise exceptions.UnmarshalingException")] ∧
    sitesOf "frame._unmarshal_header_frame" =
      [(["content_header.unmarshal(frame_data)"], ["struct.error", "ValueError", "OverflowError"],
          "raise exceptions.UnmarshalingException")] ∧
    sitesOf "frame.unmarshal" =
      [(["value = _unmarshal_protocol_header_frame(data_in)"], ["ValueError"],
          "raise exceptions.UnmarshalingException")] ∧
    sitesOf "frame.frame_parts" =
      [(["return struct.unpack('>BHI', data[0:constants.FRAME_HEADER_SIZE])"], ["struct.error"],
          "return UNMARSHAL_FAILURE")] ∧
    sitesOf "header.ProtocolHeader.unmarshal" =
      [(["self.major_version, self.minor_version, self.revision = struct.unpack('BBB', data[5:8])"],
          ["struct.error"], "raise ValueError")] := by decide

def nonDecodeSites : List String := ["encode.by_type", "encode.field_table", "frame.unmarshal", "frame.frame_parts",
  "frame._unmarshal_method_frame", "frame._unmarshal_header_frame", "header.ProtocolHeader.unmarshal"]

/-- the decoders' own handlers never swallow an error: each one re-raises as ValueError, except the
documented long-string fallback to raw bytes -/
theorem tieA_decode_except_sites :
    ((Generated.exceptSites.filter (fun s => !(nonDecodeSites.contains s.fn))).all (fun s =>
        s.action == "raise ValueError" ||
        (s.fn == "decode.long_str" && s.catches == ["UnicodeDecodeError"] &&
          s.action == "return (length + 4, value[4:length + 4])"))) = true ∧
    sitesOf "decode.embedded_value" =
      [(["bytes_consumed, temp = TABLE_MAPPING[value[0:1]](value[1:])"], ["KeyError"], "raise ValueError")] := by
  decide

/-! ## integer ladder, range guards, toggle (C11, C10) -/

theorem tieA_ladder :
    Generated.ladder =
      [⟨-128, 127, 98, "Struct.short_short_int"⟩, ⟨-32768, 32767, 115, "short_int"⟩,
       ⟨0, 65535, 117, "short_uint"⟩, ⟨-2147483648, 2147483647, 73, "long_int"⟩,
       ⟨0, 4294967295, 105, "long_uint"⟩,
       ⟨-9223372036854775808, 9223372036854775807, 108, "long_long_int"⟩] ∧
    Generated.legacyLadder =
      [⟨-128, 127, 98, "Struct.short_short_int"⟩, ⟨-32768, 32767, 115, "short_int"⟩,
       ⟨-2147483648, 2147483647, 73, "long_int"⟩,
       ⟨-9223372036854775808, 9223372036854775807, 108, "long_long_int"⟩] ∧
    Generated.ladderPrelude = "DEPRECATED_RABBITMQ_SUPPORT -> _deprecated_table_integer" ∧
    Generated.ladderFallthrough = ["TypeError", "TypeError"] := by decide

def guardOf (fn : String) : List (String × Option Int × Option Int × String × String) :=
  (Generated.guards.filter (·.fn == fn)).map (fun g => (g.isinstanceOf, g.lo, g.hi, g.exc, g.packer))

theorem tieA_guards :
    (guardOf "encode.short_int" == [("int", some (-32768), some 32767, "TypeError", "Struct.short")]) = true ∧
    (guardOf "encode.short_uint" == [("int", some 0, some 65535, "TypeError", "Struct.ushort")]) = true ∧
    (guardOf "encode.long_int" == [("int", some (-2147483648), some 2147483647, "TypeError", "Struct.long")]) = true ∧
    (guardOf "encode.long_uint" == [("int", some 0, some 4294967295, "TypeError", "Struct.ulong")]) = true ∧
    (guardOf "encode.long_long_int" == [("int", some (-9223372036854775808), some 9223372036854775807, "TypeError", "Struct.long_long_int")]) = true ∧
    (guardOf "encode.octet" == [("int", none, none, "TypeError", "Struct.byte")]) = true ∧
    (guardOf "encode.boolean" == [("bool", none, none, "TypeError", "Struct.short_short_uint")]) = true ∧
    (guardOf "encode.byte_array" == [("bytearray", none, none, "TypeError", "Struct.integer")]) = true ∧
    (guardOf "encode.decimal" == [("_decimal.Decimal", none, none, "TypeError", ">Bi")]) = true ∧
    (guardOf "encode.double" == [("float", none, none, "TypeError", "Struct.double")]) = true ∧
    (guardOf "encode.floating_point" == [("float", none, none, "TypeError", "Struct.float")]) = true ∧
    (guardOf "encode.bit" == [("value not in (0, 1)", none, none, "TypeError", "")]) = true := by decide

theorem tieA_toggle :
    Generated.toggleDefault = "True" ∧ Generated.toggleGlobal = "DEPRECATED_RABBITMQ_SUPPORT" ∧
    Generated.legacyInitial = "False" := by decide

/-! ## frame conditions (C12 C15 C16) -/

/-- no encoder or decoder mutates a parameter or a module/class-level object in place: every
in-place mutation targets a container created in the same call, or `self` during unmarshal; the
only global store is the legacy switch -/
theorem tieA_no_shared_mutation :
    (Generated.mutationSites.all (fun s =>
      s.targetKind == "fresh-local" ||
      (s.targetKind == "self-attribute" && s.how == "setattr" &&
        (s.fn == "base.Frame.unmarshal" || s.fn == "base.BasicProperties.unmarshal")) ||
      (s.how == "global-store" && s.fn == "encode.support_deprecated_rabbitmq" &&
        s.target == "DEPRECATED_RABBITMQ_SUPPORT"))) = true ∧
    Generated.globalStores = [("encode.support_deprecated_rabbitmq", "DEPRECATED_RABBITMQ_SUPPORT")] := by
  decide

/-- no parameter default is a mutable object, no decorator other than classmethod / staticmethod
(so no cache), no read of the process environment -/
theorem tieA_no_hidden_state :
    (Generated.paramDefaults.all (fun p => p.kind != "mutable")) = true ∧
    (Generated.paramDefaults.all (fun p => p.fn == "header.ProtocolHeader.__init__")) = true ∧
    (Generated.decorators.all (fun d => d.2 == "classmethod" || d.2 == "staticmethod")) = true ∧
    Generated.envReads = [] := by decide

/-- every call into time / datetime / calendar has one of the environment-independent shapes -/
def timeWhitelist : List String := [
  "datetime.datetime(1970, 1, 1, tzinfo=datetime.timezone.utc)",
  "datetime.timedelta(milliseconds=X)",
  "datetime.datetime.fromtimestamp(X, tz=datetime.timezone.utc)",
  "X.tzinfo.utcoffset(X)",
  "X.replace(tzinfo=datetime.timezone.utc)",
  "X.timestamp()",
  "calendar.timegm(X)"]

theorem tieA_time_calls :
    (Generated.timeCalls.all (fun c => timeWhitelist.contains c.shape)) = true ∧
    -- `.timestamp()` is only environment independent after the value was made aware
    ((Generated.timeCalls.filter (·.fn == "encode.timestamp")).map (·.shape)) =
      ["X.tzinfo.utcoffset(X)", "X.replace(tzinfo=datetime.timezone.utc)", "X.timestamp()", "calendar.timegm(X)"] := by
  decide

/-! ## reply codes (C17) -/

def softOf (r : ReplyCode) : Bool := r.bases.contains "AMQPSoftError"
def hardOf (r : ReplyCode) : Bool := r.bases.contains "AMQPHardError"

/-- every specified code has exactly one class with the specified value and NAME, deriving from
the soft / hard base as specified (and not the other), all below the common base -/
theorem tieA_reply_codes :
    (Spec.replyCodes.all (fun s =>
      (Generated.replyCodes.filter (·.value == s.1)).map
        (fun r => (r.name, softOf r, hardOf r, r.bases.contains "PAMQPException", r.bases.contains "AMQPError"))
        == [(s.2.1, s.2.2, !s.2.2, true, true)])) = true ∧
    Generated.replyCodes.length = 18 ∧ Spec.replyCodes.length = 18 ∧
    (Generated.replyCodes.map (·.className)).Nodup := by decide

/-- CLASS_MAPPING maps each code to the class that carries that code -/
theorem tieA_class_mapping :
    (Generated.classMapping.all (fun e =>
      Generated.replyCodes.any (fun r => r.value == e.1 && r.className == e.2))) = true ∧
    sameSet (Generated.classMapping.map (·.1)) (Spec.replyCodes.map (·.1)) = true ∧
    (Generated.classMapping.map (·.2)).Nodup := by decide

/-- the two name patterns are the one character class of the specification -/
theorem tieA_domain_regex : sameSet Generated.domainRegex Spec.domainRegex = true := by decide

end Pamqp.Props
