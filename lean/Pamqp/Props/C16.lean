import Pamqp.Spec.Defs
import Pamqp.Model.Api
import Pamqp.Props.TieA.NoSharedMutation
import Pamqp.Props.TieA.NoHiddenState
import Pamqp.Proofs.ApiLemmas
/-!
# C16 — codec calls are independent of history and of concurrent callers
The API model's only state is the legacy switch. That the Python code has no other state is the
Tie-A obligations `tieA_no_shared_mutation` / `tieA_no_hidden_state` plus the `api.seq` lane and the
identity monitor; the theorems are the refinement "pure function + one boolean".
-/
namespace Pamqp.Props
open Pamqp

/-- what a call returns in a fresh interpreter whose switch is `flag` -/
def evalOp (cat : Cat) (flag : Bool) (op : Api.Op) : Api.Out := (Api.step cat ⟨flag⟩ op).2

/-- the switch before the i-th call: the last toggle argument so far -/
def flagsBefore : Bool → List Api.Op → List Bool
  | _, [] => []
  | b, op :: ops => b :: flagsBefore (match op with | .toggle arg => arg.getD true | _ => b) ops

/-- any history: each call's result is the one it gives in a fresh interpreter with the same switch -/
theorem C16_history (cat : Cat) (s : Api.State) (ops : List Api.Op) :
    Api.run cat s ops = (List.zip (flagsBefore s.legacy ops) ops).map (fun p => evalOp cat p.1 p.2) := by
  induction ops generalizing s with
  | nil => rfl
  | cons op ops ih =>
    rw [Proofs.ApiLemmas.run_cons, ih]
    cases op <;> rfl

def isToggle : Api.Op → Bool
  | .toggle _ => true
  | _ => false

/-- without toggles the result of each call depends on nothing but the call: so any interleaving
of several callers' sequences gives each call the same result -/
theorem C16_schedule (cat : Cat) (s : Api.State) (ops : List Api.Op) (h : ops.all (fun o => !isToggle o) = true) :
    Api.run cat s ops = ops.map (evalOp cat s.legacy) := by
  induction ops generalizing s with
  | nil => rfl
  | cons op ops ih =>
    rw [List.all_cons, Bool.and_eq_true] at h
    have hs : (Api.step cat s op).1 = s :=
      Proofs.ApiLemmas.step_fst_of_not_toggle cat s op (by intro arg he; rw [he] at h; simp [isToggle] at h)
    rw [Proofs.ApiLemmas.run_cons, hs, ih s h.2]
    rfl

/-- failed decodes leave no trace: the state after any non-toggle call is unchanged -/
theorem C16_no_trace (cat : Cat) (s : Api.State) (op : Api.Op) (h : isToggle op = false) :
    (Api.step cat s op).1 = s := by
  exact Proofs.ApiLemmas.step_fst_of_not_toggle cat s op (by intro arg he; rw [he] at h; simp [isToggle] at h)

end Pamqp.Props
