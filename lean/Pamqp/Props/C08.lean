import Pamqp.Spec.Defs
import Pamqp.Proofs.Budget
import Pamqp.Proofs.Taxonomy
import Pamqp.Proofs.Size
/-!
# C08 — decoding any byte string terminates with bounded work and memory
The decoder model recurses on an explicit fuel (one unit per decoder call or loop iteration along
any path); `outOfFuel` is its third outcome. These theorems say it is unreachable from a fuel that
is LINEAR in the input length, for EVERY byte string - which is exactly what fails at the two
hangs of the pinned tree (D2: an array element consuming nothing; D3: a flag word re-read).
-/
namespace Pamqp.Props
open Pamqp

/-- field values: a linear budget is never exhausted, whatever the bytes -/
theorem C08_value_fuel_suffices (bs : Bytes) (f : Nat) (hf : 2 * bs.length + 1 ≤ f) :
    Decode.embedded f bs ≠ .error .outOfFuel := by
  exact (Proofs.budget_suffices f).1 bs hf

theorem C08_table_fuel_suffices (bs : Bytes) (f : Nat) (hf : 2 * bs.length + 1 ≤ f) :
    Decode.fieldTable f bs ≠ .error .outOfFuel ∧ Decode.fieldArray f bs ≠ .error .outOfFuel := by
  exact ⟨(Proofs.budget_suffices f).2.2.2.1 bs hf, (Proofs.budget_suffices f).2.1 bs hf⟩

/-- the answer does not depend on the budget once it is large enough: more fuel, same result -/
theorem C08_value_fuel_monotone (bs : Bytes) (f g : Nat) (hfg : f ≤ g)
    (h : Decode.embedded f bs ≠ .error .outOfFuel) : Decode.embedded g bs = Decode.embedded f bs := by
  exact (Proofs.fuel_monotone f).1 bs g hfg h

/-- the whole frame decoder never runs out of budget: for every catalogue and every byte string -/
theorem C08_unmarshal_terminates (cat : Cat) (bs : Bytes) :
    Frame.unmarshal cat bs ≠ .error .outOfFuel := by
  exact fun h => PyErr.noConfusion (Proofs.unmarshal_err h)

/-- every array element and every table entry consumes at least one byte: the loops never grow a
result without consuming input (consumed > 0 unless the input is empty) -/
theorem C08_progress (f : Nat) (bs : Bytes) (c : Nat) (v : PyVal)
    (h : Decode.embedded f bs = .ok (c, v)) : bs = [] ∨ 0 < c := by
  exact Proofs.embedded_progress h

/-- the flag-word loop advances: it consumes two bytes per word and never more than supplied -/
theorem C08_flags_progress (data : Bytes) (n : Nat) (fl : Int)
    (h : Frame.getFlags data 0 0 0 = .ok (n, fl)) : 2 ≤ n ∧ n ≤ data.length := by
  simpa using Proofs.getFlags_progress data 0 0 0 n fl h

/-- memory: the decoded value is no larger than the input (number of nodes ≤ bytes + 1) -/
def nodes : PyVal → Nat
  | .list vs => 1 + nodesL vs
  | .dict kvs => 1 + nodesE kvs
  | .str s => 1 + s.length
  | .bytes b => 1 + b.length
  | .bytearray b => 1 + b.length
  | _ => 1
where
  nodesL : List PyVal → Nat
    | [] => 0
    | v :: vs => nodes v + nodesL vs
  nodesE : List (Str × PyVal) → Nat
    | [] => 0
    | (k, v) :: es => k.length + nodes v + nodesE es

theorem C08_result_size (f : Nat) (bs : Bytes) (c : Nat) (v : PyVal)
    (h : Decode.embedded f bs = .ok (c, v)) : nodes v ≤ bs.length + 1 := by
  exact Proofs.result_size
    { sz := nodes, szL := nodes.nodesL, szE := nodes.nodesE
      sz_list := by intros; simp [nodes], sz_dict := by intros; simp [nodes]
      sz_str := by intros; simp [nodes], sz_bytes := by intros; simp [nodes]
      sz_bytearray := by intros; simp [nodes], sz_none := by simp [nodes]
      sz_bool := by intros; simp [nodes], sz_int := by intros; simp [nodes]
      sz_float := by intros; simp [nodes], sz_decimal := by intros; simp [nodes]
      sz_datetime := by intros; simp [nodes]
      szL_nil := by simp [nodes.nodesL], szL_cons := by intros; simp [nodes.nodesL]
      szE_nil := by simp [nodes.nodesE], szE_cons := by intros; simp [nodes.nodesE] } f bs c v h

end Pamqp.Props
