import Pamqp.Spec.Wire
import Pamqp.Spec.Defs
import Pamqp.Proofs.EnvelopeLemma
import Pamqp.Proofs.FrameGrammar
/-!
# C05 at frame level — method frames and content headers as a peer may send them
Arguments are wire items `Spec.AV` (a maximal run of bits sharing an octet whose unused high bits
may hold anything, or one non-bit argument of any grammar-valid value, incl. values `validate()`
would refuse); a content header may carry any class id and weight, unused flag bits and further
flag words.
-/
namespace Pamqp.Props
open Pamqp

/-- the argument loop of the decoder on grammar-built argument bytes followed by anything -/
theorem C05_method_args (avs : List Spec.AV) (hwf : ∀ a ∈ avs, a.WF) (hmax : Spec.runsMaximal avs = true)
    (vals : List PyVal) (hv : Spec.avsValues avs = some vals) (rest : Bytes) :
    Base.unmarshalLoop 0 false (avs.flatMap Spec.AV.wire ++ rest) (avs.flatMap Spec.AV.types) = .ok vals := by
  exact Proofs.FrameGrammar.method_args avs hwf hmax vals hv rest

/-- a whole method frame: any catalogue with `catWF`, any method of it, any grammar-valid items of
the method's argument types, any channel, any trailing bytes: decoded to that class with exactly
the reference values - no validation involved -/
theorem C05_method_frame (cat : Cat) (hcat : Spec.catWF cat = true) (spec : MethodSpec) (hs : spec ∈ cat.methods)
    (avs : List Spec.AV) (hwf : ∀ a ∈ avs, a.WF) (hmax : Spec.runsMaximal avs = true)
    (hty : avs.flatMap Spec.AV.types = spec.types)
    (vals : List PyVal) (hv : Spec.avsValues avs = some vals)
    (ch : Nat) (hc : ch < 65536) (hsz : 4 + (avs.flatMap Spec.AV.wire).length < 2 ^ 32) (rest : Bytes) :
    Frame.unmarshal cat (Proofs.envBytes 1 ch (beN 4 spec.index.toNat ++ avs.flatMap Spec.AV.wire) ++ rest) =
      .ok ((avs.flatMap Spec.AV.wire).length + 12, ch, .method spec vals) := by
  exact Proofs.FrameGrammar.method_frame cat hcat spec hs avs hwf hmax hty vals hv ch hc hsz rest

/-- flag words of a content header: every word but the last has the continuation bit -/
def wordsWF : List Nat → Prop
  | [] => False
  | [w] => w < 65536 ∧ w % 2 = 0
  | w :: ws => w < 65536 ∧ w % 2 = 1 ∧ wordsWF ws

/-- slots whose flag bit is set in the first flag word, in slot order -/
def presentSlots (props : List PropSpec) (w0 : Nat) : List PropSpec :=
  props.filter (fun p => w0 &&& p.flag != 0)

/-- decoded property list: the items' values at the present slots, defaults elsewhere -/
def fillProps : List PropSpec → Nat → List PyVal → List PyVal
  | [], _, _ => []
  | p :: ps, w0, vs =>
    if w0 &&& p.flag != 0 then
      match vs with
      | v :: vs' => v :: fillProps ps w0 vs'
      | [] => []
    else Base.litVal p.default :: fillProps ps w0 vs

/-- a content header with ANY class id and weight, unused flag bits set, further flag words:
decoded with exactly the flagged properties -/
theorem C05_header_frame (cat : Cat) (hwf : Spec.flagsWF cat.props = true)
    (classId weight size : Nat) (hci : classId < 65536) (hw : weight < 65536) (hsize : size < 2 ^ 64)
    (w0 : Nat) (ws : List Nat) (hwords : wordsWF (w0 :: ws))
    (items : List Spec.AV) (hitems : ∀ a ∈ items, a.WF ∧ a.isBits = false)
    (hty : items.flatMap Spec.AV.types = (presentSlots cat.props w0).map (·.ty))
    (vals : List PyVal) (hv : Spec.avsValues items = some vals)
    (ch : Nat) (hc : ch < 65536) (rest : Bytes)
    (hsz : 12 + 2 * (ws.length + 1) + (items.flatMap Spec.AV.wire).length < 2 ^ 32) :
    Frame.unmarshal cat (Proofs.envBytes 2 ch
        (beN 2 classId ++ beN 2 weight ++ beN 8 size ++ (w0 :: ws).flatMap (beN 2) ++ items.flatMap Spec.AV.wire) ++ rest) =
      .ok (12 + 2 * (ws.length + 1) + (items.flatMap Spec.AV.wire).length + 8, ch,
           .header (.int classId) (.int weight) (.int size) (fillProps cat.props w0 vals)) := by
  have hw' : ∀ l : List Nat, wordsWF l → Proofs.FrameGrammar.WordsOK l := by
    intro l
    induction l with
    | nil => intro h; exact h
    | cons w l ih =>
      cases l with
      | nil => intro h; exact h
      | cons w' l' => intro h; exact ⟨h.1, h.2.1, ih h.2.2⟩
  have hfill : ∀ (ps : List PropSpec) (vs : List PyVal),
      fillProps ps w0 vs = Proofs.FrameGrammar.fillProps' ps w0 vs := by
    intro ps
    induction ps with
    | nil => intro vs; rfl
    | cons p ps ih =>
      intro vs
      cases vs with
      | nil => simp only [fillProps, Proofs.FrameGrammar.fillProps', ih]
      | cons v vs' => simp only [fillProps, Proofs.FrameGrammar.fillProps', ih]
  rw [hfill]
  exact Proofs.FrameGrammar.header_frame cat hwf classId weight size hci hw hsize w0 ws (hw' _ hwords)
    items hitems hty vals hv ch hc rest hsz

end Pamqp.Props
