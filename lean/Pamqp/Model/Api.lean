import Pamqp.Model.Frame
/-!
# Pamqp.Model.Api — the public API as a state machine (C11 toggle, C16 history independence).
The only state is the module global `encode.DEPRECATED_RABBITMQ_SUPPORT`.
-/
namespace Pamqp
namespace Api

structure State where
  legacy : Bool
  deriving Repr, DecidableEq

def init : State := { legacy := false }

inductive Op where
  | toggle (arg : Option Bool)            -- support_deprecated_rabbitmq(enabled=True)
  | encodeValue (v : PyVal)               -- encode.encode_table_value(v)
  | marshal (f : AnyFrame) (ch : PyVal)   -- frame.marshal(f, ch)
  | unmarshal (bs : Bytes)                -- frame.unmarshal(bs)
  | construct (key : Int)                 -- INDEX_MAPPING[key]() : attribute values after __init__

inductive Out where
  | unit
  | bytes (r : R Bytes)
  | frame (r : R (Nat × Nat × AnyFrame))
  | vals (r : R (List PyVal))

/-- `self.x = x` / `self.x = x or {}` applied to the default -/
def normDefault (a : ArgSpec) : PyVal :=
  match a.norm, a.default with
  | .orEmptyDict, .none => .dict []
  | .orEmptyStr, .none => .str []
  | .orFalse, .none => .bool false
  | _, d => Base.litVal d

/-- attribute values of `Cls()`; constructors that end with `self.validate()` may raise -/
def construct (cat : Cat) (key : Int) : R (List PyVal) :=
  match cat.methods.find? (·.key == key) with
  | none => .error .keyError
  | some spec =>
    let vals := spec.args.map normDefault
    if spec.ctorValidates then do
      Base.validate spec.slots vals spec.rules
      pure vals
    else pure vals

/-- `self.x = x` / `self.x = x or {}` applied to a GIVEN argument value (Python truthiness) -/
def truthy : PyVal → Bool
  | .none => false
  | .bool b => b
  | .int i => i != 0
  | .float bits => !(bits == 0 || bits == 0x8000000000000000)
  | .decimal _ c _ => c != 0
  | .decimalSpecial _ => true
  | .str s => !s.isEmpty
  | .bytes b => !b.isEmpty
  | .bytearray b => !b.isEmpty
  | .list l => !l.isEmpty
  | .dict d => !d.isEmpty
  | .datetime _ _ => true
  | .structTime _ => true
  | .other => true

def normGiven (a : ArgSpec) (v : PyVal) : PyVal :=
  match a.norm with
  | .plain => v
  | .orEmptyDict => if truthy v then v else .dict []
  | .orEmptyStr => if truthy v then v else .str []
  | .orFalse => if truthy v then v else .bool false
  | .orOther => v

/-- `Cls(v1, ..., vn)`: attribute values after `__init__`, or the exception of the trailing `self.validate()` -/
def constructWith (spec : MethodSpec) (given : List PyVal) : R (List PyVal) :=
  let vals := (spec.args.zip given).map (fun p => normGiven p.1 p.2)
  if spec.ctorValidates then do
    Base.validate spec.slots vals spec.rules
    pure vals
  else pure vals

/-- `Basic.Properties(v1, ..., v14)`: plain stores, then `self.validate()` -/
def constructProps (cat : Cat) (rules : List Rule) (given : List PyVal) : R (List PyVal) := do
  Base.validate (cat.props.map (·.name)) given rules
  pure given

def step (cat : Cat) (s : State) : Op → State × Out
  | .toggle arg => ({ legacy := arg.getD true }, .unit)
  | .encodeValue v => (s, .bytes (Encode.tableValue s.legacy v))
  | .marshal f ch => (s, .bytes (Frame.marshal s.legacy cat f ch))
  | .unmarshal bs => (s, .frame (Frame.unmarshal cat bs))
  | .construct key => (s, .vals (construct cat key))

def run (cat : Cat) : State → List Op → List Out
  | _, [] => []
  | s, op :: ops => let (s', o) := step cat s op; o :: run cat s' ops

end Api
end Pamqp
