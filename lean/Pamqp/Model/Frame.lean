import Pamqp.Model.Base
/-!
# Pamqp.Model.Frame — `pamqp/frame.py`, `header.py`, `body.py`, `heartbeat.py` (repaired tree,
D1 D3 D4 D12). The catalogue (`INDEX_MAPPING`, `Basic.Properties`) is a parameter `Cat`, instantiated
with the regenerated `Pamqp.Generated.cat` by the driver and by the property theorems.
-/
namespace Pamqp

/-- what `frame.py` reads from `commands.py` and `constants.py` -/
structure Cat where
  methods : List MethodSpec
  props : List PropSpec
  basicClassId : Nat          -- `commands.Basic.frame_id`
  deriving Repr

/-- frame objects, as far as `frame.marshal` / `frame.unmarshal` can tell them apart -/
inductive AnyFrame where
  | protocolHeader (major minor revision : PyVal)
  | method (spec : MethodSpec) (vals : List PyVal)
  | header (classId weight bodySize : PyVal) (props : List PyVal)
  | body (value : PyVal)
  | heartbeat
  | notAFrame
  deriving Repr, Inhabited

namespace Frame

def amqp : Bytes := [65, 77, 81, 80]     -- b'AMQP'
def frameEnd : UInt8 := 206              -- 0xCE

/-- `_marshal(frame_type, channel_id, payload)`: `struct.pack('>BHI', ...) + payload + b'\xce'` -/
def envelope (frameType : Nat) (channel : PyVal) (payload : Bytes) : R Bytes :=
  match channel.asInt? with
  | some ch => do
    let c ← packU16 ch
    let l ← packU32 payload.length
    pure (UInt8.ofNat frameType :: (c ++ l ++ payload ++ [frameEnd]))
  | none => .error .structError

/-- `ContentHeader.marshal()` -/
def headerPayload (legacy : Bool) (cat : Cat) (bodySize : PyVal) (props : List PyVal) : R Bytes := do
  -- struct.pack('>HxxQ', Basic.frame_id, body_size) is evaluated before properties.marshal()
  let cls ← packU16 cat.basicClassId
  let sz ← match bodySize.asInt? with
    | some n => packU64 n
    | none => .error .structError
  let p ← Base.propsMarshal legacy cat.props props
  pure (cls ++ [0, 0] ++ sz ++ p)

/-- `ProtocolHeader.marshal()`: `AMQP + struct.pack('BBBB', 0, major, minor, revision)` -/
def protocolHeaderBytes (a b c : PyVal) : R Bytes :=
  match a.asInt?, b.asInt?, c.asInt? with
  | some x, some y, some z => do
    let x ← packU8 x
    let y ← packU8 y
    let z ← packU8 z
    pure (amqp ++ [0] ++ x ++ y ++ z)
  | _, _, _ => .error .structError

/-- `frame.marshal(frame_value, channel_id)` -/
def marshal (legacy : Bool) (cat : Cat) (f : AnyFrame) (channel : PyVal) : R Bytes :=
  match f with
  | .protocolHeader a b c => protocolHeaderBytes a b c
  | .method spec vals => do
    -- common.Struct.integer.pack(value.index) + value.marshal()
    let idx ← packU32 spec.index
    let args ← Base.frameMarshal legacy spec vals
    envelope 1 channel (idx ++ args)
  | .header _ _ bodySize props => do
    let p ← headerPayload legacy cat bodySize props
    envelope 2 channel p
  | .body v =>
    match v with
    | .bytes bs => envelope 3 channel bs
    | .bytearray bs => envelope 3 channel bs
    | _ => .error .typeError
  | .heartbeat => .ok [8, 0, 0, 0, 0, 0, 0, frameEnd]
  | .notAFrame => .error .valueError

/-- `frame.frame_parts(data)`; `none` size = the failure triple `(0, 0, None)` -/
def frameParts (data : Bytes) : Nat × Nat × Option Nat :=
  if data.length < 7 then (0, 0, none)
  else ((unbe (slice data 0 1)), unbe (slice data 1 3), some (unbe (slice data 3 7)))

/-- `ContentHeader._get_flags` (repaired, D3): each word is read at its own offset -/
def getFlags : Bytes → Nat → Int → Nat → R (Nat × Int)
  | b0 :: b1 :: rest, consumed, flags, idx =>
    let p := unbeS [b0, b1]                                  -- decode.short_int: signed
    let flags := pyOr flags (pyShl p (idx * 16))
    if pyAndMask p 1 == 0 then .ok (consumed + 2, flags)
    else getFlags rest (consumed + 2) flags (idx + 1)
  | _, _, _, _ => .error .structError

/-- the exception classes the two `except` clauses of `frame.py` catch
(`struct.error, ValueError, OverflowError`; UnicodeDecodeError is a ValueError) -/
def caught : PyErr → Bool
  | .structError | .valueError | .unicodeDecodeError | .overflowError => true
  | _ => false

def mapCaught {α} (r : R α) : R α :=
  match r with
  | .error e => if caught e then .error .unmarshaling else .error e
  | ok => ok

/-- defaults of `Basic.Properties()` -/
def propDefaults (cat : Cat) : List PyVal := cat.props.map (fun p => Base.litVal p.default)

/-- `ContentHeader.unmarshal(data)` -/
def headerUnmarshal (cat : Cat) (data : Bytes) : R AnyFrame := do
  let hd ← takeExact 12 data                                -- struct.unpack('>HHQ', data[0:12])
  let classId := unbe (slice hd 0 2)
  let weight := unbe (slice hd 2 4)
  let bodySize := unbe (slice hd 4 12)
  let (offset, flags) ← getFlags (data.drop 12) 0 0 0
  let props ← Base.propsUnmarshal flags (data.drop (12 + offset)) (cat.props.zip (propDefaults cat))
  pure (.header (.int classId) (.int weight) (.int bodySize) props)

/-- `_unmarshal_method_frame` (repaired, D4) -/
def methodUnmarshal (cat : Cat) (frameData : Bytes) : R AnyFrame := do
  let idx ← mapCaught (unpackS 4 frameData)                  -- decode.long_int(frame_data[0:4])
  match cat.methods.find? (·.key == idx) with
  | none => .error .unmarshaling                             -- KeyError
  | some spec => do
    let vals ← mapCaught (Base.frameUnmarshal spec (frameData.drop 4))
    pure (.method spec vals)

/-- `frame.unmarshal(data_in)`: `(bytes consumed, channel, frame)` -/
def unmarshal (cat : Cat) (dataIn : Bytes) : R (Nat × Nat × AnyFrame) :=
  if dataIn.take 4 = amqp then
    -- ProtocolHeader.unmarshal: struct.unpack('BBB', data[5:8])
    if dataIn.length < 8 then .error .unmarshaling
    else
      let v := slice dataIn 5 8
      .ok (8, 0, .protocolHeader (.int (unbe (slice v 0 1))) (.int (unbe (slice v 1 2)))
        (.int (unbe (slice v 2 3))))
  else
    let (frameType, channel, size?) := frameParts dataIn
    match size? with
    | none => .error .unmarshaling                           -- 'No frame size'
    | some frameSize =>
      if frameType = 8 ∧ frameSize = 0 then
        if dataIn.length < 8 then .error .unmarshaling       -- repaired (D1)
        else if (dataIn.drop 7).head? ≠ some frameEnd then .error .unmarshaling
        else .ok (8, channel, .heartbeat)
      else if frameSize = 0 ∧ frameType ≠ 3 then .error .unmarshaling   -- repaired (D12): an empty body frame is a frame
      else
        let byteCount := 7 + frameSize + 1
        if byteCount > dataIn.length then .error .unmarshaling
        else if (dataIn.drop (byteCount - 1)).head? ≠ some frameEnd then .error .unmarshaling
        else
          let frameData := slice dataIn 7 (byteCount - 1)
          if frameType = 1 then do
            let f ← methodUnmarshal cat frameData
            pure (byteCount, channel, f)
          else if frameType = 2 then do
            let f ← mapCaught (headerUnmarshal cat frameData)
            pure (byteCount, channel, f)
          else if frameType = 3 then .ok (byteCount, channel, .body (.bytes frameData))
          else .error .unmarshaling

end Frame
end Pamqp
