/-!
# Pamqp.Model.Basic — bytes, exceptions, big-endian packing (`struct`), Python values

Import-free (so that the line-protocol driver links as a `lean_exe`).
Every definition mirrors a CPython primitive that pamqp uses; these are *trusted* models
(DESIGN.md section 9 item 5), exercised by the `cpython.*` and `enc.prim.*` lanes.
-/
namespace Pamqp

abbrev Bytes := List UInt8

/-- The closed set of exception classes the model distinguishes.
`outOfFuel` is not a Python exception: it is the third outcome of the fuel-driven decoder,
proved unreachable (C08). `otherError` stands for any class outside this list
(e.g. `decimal.InvalidOperation`). -/
inductive PyErr where
  | typeError | valueError | unicodeDecodeError | unicodeEncodeError | structError
  | overflowError | keyError | unmarshaling | otherError | outOfFuel
  deriving DecidableEq, Repr, Inhabited

abbrev R := Except PyErr

/-- big-endian, `k` bytes, of `n mod 256^k` -/
def beN : Nat → Nat → Bytes
  | 0, _ => []
  | k+1, n => beN k (n / 256) ++ [UInt8.ofNat (n % 256)]

/-- big-endian unsigned reading -/
def unbe (bs : Bytes) : Nat := bs.foldl (fun acc b => acc * 256 + b.toNat) 0

/-- big-endian two's-complement reading of all of `bs` -/
def unbeS (bs : Bytes) : Int :=
  let n := unbe bs
  if 2 * n ≥ 256 ^ bs.length then (n : Int) - (256 ^ bs.length : Nat) else (n : Int)

/-- `struct.pack` of one integer field of `k` bytes with inclusive range `[lo, hi]`:
outside the range CPython raises `struct.error`; inside, the two's-complement big-endian bytes. -/
def packInt (k : Nat) (lo hi : Int) (v : Int) : R Bytes :=
  if lo ≤ v ∧ v ≤ hi then .ok (beN k (v % (256 ^ k : Nat)).toNat) else .error .structError

def packU8 := packInt 1 0 255
def packI8 := packInt 1 (-128) 127
def packU16 := packInt 2 0 65535
def packI16 := packInt 2 (-32768) 32767
def packU32 := packInt 4 0 4294967295
def packI32 := packInt 4 (-2147483648) 2147483647
def packU64 := packInt 8 0 18446744073709551615
def packI64 := packInt 8 (-9223372036854775808) 9223372036854775807

/-- `Struct.unpack(value[0:k])`: needs exactly `k` bytes in the slice, i.e. at least `k` in `value` -/
def takeExact (k : Nat) (bs : Bytes) : R Bytes :=
  if bs.length < k then .error .structError else .ok (bs.take k)

def unpackU (k : Nat) (bs : Bytes) : R Nat := do
  let s ← takeExact k bs
  pure (unbe s)

def unpackS (k : Nat) (bs : Bytes) : R Int := do
  let s ← takeExact k bs
  pure (unbeS s)

/-- Python slice `value[a:b]` (permissive) -/
def slice (bs : Bytes) (a b : Nat) : Bytes := (bs.drop a).take (b - a)

/-! ## Python ints with bitwise operators (infinite two's complement) -/

/-- `x & m` for a non-negative mask `m` -/
def pyAndMask (x : Int) (m : Nat) : Nat :=
  match x with
  | .ofNat a => a &&& m
  | .negSucc a => m - (m &&& a)

/-- `x | y` on Python ints -/
def pyOr (x y : Int) : Int :=
  match x, y with
  | .ofNat a, .ofNat b => .ofNat (a ||| b)
  | .ofNat a, .negSucc b => .negSucc (b - (b &&& a))
  | .negSucc a, .ofNat b => .negSucc (a - (a &&& b))
  | .negSucc a, .negSucc b => .negSucc (a &&& b)

/-- `x << k` on Python ints -/
def pyShl (x : Int) (k : Nat) : Int := x * (2 ^ k : Nat)

/-! ## Python values -/

abbrev Str := List Nat   -- code points

/-- Python values as far as pamqp can tell them apart. `other` is any object of a type pamqp
has no case for (tuple, set, bytes-like exotics, user classes). -/
inductive PyVal where
  | none
  | bool (b : Bool)
  | int (i : Int)
  | float (bits : Nat)                              -- IEEE binary64 bit pattern
  | decimal (neg : Bool) (coeff : Nat) (exp : Int)   -- finite `Decimal.as_tuple()`
  | decimalSpecial (isNan : Bool)                    -- NaN / Infinity
  | str (cps : Str)
  | bytes (bs : Bytes)
  | bytearray (bs : Bytes)
  | datetime (micros : Int) (tz : Option Int)        -- wall-clock fields as microseconds since the
                                                     -- epoch read as UTC; utc offset in seconds
  | structTime (secs : Int)                          -- `calendar.timegm` of the value
  | list (vs : List PyVal)
  | dict (kvs : List (Str × PyVal))                  -- insertion order; keys distinct (KeysDistinct)
  | other
  deriving Repr, Inhabited

/-- isinstance(value, int) incl. bool -/
def PyVal.asInt? : PyVal → Option Int
  | .int i => some i
  | .bool b => some (if b then 1 else 0)
  | _ => Option.none

/-- Python's `<=` on `str`: lexicographic on code points -/
def strLe : Str → Str → Bool
  | [], _ => true
  | _ :: _, [] => false
  | a :: as, b :: bs => if a < b then true else if b < a then false else strLe as bs

end Pamqp
