import Pamqp.Model.Types
import Pamqp.Model.Utf8
import Pamqp.Model.Float
/-!
# Pamqp.Model.Encode — `pamqp/encode.py`, function by function (repaired tree, D5–D9)
`legacy` is the module global `DEPRECATED_RABBITMQ_SUPPORT`.
-/
namespace Pamqp
namespace Encode

/-- `encode.bit(value, byte, position)`: `value not in (0, 1)` raises TypeError; otherwise
`byte | (value << position)`. Non-int values equal to 0/1 (`1.0`, `Decimal(1)`) pass the
membership test and then fail `<<` with TypeError as well. -/
def bit (value : PyVal) (byte position : Nat) : R Nat :=
  match value.asInt? with
  | some 0 => .ok byte
  | some 1 => .ok (byte ||| (1 <<< position))
  | _ => .error .typeError

def boolean : PyVal → R Bytes
  | .bool b => .ok [if b then 1 else 0]
  | _ => .error .typeError

def byteArray : PyVal → R Bytes
  | .bytearray bs => do
    let l ← packU32 bs.length
    pure (l ++ bs)
  | _ => .error .typeError

/-- `int(Decimal)` of a finite decimal with exponent ≥ 0, capped: any result ≥ 10^11 is outside
every struct range used, so the power is not computed for large exponents. -/
def decimalInt (neg : Bool) (coeff : Nat) (exp : Nat) : Int :=
  let mag : Nat := if coeff = 0 then 0 else if exp > 10 then coeff * 10 ^ 11 else coeff * 10 ^ exp
  if neg then -(mag : Int) else (mag : Int)

def decimal : PyVal → R Bytes
  | .decimal neg coeff exp =>
    if exp < 0 then
      -- struct.pack('>Bi', -exponent, int(value.scaleb(-exponent)))
      if exp < -2000054 then .error .otherError      -- scaleb: InvalidOperation
      else do
        let a ← packU8 (-exp)
        let b ← packI32 (if neg then -(coeff : Int) else (coeff : Int))
        pure (a ++ b)
    else do
      let b ← packI32 (decimalInt neg coeff exp.toNat)
      pure (0 :: b)
  | .decimalSpecial isNan => .error (if isNan then .valueError else .overflowError)
  | _ => .error .typeError

def double : PyVal → R Bytes
  | .float bits => .ok (beN 8 bits)
  | _ => .error .typeError

def floatingPoint : PyVal → R Bytes
  | .float bits =>
    match f32Narrow bits with
    | some b => .ok (beN 4 b)
    | none => .error .overflowError
  | _ => .error .typeError

/-- the `isinstance(value, int)` + `not (lo <= value <= hi)` -> TypeError shape -/
def guardedInt (lo hi : Int) (pack : Int → R Bytes) (v : PyVal) : R Bytes :=
  match v.asInt? with
  | some i => if lo ≤ i ∧ i ≤ hi then pack i else .error .typeError
  | none => .error .typeError

def longInt := guardedInt (-2147483648) 2147483647 packI32
def longUint := guardedInt 0 4294967295 packU32
def longLongInt := guardedInt (-9223372036854775808) 9223372036854775807 packI64
def shortInt := guardedInt (-32768) 32767 packI16
def shortUint := guardedInt 0 65535 packU16

def octet (v : PyVal) : R Bytes :=
  match v.asInt? with
  | some i => packU8 i
  | none => .error .typeError

/-- `_string(encoder, value)` with the length prefix of `k` bytes -/
def string (k : Nat) : PyVal → R Bytes
  | .str s =>
    match utf8Encode s with
    | none => .error .unicodeEncodeError
    | some bs => do
      let l ← packInt k 0 ((256 ^ k : Nat) - 1) bs.length
      pure (l ++ bs)
  | _ => .error .typeError

def shortString := string 1
def longString := string 4

def timestamp : PyVal → R Bytes
  | .datetime micros tz =>
    let inst : Int := match tz with
      | none => micros
      | some off => micros - off * 1000000
    packU64 (Int.tdiv inst 1000000)     -- int(value.timestamp()) truncates toward zero
  | .structTime secs => packU64 secs
  | _ => .error .typeError

/-- first-fit chain of `table_integer` / `_deprecated_table_integer` -/
def tableInteger (legacy : Bool) (v : Int) : R Bytes :=
  if legacy then
    if -128 ≤ v ∧ v ≤ 127 then (packI8 v).map (98 :: ·)
    else if -32768 ≤ v ∧ v ≤ 32767 then (shortInt (.int v)).map (115 :: ·)
    else if -2147483648 ≤ v ∧ v ≤ 2147483647 then (longInt (.int v)).map (73 :: ·)
    else if -9223372036854775808 ≤ v ∧ v ≤ 9223372036854775807 then (longLongInt (.int v)).map (108 :: ·)
    else .error .typeError
  else
    if -128 ≤ v ∧ v ≤ 127 then (packI8 v).map (98 :: ·)
    else if -32768 ≤ v ∧ v ≤ 32767 then (shortInt (.int v)).map (115 :: ·)
    else if 0 ≤ v ∧ v ≤ 65535 then (shortUint (.int v)).map (117 :: ·)
    else if -2147483648 ≤ v ∧ v ≤ 2147483647 then (longInt (.int v)).map (73 :: ·)
    else if 0 ≤ v ∧ v ≤ 4294967295 then (longUint (.int v)).map (105 :: ·)
    else if -9223372036854775808 ≤ v ∧ v ≤ 9223372036854775807 then (longLongInt (.int v)).map (108 :: ·)
    else .error .typeError

/-- one table entry after sorting: truncate the key to 128 characters, `short_string(key)`,
then the (already computed) encoding of the value -/
def entryBytes (e : Str × R Bytes) : R Bytes := do
  let k ← shortString (.str (e.1.take 128))
  let v ← e.2
  pure (k ++ v)

def entryLe (a b : Str × R Bytes) : Bool := strLe a.1 b.1

/-- `for key, value in sorted(value.items())`: first error in sorted order -/
def joinEntries : List (Str × R Bytes) → R Bytes
  | [] => .ok []
  | e :: es => do
    let a ← entryBytes e
    let b ← joinEntries es
    pure (a ++ b)

/-- length prefix + body -/
def withLen (body : Bytes) : R Bytes := do
  let l ← packU32 body.length
  pure (l ++ body)

mutual
/-- `encode_table_value` -/
def tableValue (legacy : Bool) : PyVal → R Bytes
  | .bool b => .ok [116, if b then 1 else 0]
  | .int i => tableInteger legacy i
  | .decimal n c e => (decimal (.decimal n c e)).map (68 :: ·)
  | .decimalSpecial k => (decimal (.decimalSpecial k)).map (68 :: ·)
  | .float b => (floatingPoint (.float b)).map (102 :: ·)
  | .str s => (longString (.str s)).map (83 :: ·)
  | .datetime m tz => (timestamp (.datetime m tz)).map (84 :: ·)
  | .structTime s => (timestamp (.structTime s)).map (84 :: ·)
  | .dict kvs => do
    let body ← joinEntries (List.mergeSort (entries legacy kvs) entryLe)
    let t ← withLen body
    pure (70 :: t)
  | .list vs => do
    let body ← items legacy vs
    let t ← withLen body
    pure (65 :: t)
  | .bytearray bs => (byteArray (.bytearray bs)).map (120 :: ·)
  | .none => .ok [86]
  | .bytes _ => .error .typeError
  | .other => .error .typeError
/-- the loop of `field_array` -/
def items (legacy : Bool) : List PyVal → R Bytes
  | [] => .ok []
  | v :: vs => do
    let a ← tableValue legacy v
    let b ← items legacy vs
    pure (a ++ b)
/-- the values of a dict encoded in insertion order (sorting happens afterwards) -/
def entries (legacy : Bool) : List (Str × PyVal) → List (Str × R Bytes)
  | [] => []
  | (k, v) :: es => (k, tableValue legacy v) :: entries legacy es
end

/-- `encode.field_array` -/
def fieldArray (legacy : Bool) : PyVal → R Bytes
  | .list vs => do
    let body ← items legacy vs
    withLen body
  | _ => .error .typeError

/-- `encode.field_table` (repaired: only `None` is the empty table) -/
def fieldTable (legacy : Bool) : PyVal → R Bytes
  | .none => .ok [0, 0, 0, 0]
  | .dict kvs => do
    let body ← joinEntries (List.mergeSort (entries legacy kvs) entryLe)
    withLen body
  | _ => .error .typeError

/-- `encode.by_type` for the type names that occur in the catalogue (`bit` is handled by the
caller); an unknown name is a KeyError turned into TypeError -/
def byType (legacy : Bool) (v : PyVal) : WireTy → R Bytes
  | .octet => octet v
  | .short => shortUint v
  | .long => longUint v
  | .longlong => longLongInt v
  | .shortstr => shortString v
  | .longstr => longString v
  | .table => fieldTable legacy v
  | .timestamp => timestamp v
  | .bit => .error .typeError
  | .unknown => .error .typeError

end Encode
end Pamqp
