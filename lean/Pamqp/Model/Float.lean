import Pamqp.Model.Basic
/-!
# IEEE binary64 -> binary32 narrowing (round-half-even, as `struct.pack('>f', x)`) and the exact
widening (`struct.unpack('>f')`), on bit patterns in pure `Nat` arithmetic.
Trusted model of CPython / C behaviour (lane `cpython.f32`). -/
namespace Pamqp

/-- `none` = OverflowError ("float too large to pack with f format") -/
def f32Narrow (bits64 : Nat) : Option Nat :=
  let s := bits64 / 2 ^ 63 % 2
  let e := bits64 / 2 ^ 52 % 2048
  let f := bits64 % 2 ^ 52
  if e = 0x7ff then
    if f = 0 then some (s * 2 ^ 31 + 0x7f800000)
    else some (s * 2 ^ 31 + 0x7f800000 + (0x400000 ||| (f / 2 ^ 29)))
  else if e = 0 ∧ f = 0 then some (s * 2 ^ 31)
  else
    let m := if e = 0 then f else 2 ^ 52 + f
    -- e32 = e - 896 (may be negative): normal iff e ≥ 897
    let shift := if e ≥ 897 then 29 else 29 + (897 - e)
    let q0 := if shift > 60 then 0 else m / 2 ^ shift
    let q :=
      if shift > 60 then 0
      else
        let r := m % 2 ^ shift
        let half := 2 ^ (shift - 1)
        if r > half ∨ (r = half ∧ q0 % 2 = 1) then q0 + 1 else q0
    let base := if e ≥ 897 then e - 897 else 0
    let res := base * 2 ^ 23 + q
    if res ≥ 0x7f800000 then none else some (s * 2 ^ 31 + res)

def f32Widen (b : Nat) : Nat :=
  let s := b / 2 ^ 31 % 2
  let e := b / 2 ^ 23 % 256
  let f := b % 2 ^ 23
  if e = 0xff then
    if f = 0 then s * 2 ^ 63 + 0x7ff * 2 ^ 52
    else s * 2 ^ 63 + 0x7ff * 2 ^ 52 + (2 ^ 51 ||| (f * 2 ^ 29))
  else if e = 0 then
    if f = 0 then s * 2 ^ 63
    else
      let k := Nat.log2 f
      s * 2 ^ 63 + (1023 - 149 + k) * 2 ^ 52 + (f * 2 ^ (52 - k)) % 2 ^ 52
  else s * 2 ^ 63 + (e + 896) * 2 ^ 52 + f * 2 ^ 29

end Pamqp
