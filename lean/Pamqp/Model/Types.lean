import Pamqp.Model.Basic
/-!
# Data types of the catalogue (filled in by the translator, `Pamqp/Generated/*`)
-/
namespace Pamqp

/-- AMQP wire type names that occur as `_attr` values in `commands.py` (and as keys of the
`METHODS` dispatch tables). `unknown` is any other string. -/
inductive WireTy where
  | bit | octet | short | long | longlong | shortstr | longstr | table | timestamp
  | unknown
  deriving DecidableEq, Repr, Inhabited

/-- One `validate()` statement, in the five shapes `tools/codegen.py` emits. -/
inductive Rule where
  | mustEqInt (attr : String) (c : Int)          -- `X is not None and X != c`  (int constant)
  | mustEqStr (attr : String) (c : String)       -- `X is not None and X != 'c'`
  | mustBeFalse (attr : String)                  -- `X is not None and X is not False`
  | maxLen (attr : String) (n : Nat)             -- `X is not None and len(X) > n`
  | regex (attr : String) (domain : String)      -- `X is not None and not DOMAIN_REGEX[d].fullmatch(X)`
  | mustEqStrBare (attr : String) (c : String)   -- `X != 'c'` (Basic.Properties.cluster_id)
  | oneOf (attr : String) (cs : List Int)        -- `X is not None and X not in [..]`
  | unrecognised (src : String)
  deriving DecidableEq, Repr, Inhabited

/-- How a constructor stores a parameter: `self.x = x` or `self.x = x or <literal>` -/
inductive Norm where
  | plain | orEmptyDict | orEmptyStr | orFalse | orOther
  deriving DecidableEq, Repr, Inhabited

/-- Constructor default literal -/
inductive Lit where
  | none | bool (b : Bool) | int (i : Int) | str (s : String) | emptyDict | other (src : String)
  deriving DecidableEq, Repr, Inhabited

structure ArgSpec where
  name : String
  ty : WireTy
  annotation : String
  default : Lit
  norm : Norm
  docDefault : Option String := none
  deriving DecidableEq, Repr, Inhabited

structure MethodSpec where
  key : Int                 -- INDEX_MAPPING key
  index : Int               -- the class's own `index`
  classId : Nat             -- outer class `frame_id`
  methodId : Nat            -- `frame_id`
  className : String        -- outer Python class (`Basic`)
  pyName : String           -- inner Python class (`GetOk`)
  name : String             -- `name` attribute (`Basic.GetOk`)
  synchronous : Bool
  validResponses : List String
  args : List ArgSpec       -- in `__slots__` order
  rules : List Rule
  ctorValidates : Bool
  deriving DecidableEq, Repr, Inhabited

def MethodSpec.types (m : MethodSpec) : List WireTy := m.args.map (·.ty)
def MethodSpec.slots (m : MethodSpec) : List String := m.args.map (·.name)

structure PropSpec where
  name : String
  ty : WireTy
  annotation : String
  flag : Nat
  default : Lit
  deriving DecidableEq, Repr, Inhabited

end Pamqp
