import Pamqp.Model.Types
import Pamqp.Model.Utf8
import Pamqp.Model.Float
/-!
# Pamqp.Model.Decode — `pamqp/decode.py`, function by function (repaired tree, D2 D5 D10 D11)

Every decoder returns `(bytes consumed, value)` like the Python functions. Slices are Python's
permissive slices. The recursive part (`embedded_value`, `field_array`, `field_table`) runs on
an explicit fuel (one unit per call or loop iteration along any path); `outOfFuel` is proved
unreachable from `fuelFor` (C08).
-/
namespace Pamqp
namespace Decode

/-- `decode.bit(value, position)` -/
def bit (value : Bytes) (position : Nat) : R (Nat × PyVal) :=
  match value with
  | [] => .error .structError            -- Struct.byte.unpack_from(value)
  | b :: _ => .ok (0, .bool (b.toNat &&& (1 <<< position) != 0))

def boolean (value : Bytes) : R (Nat × PyVal) :=
  match value with
  | [] => .error .structError
  | b :: _ => .ok (1, .bool (b.toNat != 0))

def byteArray (value : Bytes) : R (Nat × PyVal) := do
  let length ← unpackU 4 value
  pure (length + 4, .bytearray (slice value 4 (length + 4)))

/-- repaired (D5): the unscaled value is read signed -/
def decimal (value : Bytes) : R (Nat × PyVal) := do
  let decimals ← unpackU 1 value
  let raw ← unpackS 4 (value.drop 1)
  pure (5, .decimal (raw < 0) raw.natAbs (-(decimals : Int)))

def double (value : Bytes) : R (Nat × PyVal) := do
  let s ← takeExact 8 value               -- unpack_from(value): at least 8 bytes
  pure (8, .float (unbe s))

def floatingPoint (value : Bytes) : R (Nat × PyVal) := do
  let s ← takeExact 4 value
  pure (4, .float (f32Widen (unbe s)))

def longInt (value : Bytes) : R (Nat × PyVal) := do
  let v ← unpackS 4 value
  pure (4, .int v)

def longUint (value : Bytes) : R (Nat × PyVal) := do
  let v ← unpackU 4 value
  pure (4, .int v)

def longLongInt (value : Bytes) : R (Nat × PyVal) := do
  let v ← unpackS 8 value
  pure (8, .int v)

/-- `value[4:length+4].decode('utf-8')`, falling back to the raw bytes -/
def longStr (value : Bytes) : R (Nat × PyVal) := do
  let length ← unpackU 4 value
  let raw := slice value 4 (length + 4)
  match utf8Decode raw with
  | some s => pure (length + 4, .str s)
  | none => pure (length + 4, .bytes raw)

def octet (value : Bytes) : R (Nat × PyVal) := do
  let v ← unpackU 1 value
  pure (1, .int v)

def shortInt (value : Bytes) : R (Nat × PyVal) := do
  let v ← unpackS 2 value
  pure (2, .int v)

def shortUint (value : Bytes) : R (Nat × PyVal) := do
  let v ← unpackU 2 value
  pure (2, .int v)

def shortShortInt (value : Bytes) : R (Nat × PyVal) := do
  let v ← unpackS 1 value
  pure (1, .int v)

def shortShortUint (value : Bytes) : R (Nat × PyVal) := do
  let v ← unpackU 1 value
  pure (1, .int v)

def shortStr (value : Bytes) : R (Nat × PyVal) := do
  let length ← unpackU 1 value
  match utf8Decode (slice value 1 (length + 1)) with
  | some s => pure (length + 1, .str s)
  | none => .error .unicodeDecodeError

/-- last instant `datetime` can represent, in microseconds since the epoch -/
def maxMicros : Int := 253402300799999999

/-- repaired (D10): integer arithmetic for the millisecond rule -/
def timestamp (value : Bytes) : R (Nat × PyVal) := do
  let ts ← unpackU 8 value
  if ts > 0xFFFFFFFF then
    if (ts : Int) * 1000 > maxMicros then .error .valueError
    else pure (8, .datetime ((ts : Int) * 1000) (some 0))
  else pure (8, .datetime ((ts : Int) * 1000000) (some 0))

def void (_ : Bytes) : R (Nat × PyVal) := .ok (0, .none)

/-- dict insertion `data[key] = result`: replace in place, else append -/
def dictSet (d : List (Str × PyVal)) (k : Str) (v : PyVal) : List (Str × PyVal) :=
  if d.any (·.1 == k) then d.map (fun e => if e.1 == k then (k, v) else e) else d ++ [(k, v)]

/-- the non-recursive entries of `TABLE_MAPPING` -/
def tablePrim (tag : UInt8) : Option (Bytes → R (Nat × PyVal)) :=
  if tag = 116 then some boolean              -- t
  else if tag = 98 then some shortShortInt    -- b
  else if tag = 66 then some shortShortUint   -- B
  else if tag = 115 then some shortInt        -- s
  else if tag = 117 then some shortUint       -- u
  else if tag = 73 then some longInt          -- I
  else if tag = 105 then some longUint        -- i
  else if tag = 108 then some longLongInt     -- l
  else if tag = 76 then some longLongInt      -- L
  else if tag = 102 then some floatingPoint   -- f
  else if tag = 100 then some double          -- d
  else if tag = 68 then some decimal          -- D
  else if tag = 83 then some longStr          -- S
  else if tag = 84 then some timestamp        -- T
  else if tag = 86 then some void             -- V
  else if tag = 0 then some void              -- \x00
  else if tag = 120 then some byteArray       -- x
  else none

mutual
/-- `decode.embedded_value` -/
def embedded : Nat → Bytes → R (Nat × PyVal)
  | 0, _ => .error .outOfFuel
  | _+1, [] => .ok (0, .none)
  | f+1, t :: r =>
    if t = 65 then do                                   -- A
      let (c, v) ← fieldArray f r
      pure (c + 1, v)
    else if t = 70 then do                              -- F
      let (c, v) ← fieldTable f r
      pure (c + 1, v)
    else
      match tablePrim t with
      | some dec => do
        let (c, v) ← dec r
        pure (c + 1, v)
      | none => .error .valueError                      -- KeyError -> ValueError
/-- `decode.field_array` -/
def fieldArray : Nat → Bytes → R (Nat × PyVal)
  | 0, _ => .error .outOfFuel
  | f+1, value => do
    let length ← unpackU 4 value
    arrLoop f value (4 + length) 4 []
/-- `while offset < field_array_end` -/
def arrLoop : Nat → Bytes → Nat → Nat → List PyVal → R (Nat × PyVal)
  | 0, _, _, _, _ => .error .outOfFuel
  | f+1, value, fin, offset, acc =>
    if offset < fin then do
      let (c, v) ← embedded f (value.drop offset)
      if c = 0 then .error .valueError                  -- repaired (D2)
      else arrLoop f value fin (offset + c) (acc ++ [v])
    else .ok (offset, .list acc)
/-- `decode.field_table` -/
def fieldTable : Nat → Bytes → R (Nat × PyVal)
  | 0, _ => .error .outOfFuel
  | f+1, value => do
    let length ← unpackU 4 value
    tblLoop f value (4 + length) 4 []
/-- `while offset < field_table_end` -/
def tblLoop : Nat → Bytes → Nat → Nat → List (Str × PyVal) → R (Nat × PyVal)
  | 0, _, _, _, _ => .error .outOfFuel
  | f+1, value, fin, offset, acc =>
    if offset < fin then
      match value.drop offset with
      | [] => .error .structError                       -- unpack_from(value, offset) past the end
      | kl :: _ =>
        match utf8Decode (slice value (offset + 1) (offset + 1 + kl.toNat)) with
        | none => .error .unicodeDecodeError
        | some key => do
          let offset' := offset + 1 + kl.toNat
          let (c, v) ← embedded f (value.drop offset')
          tblLoop f value fin (offset' + c) (dictSet acc key v)
    else .ok (offset, .dict acc)
end

/-- the fuel the top-level entry points supply -/
def fuelFor (bs : Bytes) : Nat := 2 * bs.length + 4

def embeddedValue (bs : Bytes) : R (Nat × PyVal) := embedded (fuelFor bs) bs
def fieldArrayTop (bs : Bytes) : R (Nat × PyVal) := fieldArray (fuelFor bs) bs
def fieldTableTop (bs : Bytes) : R (Nat × PyVal) := fieldTable (fuelFor bs) bs

/-- `decode.by_type(value, data_type, offset)` for the catalogue's type names -/
def byType (value : Bytes) (ty : WireTy) (offset : Nat) : R (Nat × PyVal) :=
  match ty with
  | .bit => bit value offset
  | .octet => octet value
  | .short => shortUint value
  | .long => longUint value
  | .longlong => longLongInt value
  | .shortstr => shortStr value
  | .longstr => longStr value
  | .table => fieldTableTop value
  | .timestamp => timestamp value
  | .unknown => .error .valueError

end Decode
end Pamqp
