import Pamqp.Model.Decode
/-!
# Pamqp.Model.DecodeCost — the recursive decoder with a step counter (C08)
A copy of `Decode.embedded` / `fieldArray` / `arrLoop` / `fieldTable` / `tblLoop` that additionally
returns the number of STEPS taken: one per decoder call and one per loop iteration (so one step
stands for a bounded amount of Python work: a dispatch, a fixed-size unpack, one slice). It is proved
to compute the same result as the model proper (`Props/C08Cost.lean`), and its step count to be
linear in the input length - the fuel of the model only bounds the DEPTH of the call tree.
-/
namespace Pamqp
namespace DecodeCost

abbrev RC := R (Nat × PyVal) × Nat      -- (result, steps)

def bindC (x : RC) (f : Nat × PyVal → RC) : RC :=
  match x with
  | (.ok a, n) => let (r, m) := f a; (r, n + m)
  | (.error e, n) => (.error e, n)

mutual
def embedded : Nat → Bytes → RC
  | 0, _ => (.error .outOfFuel, 1)
  | _+1, [] => (.ok (0, .none), 1)
  | f+1, t :: r =>
    if t = 65 then
      bindC (fieldArray f r) (fun (c, v) => (.ok (c + 1, v), 1))
    else if t = 70 then
      bindC (fieldTable f r) (fun (c, v) => (.ok (c + 1, v), 1))
    else
      match Decode.tablePrim t with
      | some dec => (match dec r with
        | .ok (c, v) => (.ok (c + 1, v), 1)
        | .error e => (.error e, 1))
      | none => (.error .valueError, 1)
def fieldArray : Nat → Bytes → RC
  | 0, _ => (.error .outOfFuel, 1)
  | f+1, value =>
    match unpackU 4 value with
    | .ok length => bindC (arrLoop f value (4 + length) 4 []) (fun x => (.ok x, 1))
    | .error e => (.error e, 1)
def arrLoop : Nat → Bytes → Nat → Nat → List PyVal → RC
  | 0, _, _, _, _ => (.error .outOfFuel, 1)
  | f+1, value, fin, offset, acc =>
    if offset < fin then
      bindC (embedded f (value.drop offset)) (fun (c, v) =>
        if c = 0 then (.error .valueError, 1)
        else bindC (arrLoop f value fin (offset + c) (acc ++ [v])) (fun x => (.ok x, 1)))
    else (.ok (offset, .list acc), 1)
def fieldTable : Nat → Bytes → RC
  | 0, _ => (.error .outOfFuel, 1)
  | f+1, value =>
    match unpackU 4 value with
    | .ok length => bindC (tblLoop f value (4 + length) 4 []) (fun x => (.ok x, 1))
    | .error e => (.error e, 1)
def tblLoop : Nat → Bytes → Nat → Nat → List (Str × PyVal) → RC
  | 0, _, _, _, _ => (.error .outOfFuel, 1)
  | f+1, value, fin, offset, acc =>
    if offset < fin then
      match value.drop offset with
      | [] => (.error .structError, 1)
      | kl :: _ =>
        match utf8Decode (slice value (offset + 1) (offset + 1 + kl.toNat)) with
        | none => (.error .unicodeDecodeError, 1)
        | some key =>
          bindC (embedded f (value.drop (offset + 1 + kl.toNat))) (fun (c, v) =>
            bindC (tblLoop f value fin (offset + 1 + kl.toNat + c) (Decode.dictSet acc key v)) (fun x => (.ok x, 1)))
    else (.ok (offset, .dict acc), 1)
end

end DecodeCost
end Pamqp
