import Pamqp.Model.Encode
import Pamqp.Model.Decode
/-!
# Pamqp.Model.Base — `pamqp/base.py`: `Frame.marshal/unmarshal` argument loops,
`BasicProperties.marshal/unmarshal`, the mapping protocol of `_AMQData`, and the interpreter of
the generated `validate()` rules.
-/
namespace Pamqp
namespace Base

/-! ## validate() -/

/-- the 71 characters of `^[a-zA-Z0-9-_.:@#,/ ]*$` -/
def allowedChar (c : Nat) : Bool :=
  (97 ≤ c && c ≤ 122) || (65 ≤ c && c ≤ 90) || (48 ≤ c && c ≤ 57) ||
  c == 45 || c == 95 || c == 46 || c == 58 || c == 64 || c == 35 || c == 44 || c == 47 || c == 32

/-- `len(x)`: `none` = TypeError (object has no len) -/
def pyLen : PyVal → Option Nat
  | .str s => some s.length
  | .bytes b => some b.length
  | .bytearray b => some b.length
  | .list l => some l.length
  | .dict d => some d.length
  | _ => none

/-- Python `==` between a value and an int constant -/
def eqInt (v : PyVal) (c : Int) : Bool :=
  match v with
  | .int i => i == c
  | .bool b => (if b then 1 else 0) == c
  | .float bits =>      -- only the constants 0, 1, 2 occur: compare with their binary64 patterns
    (c == 0 && (bits == 0 || bits == 0x8000000000000000)) ||
    (c == 1 && bits == 0x3FF0000000000000) || (c == 2 && bits == 0x4000000000000000)
  | .decimal neg coeff exp =>
    if c == 0 then coeff == 0
    else if exp ≥ 0 then (!neg) && (coeff : Int) * 10 ^ exp.toNat == c
    else (!neg) && (coeff : Int) == c * 10 ^ (-exp).toNat
  | _ => false

def strOf (s : String) : Str := s.toList.map (·.toNat)

/-- Python `==` between a value and a str constant -/
def eqStr (v : PyVal) (c : String) : Bool :=
  match v with
  | .str s => s == strOf c
  | _ => false

/-- outcome of one rule on one attribute value: `ok`, or the exception raised -/
def checkRule (lookup : String → Option PyVal) : Rule → R Unit
  | .mustEqInt a c =>
    match lookup a with
    | some .none => .ok ()
    | some v => if eqInt v c then .ok () else .error .valueError
    | none => .error .otherError        -- AttributeError: not reachable for slots of the class
  | .mustEqStr a c =>
    match lookup a with
    | some .none => .ok ()
    | some v => if eqStr v c then .ok () else .error .valueError
    | none => .error .otherError
  | .mustEqStrBare a c =>
    match lookup a with
    | some v => if eqStr v c then .ok () else .error .valueError
    | none => .error .otherError
  | .mustBeFalse a =>
    match lookup a with
    | some .none => .ok ()
    | some (.bool false) => .ok ()
    | some _ => .error .valueError
    | none => .error .otherError
  | .maxLen a n =>
    match lookup a with
    | some .none => .ok ()
    | some v => match pyLen v with
      | some l => if l > n then .error .valueError else .ok ()
      | none => .error .typeError
    | none => .error .otherError
  | .regex a _ =>
    match lookup a with
    | some .none => .ok ()
    | some (.str s) => if s.all allowedChar then .ok () else .error .valueError
    | some _ => .error .typeError        -- fullmatch(non-str)
    | none => .error .otherError
  | .oneOf a cs =>
    match lookup a with
    | some .none => .ok ()
    | some v => if cs.any (eqInt v) then .ok () else .error .valueError
    | none => .error .otherError
  | .unrecognised _ => .error .otherError

def lookupAttr (names : List String) (vals : List PyVal) (a : String) : Option PyVal :=
  match names, vals with
  | n :: ns, v :: vs => if n == a then some v else lookupAttr ns vs a
  | _, _ => none

/-- `validate()`: the rules in source order, first failure wins -/
def validate (names : List String) (vals : List PyVal) : List Rule → R Unit
  | [] => .ok ()
  | r :: rs => do
    checkRule (lookupAttr names vals) r
    validate names vals rs

/-! ## Frame.marshal / Frame.unmarshal -/

/-- the loop of `Frame.marshal`; state `(byte, offset, processing_bitset)`; returns the bytes
appended from this point on -/
def marshalLoop (legacy : Bool) (byte offset : Nat) (proc : Bool) :
    List (WireTy × PyVal) → R Bytes
  | [] => if proc then Encode.octet (.int byte) else .ok []
  | (ty, v) :: rest =>
    let start := !proc && ty == .bit
    let byte := if start then 0 else byte
    let offset := if start then 0 else offset
    let proc := if start then true else proc
    if proc then
      if ty != .bit then do
        let o ← Encode.octet (.int byte)
        let e ← Encode.byType legacy v ty
        let t ← marshalLoop legacy byte offset false rest
        pure (o ++ e ++ t)
      else do
        let byte ← Encode.bit v byte offset
        let offset := offset + 1
        if offset == 8 then do
          let o ← Encode.octet (.int byte)
          let t ← marshalLoop legacy byte offset false rest
          pure (o ++ t)
        else marshalLoop legacy byte offset true rest
    else do
      let e ← Encode.byType legacy v ty
      let t ← marshalLoop legacy byte offset false rest
      pure (e ++ t)

/-- `Frame.marshal()`: validate, then the loop -/
def frameMarshal (legacy : Bool) (spec : MethodSpec) (vals : List PyVal) : R Bytes := do
  validate spec.slots vals spec.rules
  marshalLoop legacy 0 0 false (spec.types.zip vals)

/-- the loop of `Frame.unmarshal` -/
def unmarshalLoop (offset : Nat) (proc : Bool) (data : Bytes) : List WireTy → R (List PyVal)
  | [] => .ok []
  | ty :: rest =>
    let skip7 := offset == 7 && proc
    let data1 := if skip7 then data.drop 1 else data
    let offset1 := if skip7 then 0 else offset
    let leave := proc && ty != .bit
    let data2 := if leave then data1.drop 1 else data1
    let offset2 := if leave then 0 else offset1
    let proc2 := if leave then false else proc
    do
      let (consumed, value) ← Decode.byType data2 ty offset2
      if ty == .bit then
        let vs ← unmarshalLoop (offset2 + 1) true data2 rest
        pure (value :: vs)
      else
        let vs ← unmarshalLoop offset2 proc2 (data2.drop consumed) rest
        pure (value :: vs)

def frameUnmarshal (spec : MethodSpec) (data : Bytes) : R (List PyVal) :=
  unmarshalLoop 0 false data spec.types

/-! ## BasicProperties.marshal / unmarshal -/

/-- `property_value is not None and property_value != ''` -/
def isSet : PyVal → Bool
  | .none => false
  | .str [] => false
  | _ => true

/-- first pass of `BasicProperties.marshal`: accumulated flags and encoded parts in slot order -/
def propParts (legacy : Bool) : List (PropSpec × PyVal) → R (Nat × Bytes)
  | [] => .ok (0, [])
  | (p, v) :: rest =>
    if isSet v then do
      let e ← Encode.byType legacy v p.ty
      let (fl, t) ← propParts legacy rest
      pure (fl ||| p.flag, e ++ t)
    else propParts legacy rest

/-- the `while True` flag-word loop; `fuel = flags + 1` suffices (flags shrinks by 2^16) -/
def flagWords : Nat → Nat → R Bytes
  | 0, _ => .error .outOfFuel
  | f+1, flags =>
    let remainder := flags >>> 16
    let partialFlags := flags &&& 0xFFFE
    let partialFlags := if remainder != 0 then partialFlags ||| 1 else partialFlags
    do
      let w ← packU16 partialFlags
      if remainder == 0 then pure w
      else do
        let t ← flagWords f remainder
        pure (w ++ t)

/-- Python evaluates the parts first (so an encode error wins), then the flag words -/
def propsMarshal (legacy : Bool) (specs : List PropSpec) (vals : List PyVal) : R Bytes := do
  let (flags, parts) ← propParts legacy (specs.zip vals)
  let fw ← flagWords (flags + 1) flags
  pure (fw ++ parts)

/-- `BasicProperties.unmarshal(flags, data)` starting from the constructor defaults `cur` -/
def propsUnmarshal (flags : Int) : Bytes → List (PropSpec × PyVal) → R (List PyVal)
  | _, [] => .ok []
  | data, (p, cur) :: rest =>
    if pyAndMask flags p.flag != 0 then do
      let (consumed, value) ← Decode.byType data p.ty 0
      let vs ← propsUnmarshal flags (data.drop consumed) rest
      pure (value :: vs)
    else do
      let vs ← propsUnmarshal flags data rest
      pure (cur :: vs)

/-- constructor default of a property as a value -/
def litVal : Lit → PyVal
  | .none => .none
  | .bool b => .bool b
  | .int i => .int i
  | .str s => .str (strOf s)
  | .emptyDict => .dict []
  | .other _ => .other

/-! ## the mapping protocol of `_AMQData` -/

def iter (names : List String) (vals : List PyVal) : List (String × PyVal) := names.zip vals
def len (names : List String) : Nat := names.length
def contains (names : List String) (item : String) : Bool := names.contains item
def getItem (names : List String) (vals : List PyVal) (item : String) : Option PyVal :=
  lookupAttr names vals item
def amqpType (args : List (String × WireTy)) (attr : String) : Option WireTy :=
  (args.find? (·.1 == attr)).map (·.2)

end Base
end Pamqp
