import Pamqp.Model.Basic
/-!
# Strict UTF-8 on code points, as CPython's `str.encode('utf-8')` / `bytes.decode('utf-8')`
(no surrogates, no overlong forms, nothing above U+10FFFF). Trusted model of a CPython primitive;
lane `cpython.utf8` compares it with CPython on every code point and on malformed inputs.
-/
namespace Pamqp

/-- encode one code point; `none` = UnicodeEncodeError (surrogate) or not a code point -/
def utf8Enc1 (c : Nat) : Option (List Nat) :=
  if c < 0x80 then some [c]
  else if c < 0x800 then some [0xC0 + c / 64, 0x80 + c % 64]
  else if c < 0x10000 then
    if 0xD800 ≤ c ∧ c < 0xE000 then none
    else some [0xE0 + c / 64 / 64, 0x80 + c / 64 % 64, 0x80 + c % 64]
  else if c < 0x110000 then
    some [0xF0 + c / 64 / 64 / 64, 0x80 + c / 64 / 64 % 64, 0x80 + c / 64 % 64, 0x80 + c % 64]
  else none

def utf8EncNat : Str → Option (List Nat)
  | [] => some []
  | c :: cs => match utf8Enc1 c, utf8EncNat cs with
    | some a, some b => some (a ++ b)
    | _, _ => none

/-- `s.encode('utf-8')`; `none` = UnicodeEncodeError -/
def utf8Encode (s : Str) : Option Bytes := (utf8EncNat s).map (·.map UInt8.ofNat)

def isCont (b : Nat) : Bool := 0x80 ≤ b && b < 0xC0

/-- decode one code point from the front -/
def utf8Dec1 : List Nat → Option (Nat × List Nat)
  | [] => none
  | b0 :: r =>
    if b0 < 0x80 then some (b0, r)
    else if b0 < 0xC2 then none
    else if b0 < 0xE0 then
      match r with
      | b1 :: r => if isCont b1 then some ((b0 - 0xC0) * 64 + (b1 - 0x80), r) else none
      | _ => none
    else if b0 < 0xF0 then
      match r with
      | b1 :: b2 :: r =>
        let c := ((b0 - 0xE0) * 64 + (b1 - 0x80)) * 64 + (b2 - 0x80)
        if isCont b1 && isCont b2 && 0x800 ≤ c && !(0xD800 ≤ c && c < 0xE000) then some (c, r) else none
      | _ => none
    else if b0 < 0xF5 then
      match r with
      | b1 :: b2 :: b3 :: r =>
        let c := (((b0 - 0xF0) * 64 + (b1 - 0x80)) * 64 + (b2 - 0x80)) * 64 + (b3 - 0x80)
        if isCont b1 && isCont b2 && isCont b3 && 0x10000 ≤ c && c < 0x110000 then some (c, r) else none
      | _ => none
    else none

/-- fuel-driven loop; `fuel = length + 1` always suffices because each step consumes ≥ 1 byte -/
def utf8DecNat : Nat → List Nat → Option Str
  | _, [] => some []
  | 0, _ :: _ => none
  | f+1, bs => match utf8Dec1 bs with
    | none => none
    | some (c, r) => match utf8DecNat f r with
      | none => none
      | some cs => some (c :: cs)

/-- `bs.decode('utf-8')`; `none` = UnicodeDecodeError -/
def utf8Decode (bs : Bytes) : Option Str := utf8DecNat (bs.length + 1) (bs.map (·.toNat))

end Pamqp
