import Pamqp.Model.Encode
/-!
# Order lemmas: `strLe` is a total order; `entryLe`; sorting by key

General-purpose lemmas (reused by C12 and by the round-trip proofs):
* `strLe_refl`, `strLe_total`, `strLe_trans`, `strLe_antisymm`
* `entryLe_trans`, `entryLe_total` (for any payload type via `keyLe`)
* `sorted_mergeSort_keyLe`, `mergeSort_keyLe_perm_eq` — for an arbitrary payload type `β`,
  sorting a key-duplicate-free list of `Str × β` by key is insensitive to the input order
* the `Encode.entryLe` instances `pairwise_mergeSort_entryLe`, `mergeSort_entryLe_perm_eq`
* `mergeSort_eq_self_of_sorted`: sorting a sorted list is the identity
-/
namespace Pamqp

/-! ## `strLe` is a total order -/

theorem strLe_refl (a : Str) : strLe a a = true := by
  induction a with
  | nil => rfl
  | cons x xs ih => simp [strLe, ih]

theorem strLe_nil (a : Str) : strLe [] a = true := by
  cases a <;> rfl

theorem strLe_total (a b : Str) : (strLe a b || strLe b a) = true := by
  induction a generalizing b with
  | nil => simp [strLe]
  | cons x xs ih =>
    cases b with
    | nil => simp [strLe]
    | cons y ys =>
      simp only [strLe]
      by_cases h1 : x < y
      · simp [h1]
      · by_cases h2 : y < x
        · simp [h2]
        · simp [h1, h2, ih ys]

theorem strLe_trans (a b c : Str) : strLe a b = true → strLe b c = true → strLe a c = true := by
  induction a generalizing b c with
  | nil => intros; simp [strLe]
  | cons x xs ih =>
    cases b with
    | nil => simp [strLe]
    | cons y ys =>
      cases c with
      | nil => simp [strLe]
      | cons z zs =>
        simp only [strLe]
        intro h1 h2
        by_cases hxy : x < y
        · by_cases hyz : y < z
          · have : x < z := by omega
            simp [this]
          · by_cases hzy : z < y
            · simp [hyz, hzy] at h2
            · have : y = z := by omega
              subst this; simp [hxy]
        · by_cases hyx : y < x
          · simp [hxy, hyx] at h1
          · have : x = y := by omega
            subst this
            simp only [hxy, if_false] at h1
            by_cases hyz : x < z
            · simp [hyz]
            · by_cases hzy : z < x
              · simp [hyz, hzy] at h2
              · simp only [hyz, hzy, if_false] at h2 ⊢
                exact ih ys zs h1 h2

theorem strLe_antisymm (a b : Str) : strLe a b = true → strLe b a = true → a = b := by
  induction a generalizing b with
  | nil => cases b <;> simp [strLe]
  | cons x xs ih =>
    cases b with
    | nil => simp [strLe]
    | cons y ys =>
      simp only [strLe]
      intro h1 h2
      by_cases hxy : x < y
      · have : ¬ y < x := by omega
        simp [hxy, this] at h2
      · by_cases hyx : y < x
        · simp [hxy, hyx] at h1
        · have : x = y := by omega
          subst this
          simp only [hxy, if_false] at h1 h2
          rw [ih ys h1 h2]

/-- `strLe a b = false` means `b < a` strictly, in particular `b ≤ a` -/
theorem strLe_of_not_strLe (a b : Str) (h : strLe a b = false) : strLe b a = true := by
  have := strLe_total a b
  simpa [h] using this

/-! ## ordering pairs by their key -/

/-- compare `(key, payload)` pairs by key -/
def keyLe {β : Type} (a b : Str × β) : Bool := strLe a.1 b.1

theorem keyLe_refl {β : Type} (a : Str × β) : keyLe a a = true := strLe_refl a.1

theorem keyLe_trans {β : Type} (a b c : Str × β) :
    keyLe a b = true → keyLe b c = true → keyLe a c = true := strLe_trans a.1 b.1 c.1

theorem keyLe_total {β : Type} (a b : Str × β) : (keyLe a b || keyLe b a) = true :=
  strLe_total a.1 b.1

theorem entryLe_eq_keyLe : Encode.entryLe = keyLe (β := R Bytes) := rfl

theorem entryLe_refl (a : Str × R Bytes) : Encode.entryLe a a = true := strLe_refl a.1

theorem entryLe_trans (a b c : Str × R Bytes) :
    Encode.entryLe a b = true → Encode.entryLe b c = true → Encode.entryLe a c = true :=
  strLe_trans a.1 b.1 c.1

theorem entryLe_total (a b : Str × R Bytes) : (Encode.entryLe a b || Encode.entryLe b a) = true :=
  strLe_total a.1 b.1

/-- in a list with pairwise distinct keys an element is determined by its key -/
theorem eq_of_key_eq {β : Type} (l : List (Str × β)) (hn : (l.map (·.1)).Nodup) (a b : Str × β)
    (ha : a ∈ l) (hb : b ∈ l) (hk : a.1 = b.1) : a = b := by
  induction l with
  | nil => cases ha
  | cons x xs ih =>
    simp only [List.map_cons, List.nodup_cons] at hn
    rcases List.mem_cons.mp ha with rfl | ha'
    · rcases List.mem_cons.mp hb with rfl | hb'
      · rfl
      · exact absurd (List.mem_map.mpr ⟨b, hb', hk.symm⟩) hn.1
    · rcases List.mem_cons.mp hb with rfl | hb'
      · exact absurd (List.mem_map.mpr ⟨a, ha', hk⟩) hn.1
      · exact ih hn.2 ha' hb'

/-! ## sorting by key -/

/-- the result of sorting by key is sorted by key -/
theorem sorted_mergeSort_keyLe {β : Type} (l : List (Str × β)) :
    (List.mergeSort l keyLe).Pairwise (fun a b => strLe a.1 b.1 = true) :=
  List.pairwise_mergeSort (le := keyLe) keyLe_trans keyLe_total l

/-- the keys of the sorted list are a permutation of the keys of the input -/
theorem mergeSort_keyLe_keys_perm {β : Type} (l : List (Str × β)) :
    ((List.mergeSort l keyLe).map (·.1)).Perm (l.map (·.1)) :=
  (List.mergeSort_perm l keyLe).map _

/-- two key-sorted permutations of each other with distinct keys are equal -/
theorem eq_of_perm_of_sorted {β : Type} (l₁ l₂ : List (Str × β)) (hp : l₁.Perm l₂)
    (hn : (l₁.map (·.1)).Nodup)
    (s1 : l₁.Pairwise (fun a b => strLe a.1 b.1 = true))
    (s2 : l₂.Pairwise (fun a b => strLe a.1 b.1 = true)) : l₁ = l₂ := by
  apply List.Perm.eq_of_pairwise (le := fun a b => strLe a.1 b.1 = true) _ s1 s2 hp
  intro a b ha hb hab hba
  exact eq_of_key_eq l₁ hn a b ha (hp.mem_iff.mpr hb) (strLe_antisymm a.1 b.1 hab hba)

/-- sorting by key is insensitive to the order of a key-duplicate-free list -/
theorem mergeSort_keyLe_perm_eq {β : Type} (l₁ l₂ : List (Str × β)) (hp : l₁.Perm l₂)
    (hn : (l₁.map (·.1)).Nodup) :
    List.mergeSort l₁ keyLe = List.mergeSort l₂ keyLe := by
  have p1 := List.mergeSort_perm l₁ (keyLe (β := β))
  have p2 := List.mergeSort_perm l₂ (keyLe (β := β))
  refine eq_of_perm_of_sorted _ _ (p1.trans (hp.trans p2.symm)) ?_
    (sorted_mergeSort_keyLe l₁) (sorted_mergeSort_keyLe l₂)
  exact ((p1.map (·.1)).nodup_iff).mpr hn

/-- sorting an already key-sorted list is the identity (no key distinctness needed:
`mergeSort` is stable) -/
theorem mergeSort_keyLe_of_sorted {β : Type} (l : List (Str × β))
    (h : l.Pairwise (fun a b => strLe a.1 b.1 = true)) : List.mergeSort l keyLe = l :=
  List.mergeSort_of_pairwise (le := keyLe) h

/-! ### the instances for `Encode.entryLe` -/

theorem pairwise_mergeSort_entryLe (l : List (Str × R Bytes)) :
    (List.mergeSort l Encode.entryLe).Pairwise (fun a b => strLe a.1 b.1 = true) :=
  sorted_mergeSort_keyLe l

theorem mergeSort_entryLe_perm_eq (l₁ l₂ : List (Str × R Bytes)) (hp : l₁.Perm l₂)
    (hn : (l₁.map (·.1)).Nodup) :
    List.mergeSort l₁ Encode.entryLe = List.mergeSort l₂ Encode.entryLe :=
  mergeSort_keyLe_perm_eq l₁ l₂ hp hn

theorem mergeSort_entryLe_of_sorted (l : List (Str × R Bytes))
    (h : l.Pairwise (fun a b => strLe a.1 b.1 = true)) : List.mergeSort l Encode.entryLe = l :=
  mergeSort_keyLe_of_sorted l h

/-! ## the entry list of the table encoder -/

theorem entries_keys (legacy : Bool) (l : List (Str × PyVal)) :
    (Encode.entries legacy l).map (·.1) = l.map (·.1) := by
  induction l with
  | nil => simp [Encode.entries]
  | cons e es ih => obtain ⟨k, v⟩ := e; simp [Encode.entries, ih]

theorem entries_eq_map (legacy : Bool) (l : List (Str × PyVal)) :
    Encode.entries legacy l = l.map (fun e => (e.1, Encode.tableValue legacy e.2)) := by
  induction l with
  | nil => simp [Encode.entries]
  | cons e es ih => obtain ⟨k, v⟩ := e; simp [Encode.entries, ih]

theorem entries_perm (legacy : Bool) {l₁ l₂ : List (Str × PyVal)} (h : l₁.Perm l₂) :
    (Encode.entries legacy l₁).Perm (Encode.entries legacy l₂) := by
  rw [entries_eq_map, entries_eq_map]; exact h.map _

theorem entries_length (legacy : Bool) (l : List (Str × PyVal)) :
    (Encode.entries legacy l).length = l.length := by
  rw [entries_eq_map]; simp

/-- the sorted entry list only depends on the multiset of entries (keys distinct) -/
theorem sorted_entries_perm (legacy : Bool) {l₁ l₂ : List (Str × PyVal)} (hp : l₁.Perm l₂)
    (hn : (l₁.map (·.1)).Nodup) :
    List.mergeSort (Encode.entries legacy l₁) Encode.entryLe =
      List.mergeSort (Encode.entries legacy l₂) Encode.entryLe :=
  mergeSort_entryLe_perm_eq _ _ (entries_perm legacy hp) (by rw [entries_keys]; exact hn)

/-! ## congruence steps of the deep permutation invariance (C12)
The relation `DPerm` lives in the property file; these are the steps of its recursor. -/

theorem tableValue_list_congr (legacy : Bool) {l₁ l₂ : List PyVal}
    (h : Encode.items legacy l₁ = Encode.items legacy l₂) :
    Encode.tableValue legacy (.list l₁) = Encode.tableValue legacy (.list l₂) := by
  simp only [Encode.tableValue, h]

theorem tableValue_dict_congr (legacy : Bool) {l₁ l₂ l₂' : List (Str × PyVal)}
    (he : Encode.entries legacy l₁ = Encode.entries legacy l₂) (hp : l₂.Perm l₂')
    (hn : (l₁.map (·.1)).Nodup) :
    Encode.tableValue legacy (.dict l₁) = Encode.tableValue legacy (.dict l₂') := by
  have hn2 : (l₂.map (·.1)).Nodup := by
    rw [← entries_keys legacy l₂, ← he, entries_keys]; exact hn
  simp only [Encode.tableValue, he, sorted_entries_perm legacy hp hn2]

theorem items_cons_congr (legacy : Bool) {v w : PyVal} {vs ws : List PyVal}
    (h1 : Encode.tableValue legacy v = Encode.tableValue legacy w)
    (h2 : Encode.items legacy vs = Encode.items legacy ws) :
    Encode.items legacy (v :: vs) = Encode.items legacy (w :: ws) := by
  simp only [Encode.items, h1, h2]

theorem entries_cons_congr (legacy : Bool) (k : Str) {v w : PyVal} {es fs : List (Str × PyVal)}
    (h1 : Encode.tableValue legacy v = Encode.tableValue legacy w)
    (h2 : Encode.entries legacy es = Encode.entries legacy fs) :
    Encode.entries legacy ((k, v) :: es) = Encode.entries legacy ((k, w) :: fs) := by
  simp only [Encode.entries, h1, h2]

theorem fieldTable_perm (legacy : Bool) {l₁ l₂ : List (Str × PyVal)} (hp : l₁.Perm l₂)
    (hn : (l₁.map (·.1)).Nodup) :
    Encode.fieldTable legacy (.dict l₁) = Encode.fieldTable legacy (.dict l₂) := by
  simp only [Encode.fieldTable, sorted_entries_perm legacy hp hn]

theorem tableValue_dict_perm (legacy : Bool) {l₁ l₂ : List (Str × PyVal)} (hp : l₁.Perm l₂)
    (hn : (l₁.map (·.1)).Nodup) :
    Encode.tableValue legacy (.dict l₁) = Encode.tableValue legacy (.dict l₂) :=
  tableValue_dict_congr legacy rfl hp hn

/-- C12_sorted -/
theorem sorted_entries_pairwise (legacy : Bool) (kvs : List (Str × PyVal)) :
    (List.mergeSort (Encode.entries legacy kvs) Encode.entryLe).Pairwise
      (fun a b => strLe a.1 b.1 = true) :=
  pairwise_mergeSort_entryLe _

/-- C12_sorted_perm -/
theorem sorted_entries_keys_perm (legacy : Bool) (kvs : List (Str × PyVal)) :
    ((List.mergeSort (Encode.entries legacy kvs) Encode.entryLe).map (·.1)).Perm (kvs.map (·.1)) := by
  have := (List.mergeSort_perm (Encode.entries legacy kvs) Encode.entryLe).map (·.1)
  rwa [entries_keys] at this

end Pamqp
