import Pamqp.Spec.Defs
import Pamqp.Proofs.RoundTrip
import Pamqp.Props.C12
import Pamqp.Proofs.ArgLoop
/-! # C10: whatever the encoders accept lies in the round-trip domain

`Documented` (the property's list of exceptions) is defined in the property file, which imports
this one; the lemmas here are therefore stated for any predicates `D DL DE` that satisfy the
defining clauses of `Documented` (`DocClauses`). -/
namespace Pamqp.Proofs.NoCorruption
open Pamqp Pamqp.Props Pamqp.Proofs Pamqp.Proofs.RoundTrip
set_option linter.unusedSimpArgs false
set_option linter.unusedVariables false

/-- the introduction clauses of `Documented` / `DocumentedL` / `DocumentedE` -/
structure DocClauses (D : PyVal → Prop) (DL : List PyVal → Prop) (DE : List (Str × PyVal) → Prop) : Prop where
  dt : ∀ m tz, Spec.instantMicros m tz / 1000000 > 4294967295 → D (.datetime m tz)
  st : ∀ s, s > 4294967295 → D (.structTime s)
  list : ∀ vs, DL vs → D (.list vs)
  dict : ∀ kvs, DE kvs → D (.dict kvs)
  consL : ∀ v vs, D v ∨ DL vs → DL (v :: vs)
  consE : ∀ k v es, List.length k > 128 ∨ D v ∨ DE es → DE ((k, v) :: es)

/-! ## Except plumbing -/

theorem map_ok {α β : Type} {f : α → β} {x : R α} {b : β} (h : Except.map f x = .ok b) :
    ∃ a, x = .ok a ∧ b = f a := by
  cases x with
  | error e => simp [Except.map] at h
  | ok a => exact ⟨a, rfl, by simpa [Except.map] using h.symm⟩

theorem bind_ok {α β : Type} {x : R α} {f : α → R β} {b : β} (h : (x >>= f) = .ok b) :
    ∃ a, x = .ok a ∧ f a = .ok b := by
  cases x with
  | error e => simp [bind, Except.bind] at h
  | ok a => exact ⟨a, rfl, by simpa [bind, Except.bind] using h⟩

/-! ## primitives: success forces the range -/

theorem int_of_ok (legacy : Bool) (i : Int) (bs : Bytes) (h : Encode.tableInteger legacy i = .ok bs) :
    -9223372036854775808 ≤ i ∧ i ≤ 9223372036854775807 := by
  by_cases hr : -9223372036854775808 ≤ i ∧ i ≤ 9223372036854775807
  · exact hr
  · exfalso
    have c1 : ¬ (-128 ≤ i ∧ i ≤ 127) := by omega
    have c2 : ¬ (-32768 ≤ i ∧ i ≤ 32767) := by omega
    have c3 : ¬ (0 ≤ i ∧ i ≤ 65535) := by omega
    have c4 : ¬ (-2147483648 ≤ i ∧ i ≤ 2147483647) := by omega
    have c5 : ¬ (0 ≤ i ∧ i ≤ 4294967295) := by omega
    cases legacy <;>
      simp only [Encode.tableInteger, c1, c2, c3, c4, c5, hr, if_false, if_true, Bool.false_eq_true] at h <;>
      cases h

theorem float_of_ok (bits : Nat) (bs : Bytes) (h : Encode.floatingPoint (.float bits) = .ok bs) :
    (f32Narrow bits).isSome := by
  unfold Encode.floatingPoint at h
  cases hn : f32Narrow bits with
  | none => simp [hn] at h
  | some b => rfl

theorem string_of_ok (k : Nat) (s : Str) (bs : Bytes) (h : Encode.string k (.str s) = .ok bs) :
    (utf8Encode s).isSome ∧ Spec.utf8Len s ≤ 256 ^ k - 1 := by
  unfold Encode.string at h
  cases hs : utf8Encode s with
  | none => simp [hs] at h
  | some sb =>
    simp only [hs] at h
    obtain ⟨l, hl, _⟩ := bind_ok h
    have hr := (packInt_ok hl).2.1
    have := utf8Encode_length s sb hs
    refine ⟨rfl, ?_⟩
    have hp : 0 < 256 ^ k := Nat.pow_pos (by decide)
    omega

theorem bytearray_of_ok (b : Bytes) (bs : Bytes) (h : Encode.byteArray (.bytearray b) = .ok bs) :
    b.length < 2 ^ 32 := by
  unfold Encode.byteArray at h
  obtain ⟨l, hl, _⟩ := bind_ok h
  have hr := (packInt_ok hl).2.1
  omega

theorem withLen_of_ok (body bs : Bytes) (h : Encode.withLen body = .ok bs) : body.length < 2 ^ 32 := by
  unfold Encode.withLen at h
  obtain ⟨l, hl, _⟩ := bind_ok h
  have hr := (packInt_ok hl).2.1
  omega

theorem timestamp_dt_of_ok (m : Int) (tz : Option Int) (bs : Bytes)
    (h : Encode.timestamp (.datetime m tz) = .ok bs) : -1000000 < Spec.instantMicros m tz := by
  have : Encode.timestamp (.datetime m tz) = packU64 (Int.tdiv (Spec.instantMicros m tz) 1000000) := by
    cases tz <;> simp [Encode.timestamp, Spec.instantMicros]
  rw [this] at h
  exact (tdiv_nonneg_iff _).mp (packInt_ok h).1

theorem timestamp_st_of_ok (s : Int) (bs : Bytes)
    (h : Encode.timestamp (.structTime s) = .ok bs) : 0 ≤ s := by
  simp only [Encode.timestamp] at h
  exact (packInt_ok h).1

/-- the capped power used by the encoder is below the uncapped one exactly when it matters -/
theorem decimalInt_bound (neg : Bool) (c : Nat) (e : Nat) (bs : Bytes)
    (h : packI32 (Encode.decimalInt neg c e) = .ok bs) :
    if neg then c * 10 ^ e ≤ 2147483648 else c * 10 ^ e ≤ 2147483647 := by
  obtain ⟨h1, h2, _⟩ := packInt_ok h
  unfold Encode.decimalInt at h1 h2
  by_cases hc : c = 0
  · subst hc; cases neg <;> simp
  · by_cases hbig : e > 10
    · exfalso
      simp only [hc, hbig, if_true, if_false] at h1 h2
      have h3 : 1 * 10 ^ 11 ≤ c * 10 ^ 11 := Nat.mul_le_mul (by omega) (Nat.le_refl _)
      have : (10 : Nat) ^ 11 = 100000000000 := by decide
      cases neg <;> simp only [if_true, if_false, Bool.false_eq_true] at h1 h2 <;> omega
    · simp only [hc, hbig, if_true, if_false] at h1 h2
      cases neg <;> simp only [if_true, if_false, Bool.false_eq_true] at h1 h2 ⊢ <;> omega

theorem decimal_of_ok (n : Bool) (c : Nat) (e : Int) (bs : Bytes)
    (h : Encode.decimal (.decimal n c e) = .ok bs) : Spec.decimalOK n c e := by
  unfold Spec.decimalOK
  unfold Encode.decimal at h
  by_cases he : e < 0
  · simp only [he, if_true] at h ⊢
    split at h
    · cases h
    · obtain ⟨a, ha, h'⟩ := bind_ok h
      obtain ⟨b, hb, _⟩ := bind_ok h'
      have ha' := (packInt_ok ha).2.1
      obtain ⟨hb1, hb2, _⟩ := packInt_ok hb
      refine ⟨ha', ?_⟩
      cases n <;> simp only [if_true, if_false, Bool.false_eq_true] at hb1 hb2 ⊢ <;> omega
  · simp only [he, if_false] at h ⊢
    obtain ⟨b, hb, _⟩ := bind_ok h
    exact decimalInt_bound n c e.toNat b hb

theorem key_of_ok (k : Str) (bs : Bytes) (hlen : k.length ≤ 128)
    (h : Encode.shortString (.str (k.take 128)) = .ok bs) : Spec.keyOK k := by
  rw [List.take_of_length_le hlen] at h
  obtain ⟨h1, h2⟩ := string_of_ok 1 k bs h
  exact ⟨hlen, h1, by simpa using h2⟩

/-! ## tables: every entry of the sorted list was encoded -/

theorem joinEntries_ok_mem (l : List (Str × R Bytes)) (body : Bytes) (h : Encode.joinEntries l = .ok body) :
    ∀ e ∈ l, ∃ b, Encode.entryBytes e = .ok b := by
  induction l generalizing body with
  | nil => intro e he; cases he
  | cons x xs ih =>
    rw [Encode.joinEntries] at h
    obtain ⟨a, ha, h'⟩ := bind_ok h
    obtain ⟨b, hb, _⟩ := bind_ok h'
    intro e he
    rcases List.mem_cons.mp he with rfl | he'
    · exact ⟨a, ha⟩
    · exact ih b hb e he'

theorem entryBytes_ok (k : Str) (r : R Bytes) (b : Bytes) (h : Encode.entryBytes (k, r) = .ok b) :
    (∃ kb, Encode.shortString (.str (k.take 128)) = .ok kb) ∧ ∃ vb, r = .ok vb := by
  unfold Encode.entryBytes at h
  obtain ⟨kb, hkb, h'⟩ := bind_ok h
  obtain ⟨vb, hvb, _⟩ := bind_ok h'
  exact ⟨⟨kb, hkb⟩, ⟨vb, hvb⟩⟩

theorem sorted_entries_ok (legacy : Bool) (kvs : List (Str × PyVal)) (body : Bytes)
    (h : Encode.joinEntries (List.mergeSort (Encode.entries legacy kvs) Encode.entryLe) = .ok body) :
    ∀ e ∈ Encode.entries legacy kvs, ∃ b, Encode.entryBytes e = .ok b := by
  intro e he
  exact joinEntries_ok_mem _ body h e ((List.mergeSort_perm _ _).mem_iff.mpr he)

/-! ## the induction over the nested value -/

section
variable {D : PyVal → Prop} {DL : List PyVal → Prop} {DE : List (Str × PyVal) → Prop}

mutual
theorem encodable_of_ok (dc : DocClauses D DL DE) (legacy : Bool) (v : PyVal) (bs : Bytes)
    (h : Encode.tableValue legacy v = .ok bs) (hd : ¬ D v) (hk : KeysDistinct v) :
    Spec.Encodable legacy v := by
  match v, h, hd, hk with
  | .none, _, _, _ => simp [Spec.Encodable]
  | .bool b, _, _, _ => simp [Spec.Encodable]
  | .int i, h, _, _ =>
    simp only [Encode.tableValue] at h
    simpa [Spec.Encodable] using int_of_ok legacy i bs h
  | .float bits, h, _, _ =>
    simp only [Encode.tableValue] at h
    obtain ⟨a, ha, _⟩ := map_ok h
    simpa [Spec.Encodable] using float_of_ok bits a ha
  | .decimal n c e, h, _, _ =>
    simp only [Encode.tableValue] at h
    obtain ⟨a, ha, _⟩ := map_ok h
    simpa [Spec.Encodable] using decimal_of_ok n c e a ha
  | .decimalSpecial k, h, _, _ =>
    simp only [Encode.tableValue] at h
    obtain ⟨a, ha, _⟩ := map_ok h
    simp [Encode.decimal] at ha
  | .str s, h, _, _ =>
    simp only [Encode.tableValue] at h
    obtain ⟨a, ha, _⟩ := map_ok h
    obtain ⟨h1, h2⟩ := string_of_ok 4 s a ha
    have : Spec.utf8Len s < 2 ^ 32 := by
      have : (256 : Nat) ^ 4 = 4294967296 := by decide
      omega
    simp only [Spec.Encodable]; exact ⟨h1, this⟩
  | .bytes _, h, _, _ => simp [Encode.tableValue] at h
  | .bytearray b, h, _, _ =>
    simp only [Encode.tableValue] at h
    obtain ⟨a, ha, _⟩ := map_ok h
    simpa [Spec.Encodable] using bytearray_of_ok b a ha
  | .datetime m tz, h, hd, _ =>
    simp only [Encode.tableValue] at h
    obtain ⟨a, ha, _⟩ := map_ok h
    have h1 := timestamp_dt_of_ok m tz a ha
    have h2 : Spec.instantMicros m tz / 1000000 ≤ 4294967295 := by
      refine Int.not_lt.mp (fun hgt => hd (dc.dt m tz hgt))
    simp only [Spec.Encodable]; exact ⟨h1, h2⟩
  | .structTime s, h, hd, _ =>
    simp only [Encode.tableValue] at h
    obtain ⟨a, ha, _⟩ := map_ok h
    have h1 := timestamp_st_of_ok s a ha
    have h2 : s ≤ 4294967295 := Int.not_lt.mp (fun hgt => hd (dc.st s hgt))
    simp only [Spec.Encodable]; exact ⟨h1, h2⟩
  | .list vs, h, hd, hk =>
    simp only [Encode.tableValue] at h
    obtain ⟨body, hb, h'⟩ := bind_ok h
    obtain ⟨t, ht, _⟩ := bind_ok h'
    have hk' : KeysDistinctL vs := by simpa [KeysDistinct] using hk
    have hel := encodableList_of_ok dc legacy vs body hb (fun hdl => hd (dc.list vs hdl)) hk'
    obtain ⟨body', hb', hbl, _⟩ := arrLoop_rt legacy vs (good_of_encodableList legacy vs hel)
    rw [hb] at hb'; cases hb'
    have := withLen_of_ok body t ht
    simp only [Spec.Encodable]; exact ⟨hel, by omega⟩
  | .dict kvs, h, hd, hk =>
    simp only [Encode.tableValue] at h
    obtain ⟨body, hb, h'⟩ := bind_ok h
    obtain ⟨t, ht, _⟩ := bind_ok h'
    have hk' : (kvs.map (·.1)).Nodup ∧ KeysDistinctE kvs := by simpa [KeysDistinct] using hk
    have hee := encodableEntries_of_ok dc legacy kvs (sorted_entries_ok legacy kvs body hb)
      (fun hde => hd (dc.dict kvs hde)) hk'.2
    have hg' : ∀ e ∈ List.mergeSort kvs kvLe, Spec.keyOK e.1 ∧ Good legacy e.2 :=
      fun e he => good_of_encodableEntries legacy kvs hee e ((List.mergeSort_perm kvs kvLe).mem_iff.mp he)
    obtain ⟨body', hb', hbl, _⟩ := tblLoop_rt legacy _ hg'
    rw [← sort_entries, hb] at hb'; cases hb'
    rw [wireSizeEntries_sort] at hbl
    have := withLen_of_ok body t ht
    simp only [Spec.Encodable]; exact ⟨hee, hk'.1, by omega⟩
  | .other, h, _, _ => simp [Encode.tableValue] at h
theorem encodableList_of_ok (dc : DocClauses D DL DE) (legacy : Bool) (vs : List PyVal) (body : Bytes)
    (h : Encode.items legacy vs = .ok body) (hd : ¬ DL vs) (hk : KeysDistinctL vs) :
    Spec.EncodableList legacy vs := by
  match vs, h, hd, hk with
  | [], _, _, _ => simp [Spec.EncodableList]
  | x :: xs, h, hd, hk =>
    simp only [Encode.items] at h
    obtain ⟨a, ha, h'⟩ := bind_ok h
    obtain ⟨b, hb, _⟩ := bind_ok h'
    have hk' : KeysDistinct x ∧ KeysDistinctL xs := by simpa [KeysDistinctL] using hk
    have e1 := encodable_of_ok dc legacy x a ha (fun hx => hd (dc.consL x xs (Or.inl hx))) hk'.1
    have e2 := encodableList_of_ok dc legacy xs b hb (fun hx => hd (dc.consL x xs (Or.inr hx))) hk'.2
    simp only [Spec.EncodableList]; exact ⟨e1, e2⟩
theorem encodableEntries_of_ok (dc : DocClauses D DL DE) (legacy : Bool) (kvs : List (Str × PyVal))
    (h : ∀ e ∈ Encode.entries legacy kvs, ∃ b, Encode.entryBytes e = .ok b)
    (hd : ¬ DE kvs) (hk : KeysDistinctE kvs) : Spec.EncodableEntries legacy kvs := by
  match kvs, h, hd, hk with
  | [], _, _, _ => simp [Spec.EncodableEntries]
  | (k, x) :: es, h, hd, hk =>
    simp only [Encode.entries] at h
    obtain ⟨b, hb⟩ := h (k, Encode.tableValue legacy x) (by simp)
    obtain ⟨⟨kb, hkb⟩, ⟨vb, hvb⟩⟩ := entryBytes_ok k _ b hb
    have hk' : KeysDistinct x ∧ KeysDistinctE es := by simpa [KeysDistinctE] using hk
    have hlen : k.length ≤ 128 := Nat.not_lt.mp (fun hgt => hd (dc.consE k x es (Or.inl hgt)))
    have e0 := key_of_ok k kb hlen hkb
    have e1 := encodable_of_ok dc legacy x vb hvb (fun hx => hd (dc.consE k x es (Or.inr (Or.inl hx)))) hk'.1
    have e2 := encodableEntries_of_ok dc legacy es (fun e he => h e (by simp [he]))
      (fun hx => hd (dc.consE k x es (Or.inr (Or.inr hx)))) hk'.2
    simp only [Spec.EncodableEntries]; exact ⟨e0, e1, e2⟩
end

theorem value_of_ok (dc : DocClauses D DL DE) (legacy : Bool) (v : PyVal) (bs : Bytes)
    (h : Encode.tableValue legacy v = .ok bs) (hd : ¬ D v) (hk : KeysDistinct v) :
    Decode.embeddedValue bs = .ok (bs.length, Spec.norm v) := by
  obtain ⟨bs', h1, _, h2⟩ := value_roundtrip legacy v (encodable_of_ok dc legacy v bs h hd hk) []
  rw [h] at h1; cases h1
  simpa using h2

end

theorem fieldTable_domain (legacy : Bool) (v : PyVal) (bs : Bytes)
    (h : Encode.fieldTable legacy v = .ok bs) : v = .none ∨ ∃ kvs, v = .dict kvs := by
  cases v <;> first | exact Or.inl rfl | exact Or.inr ⟨_, rfl⟩ | (simp [Encode.fieldTable] at h)


/-! ## method arguments -/

/-- same text as `Props.coerceArg` (which is defined downstream and unfolds to this) -/
def coerce : WireTy → PyVal → PyVal
  | .bit, .int 0 => .bool false
  | .bit, .int 1 => .bool true
  | .octet, .bool b | .short, .bool b | .long, .bool b | .longlong, .bool b => .int (if b then 1 else 0)
  | _, v => v

/-- same text as `Props.DocumentedArg`, for any `D` -/
def DocArg (D : PyVal → Prop) : WireTy → PyVal → Prop
  | .table, v => D v
  | .timestamp, v => D v
  | _, _ => False

def coerceArgs (args : List (WireTy × PyVal)) : List (WireTy × PyVal) :=
  args.map (fun p => (p.1, coerce p.1 p.2))

theorem coerce_bool_int (ty : WireTy) (b : Bool) :
    coerce ty (.bool b) = .bool b ∨ coerce ty (.bool b) = .int (if b then 1 else 0) := by
  cases ty <;> simp [coerce]

theorem coerce_int (ty : WireTy) (i : Int) :
    coerce ty (.int i) = .int i ∨ (i = 0 ∧ coerce ty (.int i) = .bool false) ∨
      (i = 1 ∧ coerce ty (.int i) = .bool true) := by
  unfold coerce
  split <;> simp_all

theorem coerce_other (ty : WireTy) (v : PyVal) (h1 : ∀ b, v ≠ .bool b) (h2 : ∀ i, v ≠ .int i) :
    coerce ty v = v := by
  unfold coerce
  split <;> simp_all

/-- Python `True == 1`: coercion does not change how a value reads as an int -/
theorem asInt_coerce (ty : WireTy) (v : PyVal) : (coerce ty v).asInt? = v.asInt? := by
  cases v with
  | bool b => rcases coerce_bool_int ty b with h | h <;> rw [h] <;> simp [PyVal.asInt?]
  | int i =>
    rcases coerce_int ty i with h | ⟨rfl, h⟩ | ⟨rfl, h⟩ <;> rw [h] <;> simp [PyVal.asInt?]
  | _ => rw [coerce_other _ _ (by intro b; simp) (by intro i; simp)]

theorem bit_coerce (ty : WireTy) (v : PyVal) (byte pos : Nat) :
    Encode.bit (coerce ty v) byte pos = Encode.bit v byte pos := by
  simp only [Encode.bit, asInt_coerce]

theorem byType_coerce (legacy : Bool) (ty : WireTy) (v : PyVal) :
    Encode.byType legacy (coerce ty v) ty = Encode.byType legacy v ty := by
  cases ty with
  | octet => simp only [Encode.byType, Encode.octet, asInt_coerce]
  | short => simp only [Encode.byType, Encode.shortUint, Encode.guardedInt, asInt_coerce]
  | long => simp only [Encode.byType, Encode.longUint, Encode.guardedInt, asInt_coerce]
  | longlong => simp only [Encode.byType, Encode.longLongInt, Encode.guardedInt, asInt_coerce]
  | bit => rfl
  | unknown => rfl
  | shortstr => cases v <;> rfl
  | longstr => cases v <;> rfl
  | table => cases v <;> rfl
  | timestamp => cases v <;> rfl

/-- the marshal loop cannot tell a value from its coerced form -/
theorem marshalLoop_coerce (legacy : Bool) (args : List (WireTy × PyVal)) :
    ∀ byte offset proc, Base.marshalLoop legacy byte offset proc (coerceArgs args) =
      Base.marshalLoop legacy byte offset proc args := by
  induction args with
  | nil => intro _ _ _; rfl
  | cons a args ih =>
    obtain ⟨ty, v⟩ := a
    intro byte offset proc
    have ih' : ∀ byte offset proc, Base.marshalLoop legacy byte offset proc
        (List.map (fun p => (p.1, coerce p.1 p.2)) args) = Base.marshalLoop legacy byte offset proc args := ih
    simp only [coerceArgs, List.map_cons, Base.marshalLoop, bit_coerce, byType_coerce, ih']

/-- unfolding at a bit argument, whatever the value -/
theorem marshalLoop_bit (legacy : Bool) (byte offset : Nat) (proc : Bool) (v : PyVal)
    (rest : List (WireTy × PyVal)) :
    Base.marshalLoop legacy byte offset proc ((.bit, v) :: rest) =
      (do let b ← Encode.bit v (if proc then byte else 0) (if proc then offset else 0)
          if (if proc then offset else 0) + 1 == 8 then do
            let o ← Encode.octet (.int b)
            let t ← Base.marshalLoop legacy b ((if proc then offset else 0) + 1) false rest
            pure (o ++ t)
          else Base.marshalLoop legacy b ((if proc then offset else 0) + 1) true rest) := by
  cases proc <;> simp [Base.marshalLoop]

/-- what the loop asked of one argument -/
def ElemOK (legacy : Bool) (p : WireTy × PyVal) : Prop :=
  if p.1 = .bit then ∃ byte pos b, Encode.bit p.2 byte pos = .ok b
  else ∃ e, Encode.byType legacy p.2 p.1 = .ok e

theorem loop_elems_ok (legacy : Bool) (args : List (WireTy × PyVal)) :
    ∀ byte offset proc tail, Base.marshalLoop legacy byte offset proc args = .ok tail →
      ∀ p ∈ args, ElemOK legacy p := by
  induction args with
  | nil => intro _ _ _ _ _ p hp; cases hp
  | cons a args ih =>
    obtain ⟨ty, v⟩ := a
    intro byte offset proc tail h p hp
    by_cases hty : ty = .bit
    · subst hty
      rw [marshalLoop_bit] at h
      obtain ⟨b, hb, hK⟩ := bind_ok h
      rcases List.mem_cons.mp hp with rfl | hp'
      · simp only [ElemOK, if_true]; exact ⟨_, _, b, hb⟩
      · by_cases h8 : ((if proc = true then offset else 0) + 1 == 8) = true
        · rw [if_pos h8] at hK
          obtain ⟨o, _, hK'⟩ := bind_ok hK
          obtain ⟨t, ht, _⟩ := bind_ok hK'
          exact ih _ _ _ t ht p hp'
        · rw [if_neg h8] at hK
          exact ih _ _ _ tail hK p hp'
    · have key : ∃ e t b o, Encode.byType legacy v ty = .ok e ∧ Base.marshalLoop legacy b o false args = .ok t := by
        cases proc with
        | true =>
          rw [marshalLoop_nonbit_proc _ _ _ _ _ _ hty] at h
          obtain ⟨o, _, h1⟩ := bind_ok h
          obtain ⟨e, he, h2⟩ := bind_ok h1
          obtain ⟨t, ht, _⟩ := bind_ok h2
          exact ⟨e, t, _, _, he, ht⟩
        | false =>
          rw [marshalLoop_nonbit _ _ _ _ _ _ hty] at h
          obtain ⟨e, he, h2⟩ := bind_ok h
          obtain ⟨t, ht, _⟩ := bind_ok h2
          exact ⟨e, t, _, _, he, ht⟩
      obtain ⟨e, t, b, o, he, ht⟩ := key
      rcases List.mem_cons.mp hp with rfl | hp'
      · simp only [ElemOK, hty, if_false]; exact ⟨e, he⟩
      · exact ih _ _ _ t ht p hp'

theorem guardedInt_ok {lo hi : Int} {pack : Int → R Bytes} {v : PyVal} {e : Bytes}
    (h : Encode.guardedInt lo hi pack v = .ok e) : ∃ i, v.asInt? = some i ∧ lo ≤ i ∧ i ≤ hi := by
  unfold Encode.guardedInt at h
  cases hv : v.asInt? with
  | none => simp [hv] at h
  | some i =>
    simp only [hv] at h
    split at h
    · rename_i hr; exact ⟨i, rfl, hr.1, hr.2⟩
    · cases h

theorem asInt_cases {v : PyVal} {i : Int} (h : v.asInt? = some i) :
    v = .int i ∨ ∃ b, v = .bool b ∧ i = if b then 1 else 0 := by
  cases v <;> simp [PyVal.asInt?] at h
  · exact Or.inr ⟨_, rfl, h.symm⟩
  · exact Or.inl (by rw [h])

/-- an int-typed argument the encoder accepted within `[lo, hi]` -/
theorem intArg_ok (ty : WireTy) (hty : ty = .octet ∨ ty = .short ∨ ty = .long ∨ ty = .longlong)
    (v : PyVal) (i : Int) (h : v.asInt? = some i) : coerce ty v = .int i := by
  rcases asInt_cases h with rfl | ⟨b, rfl, rfl⟩
  · rcases hty with rfl | rfl | rfl | rfl <;> simp [coerce]
  · rcases hty with rfl | rfl | rfl | rfl <;> simp [coerce]

section
variable {D : PyVal → Prop} {DL : List PyVal → Prop} {DE : List (Str × PyVal) → Prop}

theorem argOK_of_elem (dc : DocClauses D DL DE) (legacy : Bool) (ty : WireTy) (v : PyVal)
    (h : ElemOK legacy (ty, v)) (hd : ¬ DocArg D ty v) (hk : KeysDistinct v) :
    Spec.argOK legacy ty (coerce ty v) := by
  cases ty with
  | bit =>
    simp only [ElemOK, if_true] at h
    obtain ⟨byte, pos, b, hb⟩ := h
    unfold Encode.bit at hb
    have : v.asInt? = some 0 ∨ v.asInt? = some 1 := by
      split at hb
      · exact Or.inl (by assumption)
      · exact Or.inr (by assumption)
      · cases hb
    rcases this with h0 | h0 <;> rcases asInt_cases h0 with rfl | ⟨b, rfl, _⟩ <;> simp [coerce, Spec.argOK]
  | unknown => simp [ElemOK, Encode.byType] at h
  | octet =>
    simp only [ElemOK, Encode.byType, Encode.octet] at h
    obtain ⟨e, he⟩ := h
    cases hv : v.asInt? with
    | none => simp [hv] at he
    | some i =>
      simp only [hv] at he
      obtain ⟨h1, h2, _⟩ := packInt_ok he
      rw [intArg_ok .octet (by simp) v i hv]; exact ⟨h1, h2⟩
  | short =>
    simp only [ElemOK, Encode.byType, Encode.shortUint] at h
    obtain ⟨e, he⟩ := h
    obtain ⟨i, hv, h1, h2⟩ := guardedInt_ok he
    rw [intArg_ok .short (by simp) v i hv]; exact ⟨h1, h2⟩
  | long =>
    simp only [ElemOK, Encode.byType, Encode.longUint] at h
    obtain ⟨e, he⟩ := h
    obtain ⟨i, hv, h1, h2⟩ := guardedInt_ok he
    rw [intArg_ok .long (by simp) v i hv]; exact ⟨h1, h2⟩
  | longlong =>
    simp only [ElemOK, Encode.byType, Encode.longLongInt] at h
    obtain ⟨e, he⟩ := h
    obtain ⟨i, hv, h1, h2⟩ := guardedInt_ok he
    rw [intArg_ok .longlong (by simp) v i hv]; exact ⟨h1, h2⟩
  | shortstr =>
    simp only [ElemOK, Encode.byType] at h
    obtain ⟨e, he⟩ := h
    cases v <;> try (simp [Encode.shortString, Encode.string] at he; done)
    case str s =>
      obtain ⟨h1, h2⟩ := string_of_ok 1 s e he
      simp only [coerce, Spec.argOK]; exact ⟨h1, by simpa using h2⟩
  | longstr =>
    simp only [ElemOK, Encode.byType] at h
    obtain ⟨e, he⟩ := h
    cases v <;> try (simp [Encode.longString, Encode.string] at he; done)
    case str s =>
      obtain ⟨h1, h2⟩ := string_of_ok 4 s e he
      have : (256 : Nat) ^ 4 = 4294967296 := by decide
      simp only [coerce, Spec.argOK]; exact ⟨h1, by omega⟩
  | table =>
    simp only [ElemOK, Encode.byType] at h
    obtain ⟨e, he⟩ := h
    cases v <;> try (simp [Encode.fieldTable] at he; done)
    case none => simp [coerce, Spec.argOK]
    case dict kvs =>
      have htv : Encode.tableValue legacy (.dict kvs) = .ok (70 :: e) := by
        simp only [Encode.fieldTable] at he
        obtain ⟨body, hb, hw⟩ := bind_ok he
        simp only [Encode.tableValue, hb, hw, bind, Except.bind, pure, Except.pure]
      simp only [coerce, Spec.argOK]
      exact encodable_of_ok dc legacy _ _ htv (by simpa [DocArg] using hd) hk
  | timestamp =>
    simp only [ElemOK, Encode.byType] at h
    obtain ⟨e, he⟩ := h
    cases v <;> try (simp [Encode.timestamp] at he; done)
    case datetime m tz =>
      have htv : Encode.tableValue legacy (.datetime m tz) = .ok (84 :: e) := by
        simp only [Encode.tableValue, he, Except.map]
      simp only [coerce, Spec.argOK]
      exact encodable_of_ok dc legacy _ _ htv (by simpa [DocArg] using hd) hk
    case structTime s =>
      have htv : Encode.tableValue legacy (.structTime s) = .ok (84 :: e) := by
        simp only [Encode.tableValue, he, Except.map]
      simp only [coerce, Spec.argOK]
      exact encodable_of_ok dc legacy _ _ htv (by simpa [DocArg] using hd) hk

theorem argsOK_of_elems (dc : DocClauses D DL DE) (legacy : Bool) (args : List (WireTy × PyVal))
    (h : ∀ p ∈ args, ElemOK legacy p ∧ ¬ DocArg D p.1 p.2 ∧ KeysDistinct p.2) :
    Spec.argsOK legacy (coerceArgs args) := by
  induction args with
  | nil => simp [coerceArgs, Spec.argsOK]
  | cons a args ih =>
    obtain ⟨ty, v⟩ := a
    obtain ⟨h1, h2, h3⟩ := h (ty, v) (by simp)
    exact ⟨argOK_of_elem dc legacy ty v h1 h2 h3, ih (fun p hp => h p (by simp [hp]))⟩

theorem envelope_of_ok (t : Nat) (ch : PyVal) (payload bs : Bytes) (h : Frame.envelope t ch payload = .ok bs) :
    ∃ c : Nat, ch.asInt? = some (c : Int) ∧ c < 65536 ∧ payload.length < 2 ^ 32 ∧ bs = envBytes t c payload := by
  have h0 := h
  unfold Frame.envelope at h
  cases hc : ch.asInt? with
  | none => simp [hc] at h
  | some i =>
    simp only [hc] at h
    obtain ⟨cb, hcb, h1⟩ := bind_ok h
    obtain ⟨l, hl, h2⟩ := bind_ok h1
    obtain ⟨c0, c1, _⟩ := packInt_ok hcb
    obtain ⟨l0, l1, _⟩ := packInt_ok hl
    have hi : ((i.toNat : Nat) : Int) = i := by omega
    have hlt : i.toNat < 65536 := by omega
    have hpl : payload.length < 2 ^ 32 := by omega
    refine ⟨i.toNat, by rw [hi], hlt, hpl, ?_⟩
    have := envelope_ok t i.toNat hlt payload hpl
    have e : Frame.envelope t (.int (i.toNat : Int)) payload = Frame.envelope t ch payload := by
      unfold Frame.envelope
      rw [hc]
      simp only [PyVal.asInt?, hi]
    rw [e, h0] at this
    cases this; rfl

/-- C10_args, with `coerce` / `DocArg D` for the downstream `coerceArg` / `DocumentedArg` -/
theorem args_of_ok (dc : DocClauses D DL DE) (cat : Cat) (hwf : Spec.catWF cat = true)
    (spec : MethodSpec) (hs : spec ∈ cat.methods)
    (legacy : Bool) (vals : List PyVal) (hl : vals.length = spec.args.length)
    (ch : PyVal) (bs : Bytes) (h : Frame.marshal legacy cat (.method spec vals) ch = .ok bs)
    (hd : ∀ p ∈ spec.types.zip vals, ¬ DocArg D p.1 p.2 ∧ KeysDistinct p.2) :
    ∃ c : Nat, ch.asInt? = some (c : Int) ∧
      Frame.unmarshal cat bs = .ok (bs.length, c, .method spec
        ((spec.types.zip vals).map (fun p => Spec.normArg p.1 (coerce p.1 p.2)))) := by
  -- the catalogue facts
  simp only [Spec.catWF, Bool.and_eq_true, List.all_eq_true, decide_eq_true_eq] at hwf
  obtain ⟨hall, hnd⟩ := hwf
  have hm := hall spec hs
  simp only [Spec.methodWF, Bool.and_eq_true, decide_eq_true_eq, beq_iff_eq] at hm
  obtain ⟨⟨⟨⟨_, hi0⟩, hi1⟩, hrun⟩, _⟩ := hm
  have hkeys : ∀ m ∈ cat.methods, m.key = m.index := by
    intro m hm
    have := hall m hm
    simp only [Spec.methodWF, Bool.and_eq_true, beq_iff_eq] at this
    exact this.1.1.1.1
  have hfind := find_spec cat.methods spec hs hkeys hnd
  -- what the encoder did
  simp only [Frame.marshal] at h
  obtain ⟨idx, hidx', h1⟩ := bind_ok h
  obtain ⟨args, hfm, henv⟩ := bind_ok h1
  simp only [Base.frameMarshal] at hfm
  obtain ⟨_, _, hml⟩ := bind_ok hfm
  have hidx : packU32 spec.index = .ok (beN 4 (spec.index % (256 ^ 4 : Nat)).toNat) :=
    packInt_of_range 4 0 4294967295 spec.index hi0 (by omega)
  rw [hidx] at hidx'; cases hidx'
  obtain ⟨c, hch, hc, hpl32, rfl⟩ := envelope_of_ok 1 ch _ bs henv
  -- the argument loop on the coerced values
  have hlen : vals.length = spec.types.length := by rw [hl, MethodSpec.types, List.length_map]
  have htys : (coerceArgs (spec.types.zip vals)).map (·.1) = spec.types := by
    rw [coerceArgs, List.map_map]; exact zip_map_fst _ _ hlen
  have helems := loop_elems_ok legacy _ _ _ _ _ hml
  have hok : Spec.argsOK legacy (coerceArgs (spec.types.zip vals)) :=
    argsOK_of_elems dc legacy _ (fun p hp => ⟨helems p hp, hd p hp⟩)
  obtain ⟨args', hml', -, -, hdec⟩ := loop_rt legacy (coerceArgs (spec.types.zip vals)) 0 0 false hok
    (by simp) (by simpa [htys] using hrun)
  rw [marshalLoop_coerce, hml] at hml'; cases hml'
  simp only [Bool.false_eq_true, if_false, htys] at hdec
  have hun : ∀ r, unpackS 4 (beN 4 (spec.index % (256 ^ 4 : Nat)).toNat ++ r) = .ok spec.index :=
    fun r => unpackS_beN 4 (by omega) spec.index (by omega) (by omega) r
  have hpne : beN 4 (spec.index % (256 ^ 4 : Nat)).toNat ++ args ≠ [] := by
    intro h
    have := congrArg List.length h
    simp at this
  refine ⟨c, hch, ?_⟩
  have hu := unmarshal_envelope cat 1 (Or.inl rfl) c hc _ hpne hpl32 []
  rw [List.append_nil] at hu
  rw [hu, envBytes_length]
  have hd' := hdec []
  rw [List.append_nil] at hd'
  have hmap : (coerceArgs (spec.types.zip vals)).map (fun a => Spec.normArg a.1 a.2) =
      (spec.types.zip vals).map (fun p => Spec.normArg p.1 (coerce p.1 p.2)) := by
    rw [coerceArgs, List.map_map]; rfl
  simp only [if_true, Frame.methodUnmarshal, hun, Frame.mapCaught, hfind, bind, Except.bind,
    Base.frameUnmarshal, drop_beN_append, hd', pure, Except.pure, hmap]

end

end Pamqp.Proofs.NoCorruption
