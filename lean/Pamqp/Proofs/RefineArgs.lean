import Pamqp.Proofs.Refine
import Pamqp.Proofs.ArgLoop
import Pamqp.Proofs.PropsLoop
import Pamqp.Proofs.RoundTrip
/-!
# C04: method arguments, property lists and the content header against `Spec.Wire`;
sortedness of the reference tree on the `Encodable` domain
-/
namespace Pamqp.Proofs.Refine
open Pamqp Pamqp.Props Pamqp.Proofs

/-! ## one non-bit argument -/

theorem fieldTable_tableValue (legacy : Bool) (kvs : List (Str × PyVal)) (e : Bytes)
    (h : Encode.fieldTable legacy (.dict kvs) = .ok e) :
    Encode.tableValue legacy (.dict kvs) = .ok (70 :: e) := by
  simp only [Encode.fieldTable] at h
  obtain ⟨body, hb, hw⟩ := bind_ok h
  simp only [Encode.tableValue, hb, hw, bind, Except.bind, pure, Except.pure]

theorem arg_ref (legacy : Bool) (ty : WireTy) (v : PyVal) (e : Bytes)
    (h : Encode.byType legacy v ty = .ok e) (hok : Spec.argOK legacy ty v) :
    Spec.argWire legacy ty v = some e := by
  cases ty with
  | bit => simp [Encode.byType] at h
  | unknown => simp [Encode.byType] at h
  | octet =>
    cases v <;> try (simp [Spec.argOK] at hok; done)
    case int i =>
      simp only [Encode.byType, Encode.octet, PyVal.asInt?] at h
      obtain ⟨h0, h1, rfl⟩ := packInt_ok h
      simp only [Spec.argWire]
      rw [if_pos ⟨h0, by omega⟩, emod_toNat_of_range i 1 h0 (by omega)]
  | short =>
    cases v <;> try (simp [Spec.argOK] at hok; done)
    case int i =>
      have hok' : 0 ≤ i ∧ i ≤ 65535 := by simpa [Spec.argOK] using hok
      simp only [Encode.byType, Ladder.shortUint_in i hok'] at h
      cases h
      simp only [Spec.argWire]
      rw [if_pos ⟨hok'.1, by omega⟩, emod_toNat_of_range i 2 hok'.1 (by omega)]
  | long =>
    cases v <;> try (simp [Spec.argOK] at hok; done)
    case int i =>
      have hok' : 0 ≤ i ∧ i ≤ 4294967295 := by simpa [Spec.argOK] using hok
      simp only [Encode.byType, Ladder.longUint_in i hok'] at h
      cases h
      simp only [Spec.argWire]
      rw [if_pos ⟨hok'.1, by omega⟩, emod_toNat_of_range i 4 hok'.1 (by omega)]
  | longlong =>
    cases v <;> try (simp [Spec.argOK] at hok; done)
    case int i =>
      have hok' : -9223372036854775808 ≤ i ∧ i ≤ 9223372036854775807 := by simpa [Spec.argOK] using hok
      simp only [Encode.byType, Ladder.longLongInt_in i hok'] at h
      cases h
      simp only [Spec.argWire]
      rw [if_pos hok']
  | shortstr =>
    cases v <;> try (simp [Spec.argOK] at hok; done)
    case str s =>
      simp only [Encode.byType, Encode.shortString] at h
      obtain ⟨kb, hkb, hlt, rfl⟩ := string_ok 1 s e h
      have hlt' : kb.length < 256 := by simpa using hlt
      simp only [Spec.argWire, hkb, if_pos hlt']
  | longstr =>
    cases v <;> try (simp [Spec.argOK] at hok; done)
    case str s =>
      simp only [Encode.byType, Encode.longString] at h
      obtain ⟨kb, hkb, hlt, rfl⟩ := string_ok 4 s e h
      have hlt' : kb.length < 2 ^ 32 := by omega
      simp only [Spec.argWire, hkb, if_pos hlt']
  | table =>
    cases v <;> try (simp [Spec.argOK] at hok; done)
    case none =>
      simp only [Encode.byType, Encode.fieldTable] at h
      cases h
      simp only [Spec.argWire]
    case dict kvs =>
      have hok' : Spec.Encodable legacy (.dict kvs) := by simpa [Spec.argOK] using hok
      simp only [Encode.byType] at h
      obtain ⟨fv, h1, h2, _⟩ := value_ref legacy (.dict kvs) _ (fieldTable_tableValue legacy kvs e h)
        (keysDistinct_of_encodable legacy _ hok')
      simp only [Spec.argWire, h1, h2, List.drop_succ_cons, List.drop_zero]
  | timestamp =>
    cases v <;> try (simp [Spec.argOK] at hok; done)
    case datetime m tz =>
      simp only [Encode.byType] at h
      obtain ⟨n, h1, rfl, _⟩ := timestamp_ref legacy _ e (Or.inl ⟨m, tz, rfl⟩) h
      simp only [Spec.argWire, h1]
    case structTime s =>
      simp only [Encode.byType] at h
      obtain ⟨n, h1, rfl, _⟩ := timestamp_ref legacy _ e (Or.inr ⟨s, rfl⟩) h
      simp only [Spec.argWire, h1]

/-! ## the argument loop -/

theorem setBit_val (x : Bool) (byte off : Nat) (hb : byte < 2 ^ off) :
    setBit x byte off = byte + 2 ^ off * (if x then 1 else 0) := by
  cases x
  · simp [setBit]
  · simp only [setBit, if_true, Nat.one_shiftLeft, Nat.mul_one]
    have := Nat.two_pow_add_eq_or_of_lt hb 1
    rw [Nat.mul_one] at this
    rw [Nat.or_comm, ← this]; omega

theorem takeBits_nonbit (ty : WireTy) (v : PyVal) (rest : List (WireTy × PyVal)) (hty : ty ≠ .bit) :
    Spec.takeBits ((ty, v) :: rest) = some ([], (ty, v) :: rest) := by
  cases ty <;> first | exact absurd rfl hty | rfl

theorem argsWire_nil (legacy : Bool) (f : Nat) : Spec.argsWire legacy f [] = some [] := by
  cases f <;> rfl

theorem argOK_bit (legacy : Bool) (v : PyVal) (h : Spec.argOK legacy .bit v) : ∃ x, v = .bool x := by
  cases v <;> first | exact ⟨_, rfl⟩ | exact absurd h (by simp [Spec.argOK])

theorem loop_ref (legacy : Bool) (tvs : List (WireTy × PyVal)) :
    (∀ p ∈ tvs, Spec.argOK legacy p.1 p.2) →
    (∀ byte offset bs f, Spec.bitRunOK 0 (tvs.map (·.1)) = true → tvs.length ≤ f →
        Base.marshalLoop legacy byte offset false tvs = .ok bs → Spec.argsWire legacy f tvs = some bs) ∧
    (∀ byte offset bs, Spec.bitRunOK offset (tvs.map (·.1)) = true → byte < 2 ^ offset → offset ≤ 6 →
        Base.marshalLoop legacy byte offset true tvs = .ok bs →
        ∃ bits rest' t, Spec.takeBits tvs = some (bits, rest') ∧ offset + bits.length ≤ 6 ∧
          rest'.length ≤ tvs.length ∧
          bs = UInt8.ofNat (byte + 2 ^ offset * Spec.packBits bits) :: t ∧
          ∀ f, rest'.length ≤ f → Spec.argsWire legacy f rest' = some t) := by
  induction tvs with
  | nil =>
    intro _
    constructor
    · intro byte offset bs f _ _ h
      simp only [Base.marshalLoop, Bool.false_eq_true, if_false] at h
      cases h
      exact argsWire_nil legacy f
    · intro byte offset bs _ hb ho h
      have h256 : byte < 256 := lt_256_of_lt_pow hb (by omega)
      simp only [Base.marshalLoop, if_true, octet_int byte h256] at h
      cases h
      refine ⟨[], [], [], rfl, by simpa using ho, by simp, by simp [Spec.packBits], fun f _ => argsWire_nil legacy f⟩
  | cons a rest ih =>
    obtain ⟨ty, v⟩ := a
    intro hok
    have hw : Spec.argOK legacy ty v := hok (ty, v) List.mem_cons_self
    obtain ⟨ihP, ihQ⟩ := ih (fun p hp => hok p (List.mem_cons_of_mem _ hp))
    -- a non-bit head outside a run
    have hN : ty ≠ .bit → ∀ byte offset bs f, Spec.bitRunOK 0 (rest.map (·.1)) = true →
        rest.length + 1 ≤ f → Base.marshalLoop legacy byte offset false ((ty, v) :: rest) = .ok bs →
        Spec.argsWire legacy f ((ty, v) :: rest) = some bs := by
      intro hty byte offset bs f hrun hf h
      rw [marshalLoop_nonbit _ _ _ _ _ _ hty] at h
      obtain ⟨e, he, h⟩ := bind_ok h
      obtain ⟨t, ht, h⟩ := bind_ok h
      cases h
      obtain ⟨f', rfl⟩ : ∃ f', f = f' + 1 := ⟨f - 1, by omega⟩
      simp only [Spec.argsWire, if_neg hty, arg_ref legacy ty v e he hw,
        ihP byte offset t f' hrun (by omega) ht]
    constructor
    · intro byte offset bs f hrun hf h
      by_cases hty : ty = .bit
      · subst hty
        obtain ⟨x, rfl⟩ := argOK_bit legacy v hw
        rw [marshalLoop_bit_start] at h
        simp only [List.map_cons, Spec.bitRunOK, Bool.and_eq_true, decide_eq_true_eq] at hrun
        obtain ⟨bits, rest', t, htb, hlen, hrl, rfl, hrest⟩ :=
          ihQ (setBit x 0 0) 1 bs (by simpa using hrun.2) (setBit_lt x 0 0 (by simp)) (by omega) h
        simp only [List.length_cons] at hf
        obtain ⟨f', rfl⟩ : ∃ f', f = f' + 1 := ⟨f - 1, by omega⟩
        have hc : (x :: bits).length ≤ 8 ∧ rest'.length < ((WireTy.bit, PyVal.bool x) :: rest).length := by
          simp only [List.length_cons]; omega
        simp only [Spec.argsWire, if_true, Spec.takeBits, htb, Option.map, if_pos hc,
          hrest f' (by omega), Spec.packBits]
        rw [setBit_val x 0 0 (by simp)]
        simp
      · exact hN hty byte offset bs f (bitRunOK_nonbit _ ty _ hty (by simpa using hrun))
          (by simpa using hf) h
    · intro byte offset bs hrun hb ho h
      have h256 : byte < 256 := lt_256_of_lt_pow hb (by omega)
      by_cases hty : ty = .bit
      · subst hty
        obtain ⟨x, rfl⟩ := argOK_bit legacy v hw
        simp only [List.map_cons, Spec.bitRunOK, Bool.and_eq_true, decide_eq_true_eq] at hrun
        rw [marshalLoop_bit_proc _ _ _ _ _ (by omega)] at h
        obtain ⟨bits, rest', t, htb, hlen, hrl, rfl, hrest⟩ :=
          ihQ (setBit x byte offset) (offset + 1) bs hrun.2 (setBit_lt x byte offset hb) (by omega) h
        refine ⟨x :: bits, rest', t, by simp only [Spec.takeBits, htb, Option.map], ?_, ?_, ?_, hrest⟩
        · simp only [List.length_cons]; omega
        · simp only [List.length_cons]; omega
        · congr 2
          rw [setBit_val x byte offset hb]
          simp only [Spec.packBits, Nat.pow_succ, Nat.mul_add, Nat.add_assoc, Nat.mul_assoc]
      · rw [marshalLoop_nonbit_proc _ _ _ _ _ _ hty] at h
        obtain ⟨o, ho', h⟩ := bind_ok h
        obtain ⟨e, he, h⟩ := bind_ok h
        obtain ⟨t, ht, h⟩ := bind_ok h
        cases h
        rw [octet_int byte h256] at ho'
        cases ho'
        refine ⟨[], (ty, v) :: rest, e ++ t, takeBits_nonbit ty v rest hty, by simpa using ho,
          Nat.le_refl _, by simp [Spec.packBits], ?_⟩
        intro f hf
        refine hN hty byte offset (e ++ t) f (bitRunOK_nonbit _ ty _ hty (by simpa using hrun))
          (by simpa using hf) ?_
        rw [marshalLoop_nonbit _ _ _ _ _ _ hty, he, ht]
        rfl

theorem args_refine (legacy : Bool) (tvs : List (WireTy × PyVal)) (bs : Bytes)
    (hrun : Spec.bitRunOK 0 (tvs.map (·.1)) = true)
    (hty : ∀ p ∈ tvs, Spec.argOK legacy p.1 p.2)
    (h : Base.marshalLoop legacy 0 0 false tvs = .ok bs) :
    Spec.argsWire legacy (tvs.length + 1) tvs = some bs :=
  (loop_ref legacy tvs hty).1 0 0 bs _ hrun (by omega) h

/-! ## the property list and the content header -/

/-- a flag bit not yet present adds like it ORs -/
theorem add_flag (x k : Nat) (hx : x < 65536) (hk : k ≤ 15) (hbit : x.testBit k = false) :
    2 ^ k + x = x ||| 2 ^ k := by
  have hk16 : 2 ^ k < 2 ^ 16 := Nat.pow_lt_pow_right (by omega) (by omega)
  have hdis : 2 ^ k &&& x = 0 := by
    apply Nat.eq_of_testBit_eq; intro i
    rw [Nat.testBit_and, Nat.testBit_two_pow, Nat.zero_testBit]
    by_cases hi : k = i
    · subst hi; simp [hbit]
    · simp [hi]
  rw [add_eq_or_of_and_eq_zero _ _ 16 hk16 (by simpa using hx) hdis, Nat.or_comm]

theorem props_ref (legacy : Bool) (l : List (PropSpec × PyVal)) (hin : FlagsIn l)
    (hnd : (l.map (·.1.flag)).Nodup) (hok : Spec.propsOK legacy l) (fl : Nat) (parts : Bytes)
    (h : Base.propParts legacy l = .ok (fl, parts)) :
    Spec.propsWire legacy l = some (fl, parts) ∧ fl = setFlags l := by
  induction l generalizing fl parts with
  | nil =>
    simp only [Base.propParts] at h; cases h
    exact ⟨rfl, rfl⟩
  | cons pv l ih =>
    obtain ⟨p, v⟩ := pv
    simp only [List.map_cons, List.nodup_cons] at hnd
    cases hs : Base.isSet v
    · simp only [Base.propParts, hs, Bool.false_eq_true, if_false] at h
      obtain ⟨h1, h2⟩ := ih hin.tail hnd.2 hok.2 fl parts h
      exact ⟨by simp only [Spec.propsWire, hs, Bool.false_eq_true, if_false, h1],
        by simp only [setFlags, hs, Bool.false_eq_true, if_false, h2]⟩
    · simp only [Base.propParts, hs, if_true] at h
      obtain ⟨e, he, h⟩ := bind_ok h
      obtain ⟨⟨fl0, t⟩, hr, h⟩ := bind_ok h
      cases h
      obtain ⟨h1, h2⟩ := ih hin.tail hnd.2 hok.2 fl0 t hr
      have hargok : Spec.argOK legacy p.ty v := by
        rcases hok.1 with h | h
        · rw [hs] at h; cases h
        · exact h
      obtain ⟨k, hk2, hk15, hk⟩ := hin (p, v) List.mem_cons_self
      simp only at hk
      have habs : (setFlags l).testBit k = false := setFlags_absent l hin.tail k (hk ▸ hnd.1)
      have hadd : p.flag + fl0 = fl0 ||| p.flag := by
        rw [hk, h2]; exact add_flag _ k (setFlags_lt l hin.tail) hk15 habs
      refine ⟨?_, by simp only [setFlags, hs, if_true, h2]⟩
      simp only [Spec.propsWire, hs, if_true, arg_ref legacy p.ty v e he hargok, h1, hadd]

theorem header_payload_layout (legacy : Bool) (cat : Cat) (hwf : Spec.flagsWF cat.props = true)
    (hcls : cat.basicClassId < 65536) (size : Nat) (hs : size < 2 ^ 64) (vals : List PyVal)
    (hlen : vals.length = cat.props.length) (hok : Spec.propsOK legacy (cat.props.zip vals)) (bs : Bytes)
    (h : Frame.headerPayload legacy cat (.int size) vals = .ok bs) :
    ∃ fl parts, Spec.propsWire legacy (cat.props.zip vals) = some (fl, parts) ∧ fl < 65536 ∧
      bs = beN 2 cat.basicClassId ++ [0, 0] ++ beN 8 size ++ beN 2 fl ++ parts := by
  obtain ⟨hall, hnd⟩ := flagsWF_elim cat.props hwf
  have hin : FlagsIn (cat.props.zip vals) :=
    fun pv hm => (hall pv.1 (List.of_mem_zip (a := pv.1) (b := pv.2) hm).1).1
  have hnd' : ((cat.props.zip vals).map (·.1.flag)).Nodup := by
    have : (cat.props.zip vals).map (·.1.flag) = ((cat.props.zip vals).map Prod.fst).map (·.flag) := by simp
    rw [this, List.map_fst_zip (by omega)]
    exact hnd
  have hc : packU16 (cat.basicClassId : Int) = .ok (beN 2 cat.basicClassId) :=
    packInt_nat 2 65535 _ (by omega) (by omega)
  have hsz : packU64 (size : Int) = .ok (beN 8 size) :=
    packInt_nat 8 18446744073709551615 _ (by omega) (by omega)
  simp only [Frame.headerPayload, hc, PyVal.asInt?, hsz, Base.propsMarshal, bind, Except.bind] at h
  cases hp : Base.propParts legacy (cat.props.zip vals) with
  | error e => rw [hp] at h; cases h
  | ok r =>
    obtain ⟨fl, parts⟩ := r
    rw [hp] at h
    obtain ⟨hw, hfl⟩ := props_ref legacy _ hin hnd' hok fl parts hp
    have hflt : fl < 65536 := hfl ▸ setFlags_lt _ hin
    have hfw : Base.flagWords (fl + 1) fl = .ok (beN 2 fl) :=
      flagWords_single fl hflt (hfl ▸ setFlags_and_mask _ hin)
    simp only [hfw, pure, Except.pure] at h
    cases h
    exact ⟨fl, parts, hw, hflt, by simp only [List.append_assoc]⟩

/-! ## sortedness on the `Encodable` domain -/

theorem value_sorted (legacy : Bool) (v : PyVal) (h : Spec.Encodable legacy v) :
    ∃ fv, Spec.lower legacy v = some fv ∧ fv.Sorted := by
  obtain ⟨bs, hb, _⟩ := RoundTrip.value_roundtrip legacy v h []
  obtain ⟨fv, h1, _, _, _, h5⟩ := value_ref legacy v bs hb (keysDistinct_of_encodable legacy v h)
  exact ⟨fv, h1, h5 h⟩

end Pamqp.Proofs.Refine
