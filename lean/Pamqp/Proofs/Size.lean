import Pamqp.Proofs.Budget
/-!
# Size: the decoded value is no larger than the input (C08_result_size), for the model in which
`tblLoop` returns the offset actually reached (D11 repaired)
-/
namespace Pamqp.Proofs
open Pamqp Pamqp.Decode

/-! ## UTF-8: a decoded string has at most as many code points as bytes -/

theorem utf8Dec1_length {l r : List Nat} {c : Nat} (h : utf8Dec1 l = some (c, r)) :
    r.length < l.length := by
  unfold utf8Dec1 at h
  split at h
  · simp only [reduceCtorEq] at h
  · repeat' split at h
    all_goals try (dsimp only at h; split at h)
    all_goals first
      | (simp only [reduceCtorEq] at h; done)
      | (simp only [Option.some.injEq, Prod.mk.injEq] at h
         obtain ⟨_, rfl⟩ := h
         simp only [List.length_cons]; omega)

theorem utf8DecNat_length (f : Nat) (l : List Nat) (s : Str) (h : utf8DecNat f l = some s) :
    s.length ≤ l.length := by
  induction f generalizing l s with
  | zero =>
    cases l with
    | nil => simp only [utf8DecNat, Option.some.injEq] at h; subst h; simp
    | cons a l => simp [utf8DecNat] at h
  | succ f ih =>
    cases l with
    | nil => simp only [utf8DecNat, Option.some.injEq] at h; subst h; simp
    | cons a l =>
      simp only [utf8DecNat] at h
      cases h1 : utf8Dec1 (a :: l) with
      | none => rw [h1] at h; cases h
      | some p =>
        obtain ⟨c, r⟩ := p
        rw [h1] at h
        simp only at h
        cases h2 : utf8DecNat f r with
        | none => rw [h2] at h; cases h
        | some cs =>
          rw [h2] at h
          simp only [Option.some.injEq] at h
          subst h
          have := ih r cs h2
          have := utf8Dec1_length h1
          simp only [List.length_cons] at *
          omega

theorem utf8Decode_length {raw : Bytes} {s : Str} (h : utf8Decode raw = some s) :
    s.length ≤ raw.length := by
  have := utf8DecNat_length _ _ _ h
  simpa using this

theorem slice_length (v : Bytes) (a b : Nat) : (slice v a b).length = min (b - a) (v.length - a) := by
  simp [slice]

/-! ## an abstract node count (instantiated with `Props.nodes` in Props/C08.lean) -/

structure NodeSize where
  sz : PyVal → Nat
  szL : List PyVal → Nat
  szE : List (Str × PyVal) → Nat
  sz_list : ∀ vs, sz (.list vs) = 1 + szL vs
  sz_dict : ∀ kvs, sz (.dict kvs) = 1 + szE kvs
  sz_str : ∀ s, sz (.str s) = 1 + s.length
  sz_bytes : ∀ b, sz (.bytes b) = 1 + b.length
  sz_bytearray : ∀ b, sz (.bytearray b) = 1 + b.length
  sz_none : sz .none = 1
  sz_bool : ∀ b, sz (.bool b) = 1
  sz_int : ∀ i, sz (.int i) = 1
  sz_float : ∀ x, sz (.float x) = 1
  sz_decimal : ∀ a b c, sz (.decimal a b c) = 1
  sz_datetime : ∀ a b, sz (.datetime a b) = 1
  szL_nil : szL [] = 0
  szL_cons : ∀ v vs, szL (v :: vs) = sz v + szL vs
  szE_nil : szE [] = 0
  szE_cons : ∀ k v es, szE ((k, v) :: es) = k.length + sz v + szE es

namespace NodeSize
variable (S : NodeSize)

theorem szL_append (a b : List PyVal) : S.szL (a ++ b) = S.szL a + S.szL b := by
  induction a with
  | nil => simp [S.szL_nil]
  | cons v vs ih => simp only [List.cons_append, S.szL_cons, ih]; omega

theorem szL_snoc (a : List PyVal) (v : PyVal) : S.szL (a ++ [v]) = S.szL a + S.sz v := by
  rw [S.szL_append, S.szL_cons, S.szL_nil]; omega

theorem szE_append (a b : List (Str × PyVal)) : S.szE (a ++ b) = S.szE a + S.szE b := by
  induction a with
  | nil => simp [S.szE_nil]
  | cons e es ih => obtain ⟨k, v⟩ := e; simp only [List.cons_append, S.szE_cons, ih]; omega

theorem map_replace_of_not_mem (d : List (Str × PyVal)) (k : Str) (v : PyVal)
    (h : k ∉ d.map (·.1)) : d.map (fun e => if e.1 == k then (k, v) else e) = d := by
  induction d with
  | nil => rfl
  | cons e es ih =>
    simp only [List.map_cons, List.mem_cons, not_or] at h
    have hne : ¬ ((e.1 == k) = true) := by
      intro hh; exact h.1 (beq_iff_eq.mp hh).symm
    simp only [List.map_cons, hne, Bool.false_eq_true, ↓reduceIte, ih h.2]

theorem szE_replace (d : List (Str × PyVal)) (k : Str) (v : PyVal)
    (hd : (d.map (·.1)).Nodup) :
    S.szE (d.map (fun e => if e.1 == k then (k, v) else e)) ≤ S.szE d + S.sz v := by
  induction d with
  | nil => simp [S.szE_nil]
  | cons e es ih =>
    obtain ⟨k', v'⟩ := e
    simp only [List.map_cons, List.nodup_cons] at hd
    simp only [List.map_cons]
    by_cases hk : (k' == k) = true
    · have hkk : k' = k := by simpa using hk
      subst hkk
      simp only [hk, if_true, S.szE_cons]
      rw [map_replace_of_not_mem es k' v hd.1]
      omega
    · simp only [hk, Bool.false_eq_true, ↓reduceIte, S.szE_cons]
      have := ih hd.2
      omega

theorem keys_replace (d : List (Str × PyVal)) (k : Str) (v : PyVal) :
    (d.map (fun e => if e.1 == k then (k, v) else e)).map (·.1) = d.map (·.1) := by
  induction d with
  | nil => rfl
  | cons e es ih =>
    simp only [List.map_cons, ih, List.cons.injEq, and_true]
    by_cases hk : (e.1 == k) = true
    · simp only [hk, if_true]; exact (beq_iff_eq.mp hk).symm
    · simp only [hk, Bool.false_eq_true, ↓reduceIte]

/-- `data[key] = result` keeps the keys distinct -/
theorem dictSet_nodup (d : List (Str × PyVal)) (k : Str) (v : PyVal)
    (hd : (d.map (·.1)).Nodup) : ((dictSet d k v).map (·.1)).Nodup := by
  unfold dictSet
  split
  · rw [keys_replace]; exact hd
  · rename_i hany
    rw [List.map_append, List.nodup_append]
    refine ⟨hd, by simp, ?_⟩
    intro a ha b hb
    simp only [List.map_cons, List.map_nil, List.mem_singleton] at hb
    subst hb
    intro hab; subst hab
    apply hany
    simp only [List.mem_map] at ha
    obtain ⟨e, he, hek⟩ := ha
    simp only [List.any_eq_true]
    exact ⟨e, he, by simpa using hek⟩

/-- `data[key] = result` adds at most the new entry -/
theorem szE_dictSet (d : List (Str × PyVal)) (k : Str) (v : PyVal)
    (hd : (d.map (·.1)).Nodup) :
    S.szE (dictSet d k v) ≤ S.szE d + k.length + S.sz v := by
  unfold dictSet
  split
  · have := S.szE_replace d k v hd; omega
  · rw [S.szE_append, S.szE_cons, S.szE_nil]; omega

end NodeSize

/-! ## primitives -/

theorem bind_pure_ok {α β} {a : R α} {g : α → β} {y : β}
    (h : (do let x ← a; pure (g x) : R β) = .ok y) : ∃ x, a = .ok x ∧ y = g x := by
  cases a with
  | error e' => simp only [bind, Except.bind] at h; cases h
  | ok x => simp only [bind, Except.bind, pure, Except.pure, Except.ok.injEq] at h; exact ⟨x, rfl, h.symm⟩

/-- every non-container entry of `TABLE_MAPPING`: the value is no larger than the bytes it was
read from (`min` because the consumed count may exceed the bytes present: permissive slices) -/
theorem tablePrim_size (S : NodeSize) {t : UInt8} {dec : Bytes → R (Nat × PyVal)}
    (ht : tablePrim t = some dec) {r : Bytes} {c : Nat} {v : PyVal} (h : dec r = .ok (c, v)) :
    S.sz v ≤ min c r.length + 1 := by
  have scalar : S.sz v = 1 → S.sz v ≤ min c r.length + 1 := by omega
  unfold tablePrim at ht
  -- boolean
  rcases ite_some_cases ht with rfl | ht
  · unfold boolean at h; split at h
    · cases h
    · simp only [Except.ok.injEq, Prod.mk.injEq] at h; obtain ⟨_, rfl⟩ := h; exact scalar (S.sz_bool _)
  -- the integer types
  iterate 8
    (rcases ite_some_cases ht with rfl | ht
     · obtain ⟨x, _, hy⟩ := bind_pure_ok h
       simp only [Prod.mk.injEq] at hy; obtain ⟨_, rfl⟩ := hy; exact scalar (S.sz_int _))
  -- float, double
  iterate 2
    (rcases ite_some_cases ht with rfl | ht
     · obtain ⟨x, _, hy⟩ := bind_pure_ok h
       simp only [Prod.mk.injEq] at hy; obtain ⟨_, rfl⟩ := hy; exact scalar (S.sz_float _))
  -- decimal
  rcases ite_some_cases ht with rfl | ht
  · unfold decimal at h
    cases h1 : unpackU 1 r with
    | error e => rw [h1] at h; simp only [bind, Except.bind] at h; cases h
    | ok d =>
      rw [h1] at h; simp only [bind, Except.bind] at h
      cases h2 : unpackS 4 (r.drop 1) with
      | error e => rw [h2] at h; cases h
      | ok x =>
        rw [h2] at h
        simp only [pure, Except.pure, Except.ok.injEq, Prod.mk.injEq] at h
        obtain ⟨_, rfl⟩ := h; exact scalar (S.sz_decimal _ _ _)
  -- longStr
  rcases ite_some_cases ht with rfl | ht
  · unfold longStr at h
    cases h1 : unpackU 4 r with
    | error e => rw [h1] at h; simp only [bind, Except.bind] at h; cases h
    | ok len =>
      have h4 := (unpackU_ok h1).1
      rw [h1] at h; simp only [bind, Except.bind, pure, Except.pure] at h
      split at h
      · rename_i s hs
        simp only [Except.ok.injEq, Prod.mk.injEq] at h
        obtain ⟨rfl, rfl⟩ := h
        have := utf8Decode_length hs
        rw [slice_length] at this
        rw [S.sz_str]; omega
      · simp only [Except.ok.injEq, Prod.mk.injEq] at h
        obtain ⟨rfl, rfl⟩ := h
        rw [S.sz_bytes, slice_length]; omega
  -- timestamp
  rcases ite_some_cases ht with rfl | ht
  · unfold timestamp at h
    cases h1 : unpackU 8 r with
    | error e => rw [h1] at h; simp only [bind, Except.bind] at h; cases h
    | ok ts =>
      rw [h1] at h; simp only [bind, Except.bind, pure, Except.pure] at h
      split at h
      · split at h
        · cases h
        · simp only [Except.ok.injEq, Prod.mk.injEq] at h
          obtain ⟨_, rfl⟩ := h; exact scalar (S.sz_datetime _ _)
      · simp only [Except.ok.injEq, Prod.mk.injEq] at h
        obtain ⟨_, rfl⟩ := h; exact scalar (S.sz_datetime _ _)
  -- void, void
  iterate 2
    (rcases ite_some_cases ht with rfl | ht
     · simp only [void, Except.ok.injEq, Prod.mk.injEq] at h
       obtain ⟨_, rfl⟩ := h; exact scalar S.sz_none)
  -- byteArray
  rcases ite_some_cases ht with rfl | ht
  · obtain ⟨len, h1, hy⟩ := bind_pure_ok h
    have h4 := (unpackU_ok h1).1
    simp only [Prod.mk.injEq] at hy
    obtain ⟨rfl, rfl⟩ := hy
    rw [S.sz_bytearray, slice_length]; omega
  cases ht

/-! ## the recursive decoders -/

/-- size invariant of the five mutually recursive decoders; `min · value.length` because a
consumed count may exceed the bytes present -/
theorem size_invariant (S : NodeSize) (f : Nat) :
    (∀ bs c v, embedded f bs = .ok (c, v) → bs ≠ [] → S.sz v ≤ min c bs.length) ∧
    (∀ value c v, fieldArray f value = .ok (c, v) → S.sz v ≤ min c value.length + 1) ∧
    (∀ value fin offset acc c v, arrLoop f value fin offset acc = .ok (c, v) →
        offset ≤ c ∧ S.sz v + min offset value.length ≤ 1 + S.szL acc + min c value.length) ∧
    (∀ value c v, fieldTable f value = .ok (c, v) → S.sz v ≤ min c value.length + 1) ∧
    (∀ value fin offset acc c v, tblLoop f value fin offset acc = .ok (c, v) →
        (acc.map (·.1)).Nodup →
        offset ≤ c ∧ S.sz v + min offset value.length ≤ 1 + S.szE acc + min c value.length) := by
  induction f with
  | zero =>
    refine ⟨?_, ?_, ?_, ?_, ?_⟩
    · intro bs c v h; simp only [embedded] at h; cases h
    · intro value c v h; simp only [fieldArray] at h; cases h
    · intro value fin offset acc c v h; simp only [arrLoop] at h; cases h
    · intro value c v h; simp only [fieldTable] at h; cases h
    · intro value fin offset acc c v h; simp only [tblLoop] at h; cases h
  | succ f ih =>
    obtain ⟨ihE, ihA, ihAL, ihT, ihTL⟩ := ih
    refine ⟨?_, ?_, ?_, ?_, ?_⟩
    · intro bs c v h hne
      cases bs with
      | nil => exact absurd rfl hne
      | cons t r =>
        obtain ⟨c0, rfl, h1 | h1 | h1⟩ := embedded_cons_ok h
        · have := ihA _ _ _ h1.2
          simp only [List.length_cons]; omega
        · have := ihT _ _ _ h1.2.2
          simp only [List.length_cons]; omega
        · obtain ⟨_, _, dec, hd, hr⟩ := h1
          have := tablePrim_size S hd hr
          simp only [List.length_cons]; omega
    · intro value c v h
      simp only [fieldArray] at h
      cases hu : unpackU 4 value with
      | error e => rw [hu] at h; simp only [bind, Except.bind] at h; cases h
      | ok len =>
        have h4 := (unpackU_ok hu).1
        rw [hu] at h; simp only [bind, Except.bind] at h
        have := ihAL _ _ _ _ _ _ h
        rw [S.szL_nil] at this
        omega
    · intro value fin offset acc c v h
      simp only [arrLoop] at h
      split at h
      · cases hx : embedded f (value.drop offset) with
        | error e => rw [hx] at h; simp only [bind, Except.bind] at h; cases h
        | ok p =>
          obtain ⟨c1, v1⟩ := p
          rw [hx] at h; simp only [bind, Except.bind] at h
          split at h
          · cases h
          · rename_i hc
            have hlen : offset < value.length := by
              apply Classical.byContradiction
              intro hge
              have : value.drop offset = [] := List.drop_eq_nil_of_le (by omega)
              rw [this] at hx
              exact hc (embedded_nil hx).1
            have hne : value.drop offset ≠ [] := by
              intro h0
              have := congrArg List.length h0
              simp only [List.length_drop, List.length_nil] at this; omega
            have h1 := ihE _ _ _ hx hne
            simp only [List.length_drop] at h1
            have h2 := ihAL _ _ _ _ _ _ h
            rw [S.szL_snoc] at h2
            omega
      · simp only [Except.ok.injEq, Prod.mk.injEq] at h
        obtain ⟨rfl, rfl⟩ := h
        rw [S.sz_list]; omega
    · intro value c v h
      simp only [fieldTable] at h
      cases hu : unpackU 4 value with
      | error e => rw [hu] at h; simp only [bind, Except.bind] at h; cases h
      | ok len =>
        have h4 := (unpackU_ok hu).1
        rw [hu] at h; simp only [bind, Except.bind] at h
        have := ihTL _ _ _ _ _ _ h (by simp)
        rw [S.szE_nil] at this
        omega
    · intro value fin offset acc c v h hnd
      simp only [tblLoop] at h
      split at h
      · split at h
        · cases h
        · split at h
          · cases h
          · rename_i _ kl rest hd _ key hk
            have hlen : offset < value.length := by
              have : (value.drop offset).length = (kl :: rest).length := by rw [hd]
              simp only [List.length_drop, List.length_cons] at this; omega
            have hkey := utf8Decode_length hk
            rw [slice_length] at hkey
            cases hx : embedded f (value.drop (offset + 1 + kl.toNat)) with
            | error e => rw [hx] at h; simp only [bind, Except.bind] at h; cases h
            | ok p =>
              obtain ⟨c1, v1⟩ := p
              rw [hx] at h; simp only [bind, Except.bind] at h
              have h2 := ihTL _ _ _ _ _ _ h (NodeSize.dictSet_nodup acc key v1 hnd)
              have h3 := S.szE_dictSet acc key v1 hnd
              by_cases hemp : value.drop (offset + 1 + kl.toNat) = []
              · rw [hemp] at hx
                obtain ⟨rfl, rfl⟩ := embedded_nil hx
                have hl := congrArg List.length hemp
                simp only [List.length_drop, List.length_nil] at hl
                have := S.sz_none
                omega
              · have h1 := ihE _ _ _ hx hemp
                have hl : offset + 1 + kl.toNat < value.length := by
                  apply Classical.byContradiction
                  intro hge
                  exact hemp (List.drop_eq_nil_of_le (by omega))
                simp only [List.length_drop] at h1
                omega
      · simp only [Except.ok.injEq, Prod.mk.injEq] at h
        obtain ⟨rfl, rfl⟩ := h
        rw [S.sz_dict]; omega

/-- memory: the decoded value is no larger than the input -/
theorem result_size (S : NodeSize) (f : Nat) (bs : Bytes) (c : Nat) (v : PyVal)
    (h : embedded f bs = .ok (c, v)) : S.sz v ≤ bs.length + 1 := by
  by_cases hb : bs = []
  · subst hb
    rw [(embedded_nil h).2, S.sz_none]; simp
  · have := (size_invariant S f).1 bs c v h hb
    omega

end Pamqp.Proofs
