import Pamqp.Model.Api
import Pamqp.Proofs.Bytes
/-!
# The integer ladder of `table_integer` (C11)

The property file defines `firstFit`/`ladder`/`flagAfter`; since a proof file cannot import the
property file, the lemmas here are stated against the unfolded right-hand sides (nested `if`s)
and against an abstract flag function.
-/
namespace Pamqp
namespace Ladder
open Encode

theorem guardedInt_int (lo hi : Int) (pack : Int → R Bytes) (v : Int) :
    guardedInt lo hi pack (.int v) = if lo ≤ v ∧ v ≤ hi then pack v else .error .typeError := rfl

theorem guardedInt_int_in (lo hi : Int) (pack : Int → R Bytes) (v : Int) (h : lo ≤ v ∧ v ≤ hi) :
    guardedInt lo hi pack (.int v) = pack v := by
  rw [guardedInt_int, if_pos h]

theorem guardedInt_int_out (lo hi : Int) (pack : Int → R Bytes) (v : Int) (h : ¬ (lo ≤ v ∧ v ≤ hi)) :
    guardedInt lo hi pack (.int v) = .error .typeError := by
  rw [guardedInt_int, if_neg h]

/-! ## the fixed-width encoders on ints -/

theorem packI8_in (v : Int) (h : -128 ≤ v ∧ v ≤ 127) :
    packI8 v = .ok (beN 1 (v % (256 ^ 1 : Nat)).toNat) := packInt_of_range _ _ _ _ h.1 h.2

theorem shortInt_in (v : Int) (h : -32768 ≤ v ∧ v ≤ 32767) :
    shortInt (.int v) = .ok (beN 2 (v % (256 ^ 2 : Nat)).toNat) := by
  unfold shortInt; rw [guardedInt_int_in _ _ _ _ h]; exact packInt_of_range _ _ _ _ h.1 h.2

theorem shortUint_in (v : Int) (h : 0 ≤ v ∧ v ≤ 65535) :
    shortUint (.int v) = .ok (beN 2 (v % (256 ^ 2 : Nat)).toNat) := by
  unfold shortUint; rw [guardedInt_int_in _ _ _ _ h]; exact packInt_of_range _ _ _ _ h.1 h.2

theorem longInt_in (v : Int) (h : -2147483648 ≤ v ∧ v ≤ 2147483647) :
    longInt (.int v) = .ok (beN 4 (v % (256 ^ 4 : Nat)).toNat) := by
  unfold longInt; rw [guardedInt_int_in _ _ _ _ h]; exact packInt_of_range _ _ _ _ h.1 h.2

theorem longUint_in (v : Int) (h : 0 ≤ v ∧ v ≤ 4294967295) :
    longUint (.int v) = .ok (beN 4 (v % (256 ^ 4 : Nat)).toNat) := by
  unfold longUint; rw [guardedInt_int_in _ _ _ _ h]; exact packInt_of_range _ _ _ _ h.1 h.2

theorem longLongInt_in (v : Int) (h : -9223372036854775808 ≤ v ∧ v ≤ 9223372036854775807) :
    longLongInt (.int v) = .ok (beN 8 (v % (256 ^ 8 : Nat)).toNat) := by
  unfold longLongInt; rw [guardedInt_int_in _ _ _ _ h]; exact packInt_of_range _ _ _ _ h.1 h.2

theorem shortInt_out (v : Int) (h : ¬ (-32768 ≤ v ∧ v ≤ 32767)) :
    shortInt (.int v) = .error .typeError := guardedInt_int_out _ _ _ _ h

theorem shortUint_out (v : Int) (h : ¬ (0 ≤ v ∧ v ≤ 65535)) :
    shortUint (.int v) = .error .typeError := guardedInt_int_out _ _ _ _ h

theorem longInt_out (v : Int) (h : ¬ (-2147483648 ≤ v ∧ v ≤ 2147483647)) :
    longInt (.int v) = .error .typeError := guardedInt_int_out _ _ _ _ h

theorem longUint_out (v : Int) (h : ¬ (0 ≤ v ∧ v ≤ 4294967295)) :
    longUint (.int v) = .error .typeError := guardedInt_int_out _ _ _ _ h

theorem longLongInt_out (v : Int) (h : ¬ (-9223372036854775808 ≤ v ∧ v ≤ 9223372036854775807)) :
    longLongInt (.int v) = .error .typeError := guardedInt_int_out _ _ _ _ h

theorem fixed_width_guards (n : Int) :
    (¬ (-32768 ≤ n ∧ n ≤ 32767) → shortInt (.int n) = .error .typeError) ∧
    (¬ (0 ≤ n ∧ n ≤ 65535) → shortUint (.int n) = .error .typeError) ∧
    (¬ (-2147483648 ≤ n ∧ n ≤ 2147483647) → longInt (.int n) = .error .typeError) ∧
    (¬ (0 ≤ n ∧ n ≤ 4294967295) → longUint (.int n) = .error .typeError) ∧
    (¬ (-9223372036854775808 ≤ n ∧ n ≤ 9223372036854775807) →
      longLongInt (.int n) = .error .typeError) :=
  ⟨shortInt_out n, shortUint_out n, longInt_out n, longUint_out n, longLongInt_out n⟩

theorem fixed_width_accept (n : Int) :
    (-32768 ≤ n ∧ n ≤ 32767 → ∃ bs, shortInt (.int n) = .ok bs ∧ bs.length = 2) ∧
    (0 ≤ n ∧ n ≤ 65535 → ∃ bs, shortUint (.int n) = .ok bs ∧ bs.length = 2) ∧
    (-2147483648 ≤ n ∧ n ≤ 2147483647 → ∃ bs, longInt (.int n) = .ok bs ∧ bs.length = 4) ∧
    (0 ≤ n ∧ n ≤ 4294967295 → ∃ bs, longUint (.int n) = .ok bs ∧ bs.length = 4) ∧
    (-9223372036854775808 ≤ n ∧ n ≤ 9223372036854775807 →
      ∃ bs, longLongInt (.int n) = .ok bs ∧ bs.length = 8) :=
  ⟨fun h => ⟨_, shortInt_in n h, beN_length _ _⟩, fun h => ⟨_, shortUint_in n h, beN_length _ _⟩,
   fun h => ⟨_, longInt_in n h, beN_length _ _⟩, fun h => ⟨_, longUint_in n h, beN_length _ _⟩,
   fun h => ⟨_, longLongInt_in n h, beN_length _ _⟩⟩

/-! ## the ladder, both modes, as first-fit chains -/

theorem map_ok (f : Bytes → Bytes) (b : Bytes) : (Except.ok b : R Bytes).map f = .ok (f b) := rfl

/-- full ladder `b s u I i l` -/
theorem tableInteger_full (n : Int) :
    tableInteger false n =
      if -128 ≤ n ∧ n ≤ 127 then .ok (98 :: beN 1 (n % (256 ^ 1 : Nat)).toNat)
      else if -32768 ≤ n ∧ n ≤ 32767 then .ok (115 :: beN 2 (n % (256 ^ 2 : Nat)).toNat)
      else if 0 ≤ n ∧ n ≤ 65535 then .ok (117 :: beN 2 (n % (256 ^ 2 : Nat)).toNat)
      else if -2147483648 ≤ n ∧ n ≤ 2147483647 then .ok (73 :: beN 4 (n % (256 ^ 4 : Nat)).toNat)
      else if 0 ≤ n ∧ n ≤ 4294967295 then .ok (105 :: beN 4 (n % (256 ^ 4 : Nat)).toNat)
      else if -9223372036854775808 ≤ n ∧ n ≤ 9223372036854775807 then
        .ok (108 :: beN 8 (n % (256 ^ 8 : Nat)).toNat)
      else .error .typeError := by
  unfold tableInteger
  simp only [Bool.false_eq_true, if_false]
  by_cases h1 : -128 ≤ n ∧ n ≤ 127
  · rw [if_pos h1, if_pos h1, packI8_in n h1, map_ok]
  rw [if_neg h1, if_neg h1]
  by_cases h2 : -32768 ≤ n ∧ n ≤ 32767
  · rw [if_pos h2, if_pos h2, shortInt_in n h2, map_ok]
  rw [if_neg h2, if_neg h2]
  by_cases h3 : 0 ≤ n ∧ n ≤ 65535
  · rw [if_pos h3, if_pos h3, shortUint_in n h3, map_ok]
  rw [if_neg h3, if_neg h3]
  by_cases h4 : -2147483648 ≤ n ∧ n ≤ 2147483647
  · rw [if_pos h4, if_pos h4, longInt_in n h4, map_ok]
  rw [if_neg h4, if_neg h4]
  by_cases h5 : 0 ≤ n ∧ n ≤ 4294967295
  · rw [if_pos h5, if_pos h5, longUint_in n h5, map_ok]
  rw [if_neg h5, if_neg h5]
  by_cases h6 : -9223372036854775808 ≤ n ∧ n ≤ 9223372036854775807
  · rw [if_pos h6, if_pos h6, longLongInt_in n h6, map_ok]
  rw [if_neg h6, if_neg h6]

/-- legacy ladder `b s I l` -/
theorem tableInteger_legacy (n : Int) :
    tableInteger true n =
      if -128 ≤ n ∧ n ≤ 127 then .ok (98 :: beN 1 (n % (256 ^ 1 : Nat)).toNat)
      else if -32768 ≤ n ∧ n ≤ 32767 then .ok (115 :: beN 2 (n % (256 ^ 2 : Nat)).toNat)
      else if -2147483648 ≤ n ∧ n ≤ 2147483647 then .ok (73 :: beN 4 (n % (256 ^ 4 : Nat)).toNat)
      else if -9223372036854775808 ≤ n ∧ n ≤ 9223372036854775807 then
        .ok (108 :: beN 8 (n % (256 ^ 8 : Nat)).toNat)
      else .error .typeError := by
  unfold tableInteger
  simp only [if_true]
  by_cases h1 : -128 ≤ n ∧ n ≤ 127
  · rw [if_pos h1, if_pos h1, packI8_in n h1, map_ok]
  rw [if_neg h1, if_neg h1]
  by_cases h2 : -32768 ≤ n ∧ n ≤ 32767
  · rw [if_pos h2, if_pos h2, shortInt_in n h2, map_ok]
  rw [if_neg h2, if_neg h2]
  by_cases h4 : -2147483648 ≤ n ∧ n ≤ 2147483647
  · rw [if_pos h4, if_pos h4, longInt_in n h4, map_ok]
  rw [if_neg h4, if_neg h4]
  by_cases h6 : -9223372036854775808 ≤ n ∧ n ≤ 9223372036854775807
  · rw [if_pos h6, if_pos h6, longLongInt_in n h6, map_ok]
  rw [if_neg h6, if_neg h6]

/-- both modes accept exactly the signed 64-bit range -/
theorem tableInteger_domain (legacy : Bool) (n : Int) :
    (-9223372036854775808 ≤ n ∧ n ≤ 9223372036854775807 → ∃ bs, tableInteger legacy n = .ok bs) ∧
    (¬ (-9223372036854775808 ≤ n ∧ n ≤ 9223372036854775807) →
      tableInteger legacy n = .error .typeError) := by
  cases legacy
  · rw [tableInteger_full]
    constructor
    · intro h
      split; · exact ⟨_, rfl⟩
      split; · exact ⟨_, rfl⟩
      split; · exact ⟨_, rfl⟩
      split; · exact ⟨_, rfl⟩
      split; · exact ⟨_, rfl⟩
      exact ⟨_, rfl⟩
    · intro h
      rw [if_neg (by omega), if_neg (by omega), if_neg (by omega), if_neg (by omega),
        if_neg (by omega), if_neg h]
  · rw [tableInteger_legacy]
    constructor
    · intro h
      split; · exact ⟨_, rfl⟩
      split; · exact ⟨_, rfl⟩
      split; · exact ⟨_, rfl⟩
      exact ⟨_, rfl⟩
    · intro h
      rw [if_neg (by omega), if_neg (by omega), if_neg (by omega), if_neg h]

/-! ## the mode switch -/

theorem run_append (cat : Cat) (s : Api.State) (ops₁ ops₂ : List Api.Op) :
    Api.run cat s (ops₁ ++ ops₂) =
      Api.run cat s ops₁ ++ Api.run cat (ops₁.foldl (fun s op => (Api.step cat s op).1) s) ops₂ := by
  induction ops₁ generalizing s with
  | nil => rfl
  | cons op ops ih => simp only [List.cons_append, Api.run, List.foldl_cons, ih]

/-- the last output of a run that ends with `encode_table_value(int)` is the ladder of the flag
value reached by then. `fa` is any function that tracks the flag through `Api.step`. -/
theorem run_toggle (cat : Cat) (fa : Bool → List Api.Op → Bool) (h0 : ∀ b, fa b [] = b)
    (hs : ∀ b op ops, fa b (op :: ops) = fa (Api.step cat ⟨b⟩ op).1.legacy ops)
    (s : Api.State) (ops : List Api.Op) (n : Int) :
    (Api.run cat s (ops ++ [.encodeValue (.int n)])).getLast? =
      some (.bytes (tableInteger (fa s.legacy ops) n)) := by
  induction ops generalizing s with
  | nil => simp [Api.run, Api.step, h0, tableValue]
  | cons op ops ih =>
    have hne : Api.run cat (Api.step cat s op).1 (ops ++ [.encodeValue (.int n)]) ≠ [] := by
      rw [run_append]; simp [Api.run]
    rw [hs]
    simp only [List.cons_append, Api.run]
    rw [List.getLast?_cons_of_ne_nil hne] <;> exact ih _

end Ladder
end Pamqp
