import Pamqp.Model.Float
/-!
# Bit-level facts about `f32Narrow` / `f32Widen`

* `f32Narrow_range`: what `f32Narrow` returns is a 32-bit pattern whose NaNs are quiet
* `f32Narrow_widen_of_range`: on such patterns, widen-then-narrow is the identity
* `f32Narrow_widen`: narrowing is idempotent on its own range (C02_float_idempotent)
-/
namespace Pamqp.Proofs.FloatLemmas
open Pamqp

/-- `f32Narrow` as a function of the three fields of the binary64 pattern -/
def narrowCore (s e f : Nat) : Option Nat :=
  if e = 0x7ff then
    if f = 0 then some (s * 2 ^ 31 + 0x7f800000)
    else some (s * 2 ^ 31 + 0x7f800000 + (0x400000 ||| (f / 2 ^ 29)))
  else if e = 0 ∧ f = 0 then some (s * 2 ^ 31)
  else
    let m := if e = 0 then f else 2 ^ 52 + f
    let shift := if e ≥ 897 then 29 else 29 + (897 - e)
    let q0 := if shift > 60 then 0 else m / 2 ^ shift
    let q :=
      if shift > 60 then 0
      else
        let r := m % 2 ^ shift
        let half := 2 ^ (shift - 1)
        if r > half ∨ (r = half ∧ q0 % 2 = 1) then q0 + 1 else q0
    let base := if e ≥ 897 then e - 897 else 0
    let res := base * 2 ^ 23 + q
    if res ≥ 0x7f800000 then none else some (s * 2 ^ 31 + res)

theorem f32Narrow_eq_core (bits : Nat) :
    f32Narrow bits = narrowCore (bits / 2 ^ 63 % 2) (bits / 2 ^ 52 % 2048) (bits % 2 ^ 52) := rfl

/-- `f32Widen` as a function of the three fields of the binary32 pattern -/
def widenCore (s e f : Nat) : Nat :=
  if e = 0xff then
    if f = 0 then s * 2 ^ 63 + 0x7ff * 2 ^ 52
    else s * 2 ^ 63 + 0x7ff * 2 ^ 52 + (2 ^ 51 ||| (f * 2 ^ 29))
  else if e = 0 then
    if f = 0 then s * 2 ^ 63
    else s * 2 ^ 63 + (1023 - 149 + Nat.log2 f) * 2 ^ 52 + (f * 2 ^ (52 - Nat.log2 f)) % 2 ^ 52
  else s * 2 ^ 63 + (e + 896) * 2 ^ 52 + f * 2 ^ 29

theorem f32Widen_eq_core (b : Nat) :
    f32Widen b = widenCore (b / 2 ^ 31 % 2) (b / 2 ^ 23 % 256) (b % 2 ^ 23) := rfl

/-- the fields of a binary64 pattern given as a sum -/
theorem fields64 (s E F : Nat) (hs : s < 2) (hE : E < 2048) (hF : F < 2 ^ 52) :
    (s * 2 ^ 63 + E * 2 ^ 52 + F) / 2 ^ 63 % 2 = s ∧
    (s * 2 ^ 63 + E * 2 ^ 52 + F) / 2 ^ 52 % 2048 = E ∧
    (s * 2 ^ 63 + E * 2 ^ 52 + F) % 2 ^ 52 = F := by
  simp only [Nat.reducePow] at hF ⊢
  omega

theorem f32Narrow_fields (s E F : Nat) (hs : s < 2) (hE : E < 2048) (hF : F < 2 ^ 52) :
    f32Narrow (s * 2 ^ 63 + E * 2 ^ 52 + F) = narrowCore s E F := by
  obtain ⟨h1, h2, h3⟩ := fields64 s E F hs hE hF
  rw [f32Narrow_eq_core, h1, h2, h3]

/-- `2^n ||| x = x` when bit `n` is the top bit of `x` -/
theorem two_pow_or_self (n x : Nat) (h1 : 2 ^ n ≤ x) (h2 : x < 2 ^ (n + 1)) : 2 ^ n ||| x = x := by
  have hy : x - 2 ^ n < 2 ^ n := by rw [Nat.pow_succ] at h2; omega
  have h := Nat.two_pow_add_eq_or_of_lt hy 1
  rw [Nat.mul_one] at h
  have hx : x = 2 ^ n + (x - 2 ^ n) := by omega
  rw [hx, h, ← Nat.or_assoc, Nat.or_self]

/-! ## the range of `f32Narrow` -/

/-- a result of `f32Narrow` is a 32-bit pattern, and if it is a NaN its quiet bit is set -/
theorem f32Narrow_range (bits b : Nat) (h : f32Narrow bits = some b) :
    b < 2 ^ 32 ∧ (b / 2 ^ 23 % 256 = 255 → b % 2 ^ 23 = 0 ∨ 2 ^ 22 ≤ b % 2 ^ 23) := by
  unfold f32Narrow at h
  extract_lets s e f m shift q0 r half q base res at h
  have hs : s < 2 := Nat.mod_lt _ (by decide)
  have hf : f < 2 ^ 52 := Nat.mod_lt _ (by decide)
  split at h
  · split at h
    · cases h
      simp only [Nat.reducePow]; omega
    · cases h
      have hf' : f / 2 ^ 29 < 2 ^ 23 := by simp only [Nat.reducePow] at hf ⊢; omega
      have h1 := Nat.or_lt_two_pow (x := 0x400000) (n := 23) (by decide) hf'
      have h2 : 0x400000 ≤ 0x400000 ||| f / 2 ^ 29 := Nat.left_le_or
      generalize 0x400000 ||| f / 2 ^ 29 = x at h1 h2
      simp only [Nat.reducePow] at h1 ⊢; omega
  · split at h
    · cases h; simp only [Nat.reducePow]; omega
    · split at h
      · cases h
      · cases h; simp only [Nat.reducePow]; omega

/-! ## widen-then-narrow on the four kinds of binary32 patterns -/

theorem narrow_widen_normal (s e f : Nat) (hs : s < 2) (he0 : e ≠ 0) (he : e < 255) (hf : f < 2 ^ 23) :
    f32Narrow (s * 2 ^ 63 + (e + 896) * 2 ^ 52 + f * 2 ^ 29) = some (s * 2 ^ 31 + e * 2 ^ 23 + f) := by
  have hF : f * 2 ^ 29 < 2 ^ 52 := by simp only [Nat.reducePow] at hf ⊢; omega
  rw [f32Narrow_fields s (e + 896) (f * 2 ^ 29) hs (by omega) hF]
  have h1 : ¬ (e + 896 = 0x7ff) := by omega
  have h2 : ¬ (e + 896 = 0 ∧ f * 2 ^ 29 = 0) := by omega
  have h3 : ¬ (e + 896 = 0) := by omega
  have h4 : e + 896 ≥ 897 := by omega
  simp only [narrowCore, h1, h3, h4, if_true, if_false]
  have h5 : ¬ (29 > 60) := by omega
  simp only [h5, if_false]
  have hq : (2 ^ 52 + f * 2 ^ 29) / 2 ^ 29 = 2 ^ 23 + f := by simp only [Nat.reducePow]; omega
  have hr : (2 ^ 52 + f * 2 ^ 29) % 2 ^ 29 = 0 := by simp only [Nat.reducePow]; omega
  rw [hq, hr]
  have h6 : ¬ (0 > 2 ^ (29 - 1) ∨ (0 = 2 ^ (29 - 1) ∧ (2 ^ 23 + f) % 2 = 1)) := by
    simp only [Nat.reducePow, Nat.reduceSub]; omega
  simp only [h6, if_false]
  have h7 : ¬ ((e + 896 - 897) * 2 ^ 23 + (2 ^ 23 + f) ≥ 0x7f800000) := by
    simp only [Nat.reducePow] at hf ⊢; omega
  simp only [h7, if_false]
  apply congrArg some
  simp only [Nat.reducePow]; omega

theorem narrow_widen_subnormal (s f : Nat) (hs : s < 2) (hf0 : f ≠ 0) (hf : f < 2 ^ 23) :
    f32Narrow (s * 2 ^ 63 + (1023 - 149 + Nat.log2 f) * 2 ^ 52 + (f * 2 ^ (52 - Nat.log2 f)) % 2 ^ 52) =
      some (s * 2 ^ 31 + f) := by
  have hk1 : 2 ^ Nat.log2 f ≤ f := Nat.log2_self_le hf0
  have hk2 : f < 2 ^ (Nat.log2 f + 1) := Nat.lt_log2_self
  have hk : Nat.log2 f < 23 := (Nat.log2_lt hf0).mpr hf
  generalize Nat.log2 f = k at hk1 hk2 hk
  have hF : (f * 2 ^ (52 - k)) % 2 ^ 52 < 2 ^ 52 := Nat.mod_lt _ (by decide)
  rw [f32Narrow_fields s (1023 - 149 + k) _ hs (by omega) hF]
  -- the scaled mantissa
  have hP : 0 < 2 ^ (52 - k) := Nat.pow_pos (by decide)
  have hlo : 2 ^ 52 ≤ f * 2 ^ (52 - k) := by
    have : 2 ^ k * 2 ^ (52 - k) = 2 ^ 52 := by rw [← Nat.pow_add]; congr 1; omega
    rw [← this]; exact Nat.mul_le_mul_right _ hk1
  have hhi : f * 2 ^ (52 - k) < 2 ^ 53 := by
    have : 2 ^ (k + 1) * 2 ^ (52 - k) = 2 ^ 53 := by rw [← Nat.pow_add]; congr 1; omega
    rw [← this]; exact Nat.mul_lt_mul_of_pos_right hk2 hP
  have hm : 2 ^ 52 + (f * 2 ^ (52 - k)) % 2 ^ 52 = f * 2 ^ (52 - k) := by
    generalize f * 2 ^ (52 - k) = x at hlo hhi
    simp only [Nat.reducePow] at hlo hhi ⊢; omega
  have h1 : ¬ (1023 - 149 + k = 0x7ff) := by omega
  have h2 : ¬ (1023 - 149 + k = 0 ∧ (f * 2 ^ (52 - k)) % 2 ^ 52 = 0) := by omega
  have h3 : ¬ (1023 - 149 + k = 0) := by omega
  have h4 : ¬ (1023 - 149 + k ≥ 897) := by omega
  have hsh : 29 + (897 - (1023 - 149 + k)) = 52 - k := by omega
  simp only [narrowCore, h1, h3, h4, if_false, hsh, hm]
  have h5 : ¬ (52 - k > 60) := by omega
  simp only [h5, if_false]
  rw [Nat.mul_div_cancel _ hP, Nat.mul_mod_left]
  have hhalf : 0 < 2 ^ (52 - k - 1) := Nat.pow_pos (by decide)
  have h6 : ¬ (0 > 2 ^ (52 - k - 1) ∨ (0 = 2 ^ (52 - k - 1) ∧ f % 2 = 1)) := by
    generalize 2 ^ (52 - k - 1) = hv at hhalf
    omega
  simp only [h6, if_false]
  have h7 : ¬ (0 * 2 ^ 23 + f ≥ 0x7f800000) := by simp only [Nat.reducePow] at hf ⊢; omega
  simp only [h7, if_false]
  apply congrArg some; omega

theorem narrow_widen_inf (s : Nat) (hs : s < 2) :
    f32Narrow (s * 2 ^ 63 + 0x7ff * 2 ^ 52) = some (s * 2 ^ 31 + 0x7f800000) := by
  have := f32Narrow_fields s 0x7ff 0 hs (by decide) (by decide)
  simp only [Nat.add_zero] at this
  rw [this]
  simp only [narrowCore, if_true]

theorem narrow_widen_zero (s : Nat) (hs : s < 2) :
    f32Narrow (s * 2 ^ 63) = some (s * 2 ^ 31) := by
  have := f32Narrow_fields s 0 0 hs (by decide) (by decide)
  simp only [Nat.zero_mul, Nat.add_zero] at this
  rw [this]
  simp [narrowCore]

theorem narrow_widen_nan (s f : Nat) (hs : s < 2) (hq : 2 ^ 22 ≤ f) (hf : f < 2 ^ 23) :
    f32Narrow (s * 2 ^ 63 + 0x7ff * 2 ^ 52 + (2 ^ 51 ||| (f * 2 ^ 29))) =
      some (s * 2 ^ 31 + 0x7f800000 + f) := by
  have hlo : 2 ^ 51 ≤ f * 2 ^ 29 := by simp only [Nat.reducePow] at hq ⊢; omega
  have hhi : f * 2 ^ 29 < 2 ^ (51 + 1) := by simp only [Nat.reducePow, Nat.reduceAdd] at hf ⊢; omega
  rw [two_pow_or_self 51 _ hlo hhi]
  rw [f32Narrow_fields s 0x7ff (f * 2 ^ 29) hs (by decide) hhi]
  have h1 : ¬ (f * 2 ^ 29 = 0) := by simp only [Nat.reducePow] at hlo ⊢; omega
  simp only [narrowCore, h1, if_true, if_false]
  rw [Nat.mul_div_cancel _ (by decide : 0 < 2 ^ 29)]
  have : (0x400000 : Nat) = 2 ^ 22 := by decide
  rw [this, two_pow_or_self 22 f hq hf]

/-! ## the theorem -/

/-- on 32-bit patterns whose NaNs are quiet, widen-then-narrow is the identity -/
theorem f32Narrow_widen_of_range (b : Nat) (hb : b < 2 ^ 32)
    (hnan : b / 2 ^ 23 % 256 = 255 → b % 2 ^ 23 = 0 ∨ 2 ^ 22 ≤ b % 2 ^ 23) :
    f32Narrow (f32Widen b) = some b := by
  have hs : b / 2 ^ 31 % 2 < 2 := Nat.mod_lt _ (by decide)
  have hf : b % 2 ^ 23 < 2 ^ 23 := Nat.mod_lt _ (by decide)
  have he : b / 2 ^ 23 % 256 < 256 := Nat.mod_lt _ (by decide)
  have hdec : b = b / 2 ^ 31 % 2 * 2 ^ 31 + b / 2 ^ 23 % 256 * 2 ^ 23 + b % 2 ^ 23 := by
    simp only [Nat.reducePow] at hb ⊢; omega
  rw [f32Widen_eq_core]
  generalize b / 2 ^ 31 % 2 = s at hs hdec
  generalize b / 2 ^ 23 % 256 = e at he hdec hnan
  generalize b % 2 ^ 23 = f at hf hdec hnan
  unfold widenCore
  by_cases he255 : e = 0xff
  · rw [if_pos he255]
    by_cases hf0 : f = 0
    · rw [if_pos hf0, narrow_widen_inf s hs, hdec, he255, hf0]
    · rw [if_neg hf0]
      have hq : 2 ^ 22 ≤ f := by
        rcases hnan he255 with h | h
        · exact absurd h hf0
        · exact h
      rw [narrow_widen_nan s f hs hq hf, hdec, he255]
  · rw [if_neg he255]
    by_cases he0 : e = 0
    · rw [if_pos he0]
      by_cases hf0 : f = 0
      · rw [if_pos hf0, narrow_widen_zero s hs, hdec, he0, hf0]
        apply congrArg some; omega
      · rw [if_neg hf0]
        rw [narrow_widen_subnormal s f hs hf0 hf, hdec, he0]
        apply congrArg some; omega
    · rw [if_neg he0]
      rw [narrow_widen_normal s e f hs he0 (by omega) hf, ← hdec]

/-- narrowing is idempotent on its own range -/
theorem f32Narrow_widen (bits b : Nat) (h : f32Narrow bits = some b) :
    f32Narrow (f32Widen b) = some b := by
  obtain ⟨h1, h2⟩ := f32Narrow_range bits b h
  exact f32Narrow_widen_of_range b h1 h2

end Pamqp.Proofs.FloatLemmas
