import Pamqp.Spec.Defs
import Pamqp.Proofs.Bytes
import Pamqp.Proofs.ByType
import Pamqp.Proofs.EnvelopeLemma
/-!
# The argument loops of `Frame.marshal` / `Frame.unmarshal` and the method-frame round trip (C01)
-/
namespace Pamqp.Proofs
open Pamqp

/-! ## small facts -/

theorem and_shift_ne_zero (B p : Nat) : (B &&& (1 <<< p) != 0) = B.testBit p := by
  rw [Nat.one_shiftLeft]
  have : B &&& 2 ^ p = if B.testBit p then 2 ^ p else 0 := by
    apply Nat.eq_of_testBit_eq
    intro i
    by_cases h : B.testBit p <;> by_cases hi : p = i <;> simp_all
  rw [this]
  by_cases h : B.testBit p <;> simp [h]

/-- `encode.octet(byte)` for the accumulated bit octet -/
theorem octet_int (byte : Nat) (h : byte < 256) :
    Encode.octet (.int (byte : Int)) = .ok [UInt8.ofNat byte] := by
  have h1 : packInt 1 0 255 (byte : Int) = .ok (beN 1 byte) :=
    packInt_nat 1 255 byte (by omega) (by simpa using h)
  simp only [Encode.octet, PyVal.asInt?, packU8, h1]
  simp [beN, Nat.mod_eq_of_lt h]

/-- the byte after `encode.bit(True/False, byte, position)` -/
def setBit (x : Bool) (byte position : Nat) : Nat :=
  if x then byte ||| (1 <<< position) else byte

theorem encode_bit_bool (x : Bool) (byte position : Nat) :
    Encode.bit (.bool x) byte position = .ok (setBit x byte position) := by
  cases x <;> simp [Encode.bit, PyVal.asInt?, setBit]

theorem setBit_lt (x : Bool) (byte off : Nat) (hb : byte < 2 ^ off) :
    setBit x byte off < 2 ^ (off + 1) := by
  have hlt : byte < 2 ^ (off + 1) :=
    Nat.lt_of_lt_of_le hb (Nat.pow_le_pow_right (by omega) (by omega))
  cases x
  · simpa [setBit] using hlt
  · simp only [setBit, if_true]
    apply Nat.or_lt_two_pow hlt
    rw [Nat.one_shiftLeft]
    exact Nat.pow_lt_pow_right (by omega) (by omega)

theorem setBit_testBit_lt (x : Bool) (byte off p : Nat) (hp : p < off) :
    (setBit x byte off).testBit p = byte.testBit p := by
  cases x
  · simp [setBit]
  · simp only [setBit, if_true]
    rw [Nat.testBit_or, Nat.testBit_shiftLeft]
    have : decide (p ≥ off) = false := by simp; omega
    simp [this]

theorem setBit_testBit_self (x : Bool) (byte off : Nat) (hb : byte < 2 ^ off) :
    (setBit x byte off).testBit off = x := by
  cases x
  · simp [setBit, Nat.testBit_lt_two_pow hb]
  · simp only [setBit, if_true]
    rw [Nat.testBit_or, Nat.testBit_shiftLeft, Nat.testBit_lt_two_pow hb]
    simp

theorem decode_bit_cons (B : UInt8) (t : Bytes) (off : Nat) :
    Decode.byType (B :: t) .bit off = .ok (0, .bool (B.toNat.testBit off)) := by
  simp [Decode.byType, Decode.bit, and_shift_ne_zero]

theorem lt_256_of_lt_pow {byte offset : Nat} (hb : byte < 2 ^ offset) (ho : offset ≤ 8) :
    byte < 256 := by
  have : 2 ^ offset ≤ 2 ^ 8 := Nat.pow_le_pow_right (by omega) ho
  omega

/-! ## unfolding the two loops, case by case -/

theorem marshalLoop_bit_proc (legacy : Bool) (byte offset : Nat) (x : Bool)
    (rest : List (WireTy × PyVal)) (h8 : offset + 1 ≠ 8) :
    Base.marshalLoop legacy byte offset true ((.bit, .bool x) :: rest) =
      Base.marshalLoop legacy (setBit x byte offset) (offset + 1) true rest := by
  have hne : (offset + 1 == 8) = false := by simp only [beq_eq_false_iff_ne, ne_eq]; exact h8
  simp [Base.marshalLoop, encode_bit_bool, hne, bind, Except.bind]

theorem marshalLoop_bit_start (legacy : Bool) (byte offset : Nat) (x : Bool)
    (rest : List (WireTy × PyVal)) :
    Base.marshalLoop legacy byte offset false ((.bit, .bool x) :: rest) =
      Base.marshalLoop legacy (setBit x 0 0) 1 true rest := by
  simp [Base.marshalLoop, encode_bit_bool, bind, Except.bind]

theorem marshalLoop_nonbit_proc (legacy : Bool) (byte offset : Nat) (ty : WireTy) (v : PyVal)
    (rest : List (WireTy × PyVal)) (hty : ty ≠ .bit) :
    Base.marshalLoop legacy byte offset true ((ty, v) :: rest) =
      (do let o ← Encode.octet (.int byte)
          let e ← Encode.byType legacy v ty
          let t ← Base.marshalLoop legacy byte offset false rest
          pure (o ++ e ++ t)) := by
  have hne : (ty != .bit) = true := by simp [hty]
  simp [Base.marshalLoop, hne]

theorem marshalLoop_nonbit (legacy : Bool) (byte offset : Nat) (ty : WireTy) (v : PyVal)
    (rest : List (WireTy × PyVal)) (hty : ty ≠ .bit) :
    Base.marshalLoop legacy byte offset false ((ty, v) :: rest) =
      (do let e ← Encode.byType legacy v ty
          let t ← Base.marshalLoop legacy byte offset false rest
          pure (e ++ t)) := by
  have hne : (ty == .bit) = false := by simp [hty]
  simp [Base.marshalLoop, hne]

theorem unmarshalLoop_bit (offset : Nat) (proc : Bool) (data : Bytes) (rest : List WireTy)
    (h7 : offset ≠ 7) :
    Base.unmarshalLoop offset proc data (.bit :: rest) =
      (do let (_, value) ← Decode.byType data .bit offset
          let vs ← Base.unmarshalLoop (offset + 1) true data rest
          pure (value :: vs)) := by
  have hne : (offset == 7) = false := by simp only [beq_eq_false_iff_ne, ne_eq]; exact h7
  simp [Base.unmarshalLoop, hne]

theorem unmarshalLoop_nonbit_proc (offset : Nat) (data : Bytes) (ty : WireTy) (rest : List WireTy)
    (h7 : offset ≠ 7) (hty : ty ≠ .bit) :
    Base.unmarshalLoop offset true data (ty :: rest) =
      (do let (consumed, value) ← Decode.byType (data.drop 1) ty 0
          let vs ← Base.unmarshalLoop 0 false ((data.drop 1).drop consumed) rest
          pure (value :: vs)) := by
  have hne : (offset == 7) = false := by simp only [beq_eq_false_iff_ne, ne_eq]; exact h7
  have hne1 : (ty != .bit) = true := by simp [hty]
  have hne2 : (ty == .bit) = false := by simp [hty]
  simp [Base.unmarshalLoop, hne, hne1, hne2]

theorem unmarshalLoop_nonbit (offset : Nat) (data : Bytes) (ty : WireTy) (rest : List WireTy)
    (hty : ty ≠ .bit) :
    Base.unmarshalLoop offset false data (ty :: rest) =
      (do let (consumed, value) ← Decode.byType data ty offset
          let vs ← Base.unmarshalLoop offset false (data.drop consumed) rest
          pure (value :: vs)) := by
  have hne2 : (ty == .bit) = false := by simp [hty]
  simp [Base.unmarshalLoop, hne2]

/-! ## the round trip of the argument loops -/

theorem bitRunOK_nonbit (k : Nat) (ty : WireTy) (tys : List WireTy) (hty : ty ≠ .bit)
    (h : Spec.bitRunOK k (ty :: tys) = true) : Spec.bitRunOK 0 tys = true := by
  cases ty <;> simp_all [Spec.bitRunOK]

/-- Encoding succeeds; the output is no longer than the size bound (plus the pending bit octet);
while a bit run is open, the first octet written keeps the bits accumulated so far; and the decoder
loop, started in the matching state on the output followed by anything, returns the normalised
values. -/
theorem loop_rt (legacy : Bool) (args : List (WireTy × PyVal)) :
    ∀ (byte offset : Nat) (proc : Bool),
      Spec.argsOK legacy args →
      (proc = true → byte < 2 ^ offset ∧ offset ≤ 6) →
      Spec.bitRunOK (if proc then offset else 0) (args.map (·.1)) = true →
      ∃ tail, Base.marshalLoop legacy byte offset proc args = .ok tail ∧
        tail.length ≤ Spec.argsSizeBound legacy args + (if proc then 1 else 0) ∧
        (proc = true → ∃ B t, tail = B :: t ∧ ∀ p, p < offset → B.toNat.testBit p = byte.testBit p) ∧
        ∀ rest, Base.unmarshalLoop (if proc then offset else 0) proc (tail ++ rest) (args.map (·.1))
          = .ok (args.map (fun a => Spec.normArg a.1 a.2)) := by
  induction args with
  | nil =>
    intro byte offset proc _ hinv _
    cases proc with
    | false =>
      exact ⟨[], by simp [Base.marshalLoop], by simp, by simp, by simp [Base.unmarshalLoop]⟩
    | true =>
      obtain ⟨hb, ho⟩ := hinv rfl
      have h256 : byte < 256 := lt_256_of_lt_pow hb (by omega)
      refine ⟨[UInt8.ofNat byte], by simp [Base.marshalLoop, octet_int byte h256], by simp,
        fun _ => ⟨_, [], rfl, ?_⟩, by simp [Base.unmarshalLoop]⟩
      intro p _
      simp [UInt8.toNat_ofNat', Nat.mod_eq_of_lt h256]
  | cons a args ih =>
    obtain ⟨ty, v⟩ := a
    intro byte offset proc hok hinv hrun
    have hw : Spec.argOK legacy ty v := hok.1
    have hok' : Spec.argsOK legacy args := hok.2
    by_cases hty : ty = .bit
    · -- a bit argument
      subst hty
      obtain ⟨x, rfl⟩ : ∃ x, v = .bool x := by
        cases v <;> first | exact ⟨_, rfl⟩ | exact absurd hw (by simp [Spec.argOK])
      -- normalise to the state after the optional run start
      obtain ⟨byte0, off0, hb0, ho0, hm0, hrun0, hoff, hkeep⟩ :
          ∃ byte0 off0, byte0 < 2 ^ off0 ∧ off0 ≤ 5 ∧
            Base.marshalLoop legacy byte offset proc ((.bit, .bool x) :: args) =
              Base.marshalLoop legacy (setBit x byte0 off0) (off0 + 1) true args ∧
            Spec.bitRunOK (off0 + 1) (args.map (·.1)) = true ∧
            (if proc then offset else 0) = off0 ∧
            (proc = true → off0 = offset ∧ byte0 = byte) := by
        cases proc with
        | true =>
          obtain ⟨hb, ho⟩ := hinv rfl
          simp only [if_true, List.map_cons, Spec.bitRunOK, Bool.and_eq_true,
            decide_eq_true_eq] at hrun
          exact ⟨byte, offset, hb, by omega, marshalLoop_bit_proc _ _ _ _ _ (by omega), hrun.2,
            by simp, fun _ => ⟨rfl, rfl⟩⟩
        | false =>
          simp only [Bool.false_eq_true, if_false, List.map_cons, Spec.bitRunOK, Bool.and_eq_true,
            decide_eq_true_eq] at hrun
          exact ⟨0, 0, by simp, by omega, marshalLoop_bit_start _ _ _ _ _, hrun.2, by simp,
            fun h => by cases h⟩
      have hb1 : setBit x byte0 off0 < 2 ^ (off0 + 1) := setBit_lt x byte0 off0 hb0
      obtain ⟨tail, hml, hlen, hhead, hdec⟩ := ih (setBit x byte0 off0) (off0 + 1) true hok'
        (fun _ => ⟨hb1, by omega⟩) (by simpa using hrun0)
      obtain ⟨B, t, ht, hB⟩ := hhead rfl
      have hbit : B.toNat.testBit off0 = x := by
        rw [hB off0 (by omega), setBit_testBit_self x byte0 off0 hb0]
      refine ⟨tail, by rw [hm0, hml], ?_, ?_, ?_⟩
      · simp only [Spec.argsSizeBound, if_true] at hlen ⊢
        omega
      · intro hp
        obtain ⟨h1, h2⟩ := hkeep hp
        subst h1; subst h2
        refine ⟨B, t, ht, fun p hp => ?_⟩
        rw [hB p (by omega), setBit_testBit_lt x byte0 off0 p hp]
      · intro rest
        have hd := hdec rest
        simp only [if_true] at hd
        rw [hoff, List.map_cons, unmarshalLoop_bit _ _ _ _ (by omega)]
        subst ht
        simp only [List.cons_append, decode_bit_cons, hbit, bind, Except.bind] at hd ⊢
        simp [hd, pure, Except.pure, Spec.normArg]
    · -- a non-bit argument
      have hrun' : Spec.bitRunOK (if false then offset else 0) (args.map (·.1)) = true := by
        simpa using bitRunOK_nonbit _ ty _ hty (by simpa using hrun)
      obtain ⟨t, hml, hlen, -, hdec⟩ := ih byte offset false hok' (by simp) hrun'
      simp only [Bool.false_eq_true, if_false, Nat.add_zero] at hlen hdec
      have hsz : Spec.argsSizeBound legacy ((ty, v) :: args) =
          Spec.argSize legacy ty v + Spec.argsSizeBound legacy args := by
        simp [Spec.argsSizeBound, hty]
      cases proc with
      | true =>
        obtain ⟨hb, ho⟩ := hinv rfl
        have h256 : byte < 256 := lt_256_of_lt_pow hb (by omega)
        obtain ⟨e, he, hel, _⟩ := byType_roundtrip legacy ty v hty hw [] 0
        refine ⟨UInt8.ofNat byte :: (e ++ t), ?_, ?_, ?_, ?_⟩
        · rw [marshalLoop_nonbit_proc _ _ _ _ _ _ hty, octet_int byte h256, he, hml]
          simp [bind, Except.bind, pure, Except.pure]
        · rw [hsz]; simp only [List.length_cons, List.length_append, if_true]; omega
        · intro _
          refine ⟨_, _, rfl, fun p _ => ?_⟩
          simp [UInt8.toNat_ofNat', Nat.mod_eq_of_lt h256]
        · intro rest
          obtain ⟨e', he', _, hde⟩ := byType_roundtrip legacy ty v hty hw (t ++ rest) 0
          have : e' = e := by rw [he] at he'; cases he'; rfl
          subst this
          simp only [if_true, List.map_cons]
          rw [unmarshalLoop_nonbit_proc _ _ _ _ (by omega) hty]
          simp only [List.cons_append, List.drop_succ_cons, List.drop_zero, List.append_assoc, hde,
            bind, Except.bind, List.drop_left, hdec, pure, Except.pure]
      | false =>
        obtain ⟨e, he, hel, _⟩ := byType_roundtrip legacy ty v hty hw [] 0
        refine ⟨e ++ t, ?_, ?_, by simp, ?_⟩
        · rw [marshalLoop_nonbit _ _ _ _ _ _ hty, he, hml]
          simp [bind, Except.bind, pure, Except.pure]
        · rw [hsz]; simp only [List.length_append]; omega
        · intro rest
          obtain ⟨e', he', _, hde⟩ := byType_roundtrip legacy ty v hty hw (t ++ rest) 0
          have : e' = e := by rw [he] at he'; cases he'; rfl
          subst this
          simp only [Bool.false_eq_true, if_false, List.map_cons]
          rw [unmarshalLoop_nonbit _ _ _ _ hty]
          simp only [List.append_assoc, hde, bind, Except.bind, List.drop_left, hdec, pure,
            Except.pure]

/-! ## the frame level -/

theorem zip_map_fst {α β} (l : List α) (m : List β) (h : m.length = l.length) :
    (l.zip m).map (·.1) = l := by
  induction l generalizing m with
  | nil => simp
  | cons a l ih =>
    cases m with
    | nil => simp at h
    | cons b m => simp only [List.zip_cons_cons, List.map_cons, ih m (by simpa using h)]

/-- in a catalogue with distinct keys, each equal to the class's index, the `INDEX_MAPPING` lookup
of a member's index returns that member -/
theorem find_spec (l : List MethodSpec) (spec : MethodSpec) (hs : spec ∈ l)
    (hk : ∀ m ∈ l, m.key = m.index) (hnd : (l.map (·.key)).Nodup) :
    l.find? (·.key == spec.index) = some spec := by
  induction l with
  | nil => cases hs
  | cons m l ih =>
    have hsk : spec.key = spec.index := hk spec hs
    simp only [List.map_cons, List.nodup_cons] at hnd
    by_cases hm : m.key = spec.index
    · have : spec = m := by
        rcases List.mem_cons.mp hs with h | h
        · exact h
        · exact absurd (List.mem_map.mpr ⟨spec, h, by rw [hsk, hm]⟩) hnd.1
      subst this
      simp [List.find?, hm]
    · have hne : (m.key == spec.index) = false := by simpa using hm
      have hs' : spec ∈ l := by
        rcases List.mem_cons.mp hs with h | h
        · subst h; exact absurd hsk hm
        · exact h
      simp only [List.find?, hne]
      exact ih hs' (fun m' hm' => hk m' (List.mem_cons_of_mem _ hm')) hnd.2

theorem C01_generic (cat : Cat) (hwf : Spec.catWF cat = true)
    (spec : MethodSpec) (hs : spec ∈ cat.methods) (legacy : Bool)
    (vals : List PyVal) (ha : Spec.Accepted legacy spec vals)
    (ch : Nat) (hc : ch < 65536) (rest : Bytes) :
    ∃ bs, Frame.marshal legacy cat (.method spec vals) (.int ch) = .ok bs ∧
      Frame.unmarshal cat (bs ++ rest) = .ok (bs.length, ch, .method spec (Spec.normArgs spec vals)) := by
  -- the catalogue facts
  simp only [Spec.catWF, Bool.and_eq_true, List.all_eq_true, decide_eq_true_eq] at hwf
  obtain ⟨hall, hnd⟩ := hwf
  have hm := hall spec hs
  simp only [Spec.methodWF, Bool.and_eq_true, decide_eq_true_eq, beq_iff_eq] at hm
  obtain ⟨⟨⟨⟨_, hi0⟩, hi1⟩, hrun⟩, _⟩ := hm
  have hkeys : ∀ m ∈ cat.methods, m.key = m.index := by
    intro m hm
    have := hall m hm
    simp only [Spec.methodWF, Bool.and_eq_true, beq_iff_eq] at this
    exact this.1.1.1.1
  have hfind := find_spec cat.methods spec hs hkeys hnd
  -- the argument loop
  have hlen : vals.length = spec.types.length := by rw [ha.len, MethodSpec.types, List.length_map]
  have htys : (spec.types.zip vals).map (·.1) = spec.types := zip_map_fst _ _ hlen
  obtain ⟨args, hml, hal, -, hdec⟩ := loop_rt legacy (spec.types.zip vals) 0 0 false ha.typed
    (by simp) (by simpa [htys] using hrun)
  simp only [Bool.false_eq_true, if_false, Nat.add_zero, htys] at hal hdec
  have hsize := ha.size
  -- the index
  have hidx : packU32 spec.index = .ok (beN 4 (spec.index % (256 ^ 4 : Nat)).toNat) :=
    packInt_of_range 4 0 4294967295 spec.index hi0 (by omega)
  have hun : ∀ r, unpackS 4 (beN 4 (spec.index % (256 ^ 4 : Nat)).toNat ++ r) = .ok spec.index :=
    fun r => unpackS_beN 4 (by omega) spec.index (by omega) (by omega) r
  let payload : Bytes := beN 4 (spec.index % (256 ^ 4 : Nat)).toNat ++ args
  have hpl : payload.length = 4 + args.length := by simp [payload]
  have hpl32 : payload.length < 2 ^ 32 := by omega
  have hpne : payload ≠ [] := by
    intro h
    have := congrArg List.length h
    simp only [hpl, List.length_nil] at this
    omega
  refine ⟨envBytes 1 ch payload, ?_, ?_⟩
  · simp only [Frame.marshal, Base.frameMarshal, hidx, ha.valid, hml, bind, Except.bind]
    exact envelope_ok 1 ch hc payload hpl32
  · rw [unmarshal_envelope cat 1 (Or.inl rfl) ch hc payload hpne hpl32 rest, envBytes_length]
    have hdrop : payload.drop 4 = args := drop_beN_append 4 _ args
    have hd := hdec []
    rw [List.append_nil] at hd
    simp only [if_true, Frame.methodUnmarshal, payload, hun, Frame.mapCaught, hfind, bind, Except.bind,
      Base.frameUnmarshal, drop_beN_append, hd, pure, Except.pure, Spec.normArgs]

end Pamqp.Proofs
