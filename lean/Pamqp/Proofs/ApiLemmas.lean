import Pamqp.Model.Api
/-! # The API state machine (C16): only `toggle` changes the state -/
namespace Pamqp.Proofs.ApiLemmas
open Pamqp

/-- the state after a call: the toggle argument for `toggle`, unchanged otherwise -/
def nextLegacy (b : Bool) : Api.Op → Bool
  | .toggle arg => arg.getD true
  | _ => b

theorem step_fst (cat : Cat) (s : Api.State) (op : Api.Op) :
    (Api.step cat s op).1 = ⟨nextLegacy s.legacy op⟩ := by
  cases op <;> rfl

theorem step_fst_of_not_toggle (cat : Cat) (s : Api.State) (op : Api.Op)
    (h : ∀ arg, op ≠ .toggle arg) : (Api.step cat s op).1 = s := by
  cases op with
  | toggle arg => exact absurd rfl (h arg)
  | _ => rfl

theorem run_cons (cat : Cat) (s : Api.State) (op : Api.Op) (ops : List Api.Op) :
    Api.run cat s (op :: ops) = (Api.step cat s op).2 :: Api.run cat (Api.step cat s op).1 ops := rfl

theorem run_nil (cat : Cat) (s : Api.State) : Api.run cat s [] = [] := rfl

end Pamqp.Proofs.ApiLemmas
