import Pamqp.Proofs.Budget
/-!
# Taxonomy: which exception classes leave the decoders (C09), and `frame.unmarshal` never
runs out of fuel (C08)
-/
namespace Pamqp.Proofs
open Pamqp Pamqp.Decode

/-- errors of the recursive decoders: the three primitive classes, or fuel exhaustion -/
def RecErr (e : PyErr) : Prop := PrimErr e ∨ e = .outOfFuel

theorem decoder_errors (f : Nat) :
    (∀ bs e, embedded f bs = .error e → RecErr e) ∧
    (∀ value e, fieldArray f value = .error e → RecErr e) ∧
    (∀ value fin offset acc e, arrLoop f value fin offset acc = .error e → RecErr e) ∧
    (∀ value e, fieldTable f value = .error e → RecErr e) ∧
    (∀ value fin offset acc e, tblLoop f value fin offset acc = .error e → RecErr e) := by
  induction f with
  | zero =>
    refine ⟨?_, ?_, ?_, ?_, ?_⟩ <;> intros <;> rename_i h <;>
      simp only [embedded, fieldArray, arrLoop, fieldTable, tblLoop] at h <;> cases h <;> exact .inr rfl
  | succ f ih =>
    obtain ⟨ihE, ihA, ihAL, ihT, ihTL⟩ := ih
    refine ⟨?_, ?_, ?_, ?_, ?_⟩
    · intro bs e h
      cases bs with
      | nil => simp [embedded] at h
      | cons t r =>
        simp only [embedded] at h
        by_cases h65 : t = 65
        · simp only [if_pos h65] at h
          exact ihA _ _ (bind_succ_err h)
        simp only [if_neg h65] at h
        by_cases h70 : t = 70
        · simp only [if_pos h70] at h
          exact ihT _ _ (bind_succ_err h)
        simp only [if_neg h70] at h
        cases hp : tablePrim t with
        | none => rw [hp] at h; cases h; exact .inl (.inr (.inr rfl))
        | some dec =>
          rw [hp] at h
          exact .inl (tablePrim_err hp (bind_succ_err h))
    · intro value e h
      simp only [fieldArray] at h
      cases hu : unpackU 4 value with
      | error e' =>
        rw [hu] at h; simp only [bind, Except.bind] at h; cases h
        exact .inl (.inl (unpackU_err hu))
      | ok len =>
        rw [hu] at h; simp only [bind, Except.bind] at h
        exact ihAL _ _ _ _ _ h
    · intro value fin offset acc e h
      simp only [arrLoop] at h
      split at h
      · cases hx : embedded f (value.drop offset) with
        | error e' =>
          rw [hx] at h; simp only [bind, Except.bind] at h; cases h
          exact ihE _ _ hx
        | ok p =>
          obtain ⟨c, v⟩ := p
          rw [hx] at h; simp only [bind, Except.bind] at h
          split at h
          · cases h; exact .inl (.inr (.inr rfl))
          · exact ihAL _ _ _ _ _ h
      · cases h
    · intro value e h
      simp only [fieldTable] at h
      cases hu : unpackU 4 value with
      | error e' =>
        rw [hu] at h; simp only [bind, Except.bind] at h; cases h
        exact .inl (.inl (unpackU_err hu))
      | ok len =>
        rw [hu] at h; simp only [bind, Except.bind] at h
        exact ihTL _ _ _ _ _ h
    · intro value fin offset acc e h
      simp only [tblLoop] at h
      split at h
      · split at h
        · cases h; exact .inl (.inl rfl)
        · split at h
          · cases h; exact .inl (.inr (.inl rfl))
          · rename_i _ kl rest hd _ key hk
            cases hx : embedded f (value.drop (offset + 1 + kl.toNat)) with
            | error e' =>
              rw [hx] at h; simp only [bind, Except.bind] at h; cases h
              exact ihE _ _ hx
            | ok p =>
              obtain ⟨c, v⟩ := p
              rw [hx] at h; simp only [bind, Except.bind] at h
              exact ihTL _ _ _ _ _ h
      · cases h

theorem fieldTableTop_err {value : Bytes} {e : PyErr} (h : fieldTableTop value = .error e) :
    PrimErr e := by
  rcases (decoder_errors _).2.2.2.1 _ _ h with h' | h'
  · exact h'
  · subst h'
    exact absurd h ((budget_suffices _).2.2.2.1 value (by unfold fuelFor; omega))

theorem byType_err {value : Bytes} {ty : WireTy} {off : Nat} {e : PyErr}
    (h : byType value ty off = .error e) : PrimErr e := by
  cases ty <;> simp only [byType] at h
  · exact bit_err h
  · exact octet_err h
  · exact shortUint_err h
  · exact longUint_err h
  · exact longLongInt_err h
  · exact shortStr_err h
  · exact longStr_err h
  · exact fieldTableTop_err h
  · exact timestamp_err h
  · cases h; exact .inr (.inr rfl)

theorem PrimErr.caught {e : PyErr} (h : PrimErr e) : Frame.caught e = true := by
  rcases h with h | h | h <;> subst h <;> rfl

theorem unmarshalLoop_err (tys : List WireTy) (offset : Nat) (proc : Bool) (data : Bytes) (e : PyErr)
    (h : Base.unmarshalLoop offset proc data tys = .error e) : PrimErr e := by
  induction tys generalizing offset proc data with
  | nil => cases h
  | cons ty rest ih =>
    simp only [Base.unmarshalLoop] at h
    generalize hd2 : (if (proc && ty != WireTy.bit) = true then
      (if (offset == 7 && proc) = true then List.drop 1 data else data).drop 1
      else if (offset == 7 && proc) = true then List.drop 1 data else data) = data2 at h
    generalize ho2 : (if (proc && ty != WireTy.bit) = true then 0
      else if (offset == 7 && proc) = true then 0 else offset) = offset2 at h
    cases hb : byType data2 ty offset2 with
    | error e' =>
      rw [hb] at h; simp only [bind, Except.bind] at h; cases h
      exact byType_err hb
    | ok p =>
      obtain ⟨c, v⟩ := p
      rw [hb] at h; simp only [bind, Except.bind] at h
      split at h
      · cases hr : Base.unmarshalLoop (offset2 + 1) true data2 rest with
        | error e' => rw [hr] at h; cases h; exact ih _ _ _ hr
        | ok vs => rw [hr] at h; cases h
      · generalize (if (proc && ty != WireTy.bit) = true then false else proc) = proc2 at h
        cases hr : Base.unmarshalLoop offset2 proc2 (data2.drop c) rest with
        | error e' => rw [hr] at h; cases h; exact ih _ _ _ hr
        | ok vs => rw [hr] at h; cases h

theorem propsUnmarshal_err (flags : Int) (l : List (PropSpec × PyVal)) (data : Bytes) (e : PyErr)
    (h : Base.propsUnmarshal flags data l = .error e) : PrimErr e := by
  induction l generalizing data with
  | nil => cases h
  | cons pc rest ih =>
    obtain ⟨p, cur⟩ := pc
    simp only [Base.propsUnmarshal] at h
    split at h
    · cases hb : byType data p.ty 0 with
      | error e' =>
        rw [hb] at h; simp only [bind, Except.bind] at h; cases h
        exact byType_err hb
      | ok q =>
        obtain ⟨c, v⟩ := q
        rw [hb] at h; simp only [bind, Except.bind] at h
        cases hr : Base.propsUnmarshal flags (data.drop c) rest with
        | error e' => rw [hr] at h; cases h; exact ih _ hr
        | ok vs => rw [hr] at h; cases h
    · cases hr : Base.propsUnmarshal flags data rest with
      | error e' => rw [hr] at h; simp only [bind, Except.bind] at h; cases h; exact ih _ hr
      | ok vs => rw [hr] at h; simp only [bind, Except.bind] at h; cases h

/-! ## frame level -/

theorem mapCaught_err {α} {r : R α} {e : PyErr} (hr : ∀ e', r = .error e' → PrimErr e')
    (h : Frame.mapCaught r = .error e) : e = .unmarshaling := by
  cases r with
  | ok a => simp [Frame.mapCaught] at h
  | error e' =>
    have := (hr e' rfl).caught
    simp only [Frame.mapCaught, this, if_true, Except.error.injEq] at h
    exact h.symm

theorem headerUnmarshal_err {cat : Cat} {data : Bytes} {e : PyErr}
    (h : Frame.headerUnmarshal cat data = .error e) : PrimErr e := by
  unfold Frame.headerUnmarshal at h
  cases h1 : takeExact 12 data with
  | error e' =>
    rw [h1] at h; simp only [bind, Except.bind] at h; cases h
    exact .inl (takeExact_err h1).1
  | ok hd =>
    rw [h1] at h; simp only [bind, Except.bind] at h
    cases h2 : Frame.getFlags (data.drop 12) 0 0 0 with
    | error e' =>
      rw [h2] at h; simp only at h; cases h
      exact .inl (getFlags_err h2)
    | ok p =>
      obtain ⟨offset, flags⟩ := p
      rw [h2] at h; simp only at h
      cases h3 : Base.propsUnmarshal flags (data.drop (12 + offset))
          (cat.props.zip (Frame.propDefaults cat)) with
      | error e' => rw [h3] at h; cases h; exact propsUnmarshal_err _ _ _ _ h3
      | ok props => rw [h3] at h; cases h

theorem methodUnmarshal_err {cat : Cat} {data : Bytes} {e : PyErr}
    (h : Frame.methodUnmarshal cat data = .error e) : e = .unmarshaling := by
  unfold Frame.methodUnmarshal at h
  cases h1 : Frame.mapCaught (unpackS 4 data) with
  | error e' =>
    rw [h1] at h; simp only [bind, Except.bind] at h; cases h
    exact mapCaught_err (fun e' he => .inl (unpackS_err he)) h1
  | ok idx =>
    rw [h1] at h; simp only [bind, Except.bind] at h
    split at h
    · cases h; rfl
    · rename_i spec _
      cases h2 : Frame.mapCaught (Base.frameUnmarshal spec (data.drop 4)) with
      | error e' =>
        rw [h2] at h; cases h
        exact mapCaught_err (fun e' he => unmarshalLoop_err _ _ _ _ _ he) h2
      | ok vals => rw [h2] at h; cases h

/-- every error leaving `frame.unmarshal` is the library's own `UnmarshalingException` -/
theorem unmarshal_err {cat : Cat} {bs : Bytes} {e : PyErr}
    (h : Frame.unmarshal cat bs = .error e) : e = .unmarshaling := by
  unfold Frame.unmarshal at h
  split at h
  · split at h <;> cases h; rfl
  · simp only at h
    split at h
    · cases h; rfl
    · repeat' split at h
      all_goals first
        | (cases h; rfl; done)
        | (cases h; done)
        | skip
      · cases h1 : Frame.methodUnmarshal cat (slice bs 7 (7 + _ + 1 - 1)) with
        | error e' =>
          rw [h1] at h; simp only [bind, Except.bind] at h; cases h
          exact methodUnmarshal_err h1
        | ok f => rw [h1] at h; simp only [bind, Except.bind, pure, Except.pure] at h; cases h
      · cases h1 : Frame.mapCaught (Frame.headerUnmarshal cat (slice bs 7 (7 + _ + 1 - 1))) with
        | error e' =>
          rw [h1] at h; simp only [bind, Except.bind] at h; cases h
          exact mapCaught_err (fun e' he => headerUnmarshal_err he) h1
        | ok f => rw [h1] at h; simp only [bind, Except.bind, pure, Except.pure] at h; cases h

end Pamqp.Proofs
