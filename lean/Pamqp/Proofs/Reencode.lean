import Pamqp.Spec.Defs
import Pamqp.Proofs.Order
import Pamqp.Proofs.RoundTrip
import Pamqp.Proofs.FloatLemmas
/-!
# Normalisation is invisible on the wire (C02, last clause)

* `tableValue_norm`: `Encode.tableValue legacy (Spec.norm v) = Encode.tableValue legacy v` for encodable `v`
* `fieldTable_norm`: the same for `Encode.fieldTable` on dicts
* `byType_normArg`: the same for an accepted argument of any wire type
* `propParts_expected`, `marshal_expected`: re-encoding the decoded property list
-/
namespace Pamqp.Proofs.Reencode
open Pamqp

/-! ## scalars -/

theorem floatingPoint_norm (bits : Nat) (h : (f32Narrow bits).isSome) :
    Encode.floatingPoint (Spec.norm (.float bits)) = Encode.floatingPoint (.float bits) := by
  cases hn : f32Narrow bits with
  | none => simp [hn] at h
  | some b =>
    have := FloatLemmas.f32Narrow_widen bits b hn
    simp only [Spec.norm, Encode.floatingPoint, hn, Option.getD_some, this]

theorem timestamp_datetime_norm (m : Int) (tz : Option Int) :
    Encode.timestamp (Spec.norm (.datetime m tz)) = Encode.timestamp (.datetime m tz) := by
  have h : Int.tdiv (Int.tdiv (Spec.instantMicros m tz) 1000000 * 1000000 - 0 * 1000000) 1000000 =
      Int.tdiv (Spec.instantMicros m tz) 1000000 := by
    rw [Int.zero_mul, Int.sub_zero, Int.mul_tdiv_cancel _ (by decide)]
  cases tz <;> simp only [Spec.norm, Encode.timestamp, h] <;> simp only [Spec.instantMicros]

theorem timestamp_structTime_norm (s : Int) :
    Encode.timestamp (Spec.norm (.structTime s)) = Encode.timestamp (.structTime s) := by
  have h : Int.tdiv (s * 1000000 - 0 * 1000000) 1000000 = s := by
    rw [Int.zero_mul, Int.sub_zero, Int.mul_tdiv_cancel _ (by decide)]
  simp only [Spec.norm, Encode.timestamp, h]

theorem decimalInt_of_ok (n : Bool) (c : Nat) (e : Int) (he : ¬ e < 0) (h : Spec.decimalOK n c e) :
    Encode.decimalInt n c e.toNat =
      (if n then -((c * 10 ^ e.toNat : Nat) : Int) else ((c * 10 ^ e.toNat : Nat) : Int)) := by
  unfold Spec.decimalOK at h
  simp only [he, if_false] at h
  unfold Encode.decimalInt
  by_cases hc : c = 0
  · subst hc; simp
  · by_cases hbig : e.toNat > 10
    · exfalso
      have h1 := RoundTrip.pow10_big _ hbig
      have h2 : 1 * 10 ^ 11 ≤ c * 10 ^ e.toNat := Nat.mul_le_mul (by omega) h1
      have h3 : c * 10 ^ e.toNat ≤ 2147483648 := by cases n <;> simp at h <;> omega
      have : (10 : Nat) ^ 11 = 100000000000 := by decide
      omega
    · simp [hc, hbig]

theorem decimal_norm (n : Bool) (c : Nat) (e : Int) (h : Spec.decimalOK n c e) :
    Encode.decimal (Spec.norm (.decimal n c e)) = Encode.decimal (.decimal n c e) := by
  by_cases he : e < 0
  · simp only [Spec.norm, Spec.normDecimal, he, if_true, Encode.decimal]
    have : (if (n && c != 0) = true then -(c : Int) else (c : Int)) = (if n = true then -(c : Int) else (c : Int)) := by
      by_cases hc : c = 0
      · subst hc; cases n <;> simp
      · have : (c != 0) = true := by simpa using hc
        simp [this]
    rw [this]
  · have h0 : ¬ ((0 : Int) < 0) := by decide
    simp only [Spec.norm, Spec.normDecimal, he, if_false, Encode.decimal, h0]
    rw [decimalInt_of_ok n c e he h]
    have : Encode.decimalInt (n && c != 0) (c * 10 ^ e.toNat) (0 : Int).toNat =
        (if n then -((c * 10 ^ e.toNat : Nat) : Int) else ((c * 10 ^ e.toNat : Nat) : Int)) := by
      unfold Encode.decimalInt
      by_cases hc : c = 0
      · subst hc; cases n <;> simp
      · have h1 : (c != 0) = true := by simpa using hc
        have hx : c * 10 ^ e.toNat ≠ 0 := Nat.mul_ne_zero hc (Nat.ne_of_gt (Nat.pow_pos (by decide)))
        generalize c * 10 ^ e.toNat = x at hx
        simp [h1, hx]
    rw [this]

/-! ## dicts: sorting twice -/

/-- the sorted entry list of the normalised (hence sorted) dict -/
theorem sorted_entries_norm (legacy : Bool) (kvs : List (Str × PyVal))
    (ih : Encode.entries legacy (Spec.normEntries kvs) = Encode.entries legacy kvs) :
    List.mergeSort (Encode.entries legacy
        (List.mergeSort (Spec.normEntries kvs) (fun a b => strLe a.1 b.1))) Encode.entryLe =
      List.mergeSort (Encode.entries legacy kvs) Encode.entryLe := by
  have h1 : Encode.entries legacy (List.mergeSort (Spec.normEntries kvs) (fun a b => strLe a.1 b.1)) =
      List.mergeSort (Encode.entries legacy (Spec.normEntries kvs)) Encode.entryLe :=
    (RoundTrip.sort_entries legacy (Spec.normEntries kvs)).symm
  rw [h1, ih]
  exact mergeSort_entryLe_of_sorted _ (pairwise_mergeSort_entryLe _)

/-! ## the induction over the nested value -/

mutual
theorem tableValue_norm (legacy : Bool) (v : PyVal) (h : Spec.Encodable legacy v) :
    Encode.tableValue legacy (Spec.norm v) = Encode.tableValue legacy v := by
  match v, h with
  | .none, _ => simp only [Spec.norm]
  | .bool _, _ => simp only [Spec.norm]
  | .int _, _ => simp only [Spec.norm]
  | .float bits, h =>
    have h' : (f32Narrow bits).isSome := by simpa [Spec.Encodable] using h
    have := floatingPoint_norm bits h'
    simp only [Spec.norm] at this ⊢
    simp only [Encode.tableValue, this]
  | .decimal n c e, h =>
    have h' : Spec.decimalOK n c e := by simpa [Spec.Encodable] using h
    have := decimal_norm n c e h'
    simp only [Spec.norm] at this ⊢
    unfold Spec.normDecimal at this ⊢
    split
    · rename_i he; simp only [he, if_true] at this; simp only [Encode.tableValue, this]
    · rename_i he; simp only [he, if_false] at this; simp only [Encode.tableValue, this]
  | .str _, _ => simp only [Spec.norm]
  | .bytearray _, _ => simp only [Spec.norm]
  | .datetime m tz, _ =>
    have := timestamp_datetime_norm m tz
    simp only [Spec.norm] at this ⊢
    simp only [Encode.tableValue, this]
  | .structTime s, _ =>
    have := timestamp_structTime_norm s
    simp only [Spec.norm] at this ⊢
    simp only [Encode.tableValue, this]
  | .list vs, h =>
    have h' : Spec.EncodableList legacy vs ∧ Spec.wireSizeList legacy vs < 2 ^ 32 := by
      simpa [Spec.Encodable] using h
    simp only [Spec.norm, Encode.tableValue, items_norm legacy vs h'.1]
  | .dict kvs, h =>
    have h' : Spec.EncodableEntries legacy kvs ∧ (kvs.map (·.1)).Nodup ∧
        Spec.wireSizeEntries legacy kvs < 2 ^ 32 := by
      simpa [Spec.Encodable] using h
    simp only [Spec.norm, Encode.tableValue,
      sorted_entries_norm legacy kvs (entries_norm legacy kvs h'.1)]
  | .decimalSpecial _, h => exact absurd h (by simp [Spec.Encodable])
  | .bytes _, h => exact absurd h (by simp [Spec.Encodable])
  | .other, h => exact absurd h (by simp [Spec.Encodable])
theorem items_norm (legacy : Bool) (vs : List PyVal) (h : Spec.EncodableList legacy vs) :
    Encode.items legacy (Spec.normList vs) = Encode.items legacy vs := by
  match vs, h with
  | [], _ => simp only [Spec.normList]
  | x :: xs, h =>
    have h' : Spec.Encodable legacy x ∧ Spec.EncodableList legacy xs := by simpa [Spec.EncodableList] using h
    simp only [Spec.normList, Encode.items, tableValue_norm legacy x h'.1, items_norm legacy xs h'.2]
theorem entries_norm (legacy : Bool) (kvs : List (Str × PyVal)) (h : Spec.EncodableEntries legacy kvs) :
    Encode.entries legacy (Spec.normEntries kvs) = Encode.entries legacy kvs := by
  match kvs, h with
  | [], _ => simp only [Spec.normEntries]
  | (k, x) :: es, h =>
    have h' : Spec.keyOK k ∧ Spec.Encodable legacy x ∧ Spec.EncodableEntries legacy es := by
      simpa [Spec.EncodableEntries] using h
    simp only [Spec.normEntries, Encode.entries, tableValue_norm legacy x h'.2.1,
      entries_norm legacy es h'.2.2]
end

theorem fieldTable_norm (legacy : Bool) (kvs : List (Str × PyVal)) (h : Spec.Encodable legacy (.dict kvs)) :
    Encode.fieldTable legacy (Spec.norm (.dict kvs)) = Encode.fieldTable legacy (.dict kvs) := by
  have h' : Spec.EncodableEntries legacy kvs ∧ (kvs.map (·.1)).Nodup ∧
      Spec.wireSizeEntries legacy kvs < 2 ^ 32 := by
    simpa [Spec.Encodable] using h
  simp only [Spec.norm, Encode.fieldTable,
    sorted_entries_norm legacy kvs (entries_norm legacy kvs h'.1)]

/-! ## accepted arguments -/

/-- a set, accepted argument value stays set under normalisation and encodes to the same bytes -/
theorem byType_normArg (legacy : Bool) (ty : WireTy) (v : PyVal) (hok : Spec.argOK legacy ty v)
    (hset : Base.isSet v = true) :
    Base.isSet (Spec.normArg ty v) = true ∧
      Encode.byType legacy (Spec.normArg ty v) ty = Encode.byType legacy v ty := by
  cases ty <;> cases v <;> simp only [Spec.argOK] at hok <;>
    first
    | exact ⟨hset, rfl⟩
    | skip
  case table.none => simp [Base.isSet] at hset
  case table.dict kvs =>
    have hn : Spec.normArg .table (.dict kvs) = Spec.norm (.dict kvs) := rfl
    rw [hn]
    refine ⟨by simp only [Spec.norm, Base.isSet], ?_⟩
    simp only [Encode.byType]
    exact fieldTable_norm legacy kvs hok
  case timestamp.datetime m tz =>
    have hn : Spec.normArg .timestamp (.datetime m tz) = Spec.norm (.datetime m tz) := rfl
    rw [hn]
    refine ⟨by simp only [Spec.norm, Base.isSet], ?_⟩
    simp only [Encode.byType]
    exact timestamp_datetime_norm m tz
  case timestamp.structTime sec =>
    have hn : Spec.normArg .timestamp (.structTime sec) = Spec.norm (.structTime sec) := rfl
    rw [hn]
    refine ⟨by simp only [Spec.norm, Base.isSet], ?_⟩
    simp only [Encode.byType]
    exact timestamp_structTime_norm sec

/-! ## the property list -/

/-- first pass of `BasicProperties.marshal` on the decoded property list -/
theorem propParts_expected (legacy : Bool) (ps : List PropSpec)
    (hdef : ∀ p ∈ ps, Base.isSet (Base.litVal p.default) = false) (vals : List PyVal)
    (hok : Spec.propsOK legacy (ps.zip vals)) :
    Base.propParts legacy (ps.zip (Spec.expectedProps (ps.zip vals))) =
      Base.propParts legacy (ps.zip vals) := by
  induction ps generalizing vals with
  | nil => simp only [List.zip_nil_left, Spec.expectedProps]
  | cons p ps ih =>
    cases vals with
    | nil => simp only [List.zip_nil_right, Spec.expectedProps]
    | cons v vs =>
      simp only [List.zip_cons_cons, Spec.propsOK] at hok
      have ih' := ih (fun q hq => hdef q (List.mem_cons_of_mem _ hq)) vs hok.2
      simp only [List.zip_cons_cons, Spec.expectedProps]
      by_cases hset : Base.isSet v = true
      · have hargs : Spec.argOK legacy p.ty v := by
          rcases hok.1 with h | h
          · rw [hset] at h; cases h
          · exact h
        obtain ⟨h1, h2⟩ := byType_normArg legacy p.ty v hargs hset
        simp only [hset, if_true, Base.propParts, h1, h2, ih']
      · have hset' : Base.isSet v = false := by simpa using hset
        have hd := hdef p List.mem_cons_self
        simp only [hset', Bool.false_eq_true, if_false, Base.propParts, hd, ih']

theorem marshal_expected (cat : Cat)
    (hdef : (cat.props.all (fun p => !Base.isSet (Base.litVal p.default))) = true)
    (legacy : Bool) (vals : List PyVal) (hok : Spec.propsOK legacy (cat.props.zip vals))
    (size ch cls weight cls' weight' : PyVal) :
    Frame.marshal legacy cat (.header cls' weight' size (Spec.expectedProps (cat.props.zip vals))) ch =
      Frame.marshal legacy cat (.header cls weight size vals) ch := by
  have hdef' : ∀ p ∈ cat.props, Base.isSet (Base.litVal p.default) = false := by
    intro p hp
    have := List.all_eq_true.mp hdef p hp
    simpa using this
  simp only [Frame.marshal, Frame.headerPayload, Base.propsMarshal,
    propParts_expected legacy cat.props hdef' vals hok]

end Pamqp.Proofs.Reencode
