import Pamqp.Spec.Wire
import Pamqp.Spec.Defs
import Pamqp.Props.C12
import Pamqp.Proofs.Bytes
import Pamqp.Proofs.Utf8
import Pamqp.Proofs.Order
import Pamqp.Proofs.Ladder
import Pamqp.Proofs.EnvelopeLemma
/-!
# C04: the model encoder refines the reference encoder of `Spec.Wire` (field values, envelope)
-/
namespace Pamqp.Proofs.Refine
open Pamqp Pamqp.Props

/-! ## generic helpers for the `Except` monad -/

theorem bind_ok {α β : Type} {x : R α} {f : α → R β} {b : β} (h : (x >>= f) = .ok b) :
    ∃ a, x = .ok a ∧ f a = .ok b := by
  cases x with
  | error e => simp [bind, Except.bind] at h
  | ok a => exact ⟨a, rfl, h⟩

theorem map_ok {α β : Type} {x : R α} {f : α → β} {b : β} (h : x.map f = .ok b) :
    ∃ a, x = .ok a ∧ b = f a := by
  cases x with
  | error e => simp [Except.map] at h
  | ok a => simp [Except.map] at h; exact ⟨a, rfl, h.symm⟩

theorem packInt_nat_ok {k : Nat} {hi : Int} {n : Nat} {bs : Bytes}
    (h : packInt k 0 hi (n : Int) = .ok bs) (hhi : hi < ((256 ^ k : Nat) : Int)) :
    (n : Int) ≤ hi ∧ n < 256 ^ k ∧ bs = beN k n := by
  obtain ⟨_, h2, _⟩ := packInt_ok h
  have hlt : n < 256 ^ k := Int.ofNat_lt.mp (Int.lt_of_le_of_lt h2 hhi)
  have := packInt_nat k hi n h2 hlt
  rw [this] at h; cases h; exact ⟨h2, hlt, rfl⟩

theorem beN_one (n : Nat) (h : n < 256) : beN 1 n = [UInt8.ofNat n] := by
  simp [beN, Nat.mod_eq_of_lt h]

theorem emod_toNat_of_range (i : Int) (k : Nat) (h0 : 0 ≤ i) (h1 : i < ((256 ^ k : Nat) : Int)) :
    (i % ((256 ^ k : Nat) : Int)).toNat = i.toNat := by
  rw [Int.emod_eq_of_lt h0 h1]

/-! ## the envelope and the fixed frames -/

theorem envelope_layout (kind ch : Nat) (hk : kind < 256) (hc : ch < 65536) (payload : Bytes)
    (hl : payload.length < 2 ^ 32) :
    Frame.envelope kind (.int ch) payload = .ok (Spec.Envelope.wire ⟨kind, ch, payload⟩) := by
  rw [envelope_ok kind ch hc payload hl]
  simp [envBytes, Spec.Envelope.wire, beN_one kind hk, Frame.frameEnd]

theorem fixed_frames (legacy : Bool) (cat : Cat) (ch : PyVal) :
    Frame.marshal legacy cat .heartbeat ch = .ok (Spec.Envelope.wire ⟨8, 0, []⟩) ∧
    Frame.marshal legacy cat (.protocolHeader (.int 0) (.int 9) (.int 1)) ch =
      .ok [65, 77, 81, 80, 0, 0, 9, 1] := by
  constructor
  · simp only [Frame.marshal]; congr 1
  · simp only [Frame.marshal, Frame.protocolHeaderBytes, PyVal.asInt?]
    have h0 : packU8 0 = .ok [0] := by rfl
    have h9 : packU8 9 = .ok [9] := by rfl
    have h1 : packU8 1 = .ok [1] := by rfl
    simp only [h0, h9, h1, bind, Except.bind, pure, Except.pure, Frame.amqp]; rfl

/-! ## integers: both ladders are first-fit over the same ranges -/

theorem pickInt_signed (tag : UInt8) (rest : List UInt8) (k : Nat) (n : Int)
    (hs : Spec.intShape tag = some (k, true)) :
    Spec.pickInt (tag :: rest) n =
      if -((256 ^ k / 2 : Nat) : Int) ≤ n ∧ n < ((256 ^ k / 2 : Nat) : Int) then some (.int tag n)
      else Spec.pickInt rest n := by
  simp [Spec.pickInt, hs]

theorem pickInt_unsigned (tag : UInt8) (rest : List UInt8) (k : Nat) (n : Int)
    (hs : Spec.intShape tag = some (k, false)) :
    Spec.pickInt (tag :: rest) n =
      if 0 ≤ n ∧ n < ((256 ^ k : Nat) : Int) then some (.int tag n) else Spec.pickInt rest n := by
  simp [Spec.pickInt, hs]

theorem pickInt_full (n : Int) :
    Spec.pickInt [98, 115, 117, 73, 105, 108] n =
      if -128 ≤ n ∧ n ≤ 127 then some (.int 98 n)
      else if -32768 ≤ n ∧ n ≤ 32767 then some (.int 115 n)
      else if 0 ≤ n ∧ n ≤ 65535 then some (.int 117 n)
      else if -2147483648 ≤ n ∧ n ≤ 2147483647 then some (.int 73 n)
      else if 0 ≤ n ∧ n ≤ 4294967295 then some (.int 105 n)
      else if -9223372036854775808 ≤ n ∧ n ≤ 9223372036854775807 then some (.int 108 n)
      else none := by
  rw [pickInt_signed 98 _ 1 n rfl, pickInt_signed 115 _ 2 n rfl, pickInt_unsigned 117 _ 2 n rfl,
    pickInt_signed 73 _ 4 n rfl, pickInt_unsigned 105 _ 4 n rfl, pickInt_signed 108 _ 8 n rfl]
  by_cases h1 : -128 ≤ n ∧ n ≤ 127
  · rw [if_pos h1, if_pos (by omega)]
  rw [if_neg h1, if_neg (by omega)]
  by_cases h2 : -32768 ≤ n ∧ n ≤ 32767
  · rw [if_pos h2, if_pos (by omega)]
  rw [if_neg h2, if_neg (by omega)]
  by_cases h3 : 0 ≤ n ∧ n ≤ 65535
  · rw [if_pos h3, if_pos (by omega)]
  rw [if_neg h3, if_neg (by omega)]
  by_cases h4 : -2147483648 ≤ n ∧ n ≤ 2147483647
  · rw [if_pos h4, if_pos (by omega)]
  rw [if_neg h4, if_neg (by omega)]
  by_cases h5 : 0 ≤ n ∧ n ≤ 4294967295
  · rw [if_pos h5, if_pos (by omega)]
  rw [if_neg h5, if_neg (by omega)]
  by_cases h6 : -9223372036854775808 ≤ n ∧ n ≤ 9223372036854775807
  · rw [if_pos h6, if_pos (by omega)]
  rw [if_neg h6, if_neg (by omega)]
  rfl

theorem pickInt_legacy (n : Int) :
    Spec.pickInt [98, 115, 73, 108] n =
      if -128 ≤ n ∧ n ≤ 127 then some (.int 98 n)
      else if -32768 ≤ n ∧ n ≤ 32767 then some (.int 115 n)
      else if -2147483648 ≤ n ∧ n ≤ 2147483647 then some (.int 73 n)
      else if -9223372036854775808 ≤ n ∧ n ≤ 9223372036854775807 then some (.int 108 n)
      else none := by
  rw [pickInt_signed 98 _ 1 n rfl, pickInt_signed 115 _ 2 n rfl,
    pickInt_signed 73 _ 4 n rfl, pickInt_signed 108 _ 8 n rfl]
  by_cases h1 : -128 ≤ n ∧ n ≤ 127
  · rw [if_pos h1, if_pos (by omega)]
  rw [if_neg h1, if_neg (by omega)]
  by_cases h2 : -32768 ≤ n ∧ n ≤ 32767
  · rw [if_pos h2, if_pos (by omega)]
  rw [if_neg h2, if_neg (by omega)]
  by_cases h4 : -2147483648 ≤ n ∧ n ≤ 2147483647
  · rw [if_pos h4, if_pos (by omega)]
  rw [if_neg h4, if_neg (by omega)]
  by_cases h6 : -9223372036854775808 ≤ n ∧ n ≤ 9223372036854775807
  · rw [if_pos h6, if_pos (by omega)]
  rw [if_neg h6, if_neg (by omega)]
  rfl

/-- one rung: the tree `.int tag i` serialises to the rung's bytes, is well-formed, carries an allowed tag -/
theorem int_hit (A : List UInt8) (tag : UInt8) (k : Nat) (s : Bool) (i : Int) (bs : Bytes)
    (hs : Spec.intShape tag = some (k, s)) (hr : Spec.intInRange k s i) (h76 : tag ≠ 76) (hA : tag ∈ A)
    (h : (Except.ok (tag :: beN k (i % (256 ^ k : Nat)).toNat) : R Bytes) = .ok bs) :
    ∃ fv, some (Spec.FV.int tag i) = some fv ∧ fv.wire = bs ∧ fv.WF ∧ fv.IntTagsIn A ∧ fv.Sorted := by
  cases h
  refine ⟨_, rfl, ?_, ?_, ?_, by simp only [Spec.FV.Sorted]⟩
  · simp only [Spec.FV.wire, hs]
  · simp only [Spec.FV.WF]
    exact ⟨k, s, hs, hr, fun h => absurd h h76⟩
  · simp only [Spec.FV.IntTagsIn]; exact hA

theorem inRange_signed (k : Nat) (i : Int)
    (h : -((256 ^ k / 2 : Nat) : Int) ≤ i ∧ i < ((256 ^ k / 2 : Nat) : Int)) : Spec.intInRange k true i := by
  simp only [Spec.intInRange, if_true]; exact h

theorem inRange_unsigned (k : Nat) (i : Int)
    (h : 0 ≤ i ∧ i < ((256 ^ k : Nat) : Int)) : Spec.intInRange k false i := by
  simp only [Spec.intInRange, Bool.false_eq_true, if_false]; exact h

theorem int_ref (legacy : Bool) (i : Int) (bs : Bytes) (h : Encode.tableInteger legacy i = .ok bs) :
    ∃ fv, Spec.pickInt (Spec.ladderTags legacy) i = some fv ∧ fv.wire = bs ∧ fv.WF ∧
      fv.IntTagsIn (Spec.ladderTags legacy) ∧ fv.Sorted := by
  cases legacy
  · rw [Ladder.tableInteger_full] at h
    simp only [Spec.ladderTags, Bool.false_eq_true, if_false]
    rw [pickInt_full]
    by_cases h1 : -128 ≤ i ∧ i ≤ 127
    · rw [if_pos h1] at h ⊢
      exact int_hit _ 98 1 true i bs rfl (inRange_signed 1 i (by omega)) (by decide) (by decide) h
    rw [if_neg h1] at h ⊢
    by_cases h2 : -32768 ≤ i ∧ i ≤ 32767
    · rw [if_pos h2] at h ⊢
      exact int_hit _ 115 2 true i bs rfl (inRange_signed 2 i (by omega)) (by decide) (by decide) h
    rw [if_neg h2] at h ⊢
    by_cases h3 : 0 ≤ i ∧ i ≤ 65535
    · rw [if_pos h3] at h ⊢
      exact int_hit _ 117 2 false i bs rfl (inRange_unsigned 2 i (by omega)) (by decide) (by decide) h
    rw [if_neg h3] at h ⊢
    by_cases h4 : -2147483648 ≤ i ∧ i ≤ 2147483647
    · rw [if_pos h4] at h ⊢
      exact int_hit _ 73 4 true i bs rfl (inRange_signed 4 i (by omega)) (by decide) (by decide) h
    rw [if_neg h4] at h ⊢
    by_cases h5 : 0 ≤ i ∧ i ≤ 4294967295
    · rw [if_pos h5] at h ⊢
      exact int_hit _ 105 4 false i bs rfl (inRange_unsigned 4 i (by omega)) (by decide) (by decide) h
    rw [if_neg h5] at h ⊢
    by_cases h6 : -9223372036854775808 ≤ i ∧ i ≤ 9223372036854775807
    · rw [if_pos h6] at h ⊢
      exact int_hit _ 108 8 true i bs rfl (inRange_signed 8 i (by omega)) (by decide) (by decide) h
    rw [if_neg h6] at h
    cases h
  · rw [Ladder.tableInteger_legacy] at h
    simp only [Spec.ladderTags, if_true]
    rw [pickInt_legacy]
    by_cases h1 : -128 ≤ i ∧ i ≤ 127
    · rw [if_pos h1] at h ⊢
      exact int_hit _ 98 1 true i bs rfl (inRange_signed 1 i (by omega)) (by decide) (by decide) h
    rw [if_neg h1] at h ⊢
    by_cases h2 : -32768 ≤ i ∧ i ≤ 32767
    · rw [if_pos h2] at h ⊢
      exact int_hit _ 115 2 true i bs rfl (inRange_signed 2 i (by omega)) (by decide) (by decide) h
    rw [if_neg h2] at h ⊢
    by_cases h4 : -2147483648 ≤ i ∧ i ≤ 2147483647
    · rw [if_pos h4] at h ⊢
      exact int_hit _ 73 4 true i bs rfl (inRange_signed 4 i (by omega)) (by decide) (by decide) h
    rw [if_neg h4] at h ⊢
    by_cases h6 : -9223372036854775808 ≤ i ∧ i ≤ 9223372036854775807
    · rw [if_pos h6] at h ⊢
      exact int_hit _ 108 8 true i bs rfl (inRange_signed 8 i (by omega)) (by decide) (by decide) h
    rw [if_neg h6] at h
    cases h

/-! ## decimals -/

theorem decimal_ref (n : Bool) (c : Nat) (e : Int) (b : Bytes)
    (h : Encode.decimal (.decimal n c e) = .ok b) :
    ∃ fv, Spec.lowerDecimal n c e = some fv ∧ fv.wire = 68 :: b ∧ fv.WF ∧ fv.Sorted ∧ ∀ A, fv.IntTagsIn A := by
  simp only [Encode.decimal] at h
  by_cases he : e < 0
  · rw [if_pos he] at h
    by_cases he2 : e < -2000054
    · rw [if_pos he2] at h; cases h
    rw [if_neg he2] at h
    obtain ⟨a, ha, h⟩ := bind_ok h
    obtain ⟨b', hb, h⟩ := bind_ok h
    cases h
    obtain ⟨a0, a1, rfl⟩ := packInt_ok ha
    obtain ⟨b0, b1, rfl⟩ := packInt_ok hb
    have hs : (-e % ((256 ^ 1 : Nat) : Int)).toNat = (-e).toNat := emod_toNat_of_range _ 1 a0 (by omega)
    refine ⟨.dec (-e).toNat (if n then -(c : Int) else (c : Int)), ?_, ?_, ?_, by simp only [Spec.FV.Sorted], fun A => by simp only [Spec.FV.IntTagsIn]⟩
    · simp only [Spec.lowerDecimal, if_pos he]
      rw [if_pos ⟨a1, b0, b1, by omega⟩]
    · simp only [Spec.FV.wire, hs]
    · simp only [Spec.FV.WF]
      exact ⟨by omega, b0, b1⟩
  · rw [if_neg he] at h
    obtain ⟨b', hb, h⟩ := bind_ok h
    cases h
    obtain ⟨b0, b1, rfl⟩ := packInt_ok hb
    have h10 : beN 1 0 = [0] := by decide
    by_cases hc : c = 0
    · subst hc
      refine ⟨.dec 0 0, ?_, ?_, ?_, by simp only [Spec.FV.Sorted], fun A => by simp only [Spec.FV.IntTagsIn]⟩
      · simp only [Spec.lowerDecimal, if_neg he, if_true]
      · have : Encode.decimalInt n 0 e.toNat = 0 := by cases n <;> simp [Encode.decimalInt]
        simp only [Spec.FV.wire, h10, this, List.cons_append, List.nil_append]
      · simp only [Spec.FV.WF]; omega
    · have hc1 : 1 ≤ c := by omega
      by_cases h11 : e.toNat > 10
      · -- the capped power is outside every 32-bit range
        exfalso
        have hbig : 10 ^ 11 ≤ c * 10 ^ 11 := Nat.le_mul_of_pos_left _ hc1
        simp only [Encode.decimalInt, if_neg hc, if_pos h11] at b0 b1
        cases n <;> simp only [if_true, Bool.false_eq_true, if_false] at b0 b1 <;> omega
      · have hdi : Encode.decimalInt n c e.toNat =
            (if n then -((c * 10 ^ e.toNat : Nat) : Int) else ((c * 10 ^ e.toNat : Nat) : Int)) := by
          simp only [Encode.decimalInt, if_neg hc, if_neg h11]
        rw [hdi] at b0 b1 ⊢
        refine ⟨.dec 0 (if n then -((c * 10 ^ e.toNat : Nat) : Int) else ((c * 10 ^ e.toNat : Nat) : Int)), ?_, ?_, ?_,
          by simp only [Spec.FV.Sorted], fun A => by simp only [Spec.FV.IntTagsIn]⟩
        · simp only [Spec.lowerDecimal, if_neg he, if_neg hc]
          rw [if_pos ⟨by omega, b0, b1⟩]
        · simp only [Spec.FV.wire, h10, List.cons_append, List.nil_append]
        · simp only [Spec.FV.WF]
          exact ⟨by omega, b0, b1⟩

/-! ## strings, byte arrays -/

theorem string_ok (k : Nat) (s : Str) (out : Bytes) (h : Encode.string k (.str s) = .ok out) :
    ∃ kb, utf8Encode s = some kb ∧ kb.length < 256 ^ k ∧ out = beN k kb.length ++ kb := by
  simp only [Encode.string] at h
  cases hu : utf8Encode s with
  | none => rw [hu] at h; cases h
  | some kb =>
    rw [hu] at h
    obtain ⟨l, hl, h⟩ := bind_ok h
    cases h
    have hpos : 0 < 256 ^ k := Nat.pow_pos (by omega)
    obtain ⟨_, hlt, rfl⟩ := packInt_nat_ok hl (by omega)
    exact ⟨kb, rfl, hlt, rfl⟩

theorem withLen_inv (body t : Bytes) (h : Encode.withLen body = .ok t) :
    body.length < 2 ^ 32 ∧ t = beN 4 body.length ++ body := by
  simp only [Encode.withLen] at h
  obtain ⟨l, hl, h⟩ := bind_ok h
  cases h
  obtain ⟨_, hlt, rfl⟩ := packInt_nat_ok (k := 4) hl (by decide)
  exact ⟨by omega, rfl⟩

theorem byteArray_inv (b out : Bytes) (h : Encode.byteArray (.bytearray b) = .ok out) :
    b.length < 2 ^ 32 ∧ out = beN 4 b.length ++ b := by
  simp only [Encode.byteArray] at h
  obtain ⟨l, hl, h⟩ := bind_ok h
  cases h
  obtain ⟨_, hlt, rfl⟩ := packInt_nat_ok (k := 4) hl (by decide)
  exact ⟨by omega, rfl⟩

/-! ## timestamps -/

theorem packU64_inv (secs : Int) (e : Bytes) (h : packU64 secs = .ok e) :
    0 ≤ secs ∧ secs < 2 ^ 64 ∧ e = beN 8 secs.toNat := by
  obtain ⟨h0, h1, rfl⟩ := packInt_ok h
  refine ⟨h0, by omega, ?_⟩
  rw [emod_toNat_of_range secs 8 h0 (by omega)]

theorem timestamp_ref (legacy : Bool) (v : PyVal) (e : Bytes)
    (hv : (∃ m tz, v = .datetime m tz) ∨ (∃ s, v = .structTime s))
    (h : Encode.timestamp v = .ok e) :
    ∃ n, Spec.lower legacy v = some (.ts n) ∧ e = beN 8 n ∧ n < 2 ^ 64 := by
  rcases hv with ⟨m, tz, rfl⟩ | ⟨s, rfl⟩
  · cases tz with
    | none =>
      simp only [Encode.timestamp] at h
      simp only [Spec.lower, Spec.lowerInstant]
      obtain ⟨h0, h1, rfl⟩ := packU64_inv _ _ h
      exact ⟨_, by rw [if_pos ⟨h0, h1⟩], rfl, by omega⟩
    | some off =>
      simp only [Encode.timestamp] at h
      simp only [Spec.lower, Spec.lowerInstant]
      obtain ⟨h0, h1, rfl⟩ := packU64_inv _ _ h
      exact ⟨_, by rw [if_pos ⟨h0, h1⟩], rfl, by omega⟩
  · simp only [Encode.timestamp] at h
    obtain ⟨h0, h1, rfl⟩ := packU64_inv _ _ h
    exact ⟨_, by simp only [Spec.lower]; rw [if_pos ⟨h0, h1⟩], rfl, by omega⟩

/-! ## floats -/

theorem f32Narrow_lt (bits b : Nat) (h : f32Narrow bits = some b) : b < 2 ^ 32 := by
  unfold f32Narrow at h
  extract_lets s e f m shift q0 r half q base res at h
  have hs : s < 2 := Nat.mod_lt _ (by decide)
  have hf : f < 2 ^ 52 := Nat.mod_lt _ (by decide)
  split at h
  · split at h
    · cases h; omega
    · cases h
      have hf : f / 2 ^ 29 < 2 ^ 23 := by omega
      have := Nat.or_lt_two_pow (x := 0x400000) (n := 23) (by decide) hf
      omega
  · split at h
    · cases h; omega
    · split at h
      · cases h
      · cases h; omega

/-! ## insertion sort by key = merge sort by key (keys distinct) -/

theorem insertByKey_perm (e : Str × Spec.FV) (l : List (Str × Spec.FV)) :
    (Spec.insertByKey e l).Perm (e :: l) := by
  induction l with
  | nil => exact List.Perm.refl _
  | cons x xs ih =>
    simp only [Spec.insertByKey]
    split
    · exact List.Perm.refl _
    · exact (List.Perm.cons x ih).trans (List.Perm.swap e x xs)

theorem sortByKey_perm (l : List (Str × Spec.FV)) : (Spec.sortByKey l).Perm l := by
  induction l with
  | nil => exact List.Perm.refl _
  | cons e es ih =>
    simp only [Spec.sortByKey]
    exact (insertByKey_perm e _).trans (List.Perm.cons e ih)

theorem insertByKey_sorted (e : Str × Spec.FV) (l : List (Str × Spec.FV))
    (h : l.Pairwise (fun a b => strLe a.1 b.1 = true)) :
    (Spec.insertByKey e l).Pairwise (fun a b => strLe a.1 b.1 = true) := by
  induction l with
  | nil => simp [Spec.insertByKey]
  | cons x xs ih =>
    rw [List.pairwise_cons] at h
    simp only [Spec.insertByKey]
    split
    · rename_i hle
      rw [List.pairwise_cons]
      refine ⟨?_, List.pairwise_cons.mpr h⟩
      intro y hy
      rcases List.mem_cons.mp hy with rfl | hy'
      · exact hle
      · exact strLe_trans _ _ _ hle (h.1 y hy')
    · rename_i hle
      rw [List.pairwise_cons]
      refine ⟨?_, ih h.2⟩
      intro y hy
      have hy' := (insertByKey_perm e xs).mem_iff.mp hy
      rcases List.mem_cons.mp hy' with rfl | hy''
      · exact strLe_of_not_strLe _ _ (by simpa using hle)
      · exact h.1 y hy''

theorem sortByKey_sorted (l : List (Str × Spec.FV)) :
    (Spec.sortByKey l).Pairwise (fun a b => strLe a.1 b.1 = true) := by
  induction l with
  | nil => simp [Spec.sortByKey]
  | cons e es ih => simp only [Spec.sortByKey]; exact insertByKey_sorted e _ ih

theorem sortByKey_eq_mergeSort (l : List (Str × Spec.FV)) (hn : (l.map (·.1)).Nodup) :
    Spec.sortByKey l = List.mergeSort l keyLe := by
  have p1 := sortByKey_perm l
  have p2 := List.mergeSort_perm l (keyLe (β := Spec.FV))
  refine eq_of_perm_of_sorted _ _ (p1.trans p2.symm) ?_ (sortByKey_sorted l) (sorted_mergeSort_keyLe l)
  exact ((p1.map (·.1)).nodup_iff).mpr hn

/-! ## table entries -/

/-- what the dict encoder is given for an already lowered entry -/
def encE (e : Str × Spec.FV) : Str × R Bytes := (e.1, .ok e.2.wire)

theorem mergeSort_encE (l : List (Str × Spec.FV)) :
    List.mergeSort (l.map encE) Encode.entryLe = (List.mergeSort l keyLe).map encE :=
  (List.map_mergeSort (r := keyLe) (s := Encode.entryLe) (f := encE) (fun _ _ _ _ => rfl)).symm

theorem joinEntries_all_ok (es : List (Str × R Bytes)) (body : Bytes)
    (h : Encode.joinEntries es = .ok body) : ∀ e ∈ es, ∃ b, e.2 = .ok b := by
  induction es generalizing body with
  | nil => intro e he; cases he
  | cons x xs ih =>
    simp only [Encode.joinEntries] at h
    obtain ⟨a, ha, h⟩ := bind_ok h
    obtain ⟨b, hb, h⟩ := bind_ok h
    intro e he
    rcases List.mem_cons.mp he with rfl | he'
    · simp only [Encode.entryBytes] at ha
      obtain ⟨k, _, ha⟩ := bind_ok ha
      obtain ⟨v, hv, _⟩ := bind_ok ha
      exact ⟨v, hv⟩
    · exact ih b hb e he'

/-- joining sorted, lowered entries is the serialisation of their `namesOf` -/
theorem join_names (A : List UInt8) (s : List (Str × Spec.FV)) (body : Bytes)
    (h : Encode.joinEntries (s.map encE) = .ok body)
    (hwf : ∀ e ∈ s, e.2.WF ∧ e.2.IntTagsIn A) :
    ∃ l', Spec.namesOf s = some l' ∧ Spec.wireE l' = body ∧ Spec.WFE l' ∧ Spec.IntTagsInE A l' := by
  induction s generalizing body with
  | nil =>
    simp only [List.map_nil, Encode.joinEntries] at h
    cases h
    exact ⟨[], by simp only [Spec.namesOf], by simp only [Spec.wireE], by simp only [Spec.WFE],
      by simp only [Spec.IntTagsInE]⟩
  | cons x xs ih =>
    obtain ⟨k, v⟩ := x
    simp only [List.map_cons, Encode.joinEntries] at h
    obtain ⟨a, ha, h⟩ := bind_ok h
    obtain ⟨b, hb, h⟩ := bind_ok h
    cases h
    simp only [encE, Encode.entryBytes] at ha
    obtain ⟨ks, hks, ha⟩ := bind_ok ha
    obtain ⟨w, hw, ha⟩ := bind_ok ha
    cases hw; cases ha
    obtain ⟨kb, hkb, hlt, rfl⟩ := string_ok 1 _ _ hks
    obtain ⟨l', hl', rfl, hwfe, hint⟩ := ih b hb (fun e he => hwf e (List.mem_cons_of_mem _ he))
    have hv := hwf (k, v) List.mem_cons_self
    have hlt' : kb.length < 256 := by simpa using hlt
    refine ⟨(kb, v) :: l', ?_, ?_, ?_, ?_⟩
    · simp only [Spec.namesOf, hkb, hl', if_pos hlt']
    · simp only [Spec.wireE, beN_one _ hlt', List.cons_append, List.nil_append, List.append_assoc]
    · simp only [Spec.WFE]
      exact ⟨hlt', by rw [utf8Decode_encode _ _ hkb]; rfl, hv.1, hwfe⟩
    · simp only [Spec.IntTagsInE]
      exact ⟨hv.2, hint⟩

/-- with untruncated, encodable keys the names decode back to the keys; values stay sorted -/
theorem names_sorted (s : List (Str × Spec.FV)) (l' : List (Bytes × Spec.FV))
    (hn : Spec.namesOf s = some l') (hk : ∀ e ∈ s, Spec.keyOK e.1 ∧ e.2.Sorted) :
    l'.map (fun e => utf8Decode e.1) = s.map (fun e => some e.1) ∧ Spec.SortedE l' := by
  induction s generalizing l' with
  | nil =>
    simp only [Spec.namesOf] at hn; cases hn
    exact ⟨rfl, by simp only [Spec.SortedE]⟩
  | cons x xs ih =>
    obtain ⟨k, v⟩ := x
    obtain ⟨⟨hlen, _, _⟩, hvs⟩ := hk (k, v) List.mem_cons_self
    have htake : List.take 128 k = k := List.take_of_length_le hlen
    simp only [Spec.namesOf, htake] at hn
    cases hu : utf8Encode k with
    | none => rw [hu] at hn; cases hn
    | some kb =>
      cases hr : Spec.namesOf xs with
      | none => rw [hu, hr] at hn; cases hn
      | some rest =>
        rw [hu, hr] at hn
        simp only at hn
        split at hn
        · cases hn
          obtain ⟨h1, h2⟩ := ih rest hr (fun e he => hk e (List.mem_cons_of_mem _ he))
          refine ⟨?_, ?_⟩
          · simp only [List.map_cons, utf8Decode_encode k kb hu, h1]
          · simp only [Spec.SortedE]; exact ⟨hvs, h2⟩
        · cases hn

/-- the dict case, given the lowered entries in input order -/
theorem dict_ref (legacy : Bool) (A : List UInt8) (kvs : List (Str × PyVal)) (l : List (Str × Spec.FV))
    (bs : Bytes) (h : Encode.tableValue legacy (.dict kvs) = .ok bs)
    (hnd : (kvs.map (·.1)).Nodup)
    (hl : Spec.lowerE legacy kvs = some l) (he : Encode.entries legacy kvs = l.map encE)
    (hwf : ∀ e ∈ l, e.2.WF ∧ e.2.IntTagsIn A) :
    ∃ fv, Spec.lower legacy (.dict kvs) = some fv ∧ fv.wire = bs ∧ fv.WF ∧ fv.IntTagsIn A ∧
      ((∀ e ∈ l, Spec.keyOK e.1 ∧ e.2.Sorted) → fv.Sorted) := by
  simp only [Encode.tableValue] at h
  obtain ⟨body, hb, h⟩ := bind_ok h
  obtain ⟨t, ht, h⟩ := bind_ok h
  cases h
  obtain ⟨hlen, rfl⟩ := withLen_inv _ _ ht
  have hkeys : l.map (·.1) = kvs.map (·.1) := by
    rw [← entries_keys legacy kvs, he]; simp [encE]
  have hsort : Spec.sortByKey l = List.mergeSort l keyLe :=
    sortByKey_eq_mergeSort l (by rw [hkeys]; exact hnd)
  rw [he, mergeSort_encE, ← hsort] at hb
  have hwf' : ∀ e ∈ Spec.sortByKey l, e.2.WF ∧ e.2.IntTagsIn A :=
    fun e he' => hwf e ((sortByKey_perm l).mem_iff.mp he')
  obtain ⟨l', hn, rfl, hwfe, hint⟩ := join_names A _ body hb hwf'
  refine ⟨.tbl l', ?_, ?_, ?_, ?_, ?_⟩
  · simp only [Spec.lower, hl, Spec.tblOf, hn, if_pos hlen]
  · simp only [Spec.FV.wire]
  · simp only [Spec.FV.WF]; exact ⟨hwfe, hlen⟩
  · simp only [Spec.FV.IntTagsIn]; exact hint
  · intro hs
    obtain ⟨hmap, hse⟩ := names_sorted _ l' hn
      (fun e he' => hs e ((sortByKey_perm l).mem_iff.mp he'))
    simp only [Spec.FV.Sorted]
    refine ⟨?_, hse⟩
    rw [hmap, List.pairwise_map]
    exact (sortByKey_sorted l).imp (fun h => h)

/-! ## the induction over the nested value -/

mutual
theorem value_ref (legacy : Bool) (v : PyVal) (bs : Bytes)
    (h : Encode.tableValue legacy v = .ok bs) (hk : KeysDistinct v) :
    ∃ fv, Spec.lower legacy v = some fv ∧ fv.wire = bs ∧ fv.WF ∧
      fv.IntTagsIn (Spec.ladderTags legacy) ∧ (Spec.Encodable legacy v → fv.Sorted) := by
  match v, h, hk with
  | .none, h, _ =>
    simp only [Encode.tableValue] at h; cases h
    exact ⟨.void 86, by simp only [Spec.lower], by simp only [Spec.FV.wire],
      by simp [Spec.FV.WF], by simp only [Spec.FV.IntTagsIn], fun _ => by simp only [Spec.FV.Sorted]⟩
  | .bool b, h, _ =>
    simp only [Encode.tableValue] at h; cases h
    exact ⟨.bool b, by simp only [Spec.lower], by simp only [Spec.FV.wire],
      by simp only [Spec.FV.WF], by simp only [Spec.FV.IntTagsIn], fun _ => by simp only [Spec.FV.Sorted]⟩
  | .int i, h, _ =>
    simp only [Encode.tableValue] at h
    obtain ⟨fv, h1, h2, h3, h4, h5⟩ := int_ref legacy i bs h
    exact ⟨fv, by simp only [Spec.lower, h1], h2, h3, h4, fun _ => h5⟩
  | .float bits, h, _ =>
    simp only [Encode.tableValue] at h
    obtain ⟨b, hb, rfl⟩ := map_ok h
    simp only [Encode.floatingPoint] at hb
    cases hn : f32Narrow bits with
    | none => rw [hn] at hb; cases hb
    | some b32 =>
      rw [hn] at hb; cases hb
      exact ⟨.f32 b32, by simp only [Spec.lower, hn, Option.map], by simp only [Spec.FV.wire],
        by simp only [Spec.FV.WF]; exact f32Narrow_lt bits b32 hn, by simp only [Spec.FV.IntTagsIn],
        fun _ => by simp only [Spec.FV.Sorted]⟩
  | .decimal n c e, h, _ =>
    simp only [Encode.tableValue] at h
    obtain ⟨b, hb, rfl⟩ := map_ok h
    obtain ⟨fv, h1, h2, h3, h5, h4⟩ := decimal_ref n c e b hb
    exact ⟨fv, by simp only [Spec.lower, h1], h2, h3, h4 _, fun _ => h5⟩
  | .decimalSpecial k, h, _ =>
    simp only [Encode.tableValue, Encode.decimal] at h
    obtain ⟨b, hb, _⟩ := map_ok h
    cases hb
  | .str s, h, _ =>
    simp only [Encode.tableValue, Encode.longString] at h
    obtain ⟨b, hb, rfl⟩ := map_ok h
    obtain ⟨kb, hkb, hlt, rfl⟩ := string_ok 4 s b hb
    have hlt' : kb.length < 2 ^ 32 := by omega
    exact ⟨.lstr kb, by simp only [Spec.lower, hkb, if_pos hlt'], by simp only [Spec.FV.wire],
      by simp only [Spec.FV.WF]; exact hlt', by simp only [Spec.FV.IntTagsIn],
      fun _ => by simp only [Spec.FV.Sorted]⟩
  | .bytes _, h, _ => simp only [Encode.tableValue] at h; cases h
  | .other, h, _ => simp only [Encode.tableValue] at h; cases h
  | .bytearray b, h, _ =>
    simp only [Encode.tableValue] at h
    obtain ⟨o, ho, rfl⟩ := map_ok h
    obtain ⟨hlt, rfl⟩ := byteArray_inv b o ho
    exact ⟨.bin b, by simp only [Spec.lower, if_pos hlt], by simp only [Spec.FV.wire],
      by simp only [Spec.FV.WF]; exact hlt, by simp only [Spec.FV.IntTagsIn],
      fun _ => by simp only [Spec.FV.Sorted]⟩
  | .datetime m tz, h, _ =>
    simp only [Encode.tableValue] at h
    obtain ⟨o, ho, rfl⟩ := map_ok h
    obtain ⟨n, h1, rfl, hn⟩ := timestamp_ref legacy _ o (Or.inl ⟨m, tz, rfl⟩) ho
    exact ⟨.ts n, h1, by simp only [Spec.FV.wire], by simp only [Spec.FV.WF]; exact hn,
      by simp only [Spec.FV.IntTagsIn], fun _ => by simp only [Spec.FV.Sorted]⟩
  | .structTime s, h, _ =>
    simp only [Encode.tableValue] at h
    obtain ⟨o, ho, rfl⟩ := map_ok h
    obtain ⟨n, h1, rfl, hn⟩ := timestamp_ref legacy _ o (Or.inr ⟨s, rfl⟩) ho
    exact ⟨.ts n, h1, by simp only [Spec.FV.wire], by simp only [Spec.FV.WF]; exact hn,
      by simp only [Spec.FV.IntTagsIn], fun _ => by simp only [Spec.FV.Sorted]⟩
  | .list vs, h, hk =>
    simp only [Encode.tableValue] at h
    obtain ⟨body, hb, h⟩ := bind_ok h
    obtain ⟨t, ht, h⟩ := bind_ok h
    cases h
    obtain ⟨hlen, rfl⟩ := withLen_inv _ _ ht
    have hk' : KeysDistinctL vs := by simpa only [KeysDistinct] using hk
    obtain ⟨l, hl, rfl, hwf, hint, hs⟩ := items_ref legacy vs body hb hk'
    refine ⟨.arr l, by simp only [Spec.lower, hl, if_pos hlen], by simp only [Spec.FV.wire],
      by simp only [Spec.FV.WF]; exact ⟨hwf, hlen⟩, by simp only [Spec.FV.IntTagsIn]; exact hint, ?_⟩
    intro henc
    have henc' : Spec.EncodableList legacy vs ∧ Spec.wireSizeList legacy vs < 2 ^ 32 := by
      simpa only [Spec.Encodable] using henc
    simp only [Spec.FV.Sorted]; exact hs henc'.1
  | .dict kvs, h, hk =>
    have hk' : (kvs.map (·.1)).Nodup ∧ KeysDistinctE kvs := by simpa only [KeysDistinct] using hk
    have hall : ∀ e ∈ Encode.entries legacy kvs, ∃ b, e.2 = .ok b := by
      have h' := h
      simp only [Encode.tableValue] at h'
      obtain ⟨body, hb, _⟩ := bind_ok h'
      intro e he
      exact joinEntries_all_ok _ body hb e ((List.mergeSort_perm _ _).mem_iff.mpr he)
    obtain ⟨l, hl, he, hwf, hs⟩ := entries_ref legacy kvs hall hk'.2
    obtain ⟨fv, g1, g2, g3, g4, g5⟩ := dict_ref legacy _ kvs l bs h hk'.1 hl he hwf
    refine ⟨fv, g1, g2, g3, g4, ?_⟩
    intro henc
    have henc' : Spec.EncodableEntries legacy kvs ∧ (kvs.map (·.1)).Nodup ∧
        Spec.wireSizeEntries legacy kvs < 2 ^ 32 := by
      simpa only [Spec.Encodable] using henc
    exact g5 (hs henc'.1)
theorem items_ref (legacy : Bool) (vs : List PyVal) (bs : Bytes)
    (h : Encode.items legacy vs = .ok bs) (hk : KeysDistinctL vs) :
    ∃ l, Spec.lowerL legacy vs = some l ∧ Spec.wireL l = bs ∧ Spec.WFL l ∧
      Spec.IntTagsInL (Spec.ladderTags legacy) l ∧ (Spec.EncodableList legacy vs → Spec.SortedL l) := by
  match vs, h, hk with
  | [], h, _ =>
    simp only [Encode.items] at h; cases h
    exact ⟨[], by simp only [Spec.lowerL], by simp only [Spec.wireL], by simp only [Spec.WFL],
      by simp only [Spec.IntTagsInL], fun _ => by simp only [Spec.SortedL]⟩
  | x :: xs, h, hk =>
    simp only [Encode.items] at h
    obtain ⟨a, ha, h⟩ := bind_ok h
    obtain ⟨b, hb, h⟩ := bind_ok h
    cases h
    have hk' : KeysDistinct x ∧ KeysDistinctL xs := by simpa only [KeysDistinctL] using hk
    obtain ⟨fv, h1, rfl, h3, h4, h5⟩ := value_ref legacy x a ha hk'.1
    obtain ⟨l, g1, rfl, g3, g4, g5⟩ := items_ref legacy xs b hb hk'.2
    refine ⟨fv :: l, by simp only [Spec.lowerL, h1, g1], by simp only [Spec.wireL],
      by simp only [Spec.WFL]; exact ⟨h3, g3⟩, by simp only [Spec.IntTagsInL]; exact ⟨h4, g4⟩, ?_⟩
    intro henc
    have henc' : Spec.Encodable legacy x ∧ Spec.EncodableList legacy xs := by
      simpa only [Spec.EncodableList] using henc
    simp only [Spec.SortedL]; exact ⟨h5 henc'.1, g5 henc'.2⟩
theorem entries_ref (legacy : Bool) (kvs : List (Str × PyVal))
    (h : ∀ e ∈ Encode.entries legacy kvs, ∃ b, e.2 = .ok b) (hk : KeysDistinctE kvs) :
    ∃ l, Spec.lowerE legacy kvs = some l ∧ Encode.entries legacy kvs = l.map encE ∧
      (∀ e ∈ l, e.2.WF ∧ e.2.IntTagsIn (Spec.ladderTags legacy)) ∧
      (Spec.EncodableEntries legacy kvs → ∀ e ∈ l, Spec.keyOK e.1 ∧ e.2.Sorted) := by
  match kvs, h, hk with
  | [], _, _ =>
    exact ⟨[], by simp only [Spec.lowerE], by simp only [Encode.entries, List.map_nil],
      fun e he => (by cases he), fun _ e he => (by cases he)⟩
  | (k, x) :: es, h, hk =>
    have hk' : KeysDistinct x ∧ KeysDistinctE es := by simpa only [KeysDistinctE] using hk
    simp only [Encode.entries] at h
    obtain ⟨b, hb⟩ := h (k, Encode.tableValue legacy x) List.mem_cons_self
    have hb : Encode.tableValue legacy x = .ok b := hb
    obtain ⟨fv, h1, h2, h3, h4, h5⟩ := value_ref legacy x b hb hk'.1
    obtain ⟨l, g1, g2, g3, g5⟩ := entries_ref legacy es
      (fun e he => h e (List.mem_cons_of_mem _ he)) hk'.2
    refine ⟨(k, fv) :: l, by simp only [Spec.lowerE, h1, g1], ?_, ?_, ?_⟩
    · simp only [Encode.entries, List.map_cons, encE, g2, h2]
      rw [hb]
    · intro e he
      rcases List.mem_cons.mp he with rfl | he'
      · exact ⟨h3, h4⟩
      · exact g3 e he'
    · intro henc e he
      have henc' : Spec.keyOK k ∧ Spec.Encodable legacy x ∧ Spec.EncodableEntries legacy es := by
        simpa only [Spec.EncodableEntries] using henc
      rcases List.mem_cons.mp he with rfl | he'
      · exact ⟨henc'.1, h5 henc'.2.1⟩
      · exact g5 henc'.2.2 e he'
end

/-! ## `Encodable` implies distinct keys at every level -/

mutual
theorem keysDistinct_of_encodable (legacy : Bool) (v : PyVal) (h : Spec.Encodable legacy v) :
    KeysDistinct v := by
  match v, h with
  | .none, _ => simp only [KeysDistinct]
  | .bool _, _ => simp only [KeysDistinct]
  | .int _, _ => simp only [KeysDistinct]
  | .float _, _ => simp only [KeysDistinct]
  | .decimal _ _ _, _ => simp only [KeysDistinct]
  | .decimalSpecial _, _ => simp only [KeysDistinct]
  | .str _, _ => simp only [KeysDistinct]
  | .bytes _, _ => simp only [KeysDistinct]
  | .bytearray _, _ => simp only [KeysDistinct]
  | .datetime _ _, _ => simp only [KeysDistinct]
  | .structTime _, _ => simp only [KeysDistinct]
  | .other, _ => simp only [KeysDistinct]
  | .list vs, h =>
    have h' : Spec.EncodableList legacy vs ∧ Spec.wireSizeList legacy vs < 2 ^ 32 := by
      simpa only [Spec.Encodable] using h
    simp only [KeysDistinct]; exact keysDistinctL_of_encodable legacy vs h'.1
  | .dict kvs, h =>
    have h' : Spec.EncodableEntries legacy kvs ∧ (kvs.map (·.1)).Nodup ∧
        Spec.wireSizeEntries legacy kvs < 2 ^ 32 := by
      simpa only [Spec.Encodable] using h
    simp only [KeysDistinct]; exact ⟨h'.2.1, keysDistinctE_of_encodable legacy kvs h'.1⟩
theorem keysDistinctL_of_encodable (legacy : Bool) (vs : List PyVal)
    (h : Spec.EncodableList legacy vs) : KeysDistinctL vs := by
  match vs, h with
  | [], _ => simp only [KeysDistinctL]
  | x :: xs, h =>
    have h' : Spec.Encodable legacy x ∧ Spec.EncodableList legacy xs := by
      simpa only [Spec.EncodableList] using h
    simp only [KeysDistinctL]
    exact ⟨keysDistinct_of_encodable legacy x h'.1, keysDistinctL_of_encodable legacy xs h'.2⟩
theorem keysDistinctE_of_encodable (legacy : Bool) (kvs : List (Str × PyVal))
    (h : Spec.EncodableEntries legacy kvs) : KeysDistinctE kvs := by
  match kvs, h with
  | [], _ => simp only [KeysDistinctE]
  | (k, x) :: es, h =>
    have h' : Spec.keyOK k ∧ Spec.Encodable legacy x ∧ Spec.EncodableEntries legacy es := by
      simpa only [Spec.EncodableEntries] using h
    simp only [KeysDistinctE]
    exact ⟨keysDistinct_of_encodable legacy x h'.2.1, keysDistinctE_of_encodable legacy es h'.2.2⟩
end

end Pamqp.Proofs.Refine
