import Pamqp.Proofs.EnvelopeLemma
/-! # Further lemmas about the frame envelope: header peek, rejection of incomplete input,
inversion of a successful `unmarshal`, shape of `marshal` output -/
namespace Pamqp.Proofs
open Pamqp

/-! ## list / slice helpers -/

theorem slice_length_le (bs : Bytes) (a b : Nat) : (slice bs a b).length ≤ b - a := by
  simp [slice]; omega

theorem unbe_lt_of_length_le (bs : Bytes) (k : Nat) (h : bs.length ≤ k) : unbe bs < 256 ^ k :=
  Nat.lt_of_lt_of_le (unbe_lt bs) (Nat.pow_le_pow_right (by omega) h)

theorem take_take_append (bs rest : Bytes) (n k : Nat) (hk : k ≤ n) (hn : n ≤ bs.length) :
    (bs.take n ++ rest).take k = bs.take k := by
  rw [List.take_append_of_le_length (by simp; omega), List.take_take, Nat.min_eq_left hk]

theorem getElem?_take_append (bs rest : Bytes) (n k : Nat) (hk : k < n) (hn : n ≤ bs.length) :
    (bs.take n ++ rest)[k]? = bs[k]? := by
  rw [List.getElem?_append_left (by simp; omega), List.getElem?_take_of_lt hk]

theorem slice_take_append (bs rest : Bytes) (n a b : Nat) (hb : b ≤ n) (hn : n ≤ bs.length) :
    slice (bs.take n ++ rest) a b = slice bs a b := by
  apply List.ext_getElem?
  intro i
  simp only [slice, List.getElem?_take, List.getElem?_drop]
  split
  · rw [getElem?_take_append bs rest n (a + i) (by omega) hn]
  · rfl

/-! ## `frameParts` -/

theorem frameParts_short (bs : Bytes) (h : bs.length < 7) : Frame.frameParts bs = (0, 0, none) := by
  simp [Frame.frameParts, h]

theorem frameParts_long (bs : Bytes) (h : 7 ≤ bs.length) :
    Frame.frameParts bs = (unbe (slice bs 0 1), unbe (slice bs 1 3), some (unbe (slice bs 3 7))) := by
  have : ¬ bs.length < 7 := by omega
  simp [Frame.frameParts, this]

theorem frameParts_append (hd tail : Bytes) (h : hd.length = 7) :
    Frame.frameParts (hd ++ tail) =
      (unbe (hd.take 1), unbe ((hd.drop 1).take 2), some (unbe (hd.drop 3))) := by
  rw [frameParts_long _ (by simp; omega)]
  have e0 : slice (hd ++ tail) 0 1 = hd.take 1 := by
    simp [slice, List.take_append_of_le_length, h]
  have e1 : slice (hd ++ tail) 1 3 = (hd.drop 1).take 2 := by
    simp [slice, List.take_append_of_le_length, List.drop_append_of_le_length, h]
  have e3 : slice (hd ++ tail) 3 7 = hd.drop 3 := by
    simp [slice, List.drop_append_of_le_length, h]
  rw [e0, e1, e3]

theorem frameParts_ranges (bs : Bytes) (t ch sz : Nat) (h : Frame.frameParts bs = (t, ch, some sz)) :
    t < 256 ∧ ch < 65536 ∧ sz < 2 ^ 32 := by
  by_cases h7 : bs.length < 7
  · rw [frameParts_short bs h7] at h; cases h
  · rw [frameParts_long bs (by omega)] at h
    simp only [Prod.mk.injEq, Option.some.injEq] at h
    obtain ⟨rfl, rfl, rfl⟩ := h
    have a := unbe_lt_of_length_le _ 1 (slice_length_le bs 0 1)
    have b := unbe_lt_of_length_le _ 2 (slice_length_le bs 1 3)
    have c := unbe_lt_of_length_le _ 4 (slice_length_le bs 3 7)
    exact ⟨by omega, by omega, by omega⟩

theorem frameParts_hdr (t ch n : Nat) (ht : t < 256) (hc : ch < 65536) (hn : n < 2 ^ 32) (tail : Bytes) :
    Frame.frameParts (hdrBytes t ch n ++ tail) = (t, ch, some n) := by
  rw [frameParts_long _ (by simp), slice_hdr_type, slice_hdr_chan, slice_hdr_size, unbe_single,
    unbe_beN_of_lt _ _ (by omega), unbe_beN_of_lt _ _ (by omega)]
  simp [UInt8.toNat_ofNat']; omega

/-! ## the paths through `Frame.unmarshal` -/

theorem unmarshal_amqp (cat : Cat) (bs : Bytes) (h4 : bs.take 4 = Frame.amqp) :
    Frame.unmarshal cat bs =
      if bs.length < 8 then .error .unmarshaling
      else .ok (8, 0, .protocolHeader (.int (unbe (slice (slice bs 5 8) 0 1)))
        (.int (unbe (slice (slice bs 5 8) 1 2))) (.int (unbe (slice (slice bs 5 8) 2 3)))) := by
  simp only [Frame.unmarshal, if_pos h4]

theorem unmarshal_short (cat : Cat) (bs : Bytes) (h4 : bs.take 4 ≠ Frame.amqp) (h : bs.length < 7) :
    Frame.unmarshal cat bs = .error .unmarshaling := by
  simp only [Frame.unmarshal, if_neg h4, frameParts_short bs h]

theorem unmarshal_hb (cat : Cat) (bs : Bytes) (h4 : bs.take 4 ≠ Frame.amqp) (h7 : 7 ≤ bs.length)
    (ht : unbe (slice bs 0 1) = 8) (hs : unbe (slice bs 3 7) = 0) :
    Frame.unmarshal cat bs =
      if bs.length < 8 then .error .unmarshaling
      else if bs[7]? ≠ some Frame.frameEnd then .error .unmarshaling
      else .ok (8, unbe (slice bs 1 3), .heartbeat) := by
  simp only [Frame.unmarshal, if_neg h4, frameParts_long bs h7, ht, hs, and_self, if_true,
    List.head?_drop]

theorem unmarshal_reject (cat : Cat) (bs : Bytes) (h4 : bs.take 4 ≠ Frame.amqp) (h7 : 7 ≤ bs.length)
    (ht : unbe (slice bs 0 1) ≠ 8 ∨ unbe (slice bs 3 7) ≠ 0)
    (hs : (unbe (slice bs 3 7) = 0 ∧ unbe (slice bs 0 1) ≠ 3) ∨ bs.length < unbe (slice bs 3 7) + 8) :
    Frame.unmarshal cat bs = .error .unmarshaling := by
  simp only [Frame.unmarshal, if_neg h4, frameParts_long bs h7]
  generalize unbe (slice bs 3 7) = sz at *
  generalize unbe (slice bs 0 1) = ft at *
  have c1 : ¬ (ft = 8 ∧ sz = 0) := by omega
  rw [if_neg c1]
  by_cases hz : sz = 0 ∧ ft ≠ 3
  · rw [if_pos hz]
  · have c3 : 7 + sz + 1 > bs.length := by omega
    rw [if_neg hz, if_pos c3]

theorem unmarshal_badend (cat : Cat) (bs : Bytes) (h4 : bs.take 4 ≠ Frame.amqp) (h7 : 7 ≤ bs.length)
    (hs : unbe (slice bs 3 7) ≠ 0 ∨ unbe (slice bs 0 1) = 3)
    (he : bs[unbe (slice bs 3 7) + 7]? ≠ some Frame.frameEnd) :
    Frame.unmarshal cat bs = .error .unmarshaling := by
  simp only [Frame.unmarshal, if_neg h4, frameParts_long bs h7]
  generalize unbe (slice bs 3 7) = sz at *
  generalize unbe (slice bs 0 1) = ft at *
  have c1 : ¬ (ft = 8 ∧ sz = 0) := by omega
  have c2 : ¬ (sz = 0 ∧ ft ≠ 3) := by omega
  rw [if_neg c1, if_neg c2]
  split
  · rfl
  · have e1 : 7 + sz + 1 - 1 = sz + 7 := by omega
    rw [e1, List.head?_drop, if_pos he]

/-- every successful `unmarshal` took one of three paths; the general path (third disjunct) is taken
for a non-zero size and, since D12, also for size 0 when the type octet is 3 (the empty body frame) -/
theorem unmarshal_ok_cases (cat : Cat) (bs : Bytes) (n ch : Nat) (f : AnyFrame)
    (h : Frame.unmarshal cat bs = .ok (n, ch, f)) :
    (bs.take 4 = Frame.amqp ∧ 8 ≤ bs.length ∧ n = 8 ∧ ch = 0 ∧
      f = .protocolHeader (.int (unbe (slice (slice bs 5 8) 0 1)))
        (.int (unbe (slice (slice bs 5 8) 1 2))) (.int (unbe (slice (slice bs 5 8) 2 3)))) ∨
    (bs.take 4 ≠ Frame.amqp ∧ 8 ≤ bs.length ∧ unbe (slice bs 0 1) = 8 ∧ unbe (slice bs 3 7) = 0 ∧
      bs[7]? = some Frame.frameEnd ∧ n = 8 ∧ ch = unbe (slice bs 1 3) ∧ f = .heartbeat) ∨
    (bs.take 4 ≠ Frame.amqp ∧ 7 ≤ bs.length ∧ (unbe (slice bs 3 7) ≠ 0 ∨ unbe (slice bs 0 1) = 3) ∧
      unbe (slice bs 3 7) + 8 ≤ bs.length ∧ bs[unbe (slice bs 3 7) + 7]? = some Frame.frameEnd ∧
      dispatch cat (unbe (slice bs 0 1)) (unbe (slice bs 1 3)) (unbe (slice bs 3 7))
        (slice bs 7 (unbe (slice bs 3 7) + 7)) = .ok (n, ch, f)) := by
  by_cases h4 : bs.take 4 = Frame.amqp
  · left
    rw [unmarshal_amqp cat bs h4] at h
    split at h
    · cases h
    · simp only [Except.ok.injEq, Prod.mk.injEq] at h
      exact ⟨h4, by omega, h.1.symm, h.2.1.symm, h.2.2.symm⟩
  · right
    by_cases h7 : bs.length < 7
    · rw [unmarshal_short cat bs h4 h7] at h; cases h
    · have h7' : 7 ≤ bs.length := by omega
      by_cases hs : unbe (slice bs 3 7) = 0 ∧ unbe (slice bs 0 1) ≠ 3
      · by_cases ht : unbe (slice bs 0 1) = 8
        · left
          rw [unmarshal_hb cat bs h4 h7' ht hs.1] at h
          split at h
          · cases h
          · split at h
            · cases h
            · rename_i h8 he
              simp only [Except.ok.injEq, Prod.mk.injEq] at h
              exact ⟨h4, by omega, ht, hs.1, Decidable.not_not.1 he, h.1.symm, h.2.1.symm, h.2.2.symm⟩
        · rw [unmarshal_reject cat bs h4 h7' (Or.inl ht) (Or.inl hs)] at h; cases h
      · right
        have hs' : unbe (slice bs 3 7) ≠ 0 ∨ unbe (slice bs 0 1) = 3 := by omega
        have ht' : unbe (slice bs 0 1) ≠ 8 ∨ unbe (slice bs 3 7) ≠ 0 := by omega
        by_cases hl : bs.length < unbe (slice bs 3 7) + 8
        · rw [unmarshal_reject cat bs h4 h7' ht' (Or.inr hl)] at h; cases h
        · by_cases he : bs[unbe (slice bs 3 7) + 7]? = some Frame.frameEnd
          · rw [unmarshal_general_or cat bs h4 h7' hs' (by omega) he] at h
            exact ⟨h4, h7', hs', by omega, he, h⟩
          · rw [unmarshal_badend cat bs h4 h7' hs' he] at h; cases h

/-! ## inversion of the type dispatch -/

theorem env_mapCaught_ok {α} {r : R α} {a : α} (h : Frame.mapCaught r = .ok a) : r = .ok a := by
  cases r with
  | ok x => simpa [Frame.mapCaught] using h
  | error e =>
    simp only [Frame.mapCaught] at h
    split at h <;> cases h

theorem methodUnmarshal_kind (cat : Cat) (fd : Bytes) (f : AnyFrame)
    (h : Frame.methodUnmarshal cat fd = .ok f) : ∃ spec vals, f = .method spec vals := by
  unfold Frame.methodUnmarshal at h
  cases h1 : Frame.mapCaught (unpackS 4 fd) with
  | error e => rw [h1] at h; cases h
  | ok idx =>
    rw [h1] at h
    simp only [bind, Except.bind] at h
    split at h
    · cases h
    · rename_i spec _
      cases h2 : Frame.mapCaught (Base.frameUnmarshal spec (fd.drop 4)) with
      | error e => rw [h2] at h; cases h
      | ok vals =>
        rw [h2] at h
        simp only [pure, Except.pure, Except.ok.injEq] at h
        exact ⟨spec, vals, h.symm⟩

theorem headerUnmarshal_kind (cat : Cat) (fd : Bytes) (f : AnyFrame)
    (h : Frame.headerUnmarshal cat fd = .ok f) : ∃ a b c p, f = .header a b c p := by
  unfold Frame.headerUnmarshal at h
  cases h1 : takeExact 12 fd with
  | error e => rw [h1] at h; cases h
  | ok hd =>
    rw [h1] at h
    simp only [bind, Except.bind] at h
    cases h2 : Frame.getFlags (fd.drop 12) 0 0 0 with
    | error e => rw [h2] at h; cases h
    | ok of =>
      obtain ⟨off, flags⟩ := of
      rw [h2] at h
      simp only at h
      cases h3 : Base.propsUnmarshal flags (fd.drop (12 + off)) (cat.props.zip (Frame.propDefaults cat)) with
      | error e => rw [h3] at h; cases h
      | ok props =>
        rw [h3] at h
        simp only [pure, Except.pure, Except.ok.injEq] at h
        exact ⟨_, _, _, _, h.symm⟩

theorem dispatch_ok (cat : Cat) (ft ch sz : Nat) (fd : Bytes) (n c : Nat) (f : AnyFrame)
    (h : dispatch cat ft ch sz fd = .ok (n, c, f)) :
    n = sz + 8 ∧ c = ch ∧ Spec.isProtocolHeader f = false ∧ Spec.kindOctet f = ft := by
  unfold dispatch at h
  split at h
  · cases h1 : Frame.methodUnmarshal cat fd with
    | error e => rw [h1] at h; cases h
    | ok g =>
      rw [h1] at h
      simp only [bind, Except.bind, pure, Except.pure, Except.ok.injEq, Prod.mk.injEq] at h
      obtain ⟨spec, vals, rfl⟩ := methodUnmarshal_kind cat fd g h1
      obtain ⟨rfl, rfl, rfl⟩ := h
      subst ft
      exact ⟨rfl, rfl, rfl, rfl⟩
  · split at h
    · cases h1 : Frame.mapCaught (Frame.headerUnmarshal cat fd) with
      | error e => rw [h1] at h; cases h
      | ok g =>
        rw [h1] at h
        simp only [bind, Except.bind, pure, Except.pure, Except.ok.injEq, Prod.mk.injEq] at h
        obtain ⟨a, b, c', p, rfl⟩ := headerUnmarshal_kind cat fd g (env_mapCaught_ok h1)
        obtain ⟨rfl, rfl, rfl⟩ := h
        subst ft
        exact ⟨rfl, rfl, rfl, rfl⟩
    · split at h
      · simp only [Except.ok.injEq, Prod.mk.injEq] at h
        obtain ⟨rfl, rfl, rfl⟩ := h
        subst ft
        exact ⟨rfl, rfl, rfl, rfl⟩
      · cases h

/-! ## the shape of `marshal` output -/

theorem envelope_shape (t : Nat) (ch : PyVal) (payload bs : Bytes)
    (h : Frame.envelope t ch payload = .ok bs) :
    ∃ c : Nat, ch.asInt? = some (c : Int) ∧ c < 65536 ∧ payload.length < 2 ^ 32 ∧
      bs = envBytes t c payload := by
  unfold Frame.envelope at h
  split at h
  · rename_i v hv
    cases h1 : packU16 v with
    | error e => rw [h1] at h; cases h
    | ok cb =>
      rw [h1] at h
      cases h2 : packU32 (payload.length : Int) with
      | error e => rw [h2] at h; cases h
      | ok lb =>
        rw [h2] at h
        simp only [bind, Except.bind, pure, Except.pure, Except.ok.injEq] at h
        obtain ⟨hlo, hhi, rfl⟩ := packInt_ok h1
        obtain ⟨_, hhi2, rfl⟩ := packInt_ok h2
        refine ⟨v.toNat, ?_, by omega, by omega, ?_⟩
        · rw [hv]; congr 1; omega
        · rw [← h, envBytes]
          have e1 : (v % ((256 ^ 2 : Nat) : Int)).toNat = v.toNat := by omega
          have e2 : ((payload.length : Int) % ((256 ^ 4 : Nat) : Int)).toNat = payload.length := by omega
          rw [e1, e2]
  · cases h

theorem protocolHeaderBytes_shape (a b c : PyVal) (bs : Bytes)
    (h : Frame.protocolHeaderBytes a b c = .ok bs) : bs.take 4 = Frame.amqp ∧ bs.length = 8 := by
  unfold Frame.protocolHeaderBytes at h
  split at h
  · rename_i x y z _ _ _
    cases h1 : packU8 x with
    | error e => rw [h1] at h; cases h
    | ok xb =>
      rw [h1] at h
      cases h2 : packU8 y with
      | error e => rw [h2] at h; cases h
      | ok yb =>
        rw [h2] at h
        cases h3 : packU8 z with
        | error e => rw [h3] at h; cases h
        | ok zb =>
          rw [h3] at h
          simp only [bind, Except.bind, pure, Except.pure, Except.ok.injEq] at h
          obtain ⟨_, _, rfl⟩ := packInt_ok h1
          obtain ⟨_, _, rfl⟩ := packInt_ok h2
          obtain ⟨_, _, rfl⟩ := packInt_ok h3
          subst h
          constructor
          · simp [Frame.amqp]
          · simp [Frame.amqp]
  · cases h

/-- what `Frame.marshal` can return -/
theorem marshal_shape (legacy : Bool) (cat : Cat) (f : AnyFrame) (ch : PyVal) (bs : Bytes)
    (h : Frame.marshal legacy cat f ch = .ok bs) :
    (Spec.isProtocolHeader f = true ∧ bs.take 4 = Frame.amqp ∧ bs.length = 8) ∨
    (f = .heartbeat ∧ bs = [8, 0, 0, 0, 0, 0, 0, Frame.frameEnd]) ∨
    (∃ (c : Nat) (payload : Bytes), Spec.isProtocolHeader f = false ∧ f ≠ .heartbeat ∧
      (Spec.kindOctet f = 1 ∨ Spec.kindOctet f = 2 ∨ Spec.kindOctet f = 3) ∧
      ch.asInt? = some (c : Int) ∧ c < 65536 ∧ payload.length < 2 ^ 32 ∧
      bs = envBytes (Spec.kindOctet f) c payload) := by
  cases f with
  | protocolHeader a b c =>
    left
    exact ⟨rfl, protocolHeaderBytes_shape a b c bs h⟩
  | method spec vals =>
    right; right
    simp only [Frame.marshal] at h
    cases h1 : packU32 spec.index with
    | error e => rw [h1] at h; cases h
    | ok idx =>
      rw [h1] at h
      cases h2 : Base.frameMarshal legacy spec vals with
      | error e => rw [h2] at h; cases h
      | ok args =>
        rw [h2] at h
        simp only [bind, Except.bind] at h
        obtain ⟨c, hc1, hc2, hl, rfl⟩ := envelope_shape _ _ _ _ h
        exact ⟨c, _, rfl, by simp, Or.inl rfl, hc1, hc2, hl, rfl⟩
  | header ci w bsz props =>
    right; right
    simp only [Frame.marshal] at h
    cases h1 : Frame.headerPayload legacy cat bsz props with
    | error e => rw [h1] at h; cases h
    | ok p =>
      rw [h1] at h
      simp only [bind, Except.bind] at h
      obtain ⟨c, hc1, hc2, hl, rfl⟩ := envelope_shape _ _ _ _ h
      exact ⟨c, _, rfl, by simp, Or.inr (Or.inl rfl), hc1, hc2, hl, rfl⟩
  | body v =>
    right; right
    simp only [Frame.marshal] at h
    split at h
    · obtain ⟨c, hc1, hc2, hl, rfl⟩ := envelope_shape _ _ _ _ h
      exact ⟨c, _, rfl, by simp, Or.inr (Or.inr rfl), hc1, hc2, hl, rfl⟩
    · obtain ⟨c, hc1, hc2, hl, rfl⟩ := envelope_shape _ _ _ _ h
      exact ⟨c, _, rfl, by simp, Or.inr (Or.inr rfl), hc1, hc2, hl, rfl⟩
    · cases h
  | heartbeat =>
    right; left
    simp only [Frame.marshal, Except.ok.injEq] at h
    exact ⟨rfl, h.symm⟩
  | notAFrame => simp [Frame.marshal] at h

/-! ## C20 / C18: peek and fixed-shape round trips -/

theorem envBytes_eq (t ch : Nat) (payload : Bytes) :
    envBytes t ch payload = hdrBytes t ch payload.length ++ (payload ++ [Frame.frameEnd]) := by
  have := envBytes_append t ch payload []
  simpa using this

theorem frameParts_peek_agrees (legacy : Bool) (cat : Cat) (f : AnyFrame) (ch : PyVal) (bs : Bytes)
    (hf : Spec.isProtocolHeader f = false) (h : Frame.marshal legacy cat f ch = .ok bs) :
    ∃ c : Nat, (f = .heartbeat ∨ ch.asInt? = some (c : Int)) ∧ (f = .heartbeat → c = 0) ∧
      Frame.frameParts bs = (Spec.kindOctet f, c, some (bs.length - 8)) ∧ 8 ≤ bs.length := by
  rcases marshal_shape legacy cat f ch bs h with ⟨hp, _⟩ | ⟨rfl, rfl⟩ | ⟨c, payload, _, hnb, hk, hc, hc2, hl, rfl⟩
  · rw [hf] at hp; cases hp
  · exact ⟨0, Or.inl rfl, fun _ => rfl, by decide, by decide⟩
  · refine ⟨c, Or.inr hc, fun e => absurd e hnb, ?_, by rw [envBytes_length]; omega⟩
    rw [envBytes_length, envBytes_eq, frameParts_hdr _ _ _ (by omega) hc2 hl]
    simp

theorem body_roundtrip (legacy : Bool) (cat : Cat) (b : Bytes) (hne : b ≠ []) (hl : b.length < 2 ^ 32)
    (ch : Nat) (hc : ch < 65536) (rest : Bytes) :
    ∃ bs, Frame.marshal legacy cat (.body (.bytes b)) (.int ch) = .ok bs ∧ bs.length = b.length + 8 ∧
      Frame.unmarshal cat (bs ++ rest) = .ok (b.length + 8, ch, .body (.bytes b)) := by
  refine ⟨envBytes 3 ch b, ?_, envBytes_length _ _ _, ?_⟩
  · simp only [Frame.marshal]; exact envelope_ok 3 ch hc b hl
  · rw [unmarshal_envelope cat 3 (by omega) ch hc b hne hl rest]; simp

/-- D12: the body round trip needs no `b ≠ []` -/
theorem body_roundtrip_any (legacy : Bool) (cat : Cat) (b : Bytes) (hl : b.length < 2 ^ 32)
    (ch : Nat) (hc : ch < 65536) (rest : Bytes) :
    ∃ bs, Frame.marshal legacy cat (.body (.bytes b)) (.int ch) = .ok bs ∧ bs.length = b.length + 8 ∧
      Frame.frameParts bs = (3, ch, some (bs.length - 8)) ∧
      Frame.unmarshal cat (bs ++ rest) = .ok (bs.length, ch, .body (.bytes b)) := by
  refine ⟨envBytes 3 ch b, ?_, envBytes_length _ _ _, ?_, ?_⟩
  · simp only [Frame.marshal]; exact envelope_ok 3 ch hc b hl
  · rw [envBytes_length, envBytes_eq, frameParts_hdr _ _ _ (by omega) hc hl]
    simp
  · rw [unmarshal_envelope_body cat ch hc b hl rest, envBytes_length]

theorem empty_body_roundtrip (legacy : Bool) (cat : Cat) (ch : Nat) (hc : ch < 65536) (rest : Bytes) :
    ∃ bs, Frame.marshal legacy cat (.body (.bytes [])) (.int ch) = .ok bs ∧ bs.length = 8 ∧
      Frame.unmarshal cat (bs ++ rest) = .ok (8, ch, .body (.bytes [])) := by
  obtain ⟨bs, hm, hlen, _, hu⟩ := body_roundtrip_any legacy cat [] (by simp) ch hc rest
  refine ⟨bs, hm, by simpa using hlen, ?_⟩
  rw [hu, hlen]; rfl

theorem heartbeat_roundtrip (legacy : Bool) (cat : Cat) (ch : PyVal) (rest : Bytes) :
    Frame.marshal legacy cat .heartbeat ch = .ok [8, 0, 0, 0, 0, 0, 0, 0xCE] ∧
    Frame.unmarshal cat ([8, 0, 0, 0, 0, 0, 0, 0xCE] ++ rest) = .ok (8, 0, .heartbeat) := by
  refine ⟨rfl, ?_⟩
  rw [unmarshal_hb cat _ (by simp [Frame.amqp]) (by simp) (by simp [slice, unbe]) (by simp [slice, unbe])]
  simp [slice, unbe, Frame.frameEnd]

theorem env_beN_one (a : Nat) (ha : a < 256) : beN 1 a = [UInt8.ofNat a] := by
  simp [beN, Nat.mod_eq_of_lt ha]

theorem protocol_header_roundtrip (legacy : Bool) (cat : Cat) (a b c : Nat) (ha : a < 256) (hb : b < 256)
    (hc : c < 256) (ch : PyVal) (rest : Bytes) :
    Frame.marshal legacy cat (.protocolHeader (.int a) (.int b) (.int c)) ch =
      .ok (Frame.amqp ++ [0, UInt8.ofNat a, UInt8.ofNat b, UInt8.ofNat c]) ∧
    Frame.unmarshal cat (Frame.amqp ++ [0, UInt8.ofNat a, UInt8.ofNat b, UInt8.ofNat c] ++ rest) =
      .ok (8, 0, .protocolHeader (.int a) (.int b) (.int c)) := by
  constructor
  · have h1 : packU8 (a : Int) = .ok [UInt8.ofNat a] := by
      rw [← env_beN_one a ha]; exact packInt_nat 1 255 a (by omega) (by omega)
    have h2 : packU8 (b : Int) = .ok [UInt8.ofNat b] := by
      rw [← env_beN_one b hb]; exact packInt_nat 1 255 b (by omega) (by omega)
    have h3 : packU8 (c : Int) = .ok [UInt8.ofNat c] := by
      rw [← env_beN_one c hc]; exact packInt_nat 1 255 c (by omega) (by omega)
    simp only [Frame.marshal, Frame.protocolHeaderBytes, PyVal.asInt?, h1, h2, h3, bind, Except.bind,
      pure, Except.pure]
    simp
  · rw [unmarshal_amqp cat _ (by simp [Frame.amqp])]
    have ea : (UInt8.ofNat a).toNat = a := by simp [UInt8.toNat_ofNat']; omega
    have eb : (UInt8.ofNat b).toNat = b := by simp [UInt8.toNat_ofNat']; omega
    have ec : (UInt8.ofNat c).toNat = c := by simp [UInt8.toNat_ofNat']; omega
    simp [Frame.amqp, slice, unbe, ea, eb, ec]

/-! ## C07: strict prefixes are rejected -/

theorem take4_of_short (l : Bytes) (h : l.length < 4) : l.take 4 ≠ Frame.amqp := by
  intro e
  have := congrArg List.length e
  simp [Frame.amqp] at this
  omega

theorem take4_take_cons_ne (x : UInt8) (xs : Bytes) (hx : x ≠ 65) (k : Nat) :
    ((x :: xs).take k).take 4 ≠ Frame.amqp := by
  cases k with
  | zero => simp [Frame.amqp]
  | succ k =>
    simp only [List.take_succ_cons, Frame.amqp, ne_eq, List.cons.injEq, not_and]
    intro h; exact absurd h hx

theorem heartbeat_prefix (cat : Cat) (k : Nat) (hk : k < 8) :
    Frame.unmarshal cat (([8, 0, 0, 0, 0, 0, 0, Frame.frameEnd] : Bytes).take k) = .error .unmarshaling := by
  by_cases h7 : k < 7
  · exact unmarshal_short cat _ (take4_take_cons_ne 8 _ (by decide) k) (by simp; omega)
  · have : k = 7 := by omega
    subst this
    rw [unmarshal_hb cat _ (by decide) (by decide) (by decide) (by decide)]
    simp

/-- strict prefixes of encoder output. For the 8-byte empty body frame (D12) and k = 7 the size is 0 and
the type is 3, so the size-0 rule no longer applies: the decoder goes on to `byteCount = 8 > 7`
('Not all data received'), which is the `bs.length < size + 8` alternative of `unmarshal_reject` -/
theorem unmarshal_prefix_rejected (legacy : Bool) (cat : Cat) (f : AnyFrame) (ch : PyVal) (bs : Bytes)
    (h : Frame.marshal legacy cat f ch = .ok bs) (k : Nat) (hk : k < bs.length) :
    Frame.unmarshal cat (bs.take k) = .error .unmarshaling := by
  rcases marshal_shape legacy cat f ch bs h with ⟨_, h4, h8⟩ | ⟨rfl, rfl⟩ | ⟨c, payload, _, _, hkind, _, hc2, hl, rfl⟩
  · by_cases hk4 : k < 4
    · exact unmarshal_short cat _ (take4_of_short _ (by simp; omega)) (by simp; omega)
    · have e : (bs.take k).take 4 = Frame.amqp := by
        rw [List.take_take, Nat.min_eq_left (by omega)]; exact h4
      rw [unmarshal_amqp cat _ e, if_pos (by simp; omega)]
  · exact heartbeat_prefix cat k (by simpa using hk)
  · rw [envBytes_length] at hk
    generalize Spec.kindOctet f = t at *
    have ht65 : UInt8.ofNat t ≠ 65 := by
      rcases hkind with rfl | rfl | rfl <;> decide
    by_cases h7 : k < 7
    · exact unmarshal_short cat _ (by rw [envBytes]; exact take4_take_cons_ne _ _ ht65 k) (by simp; omega)
    · have e : (envBytes t c payload).take k =
          hdrBytes t c payload.length ++ (payload ++ [Frame.frameEnd]).take (k - 7) := by
        rw [envBytes_eq, List.take_append, List.take_of_length_le (by simp; omega), hdrBytes_length]
      rw [e]
      have hlen : (hdrBytes t c payload.length ++ (payload ++ [Frame.frameEnd]).take (k - 7)).length = k := by
        simp; omega
      have hs : unbe (slice (hdrBytes t c payload.length ++ (payload ++ [Frame.frameEnd]).take (k - 7)) 3 7)
          = payload.length := by
        rw [slice_hdr_size, unbe_beN_of_lt _ _ (by omega)]
      have ht : unbe (slice (hdrBytes t c payload.length ++ (payload ++ [Frame.frameEnd]).take (k - 7)) 0 1)
          = t := by
        rw [slice_hdr_type, unbe_single]; simp [UInt8.toNat_ofNat']; omega
      apply unmarshal_reject cat _ (take4_hdr_ne _ _ _ (by omega) _) (by omega)
      · left; rw [ht]; omega
      · rw [hs, hlen]; omega

/-! ## C06: the consumed prefix determines the result -/

theorem unmarshal_prefix_determines (cat : Cat) (bs : Bytes) (n ch : Nat) (f : AnyFrame)
    (h : Frame.unmarshal cat bs = .ok (n, ch, f)) :
    n ≤ bs.length ∧ ∀ rest, Frame.unmarshal cat (bs.take n ++ rest) = .ok (n, ch, f) := by
  rcases unmarshal_ok_cases cat bs n ch f h with
    ⟨h4, h8, rfl, rfl, rfl⟩ | ⟨h4, h8, ht, hs, he, rfl, rfl, rfl⟩ | ⟨h4, h7, hs, hl, he, hd⟩
  · refine ⟨h8, fun rest => ?_⟩
    rw [unmarshal_amqp cat _ (by rw [take_take_append bs rest 8 4 (by omega) h8]; exact h4),
      if_neg (by simp; omega), slice_take_append bs rest 8 5 8 (by omega) h8]
  · refine ⟨h8, fun rest => ?_⟩
    rw [unmarshal_hb cat _ (by rw [take_take_append bs rest 8 4 (by omega) h8]; exact h4) (by simp; omega)
      (by rw [slice_take_append bs rest 8 0 1 (by omega) h8]; exact ht)
      (by rw [slice_take_append bs rest 8 3 7 (by omega) h8]; exact hs),
      if_neg (by simp; omega), getElem?_take_append bs rest 8 7 (by omega) h8,
      if_neg (by simp [he]), slice_take_append bs rest 8 1 3 (by omega) h8]
  · obtain ⟨rfl, _, _, _⟩ := dispatch_ok _ _ _ _ _ _ _ _ hd
    refine ⟨hl, fun rest => ?_⟩
    generalize hsz : unbe (slice bs 3 7) = sz at *
    have e0 := slice_take_append bs rest (sz + 8) 0 1 (by omega) hl
    have e1 := slice_take_append bs rest (sz + 8) 1 3 (by omega) hl
    have e3 := slice_take_append bs rest (sz + 8) 3 7 (by omega) hl
    have e7 := slice_take_append bs rest (sz + 8) 7 (sz + 7) (by omega) hl
    rw [unmarshal_general_or cat _ (by rw [take_take_append bs rest _ 4 (by omega) hl]; exact h4)
      (by simp; omega) (by rw [e3, e0, hsz]; exact hs) (by rw [e3, hsz]; simp; omega)
      (by rw [e3, hsz, getElem?_take_append bs rest _ _ (by omega) hl]; exact he),
      e0, e1, e3, hsz, e7]
    exact hd

theorem unmarshal_ok_envelope (cat : Cat) (bs : Bytes) (n ch : Nat) (f : AnyFrame)
    (h : Frame.unmarshal cat bs = .ok (n, ch, f)) :
    (Spec.isProtocolHeader f = true ∧ bs.take 4 = Frame.amqp ∧ n = 8 ∧ ch = 0 ∧ 8 ≤ bs.length) ∨
    (Spec.isProtocolHeader f = false ∧ 7 ≤ bs.length ∧
      Spec.kindOctet f = unbe (slice bs 0 1) ∧ ch = unbe (slice bs 1 3) ∧
      n = unbe (slice bs 3 7) + 8 ∧ n ≤ bs.length ∧ (bs.drop (n - 1)).head? = some Frame.frameEnd) := by
  rcases unmarshal_ok_cases cat bs n ch f h with
    ⟨h4, h8, rfl, rfl, rfl⟩ | ⟨h4, h8, ht, hs, he, rfl, rfl, rfl⟩ | ⟨h4, h7, hs, hl, he, hd⟩
  · left; exact ⟨rfl, h4, rfl, rfl, h8⟩
  · right
    refine ⟨rfl, by omega, ht.symm, rfl, by omega, h8, ?_⟩
    rw [List.head?_drop]; exact he
  · right
    obtain ⟨rfl, rfl, hp, hk⟩ := dispatch_ok _ _ _ _ _ _ _ _ hd
    refine ⟨hp, h7, hk, rfl, rfl, hl, ?_⟩
    rw [List.head?_drop]; exact he

theorem decodeAll_step (cat : Cat) (a tail : Bytes) (ch : Nat) (fr : AnyFrame) (f : Nat)
    (r : List (Nat × AnyFrame)) (hne : a ≠ [])
    (hu : Frame.unmarshal cat (a ++ tail) = .ok (a.length, ch, fr))
    (hr : Spec.decodeAll cat f tail = some r) :
    Spec.decodeAll cat (f + 1) (a ++ tail) = some ((ch, fr) :: r) := by
  cases a with
  | nil => exact absurd rfl hne
  | cons x xs =>
    have hd : ((x :: xs) ++ tail).drop (x :: xs).length = tail := by simp
    rw [List.cons_append] at hu hd ⊢
    rw [Spec.decodeAll, hu]
    simp only [List.length_cons, Nat.add_one_ne_zero, if_false]
    · rw [List.length_cons] at hd
      rw [hd, hr]
    · intro h; cases h

theorem decodeAll_stream (cat : Cat) (frames : List (Bytes × Nat × AnyFrame))
    (h : ∀ e ∈ frames, e.1 ≠ [] ∧ ∀ rest, Frame.unmarshal cat (e.1 ++ rest) = .ok (e.1.length, e.2.1, e.2.2))
    (fuel : Nat) (hf : frames.length < fuel) :
    Spec.decodeAll cat fuel (frames.flatMap (·.1)) = some (frames.map (·.2)) := by
  induction frames generalizing fuel with
  | nil => cases fuel <;> simp [Spec.decodeAll]
  | cons e fs ih =>
    obtain ⟨hne, hu⟩ := h e (by simp)
    cases fuel with
    | zero => simp at hf
    | succ fuel =>
      have ih' := ih (fun e he => h e (by simp [he])) fuel (by simpa using hf)
      simp only [List.flatMap_cons, List.map_cons]
      exact decodeAll_step cat e.1 _ e.2.1 e.2.2 fuel _ hne (hu _) ih'

end Pamqp.Proofs
