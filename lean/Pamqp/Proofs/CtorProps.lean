import Pamqp.Model.Api
import Pamqp.Proofs.Validate
import Pamqp.Proofs.Ctor
import Pamqp.Proofs.Mapping
/-! # `Basic.Properties(v1, ..., v14)` (C13) and iteration over a constructed method object (C19) -/
namespace Pamqp.Proofs.CtorProps
open Pamqp

theorem constructProps_of_ok (cat : Cat) (rules : List Rule) (given : List PyVal)
    (h : Base.validate (cat.props.map (·.name)) given rules = .ok ()) :
    Api.constructProps cat rules given = .ok given := by
  unfold Api.constructProps
  simp only [bind, Except.bind, pure, Except.pure]
  rw [h]

theorem constructProps_of_err (cat : Cat) (rules : List Rule) (given : List PyVal) (e : PyErr)
    (h : Base.validate (cat.props.map (·.name)) given rules = .error e) :
    Api.constructProps cat rules given = .error e := by
  unfold Api.constructProps
  simp only [bind, Except.bind]
  rw [h]

/-- generic form: whatever characterises ValueError of `validate` on the given values
characterises ValueError of the `Basic.Properties` constructor -/
theorem constructProps_iff (cat : Cat) (rules : List Rule) (given : List PyVal) (B : Prop)
    (hval : (Base.validate (cat.props.map (·.name)) given rules = .error .valueError ↔ B) ∧
      (Base.validate (cat.props.map (·.name)) given rules = .ok () ∨
        Base.validate (cat.props.map (·.name)) given rules = .error .valueError)) :
    (Api.constructProps cat rules given = .error .valueError ↔ B) ∧
    (Api.constructProps cat rules given = .error .valueError ∨
      Api.constructProps cat rules given = .ok given) := by
  obtain ⟨hiff, hor⟩ := hval
  rcases hor with hok | herr
  · have hc := constructProps_of_ok cat rules given hok
    rw [hc]
    refine ⟨⟨fun h => (by cases h), fun hb => ?_⟩, Or.inr rfl⟩
    have := hiff.2 hb
    rw [hok] at this
    exact absurd this Validate.ok_ne_err
  · have hc := constructProps_of_err cat rules given _ herr
    rw [hc]
    exact ⟨⟨fun _ => hiff.1 herr, fun _ => rfl⟩, Or.inl rfl⟩

/-- a successful constructor stores exactly the normalised given values -/
theorem constructWith_ok_eq (spec : MethodSpec) (given vals : List PyVal)
    (h : Api.constructWith spec given = .ok vals) : vals = Ctor.stored spec given := by
  unfold Api.constructWith at h
  cases hv : spec.ctorValidates
  · simp only [hv, Bool.false_eq_true, if_false, pure, Except.pure] at h
    exact (Except.ok.inj h).symm
  · simp only [hv, if_true, bind, Except.bind, pure, Except.pure] at h
    cases hval : Base.validate spec.slots
        ((spec.args.zip given).map (fun p => Api.normGiven p.1 p.2)) spec.rules with
    | error e => rw [hval] at h; cases h
    | ok u => rw [hval] at h; exact (Except.ok.inj h).symm

theorem stored_length (spec : MethodSpec) (given : List PyVal)
    (hl : given.length = spec.args.length) :
    (Ctor.stored spec given).length = spec.args.length := by
  simp only [List.length_map, List.length_zip]
  omega

theorem constructed_iter (spec : MethodSpec) (given vals : List PyVal)
    (hl : given.length = spec.args.length)
    (hs : spec.slots = spec.args.map (·.name)) (h : Api.constructWith spec given = .ok vals) :
    (Base.iter spec.slots vals).map (·.1) = spec.slots ∧
    (Base.iter spec.slots vals).map (·.2) = vals ∧
    vals = (spec.args.zip given).map (fun p => Api.normGiven p.1 p.2) := by
  have hv := constructWith_ok_eq spec given vals h
  have hlen : vals.length = spec.slots.length := by
    rw [hv, stored_length spec given hl, hs, List.length_map]
  exact ⟨Mapping.iter_fst _ _ hlen, Mapping.iter_snd _ _ hlen, hv⟩

end Pamqp.Proofs.CtorProps
